(* Slot and alignment arithmetic: the literal Python expressions of
   xobjects/context.py:_align and xobjects/typeutils.py:_to_slot_size *)
From Coq Require Import ZArith List Bool Lia.
Open Scope Z_scope.

(* (offset + alignment - 1) & (-alignment) *)
Definition align_up (o a : Z) : Z := Z.land (o + a - 1) (- a).
(* (size + 7) & (-8) *)
Definition slot (n : Z) : Z := Z.land (n + 7) (-8).
(* _is_aligned / _get_position helpers would go here *)

Lemma align_up_pow2 k off : 0 <= k -> align_up off (2^k) = ((off + 2^k - 1) / 2^k) * 2^k.
Proof.
  intros Hk. unfold align_up.
  replace (- 2^k) with (Z.lnot (Z.ones k)).
  2:{ rewrite Z.ones_equiv. unfold Z.lnot. lia. }
  rewrite <- Z.ldiff_land. rewrite Z.ldiff_ones_r by lia.
  rewrite Z.shiftl_mul_pow2, Z.shiftr_div_pow2 by lia. reflexivity.
Qed.

Lemma align_up_spec k off : 0 <= k ->
  off <= align_up off (2^k) < off + 2^k /\ (align_up off (2^k)) mod 2^k = 0.
Proof.
  intros Hk. rewrite align_up_pow2 by exact Hk.
  assert (Hp : 0 < 2^k) by (apply Z.pow_pos_nonneg; lia).
  pose proof (Z.div_mod (off + 2^k - 1) (2^k) ltac:(lia)) as Hdm.
  pose proof (Z.mod_pos_bound (off + 2^k - 1) (2^k) Hp) as Hb.
  split; [nia|]. apply Z.mod_mul. lia.
Qed.

(* align_up is the least multiple of 2^k that is >= off *)
Lemma align_up_least k off m : 0 <= k -> off <= m -> m mod 2^k = 0 -> align_up off (2^k) <= m.
Proof.
  intros Hk Hm Hmod. rewrite align_up_pow2 by exact Hk.
  assert (Hp : 0 < 2^k) by (apply Z.pow_pos_nonneg; lia).
  apply Z.mod_divide in Hmod; [|lia]. destruct Hmod as [q ->].
  assert ((off + 2^k - 1) / 2^k < q + 1); [|nia].
  apply Z.div_lt_upper_bound; [lia|]. nia.
Qed.

Lemma align_up_fix k off : 0 <= k -> off mod 2^k = 0 -> align_up off (2^k) = off.
Proof.
  intros Hk Hmod. pose proof (align_up_spec k off Hk) as [[H1 H2] H3].
  pose proof (align_up_least k off off Hk ltac:(lia) Hmod). lia.
Qed.

Lemma slot_is_align n : slot n = align_up n 8.
Proof. unfold slot, align_up. f_equal. lia. Qed.

Lemma slot_spec n : n <= slot n < n + 8 /\ slot n mod 8 = 0.
Proof. rewrite slot_is_align. change 8 with (2^3). apply align_up_spec. lia. Qed.

Lemma slot_div n : slot n = 8 * ((n + 7) / 8).
Proof. rewrite slot_is_align. change (align_up n 8) with (align_up n (2^3)). rewrite align_up_pow2 by lia. change (2^3) with 8. replace (n + 8 - 1) with (n + 7) by lia. lia. Qed.
