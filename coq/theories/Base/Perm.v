(* Axis permutations: gather / ungather, memory position <-> logical index bijection. *)
From Coq Require Import ZArith List Bool Lia Permutation.
Import ListNotations.
From XO Require Import Strides.
Open Scope Z_scope.

Definition ungather (m : list Z) (order : list nat) : list Z :=
  map (fun i => nth (index_of i order) m 0) (seq 0 (length order)).

Definition is_perm (order : list nat) : Prop := Permutation order (seq 0 (length order)).

Lemma is_perm_NoDup order : is_perm order -> NoDup order.
Proof. intros H. eapply Permutation_NoDup; [symmetry; exact H|apply seq_NoDup]. Qed.
Lemma is_perm_lt order k : is_perm order -> In k order -> (k < length order)%nat.
Proof. intros H Hk. apply (Permutation_in _ H) in Hk. apply in_seq in Hk. lia. Qed.
Lemma is_perm_In order k : is_perm order -> (k < length order)%nat -> In k order.
Proof. intros H Hk. apply (Permutation_in _ (Permutation_sym H)). apply in_seq. lia. Qed.

Lemma index_of_lt : forall order i, In i order -> (index_of i order < length order)%nat.
Proof.
  induction order as [|x tl IH]; intros i H; [destruct H|]. cbn [index_of length].
  destruct (Nat.eqb x i) eqn:E; [lia|]. destruct H as [->|H]; [rewrite Nat.eqb_refl in E; discriminate|].
  specialize (IH _ H). lia.
Qed.
Lemma nth_index_of : forall order i, In i order -> nth (index_of i order) order O = i.
Proof.
  induction order as [|x tl IH]; intros i H; [destruct H|]. cbn [index_of].
  destruct (Nat.eqb x i) eqn:E; [apply Nat.eqb_eq in E; exact E|].
  destruct H as [->|H]; [rewrite Nat.eqb_refl in E; discriminate|]. cbn [nth]. apply IH. exact H.
Qed.

Lemma gather_length {A} (d : A) l order : length (gather d l order) = length order.
Proof. unfold gather. apply map_length. Qed.
Lemma nth_gather (l : list Z) order k : (k < length order)%nat -> nth k (gather 0 l order) 0 = nth (nth k order O) l 0.
Proof.
  intros H. unfold gather. rewrite (nth_indep _ 0 ((fun j => nth j l 0) O)) by (rewrite map_length; exact H).
  rewrite (map_nth (fun j => nth j l 0)). reflexivity.
Qed.
Lemma ungather_length m order : length (ungather m order) = length order.
Proof. unfold ungather. rewrite map_length, seq_length. reflexivity. Qed.
Lemma nth_ungather m order i : (i < length order)%nat -> nth i (ungather m order) 0 = nth (index_of i order) m 0.
Proof.
  intros H. unfold ungather. set (f := fun i => nth (index_of i order) m 0).
  rewrite (nth_indep _ 0 (f O)) by (rewrite map_length, seq_length; exact H).
  rewrite (map_nth f). rewrite seq_nth by exact H. reflexivity.
Qed.

Lemma list_ext_nth : forall (a b : list Z), length a = length b -> (forall i, (i < length a)%nat -> nth i a 0 = nth i b 0) -> a = b.
Proof.
  induction a as [|x a IH]; intros [|y b] Hl H; cbn in Hl; try discriminate; [reflexivity|].
  f_equal; [exact (H O ltac:(cbn; lia))|]. apply IH; [lia|]. intros i Hi. exact (H (S i) ltac:(cbn; lia)).
Qed.

Theorem gather_ungather m order : is_perm order -> length m = length order -> gather 0 (ungather m order) order = m.
Proof.
  intros Hp Hl. apply list_ext_nth; [rewrite gather_length; lia|]. intros k Hk. rewrite gather_length in Hk.
  rewrite nth_gather by exact Hk.
  assert (Hin : In (nth k order O) order) by (apply nth_In; exact Hk).
  rewrite nth_ungather by (apply is_perm_lt; assumption).
  rewrite index_of_nth by (try apply is_perm_NoDup; assumption). reflexivity.
Qed.
Theorem ungather_gather idx order : is_perm order -> length idx = length order -> ungather (gather 0 idx order) order = idx.
Proof.
  intros Hp Hl. apply list_ext_nth; [rewrite ungather_length; lia|]. intros i Hi. rewrite ungather_length in Hi.
  rewrite nth_ungather by exact Hi.
  assert (Hin : In i order) by (apply is_perm_In; assumption).
  rewrite nth_gather by (apply index_of_lt; exact Hin). rewrite nth_index_of by exact Hin. reflexivity.
Qed.

(* index ranges through nth *)
Lemma in_range_nth : forall sh idx, in_range sh idx <-> length idx = length sh /\ forall i, (i < length sh)%nat -> 0 <= nth i idx 0 < nth i sh 0.
Proof.
  induction sh as [|d tl IH]; intros idx; destruct idx as [|x r]; cbn [in_range length].
  - split; [intros _; split; [reflexivity|intros i Hi; lia]|auto].
  - split; [intros []|intros [H _]; discriminate].
  - split; [intros []|intros [H _]; discriminate].
  - split.
    + intros [Hx Hr]. apply IH in Hr. destruct Hr as [Hl Hn]. split; [lia|]. intros i Hi. destruct i as [|i]; cbn [nth]; [exact Hx|apply Hn; lia].
    + intros [Hl Hn]. split; [exact (Hn O ltac:(lia))|]. apply IH. split; [lia|]. intros i Hi. exact (Hn (S i) ltac:(lia)).
Qed.
Lemma pos_shape_nth sh : pos_shape sh <-> forall i, (i < length sh)%nat -> 0 < nth i sh 0.
Proof.
  unfold pos_shape. rewrite Forall_forall. split.
  - intros H i Hi. apply H. apply nth_In. exact Hi.
  - intros H d Hd. destruct (In_nth _ _ 0 Hd) as [i [Hi <-]]. apply H. exact Hi.
Qed.

Lemma gather_pos_shape sh order : is_perm order -> length sh = length order -> pos_shape sh -> pos_shape (gather 0 sh order).
Proof.
  intros Hp Hl Hs. apply pos_shape_nth. intros k Hk. rewrite gather_length in Hk. rewrite nth_gather by exact Hk.
  apply (proj1 (pos_shape_nth sh) Hs). rewrite Hl. apply is_perm_lt; [exact Hp|apply nth_In; exact Hk].
Qed.
Lemma gather_in_range sh order idx : is_perm order -> length sh = length order -> in_range sh idx -> in_range (gather 0 sh order) (gather 0 idx order).
Proof.
  intros Hp Hl Hr. apply in_range_nth in Hr. destruct Hr as [Hli Hn]. apply in_range_nth. rewrite !gather_length. split; [reflexivity|].
  intros k Hk. rewrite !nth_gather by exact Hk. apply Hn. rewrite Hl. apply is_perm_lt; [exact Hp|apply nth_In; exact Hk].
Qed.
Lemma ungather_in_range sh order m : is_perm order -> length sh = length order -> in_range (gather 0 sh order) m -> in_range sh (ungather m order).
Proof.
  intros Hp Hl Hr. apply in_range_nth in Hr. destruct Hr as [Hlm Hn]. rewrite gather_length in Hlm, Hn.
  apply in_range_nth. rewrite ungather_length. split; [lia|]. intros i Hi. rewrite Hl in Hi.
  rewrite nth_ungather by exact Hi.
  assert (Hin : In i order) by (apply is_perm_In; assumption).
  pose proof (Hn _ (index_of_lt _ _ Hin)) as H. rewrite nth_gather in H by (apply index_of_lt; exact Hin).
  rewrite nth_index_of in H by exact Hin. exact H.
Qed.

(* products are invariant under the permutation *)
Lemma prod_perm l1 l2 : Permutation l1 l2 -> prod l1 = prod l2.
Proof. induction 1; cbn [prod]; lia. Qed.
Lemma map_nth_seq (l : list Z) : map (fun i => nth i l 0) (seq 0 (length l)) = l.
Proof.
  apply list_ext_nth; [rewrite map_length, seq_length; reflexivity|]. intros i Hi. rewrite map_length, seq_length in Hi.
  set (f := fun i => nth i l 0). rewrite (nth_indep _ 0 (f O)) by (rewrite map_length, seq_length; exact Hi).
  rewrite (map_nth f), seq_nth by exact Hi. reflexivity.
Qed.
Lemma prod_gather sh order : is_perm order -> length sh = length order -> prod (gather 0 sh order) = prod sh.
Proof.
  intros Hp Hl. unfold gather. transitivity (prod (map (fun i => nth i sh 0) (seq 0 (length sh)))); [|rewrite map_nth_seq; reflexivity].
  rewrite Hl. apply prod_perm. apply Permutation_map. exact Hp.
Qed.

(* memory position of a logical index and back *)
Definition mem_pos (sh : list Z) (order : list nat) (idx : list Z) : Z := pos (gather 0 sh order) (gather 0 idx order).
Definition logical_idx (sh : list Z) (order : list nat) (p : Z) : list Z := ungather (unpos (gather 0 sh order) p) order.

Lemma unpos_length : forall sh n, length (unpos sh n) = length sh.
Proof. induction sh as [|d tl IH]; intros n; cbn; [reflexivity|]. rewrite IH. reflexivity. Qed.

Theorem mem_pos_logical sh order p : is_perm order -> length sh = length order -> pos_shape sh -> 0 <= p < prod sh ->
  in_range sh (logical_idx sh order p) /\ mem_pos sh order (logical_idx sh order p) = p.
Proof.
  intros Hp Hl Hs Hr. unfold mem_pos, logical_idx.
  pose proof (gather_pos_shape sh order Hp Hl Hs) as Hcs.
  assert (Hrc : 0 <= p < prod (gather 0 sh order)) by (rewrite prod_gather; assumption).
  pose proof (unpos_range _ _ Hcs Hrc) as Hur. split.
  - apply ungather_in_range; assumption.
  - rewrite gather_ungather by (try assumption; rewrite unpos_length, gather_length; reflexivity).
    apply pos_unpos; assumption.
Qed.
Theorem logical_mem_pos sh order idx : is_perm order -> length sh = length order -> pos_shape sh -> in_range sh idx ->
  0 <= mem_pos sh order idx < prod sh /\ logical_idx sh order (mem_pos sh order idx) = idx.
Proof.
  intros Hp Hl Hs Hr. unfold mem_pos, logical_idx.
  pose proof (gather_pos_shape sh order Hp Hl Hs) as Hcs.
  pose proof (gather_in_range sh order idx Hp Hl Hr) as Hgr. split.
  - rewrite <- (prod_gather sh order Hp Hl). apply pos_bound; assumption.
  - rewrite unpos_pos by assumption. apply ungather_gather; [exact Hp|]. apply in_range_nth in Hr. lia.
Qed.
(* the address computed from the strides of the class is the memory position times the item size *)
Theorem strides_address sh order isz idx : is_perm order -> length sh = length order -> in_range sh idx ->
  dot idx (get_strides sh order isz) = isz * mem_pos sh order idx.
Proof.
  intros Hp Hl Hr. assert (Hli : length idx = length order) by (apply in_range_nth in Hr; lia).
  rewrite strides_permute by assumption. unfold mem_pos. apply dot_c_strides. rewrite !gather_length. reflexivity.
Qed.
