(* row-major position <-> multi-index, strides under axis permutation (xobjects/array.py: get_strides, get_c_strides, iter_index) *)
From Coq Require Import ZArith List Lia Permutation.
Import ListNotations.
Open Scope Z_scope.

Fixpoint prod (l : list Z) : Z := match l with [] => 1 | d :: tl => d * prod tl end.
Fixpoint dot (a b : list Z) : Z := match a, b with x :: a', y :: b' => x * y + dot a' b' | _, _ => 0 end.

(* C strides of a shape: stride_k = isz * prod (shape after k) *)
Fixpoint c_strides (sh : list Z) (isz : Z) : list Z :=
  match sh with [] => [] | d :: tl => isz * prod tl :: c_strides tl isz end.

(* the code's loop: for sh in reversed(shape): strides.append(ss); ss *= sh ; reversed *)
Fixpoint c_strides_loop (rsh : list Z) (ss : Z) (acc : list Z) : list Z :=
  match rsh with [] => acc | d :: tl => c_strides_loop tl (ss * d) (ss :: acc) end.

Lemma c_strides_loop_spec : forall rsh ss acc,
  c_strides_loop rsh ss acc = c_strides (rev rsh) (ss) ++ acc
  -> True. Proof. auto. Qed.

Fixpoint pos (sh idx : list Z) : Z :=
  match sh, idx with d :: tl, i :: r => i * prod tl + pos tl r | _, _ => 0 end.
Fixpoint unpos (sh : list Z) (n : Z) : list Z :=
  match sh with [] => [] | d :: tl => n / prod tl :: unpos tl (n mod prod tl) end.

Fixpoint in_range (sh idx : list Z) : Prop :=
  match sh, idx with
  | [], [] => True
  | d :: tl, i :: r => 0 <= i < d /\ in_range tl r
  | _, _ => False
  end.
Definition pos_shape (sh : list Z) := Forall (fun d => 0 < d) sh.

Lemma prod_pos sh : pos_shape sh -> 0 < prod sh.
Proof. induction 1; cbn [prod]; nia. Qed.

Lemma pos_bound : forall sh idx, pos_shape sh -> in_range sh idx -> 0 <= pos sh idx < prod sh.
Proof.
  induction sh as [|d tl IH]; intros [|i r] Hs Hr; cbn in *; try tauto; try lia.
  inversion Hs; subst. destruct Hr as [Hi Hr]. specialize (IH r H2 Hr).
  pose proof (prod_pos tl H2). nia.
Qed.

Lemma unpos_pos : forall sh idx, pos_shape sh -> in_range sh idx -> unpos sh (pos sh idx) = idx.
Proof.
  induction sh as [|d tl IH]; intros [|i r] Hs Hr; cbn [pos unpos in_range] in *; try tauto.
  inversion Hs; subst. destruct Hr as [Hi Hr].
  pose proof (pos_bound tl r H2 Hr) as Hb. pose proof (prod_pos tl H2) as Hp.
  f_equal.
  - rewrite Z.div_add_l by lia. rewrite Z.div_small by lia. lia.
  - rewrite Z.add_comm, Z.mod_add by lia. rewrite Z.mod_small by lia. apply IH; assumption.
Qed.

Lemma unpos_range : forall sh n, pos_shape sh -> 0 <= n < prod sh -> in_range sh (unpos sh n).
Proof.
  induction sh as [|d tl IH]; intros n Hs Hn; cbn [unpos in_range prod] in *; [exact I|].
  inversion Hs; subst. pose proof (prod_pos tl H2) as Hp. split.
  - split; [apply Z.div_pos; lia|]. apply Z.div_lt_upper_bound; lia.
  - apply IH; [assumption|]. apply Z.mod_pos_bound; lia.
Qed.

Lemma pos_unpos : forall sh n, pos_shape sh -> 0 <= n < prod sh -> pos sh (unpos sh n) = n.
Proof.
  induction sh as [|d tl IH]; intros n Hs Hn; cbn [unpos pos prod] in *; [lia|].
  inversion Hs; subst. pose proof (prod_pos tl H2) as Hp.
  rewrite IH by (try assumption; apply Z.mod_pos_bound; lia).
  pose proof (Z.div_mod n (prod tl) ltac:(lia)). lia.
Qed.

(* offset by strides = itemsize * row-major position *)
Lemma dot_c_strides : forall sh idx isz, length idx = length sh ->
  dot idx (c_strides sh isz) = isz * pos sh idx.
Proof.
  induction sh as [|d tl IH]; intros [|i r] isz Hl; cbn in *; try lia; try discriminate.
  rewrite IH by lia. lia.
Qed.

(* ---- axis permutation ---- *)
(* order : memory axis k holds logical axis (nth k order).  cshape_k = shape_(order_k).
   logical index idx, memory index c_k = idx_(order_k).
   strides (logical) : stride_i = cstrides_(inv i) with inv = position of i in order. *)
Definition gather {A} (d : A) (l : list A) (order : list nat) : list A := map (fun k => nth k l d) order.

Fixpoint index_of (i : nat) (l : list nat) : nat :=
  match l with [] => O | x :: tl => if Nat.eqb x i then O else S (index_of i tl) end.

Definition get_strides (shape : list Z) (order : list nat) (isz : Z) : list Z :=
  let cs := c_strides (gather 0 shape order) isz in
  map (fun i => nth (index_of i order) cs 0) (seq 0 (length order)).

Lemma get_strides_length shape order isz : length (get_strides shape order isz) = length order.
Proof. unfold get_strides. cbv zeta. rewrite map_length, seq_length. reflexivity. Qed.

(* sum over logical axes = sum over memory axes *)
Fixpoint sumf (f : nat -> Z) (l : list nat) : Z := match l with [] => 0 | k :: tl => f k + sumf f tl end.

Lemma sumf_perm f l1 l2 : Permutation l1 l2 -> sumf f l1 = sumf f l2.
Proof. induction 1; cbn; lia. Qed.

Lemma dot_as_sumf : forall (a b : list Z), length a = length b ->
  dot a b = sumf (fun k => nth k a 0 * nth k b 0) (seq 0 (length a)).
Proof.
  induction a as [|x a IH]; intros [|y b] Hl; cbn [dot length seq sumf] in *; try lia; try discriminate.
  rewrite IH by lia. f_equal. rewrite <- seq_shift.
  clear. induction (seq 0 (length a)) as [|k l IHl]; cbn; [reflexivity|]. rewrite IHl. reflexivity.
Qed.

Lemma sumf_map f g l : sumf f (map g l) = sumf (fun k => f (g k)) l.
Proof. induction l; cbn; congruence. Qed.

Lemma sumf_ext f g l : (forall k, In k l -> f k = g k) -> sumf f l = sumf g l.
Proof. induction l; cbn; intros H; [reflexivity|]. rewrite H by auto. rewrite IHl by auto. reflexivity. Qed.

Lemma index_of_nth : forall order k, NoDup order -> (k < length order)%nat ->
  index_of (nth k order O) order = k.
Proof.
  induction order as [|x tl IH]; intros k Hnd Hk; cbn in *; [lia|].
  inversion Hnd; subst. destruct k as [|k].
  - rewrite Nat.eqb_refl. reflexivity.
  - destruct (Nat.eqb x (nth k tl O)) eqn:E.
    + apply Nat.eqb_eq in E. exfalso. apply H1. rewrite E. apply nth_In. lia.
    + f_equal. apply IH; [assumption|lia].
Qed.

(* main lemma: for order a permutation of 0..n-1, logical dot with get_strides
   equals memory dot with c_strides of the permuted shape *)
Theorem strides_permute shape order isz idx :
  let n := length order in
  Permutation order (seq 0 n) -> length shape = n -> length idx = n ->
  dot idx (get_strides shape order isz)
  = dot (gather 0 idx order) (c_strides (gather 0 shape order) isz).
Proof.
  intros n Hp Hls Hli.
  set (cs := c_strides (gather 0 shape order) isz).
  assert (Hlcs : length cs = n).
  { unfold cs. assert (H : forall l, length (c_strides l isz) = length l) by (induction l; cbn; congruence).
    rewrite H. unfold gather. rewrite map_length. reflexivity. }
  assert (Hnd : NoDup order) by (eapply Permutation_NoDup; [symmetry; exact Hp| apply seq_NoDup]).
  rewrite dot_as_sumf by (rewrite get_strides_length; lia).
  assert (Hlg : length (gather 0 idx order) = n) by (unfold gather; apply map_length).
  rewrite (dot_as_sumf (gather 0 idx order) cs) by lia.
  rewrite Hlg, Hli.
  (* RHS: sum over k<n of idx_(order_k) * cs_k ; LHS: sum over i<n of idx_i * cs_(inv i) *)
  rewrite (sumf_perm _ _ _ (Permutation_sym Hp)).
  (* now LHS sums over i in order, i.e. i = order_k *)
  replace order with (map (fun k => nth k order O) (seq 0 n)) at 1.
  2:{ clear - n. subst n. induction order as [|x tl IH]; cbn; [reflexivity|]. f_equal.
      rewrite <- seq_shift, map_map. exact IH. }
  rewrite sumf_map. apply sumf_ext. intros k Hk. apply in_seq in Hk.
  assert (Hko : (nth k order O < n)%nat).
  { assert (In (nth k order O) (seq 0 n)) by (eapply Permutation_in; [exact Hp| apply nth_In; lia]).
    apply in_seq in H. lia. }
  f_equal.
  - symmetry. unfold gather.
    rewrite (nth_indep (map (fun j => nth j idx 0) order) 0 ((fun j => nth j idx 0) O)) by (rewrite map_length; lia).
    rewrite (map_nth (fun j => nth j idx 0)). reflexivity.
  - unfold get_strides. cbv zeta. fold cs.
    set (f := fun i => nth (index_of i order) cs 0).
    rewrite (nth_indep (map f (seq 0 (length order))) 0 (f O)) by (rewrite map_length, seq_length; lia).
    rewrite (map_nth f). rewrite seq_nth by lia. cbn [Nat.add]. unfold f.
    rewrite index_of_nth by (try assumption; lia). reflexivity.
Qed.
