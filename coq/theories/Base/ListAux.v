From Coq Require Import List Arith Lia.
Import ListNotations.

Lemma nth_error_ext {A} : forall (a b : list A), (forall i, nth_error a i = nth_error b i) -> a = b.
Proof.
  induction a as [|x a IH]; intros [|y b] H.
  - reflexivity.
  - specialize (H O). discriminate.
  - specialize (H O). discriminate.
  - pose proof (H O) as H0. cbn in H0. inversion H0; subst. f_equal. apply IH. intros i. exact (H (S i)).
Qed.
Lemma nth_error_skipn {A} : forall (l : list A) n i, nth_error (skipn n l) i = nth_error l (n + i).
Proof.
  induction l as [|x l IH]; intros [|n] i; cbn [skipn Nat.add]; try reflexivity.
  - destruct i; reflexivity.
  - rewrite IH. reflexivity.
Qed.
Lemma nth_error_firstn_lt {A} : forall (l : list A) n i, i < n -> nth_error (firstn n l) i = nth_error l i.
Proof.
  induction l as [|x l IH]; intros [|n] [|i] H; cbn; try reflexivity; try lia. apply IH. lia.
Qed.
Lemma nth_error_firstn_ge {A} : forall (l : list A) n i, n <= i -> nth_error (firstn n l) i = None.
Proof. intros. apply nth_error_None. rewrite firstn_length. lia. Qed.
