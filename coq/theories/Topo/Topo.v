(* Class dependency graphs and the judgement of an emitted API order
   (xobjects/context.py: sort_classes / topological_sort; C14).
   Definitions only; lemmas in TopoProofs.v. *)
From Coq Require Import ZArith List Bool Lia.
Import ListNotations.
Open Scope Z_scope.

(* classes are numbered by the harness; a node lists what the class uses directly
   (field types, item type, reference target, union members, declared _depends_on)
   and whether it has a generated C API *)
Record node := mkN { n_id : Z; n_deps : list Z; n_api : bool }.
Definition graph := list node.

Fixpoint lookup (g : graph) (c : Z) : option node :=
  match g with [] => None | n :: tl => if n_id n =? c then Some n else lookup tl c end.
Definition deps (g : graph) (c : Z) : list Z := match lookup g c with Some n => n_deps n | None => [] end.
Definition api (g : graph) (c : Z) : bool := match lookup g c with Some n => n_api n | None => false end.

Definition memb (c : Z) (l : list Z) : bool := existsb (Z.eqb c) l.
Fixpoint nodupb (l : list Z) : bool := match l with [] => true | x :: tl => negb (memb x tl) && nodupb tl end.
(* position of the first occurrence (length if absent) *)
Fixpoint idx (c : Z) (l : list Z) : nat := match l with [] => O | x :: tl => if x =? c then O else Datatypes.S (idx c tl) end.

(* ---- specification ---- *)
Inductive reach (g : graph) (roots : list Z) : Z -> Prop :=
| R_root c : In c roots -> reach g roots c
| R_dep c d : reach g roots c -> In d (deps g c) -> reach g roots d.
Inductive path (g : graph) : Z -> Z -> Prop :=
| P_one c d : In d (deps g c) -> path g c d
| P_cons c d e : In d (deps g c) -> path g d e -> path g c e.
Definition has_cycle (g : graph) (roots : list Z) : Prop := exists c, reach g roots c /\ path g c c.

(* every needed API exactly once, each after everything it uses *)
Definition valid_emission (g : graph) (roots out : list Z) : Prop :=
  NoDup out /\
  (forall c, In c out <-> reach g roots c /\ api g c = true) /\
  (forall c d, In c out -> In d (deps g c) -> api g d = true -> (idx d out < idx c out)%nat).

(* ---- executable closure and checkers ---- *)
Definition add_new (Cl : list Z) (cs : list Z) : list Z :=
  fold_left (fun acc c => if memb c acc then acc else acc ++ [c]) cs Cl.
Definition cstep (g : graph) (Cl : list Z) : list Z := add_new Cl (flat_map (deps g) Cl).
Fixpoint citer (g : graph) (fuel : nat) (Cl : list Z) : list Z :=
  match fuel with O => Cl | Datatypes.S f => citer g f (cstep g Cl) end.
Definition closedb (g : graph) (roots Cl : list Z) : bool :=
  forallb (fun c => memb c Cl) roots && forallb (fun c => forallb (fun d => memb d Cl) (deps g c)) Cl.
Definition closure (g : graph) (roots : list Z) : option (list Z) :=
  let Cl := citer g (length g + 1) (add_new [] roots) in
  if closedb g roots Cl then Some Cl else None.

Definition valid_emissionb (g : graph) (roots out : list Z) : bool :=
  match closure g roots with
  | None => false
  | Some Cl =>
      nodupb out
      && forallb (fun c => memb c Cl && api g c) out
      && forallb (fun c => negb (api g c) || memb c out) Cl
      && forallb (fun c => forallb (fun d => negb (api g d) || Nat.ltb (idx d out) (idx c out)) (deps g c)) out
  end.

(* certificate of a cycle: a closed walk c0 -> c1 -> ... -> c0 through reachable classes *)
Fixpoint chainb (g : graph) (l : list Z) : bool :=
  match l with
  | c :: ((d :: _) as tl) => memb d (deps g c) && chainb g tl
  | _ => true
  end.
Definition cycleb (g : graph) (Cl cyc : list Z) : bool :=
  match cyc with
  | [] => false
  | c0 :: _ => forallb (fun c => memb c Cl) cyc && chainb g (cyc ++ [c0])
  end.

(* certificate of acyclicity: a rank that strictly decreases along every edge *)
Fixpoint rank_of (ranks : list (Z * Z)) (c : Z) : Z :=
  match ranks with [] => 0 | (k, r) :: tl => if k =? c then r else rank_of tl c end.
Definition rankb (g : graph) (Cl : list Z) (ranks : list (Z * Z)) : bool :=
  forallb (fun c => forallb (fun d => rank_of ranks d <? rank_of ranks c) (deps g c)) Cl.

(* what the implementation did for (graph, roots) *)
Inductive tobs := TOrder (out : list Z) | TCycleError | TOtherError.
Record tcase := mkT { t_g : graph; t_roots : list Z; t_obs : tobs; t_cycle : list Z; t_ranks : list (Z * Z) }.

(* an order must be a valid emission and the graph acyclic (certified by ranks);
   a cycle error must come with a real cycle *)
Definition topo_okb (t : tcase) : bool :=
  match closure (t_g t) (t_roots t) with
  | None => false
  | Some Cl =>
    match t_obs t with
    | TOrder out => valid_emissionb (t_g t) (t_roots t) out && rankb (t_g t) Cl (t_ranks t)
    | TCycleError => cycleb (t_g t) Cl (t_cycle t)
    | TOtherError => false
    end
  end.
Definition topo_ok (t : tcase) : option nat := if topo_okb t then None else Some O.
