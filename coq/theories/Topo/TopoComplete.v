(* The emission judgement is exact: whenever the reachable set is computed, every valid emission is
   accepted (with TopoProofs.valid_emissionb_sound: accepted iff valid).  So the judgement cannot be the
   source of an alarm on an order that meets the specification. *)
From Coq Require Import ZArith List Bool Lia.
Import ListNotations.
From XO Require Import Topo TopoProofs.
Open Scope Z_scope.

Lemma NoDup_nodupb l : NoDup l -> nodupb l = true.
Proof.
  induction 1 as [|x tl Hx Hnd IH]; cbn [nodupb]; [reflexivity|].
  rewrite IH, andb_true_r. apply negb_true_iff. apply memb_false. exact Hx.
Qed.

Theorem valid_emissionb_complete g roots out Cl :
  closure g roots = Some Cl -> valid_emission g roots out -> valid_emissionb g roots out = true.
Proof.
  intros EC [Hnd [Hmem Hord]]. unfold valid_emissionb. rewrite EC.
  pose proof (closure_correct _ _ _ EC) as HS.
  repeat (apply andb_true_intro; split).
  - apply NoDup_nodupb. exact Hnd.
  - apply forallb_forall. intros c Hc. apply Hmem in Hc. destruct Hc as [Hr Ha].
    apply andb_true_intro. split; [apply memb_In; apply HS; exact Hr|exact Ha].
  - apply forallb_forall. intros c Hc. destruct (api g c) eqn:Ea; cbn [negb orb]; [|reflexivity].
    apply memb_In. apply Hmem. split; [apply HS; exact Hc|exact Ea].
  - apply forallb_forall. intros c Hc. apply forallb_forall. intros d Hd.
    destruct (api g d) eqn:Ea; cbn [negb orb]; [|reflexivity].
    apply Nat.ltb_lt. apply Hord; assumption.
Qed.

Theorem valid_emissionb_exact g roots out Cl :
  closure g roots = Some Cl -> (valid_emissionb g roots out = true <-> valid_emission g roots out).
Proof. intros EC. split; [apply valid_emissionb_sound|apply (valid_emissionb_complete _ _ _ _ EC)]. Qed.

(* two valid emissions of the same graph contain the same classes (they may differ in order only) *)
Theorem valid_emissions_same_classes g roots o1 o2 :
  valid_emission g roots o1 -> valid_emission g roots o2 -> forall c, In c o1 <-> In c o2.
Proof. intros [_ [M1 _]] [_ [M2 _]] c. rewrite M1, M2. tauto. Qed.

Theorem valid_emissions_same_length g roots o1 o2 :
  valid_emission g roots o1 -> valid_emission g roots o2 -> length o1 = length o2.
Proof.
  intros V1 V2. pose proof (valid_emissions_same_classes _ _ _ _ V1 V2) as HS.
  destruct V1 as [N1 _], V2 as [N2 _].
  apply Nat.le_antisymm; apply NoDup_incl_length; try assumption; intros x Hx; apply HS; exact Hx.
Qed.
