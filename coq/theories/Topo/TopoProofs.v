From Coq Require Import ZArith List Bool Lia.
Import ListNotations.
From XO Require Import Topo.
Open Scope Z_scope.

Lemma memb_In c l : memb c l = true <-> In c l.
Proof.
  unfold memb. rewrite existsb_exists. split.
  - intros [x [H E]]. apply Z.eqb_eq in E. subst. exact H.
  - intros H. exists c. split; [exact H|apply Z.eqb_refl].
Qed.
Lemma memb_false c l : memb c l = false <-> ~ In c l.
Proof. rewrite <- memb_In. destruct (memb c l); split; congruence. Qed.

Lemma nodupb_NoDup l : nodupb l = true -> NoDup l.
Proof.
  induction l as [|x tl IH]; cbn [nodupb]; [constructor|]. intros H. apply andb_prop in H. destruct H as [A B].
  constructor; [|apply IH; exact B]. apply memb_false. destruct (memb x tl); [discriminate|reflexivity].
Qed.

(* ---- closure ---- *)
Lemma add_new_spec : forall cs Cl x, In x (add_new Cl cs) <-> In x Cl \/ In x cs.
Proof.
  unfold add_new. induction cs as [|c cs IH]; intros Cl x; cbn [fold_left].
  - cbn [In]. tauto.
  - rewrite IH. destruct (memb c Cl) eqn:E.
    + apply memb_In in E. cbn [In]. split; [tauto|]. intros [H|[H|H]]; subst; tauto.
    + rewrite in_app_iff. cbn [In]. tauto.
Qed.

Lemma citer_reach g roots : forall fuel Cl, (forall x, In x Cl -> reach g roots x) ->
  forall x, In x (citer g fuel Cl) -> reach g roots x.
Proof.
  induction fuel as [|f IH]; intros Cl HS x Hx; cbn [citer] in Hx; [apply HS; exact Hx|].
  apply (IH (cstep g Cl)); [|exact Hx]. intros y Hy. unfold cstep in Hy. apply add_new_spec in Hy.
  destruct Hy as [Hy|Hy]; [apply HS; exact Hy|]. apply in_flat_map in Hy. destruct Hy as [c [Hc Hd]].
  eapply R_dep; [apply HS; exact Hc|exact Hd].
Qed.

Lemma closedb_complete g roots Cl : closedb g roots Cl = true -> forall x, reach g roots x -> In x Cl.
Proof.
  unfold closedb. intros H. apply andb_prop in H. destruct H as [A B]. rewrite forallb_forall in A, B.
  intros x Hx. induction Hx as [c Hc|c d Hc IH Hd].
  - apply memb_In. apply A. exact Hc.
  - specialize (B c IH). rewrite forallb_forall in B. apply memb_In. apply B. exact Hd.
Qed.

Theorem closure_correct g roots Cl : closure g roots = Some Cl -> forall x, In x Cl <-> reach g roots x.
Proof.
  unfold closure. destruct (closedb g roots (citer g (length g + 1) (add_new [] roots))) eqn:E; [|discriminate].
  intros H. inversion H; subst. intros x. split.
  - apply citer_reach. intros y Hy. apply add_new_spec in Hy. destruct Hy as [[]|Hy]. constructor. exact Hy.
  - apply closedb_complete. exact E.
Qed.

(* ---- the emission checker ---- *)
Theorem valid_emissionb_sound g roots out : valid_emissionb g roots out = true -> valid_emission g roots out.
Proof.
  unfold valid_emissionb. destruct (closure g roots) as [Cl|] eqn:EC; [|discriminate].
  pose proof (closure_correct _ _ _ EC) as HS. intros H.
  repeat (apply andb_prop in H; destruct H as [H ?]).
  match goal with H : nodupb _ = true |- _ => apply nodupb_NoDup in H; rename H into Hnd end.
  repeat match goal with H : forallb _ _ = true |- _ => rewrite forallb_forall in H end.
  match goal with H : forall x, In x out -> memb x Cl && api g x = true |- _ => rename H into Hsound end.
  match goal with H : forall x, In x Cl -> negb (api g x) || memb x out = true |- _ => rename H into Hcompl end.
  match goal with H : forall x, In x out -> forallb _ (deps g x) = true |- _ => rename H into Hord end.
  split; [exact Hnd|]. split.
  - intros c. split.
    + intros Hc. specialize (Hsound c Hc). apply andb_prop in Hsound. destruct Hsound as [A B].
      split; [apply HS; apply memb_In; exact A|exact B].
    + intros [Hr Ha]. apply HS in Hr. specialize (Hcompl c Hr). rewrite Ha in Hcompl. cbn in Hcompl. apply memb_In. exact Hcompl.
  - intros c d Hc Hd Ha. specialize (Hord c Hc). rewrite forallb_forall in Hord. specialize (Hord d Hd).
    rewrite Ha in Hord. cbn in Hord. apply Nat.ltb_lt. exact Hord.
Qed.

(* ---- certificates ---- *)
Lemma chainb_path g : forall l c d, chainb g (c :: l ++ [d]) = true -> path g c d.
Proof.
  induction l as [|x l IH]; intros c d H.
  - cbn in H. apply andb_prop in H. destruct H as [A _]. apply P_one. apply memb_In. exact A.
  - cbn [app chainb] in H. apply andb_prop in H. destruct H as [A B].
    eapply P_cons; [apply memb_In; exact A|]. apply IH. exact B.
Qed.

Theorem cycleb_sound g roots Cl cyc : closure g roots = Some Cl -> cycleb g Cl cyc = true -> has_cycle g roots.
Proof.
  intros EC H. pose proof (closure_correct _ _ _ EC) as HS. unfold cycleb in H.
  destruct cyc as [|c0 tl]; [discriminate|]. apply andb_prop in H. destruct H as [A B].
  rewrite forallb_forall in A. exists c0. split.
  - apply HS. apply memb_In. apply A. left. reflexivity.
  - apply (chainb_path g tl c0 c0). exact B.
Qed.

Lemma rank_path g roots Cl ranks : closure g roots = Some Cl -> rankb g Cl ranks = true ->
  forall c d, path g c d -> In c Cl -> rank_of ranks d < rank_of ranks c /\ In d Cl.
Proof.
  intros EC H. pose proof (closure_correct _ _ _ EC) as HS. unfold rankb in H. rewrite forallb_forall in H.
  intros c d Hp. induction Hp as [c d Hd|c d e Hd Hp IH]; intros Hc.
  - specialize (H c Hc). rewrite forallb_forall in H. specialize (H d Hd). apply Z.ltb_lt in H.
    split; [exact H|]. apply HS. eapply R_dep; [apply HS; exact Hc|exact Hd].
  - pose proof (H c Hc) as Hcd. rewrite forallb_forall in Hcd. specialize (Hcd d Hd). apply Z.ltb_lt in Hcd.
    assert (HdS : In d Cl) by (apply HS; eapply R_dep; [apply HS; exact Hc|exact Hd]).
    destruct (IH HdS) as [A B]. split; [lia|exact B].
Qed.
Theorem rankb_sound g roots Cl ranks : closure g roots = Some Cl -> rankb g Cl ranks = true -> ~ has_cycle g roots.
Proof.
  intros EC H [c [Hr Hp]]. pose proof (closure_correct _ _ _ EC) as HS.
  destruct (rank_path g roots Cl ranks EC H c c Hp (proj2 (HS c) Hr)) as [A _]. lia.
Qed.

(* a valid emission cannot coexist with a cycle among classes that have an API *)
Lemma valid_path_idx g roots out : valid_emission g roots out ->
  (forall c, deps g c <> [] -> api g c = true) ->
  forall c d, path g c d -> In c out -> api g d = true -> (idx d out < idx c out)%nat /\ In d out.
Proof.
  intros [Hnd [Hiff Hord]] Hapi c d Hp. induction Hp as [c d Hd|c d e Hd Hp IH]; intros Hc Ha.
  - split; [apply Hord; assumption|]. apply Hiff. split; [|exact Ha]. eapply R_dep; [apply Hiff; exact Hc|exact Hd].
  - assert (Had : api g d = true).
    { apply Hapi. inversion Hp; subst; intros E; match goal with H : In _ (deps g d) |- _ => rewrite E in H; destruct H end. }
    assert (Hdo : In d out). { apply Hiff. split; [|exact Had]. eapply R_dep; [apply Hiff; exact Hc|exact Hd]. }
    destruct (IH Hdo Ha) as [A B]. split; [|exact B]. pose proof (Hord c d Hc Hd Had). lia.
Qed.
Theorem valid_emission_acyclic g roots out : valid_emission g roots out ->
  (forall c, deps g c <> [] -> api g c = true) -> ~ has_cycle g roots.
Proof.
  intros Hv Hapi [c [Hr Hp]].
  assert (Ha : api g c = true).
  { apply Hapi. inversion Hp; subst; intros E; match goal with H : In _ (deps g c) |- _ => rewrite E in H; destruct H end. }
  assert (Hc : In c out) by (destruct Hv as [_ [Hiff _]]; apply Hiff; auto).
  destruct (valid_path_idx g roots out Hv Hapi c c Hp Hc Ha) as [A _]. lia.
Qed.

(* the judgement of one observed case *)
Theorem topo_okb_sound t : topo_okb t = true ->
  match t_obs t with
  | TOrder out => valid_emission (t_g t) (t_roots t) out /\ ~ has_cycle (t_g t) (t_roots t)
  | TCycleError => has_cycle (t_g t) (t_roots t)
  | TOtherError => False
  end.
Proof.
  unfold topo_okb. destruct (closure (t_g t) (t_roots t)) as [Cl|] eqn:EC; [|discriminate].
  destruct (t_obs t) as [out| |]; intros H.
  - apply andb_prop in H. destruct H as [A B]. split; [apply valid_emissionb_sound; exact A|eapply rankb_sound; eassumption].
  - eapply cycleb_sound; eassumption.
  - discriminate.
Qed.
