(* The reachable set is always computed: length g + 1 rounds suffice for every graph and every list of
   roots (classes outside the graph, duplicate nodes and cycles included), so `closure` never answers None
   and the emission judgement is exact without any side condition. *)
From Coq Require Import ZArith List Bool Lia.
Import ListNotations.
From XO Require Import Topo TopoProofs TopoComplete.
Open Scope Z_scope.

Definition depclosed (g : graph) (Cl : list Z) : Prop := forall c, In c Cl -> forall d, In d (deps g c) -> In d Cl.
Definition dcb (g : graph) (Cl : list Z) : bool := forallb (fun c => forallb (fun d => memb d Cl) (deps g c)) Cl.
(* nodes of the graph (with multiplicity) whose class is not yet in the set *)
Definition missing (g : graph) (Cl : list Z) : nat := length (filter (fun n => negb (memb (n_id n) Cl)) g).

Lemma forallb_false_ex {A} (f : A -> bool) l : forallb f l = false -> exists x, In x l /\ f x = false.
Proof.
  induction l as [|x tl IH]; cbn [forallb]; [discriminate|]. intros H. apply andb_false_iff in H. destruct H as [H|H].
  - exists x. split; [left; reflexivity|exact H].
  - destruct (IH H) as [y [Hy Fy]]. exists y. split; [right; exact Hy|exact Fy].
Qed.

Lemma dcb_spec g Cl : dcb g Cl = true <-> depclosed g Cl.
Proof.
  unfold dcb, depclosed. rewrite forallb_forall. split.
  - intros H c Hc d Hd. specialize (H c Hc). rewrite forallb_forall in H. apply memb_In. apply H. exact Hd.
  - intros H c Hc. apply forallb_forall. intros d Hd. apply memb_In. eapply H; eassumption.
Qed.

Lemma cstep_spec g Cl x : In x (cstep g Cl) <-> In x Cl \/ exists c, In c Cl /\ In x (deps g c).
Proof.
  unfold cstep. rewrite add_new_spec, in_flat_map. tauto.
Qed.

Lemma cstep_incl g Cl x : In x Cl -> In x (cstep g Cl).
Proof. intros H. apply cstep_spec. left. exact H. Qed.

Lemma citer_incl g : forall n Cl x, In x Cl -> In x (citer g n Cl).
Proof. induction n as [|n IH]; intros Cl x H; cbn [citer]; [exact H|]. apply IH. apply cstep_incl. exact H. Qed.

Lemma depclosed_cstep g Cl : depclosed g Cl -> depclosed g (cstep g Cl).
Proof.
  intros HC c Hc d Hd. apply cstep_spec in Hc. destruct Hc as [Hc|[c' [Hc' Hcd]]].
  - apply cstep_incl. eapply HC; eassumption.
  - apply cstep_incl. eapply HC; [eapply HC; eassumption|exact Hd].
Qed.

Lemma depclosed_citer g : forall n Cl, depclosed g Cl -> depclosed g (citer g n Cl).
Proof. induction n as [|n IH]; intros Cl H; cbn [citer]; [exact H|]. apply IH. apply depclosed_cstep. exact H. Qed.

Lemma lookup_some g : forall c n, lookup g c = Some n -> In n g /\ n_id n = c.
Proof.
  induction g as [|m tl IH]; intros c n H; cbn [lookup] in H; [discriminate|].
  destruct (n_id m =? c) eqn:E.
  - inversion H; subst. split; [left; reflexivity|apply Z.eqb_eq; exact E].
  - destruct (IH _ _ H) as [A B]. split; [right; exact A|exact B].
Qed.

Lemma has_deps_in_graph g c d : In d (deps g c) -> exists n, In n g /\ n_id n = c.
Proof.
  unfold deps. destruct (lookup g c) as [n|] eqn:E; [|intros []]. intros _. exists n. eapply lookup_some. exact E.
Qed.

Lemma filter_len_le {A} (p q : A -> bool) l : (forall x, q x = true -> p x = true) ->
  (length (filter q l) <= length (filter p l))%nat.
Proof.
  intros H. induction l as [|x tl IH]; cbn [filter]; [lia|].
  destruct (q x) eqn:Q; [rewrite (H _ Q); cbn [length]; lia|]. destruct (p x); cbn [length]; lia.
Qed.

Lemma filter_len_lt {A} (p q : A -> bool) l : (forall x, q x = true -> p x = true) ->
  (exists x, In x l /\ p x = true /\ q x = false) -> (length (filter q l) < length (filter p l))%nat.
Proof.
  intros H. induction l as [|x tl IH]; intros [y [Hy [Py Qy]]]; [destruct Hy|].
  cbn [filter]. destruct Hy as [->|Hy].
  - rewrite Py, Qy. cbn [length]. pose proof (filter_len_le p q tl H). lia.
  - assert (length (filter q tl) < length (filter p tl))%nat as L by (apply IH; exists y; auto).
    destruct (q x) eqn:Q; [rewrite (H _ Q); cbn [length]; lia|]. destruct (p x); cbn [length]; lia.
Qed.

Lemma missing_le g Cl : (missing g Cl <= length g)%nat.
Proof.
  unfold missing. induction g as [|n tl IH]; cbn [filter length]; [lia|].
  destruct (negb (memb (n_id n) Cl)); cbn [length]; lia.
Qed.

(* a round that does not reach a closed set brings a class of the graph into the set *)
Lemma missing_decreases g Cl : dcb g (cstep g Cl) = false -> (missing g (cstep g Cl) < missing g Cl)%nat.
Proof.
  intros H. unfold dcb in H. apply forallb_false_ex in H. destruct H as [c [Hc H]].
  apply forallb_false_ex in H. destruct H as [d [Hd Hm]]. apply memb_false in Hm.
  assert (~ In c Cl) as Hnc.
  { intros Hin. apply Hm. apply cstep_spec. right. exists c. split; assumption. }
  destruct (has_deps_in_graph _ _ _ Hd) as [n [Hn En]].
  unfold missing. apply filter_len_lt.
  - intros x Hx. apply negb_true_iff in Hx. apply negb_true_iff. apply memb_false. apply memb_false in Hx.
    intros Hin. apply Hx. apply cstep_incl. exact Hin.
  - exists n. split; [exact Hn|]. rewrite En. split.
    + apply negb_true_iff. apply memb_false. exact Hnc.
    + apply negb_false_iff. apply memb_In. exact Hc.
Qed.

Lemma citer_closes g : forall n Cl, (missing g Cl <= n)%nat -> depclosed g (citer g (Datatypes.S n) Cl).
Proof.
  induction n as [|n IH]; intros Cl Hm.
  - cbn [citer]. destruct (dcb g (cstep g Cl)) eqn:E; [apply dcb_spec; exact E|].
    pose proof (missing_decreases _ _ E). lia.
  - change (citer g (Datatypes.S (Datatypes.S n)) Cl) with (citer g (Datatypes.S n) (cstep g Cl)).
    destruct (dcb g (cstep g Cl)) eqn:E.
    + apply depclosed_citer. apply dcb_spec. exact E.
    + apply IH. pose proof (missing_decreases _ _ E). lia.
Qed.

Theorem closure_total g roots : exists Cl, closure g roots = Some Cl.
Proof.
  unfold closure. set (Cl := citer g (length g + 1) (add_new [] roots)).
  assert (closedb g roots Cl = true) as H.
  { unfold closedb. apply andb_true_intro. split.
    - apply forallb_forall. intros c Hc. apply memb_In. unfold Cl. apply citer_incl. apply add_new_spec. right. exact Hc.
    - apply (proj2 (dcb_spec g Cl)). unfold Cl. replace (length g + 1)%nat with (Datatypes.S (length g)) by lia.
      apply citer_closes. apply missing_le. }
  rewrite H. exists Cl. reflexivity.
Qed.

(* the judgement of an emitted order is exact, for every graph *)
Theorem valid_emissionb_iff g roots out : valid_emissionb g roots out = true <-> valid_emission g roots out.
Proof. destruct (closure_total g roots) as [Cl EC]. exact (valid_emissionb_exact _ _ _ _ EC). Qed.

(* every (graph, roots) has its set of needed classes; with a rank certificate an order exists at all is the
   library's business -- the judgement of what it emitted is total *)
Theorem reach_decidable g roots c : {reach g roots c} + {~ reach g roots c}.
Proof.
  destruct (closure g roots) as [Cl|] eqn:EC.
  - destruct (memb c Cl) eqn:E.
    + left. apply (closure_correct _ _ _ EC). apply memb_In. exact E.
    + right. intros H. apply (closure_correct _ _ _ EC) in H. apply memb_In in H. congruence.
  - exfalso. destruct (closure_total g roots) as [Cl H]. congruence.
Qed.
