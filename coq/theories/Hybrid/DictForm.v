(* The dictionary form of hybrid objects (HybridClass.to_dict / from_dict), nested:
     to_dict  stores every python-named field, EXCEPT numbers and fixed-size arrays equal to their default
              (declared, or the type's zero default); nested dressed objects are stored as dictionaries, dynamic
              arrays always;
     from_dict (the constructor called with the dictionary as keyword arguments) gives a missing number / fixed array
              its default and rebuilds nested objects from their dictionaries.
   Theorem: from_dict (to_dict x) = x for every class description with distinct python names at each level, every
   nesting depth and every value. *)
From Coq Require Import ZArith List Bool Lia.
Import ListNotations.
Open Scope Z_scope.

Inductive fkind :=
| KNum (d : Z)                        (* a number with default d *)
| KArrFixed (d : list Z)              (* a fixed-size array with default d *)
| KArrDyn                             (* a variable-size array: no default, always stored *)
| KNested (fields : list (nat * fkind)).   (* a nested dressed class: (python name, kind) in field order *)

Inductive oval := ONum (z : Z) | OArr (l : list Z) | OObj (vs : list oval).
Inductive dv := DNum (z : Z) | DArr (l : list Z) | DDict (d : list (nat * dv)).

Fixpoint zs_eqb (a b : list Z) : bool :=
  match a, b with [], [] => true | x :: a', y :: b' => (x =? y) && zs_eqb a' b' | _, _ => false end.
Lemma zs_eqb_eq : forall a b, zs_eqb a b = true -> a = b.
Proof. induction a as [|x a IH]; intros [|y b] H; cbn in H; try discriminate; [reflexivity|]. apply andb_prop in H. destruct H as [A B]. apply Z.eqb_eq in A. subst. f_equal. auto. Qed.

Fixpoint lookup (n : nat) (d : list (nat * dv)) : option dv :=
  match d with [] => None | (k, x) :: tl => if Nat.eqb k n then Some x else lookup n tl end.

(* None: value not of this kind; Some None: elided (equal to the default); Some (Some x): stored as x *)
Fixpoint to_dv (k : fkind) (v : oval) {struct k} : option (option dv) :=
  match k, v with
  | KNum d, ONum z => Some (if z =? d then None else Some (DNum z))
  | KArrFixed d, OArr l => Some (if zs_eqb l d then None else Some (DArr l))
  | KArrDyn, OArr l => Some (Some (DArr l))
  | KNested fs, OObj vs =>
      match (fix go (fs : list (nat * fkind)) (vs : list oval) : option (list (nat * dv)) :=
               match fs, vs with
               | [], [] => Some []
               | (n, k') :: fs', v' :: vs' =>
                   match to_dv k' v', go fs' vs' with
                   | Some None, Some r => Some r
                   | Some (Some x), Some r => Some ((n, x) :: r)
                   | _, _ => None
                   end
               | _, _ => None
               end) fs vs with
      | Some r => Some (Some (DDict r))
      | None => None
      end
  | _, _ => None
  end.

Fixpoint of_dv (k : fkind) (x : option dv) {struct k} : option oval :=
  match k, x with
  | KNum d, None => Some (ONum d)
  | KNum _, Some (DNum z) => Some (ONum z)
  | KArrFixed d, None => Some (OArr d)
  | KArrFixed _, Some (DArr l) => Some (OArr l)
  | KArrDyn, Some (DArr l) => Some (OArr l)
  | KNested fs, Some (DDict d) =>
      match (fix go (fs : list (nat * fkind)) : option (list oval) :=
               match fs with
               | [] => Some []
               | (n, k') :: fs' => match of_dv k' (lookup n d), go fs' with Some v, Some r => Some (v :: r) | _, _ => None end
               end) fs with
      | Some r => Some (OObj r)
      | None => None
      end
  | _, _ => None
  end.

(* named versions of the inner loops *)
Definition to_fields : list (nat * fkind) -> list oval -> option (list (nat * dv)) :=
  fix go (fs : list (nat * fkind)) (vs : list oval) : option (list (nat * dv)) :=
    match fs, vs with
    | [], [] => Some []
    | (n, k') :: fs', v' :: vs' =>
        match to_dv k' v', go fs' vs' with
        | Some None, Some r => Some r
        | Some (Some x), Some r => Some ((n, x) :: r)
        | _, _ => None
        end
    | _, _ => None
    end.
Definition of_fields (d : list (nat * dv)) : list (nat * fkind) -> option (list oval) :=
  fix go (fs : list (nat * fkind)) : option (list oval) :=
    match fs with
    | [] => Some []
    | (n, k') :: fs' => match of_dv k' (lookup n d), go fs' with Some v, Some r => Some (v :: r) | _, _ => None end
    end.
Lemma to_dv_nested fs vs : to_dv (KNested fs) (OObj vs) = match to_fields fs vs with Some r => Some (Some (DDict r)) | None => None end.
Proof. reflexivity. Qed.
Lemma of_dv_nested fs d : of_dv (KNested fs) (Some (DDict d)) = match of_fields d fs with Some r => Some (OObj r) | None => None end.
Proof. reflexivity. Qed.

(* python names distinct at every level *)
Fixpoint names_ok (k : fkind) : Prop :=
  match k with
  | KNested fs => NoDup (map fst fs) /\ (fix all (fs : list (nat * fkind)) : Prop := match fs with [] => True | (_, k') :: tl => names_ok k' /\ all tl end) fs
  | _ => True
  end.
Definition all_names_ok : list (nat * fkind) -> Prop :=
  fix all (fs : list (nat * fkind)) : Prop := match fs with [] => True | (_, k') :: tl => names_ok k' /\ all tl end.
Lemma names_ok_nested fs : names_ok (KNested fs) = (NoDup (map fst fs) /\ all_names_ok fs).
Proof. reflexivity. Qed.

(* nested induction principle *)
Section KInd.
  Variable P : fkind -> Prop.
  Hypothesis Hn : forall d, P (KNum d).
  Hypothesis Hf : forall d, P (KArrFixed d).
  Hypothesis Hd : P KArrDyn.
  Hypothesis Hs : forall fs, Forall (fun nk => P (snd nk)) fs -> P (KNested fs).
  Fixpoint fkind_ind' (k : fkind) : P k :=
    match k with
    | KNum d => Hn d | KArrFixed d => Hf d | KArrDyn => Hd
    | KNested fs => Hs fs ((fix go (l : list (nat * fkind)) : Forall (fun nk => P (snd nk)) l :=
                              match l with [] => Forall_nil _ | x :: tl => Forall_cons x (fkind_ind' (snd x)) (go tl) end) fs)
    end.
End KInd.

Lemma lookup_not_in n d : ~ In n (map fst d) -> lookup n d = None.
Proof.
  induction d as [|[k x] tl IH]; intros H; [reflexivity|]. cbn in H |- *. destruct (Nat.eqb k n) eqn:E; [apply Nat.eqb_eq in E; subst; tauto|]. apply IH. tauto.
Qed.
Lemma to_fields_names : forall fs vs r, to_fields fs vs = Some r -> forall n, In n (map fst r) -> In n (map fst fs).
Proof.
  induction fs as [|[m k] fs IH]; intros vs r H n Hin.
  - destruct vs; cbn in H; [|discriminate]. inversion H; subst. destruct Hin.
  - destruct vs as [|v vs]; cbn in H; [discriminate|]. destruct (to_dv k v) as [[x|]|] eqn:E1; [| |discriminate]; destruct (to_fields fs vs) as [r0|] eqn:E2; try discriminate; inversion H; subst.
    + cbn in Hin. destruct Hin as [<-|Hin]; [left; reflexivity|right; eapply IH; eassumption].
    + right. eapply IH; eassumption.
Qed.

Definition RTk (k : fkind) : Prop := names_ok k -> forall v x, to_dv k v = Some x -> of_dv k x = Some v.

Lemma RT_fields : forall fs, Forall (fun nk => RTk (snd nk)) fs -> NoDup (map fst fs) -> all_names_ok fs ->
  forall vs r, to_fields fs vs = Some r ->
  forall d, (forall n, In n (map fst fs) -> lookup n d = lookup n r) -> of_fields d fs = Some vs.
Proof.
  induction fs as [|[n k] fs IH]; intros HF Hnd Hnames vs r H d Hd.
  - destruct vs; cbn in H; [|discriminate]. reflexivity.
  - destruct vs as [|v vs]; cbn in H; [discriminate|].
    inversion HF as [|? ? Hk HFt]; subst. cbn [snd] in Hk. cbn [map fst] in Hnd. inversion Hnd as [|? ? Hnotin Hnd']; subst.
    cbn in Hnames. destruct Hnames as [Hnk Hnt].
    destruct (to_dv k v) as [[x|]|] eqn:E1; [| |discriminate]; destruct (to_fields fs vs) as [r0|] eqn:E2; try discriminate; inversion H; subst r; clear H.
    + (* stored *)
      cbn [of_fields]. fold (of_fields d).
      assert (L : lookup n d = Some x). { rewrite (Hd n (or_introl eq_refl)). cbn. rewrite Nat.eqb_refl. reflexivity. }
      rewrite L. rewrite (Hk Hnk v (Some x) E1).
      rewrite (IH HFt Hnd' Hnt vs r0 E2 d); [reflexivity|].
      intros m Hm. rewrite (Hd m (or_intror Hm)). cbn. destruct (Nat.eqb n m) eqn:E; [apply Nat.eqb_eq in E; subst; tauto|reflexivity].
    + (* elided *)
      cbn [of_fields]. fold (of_fields d).
      assert (L : lookup n d = None). { rewrite (Hd n (or_introl eq_refl)). apply lookup_not_in. intros Hin. apply Hnotin. eapply to_fields_names; eassumption. }
      rewrite L. rewrite (Hk Hnk v None E1).
      rewrite (IH HFt Hnd' Hnt vs r0 E2 d); [reflexivity|].
      intros m Hm. apply Hd. right. exact Hm.
Qed.

Theorem dict_roundtrip : forall k, RTk k.
Proof.
  apply fkind_ind'.
  - intros d _ v x H. destruct v; cbn in H; try discriminate. inversion H; subst. destruct (z =? d) eqn:E; cbn; [apply Z.eqb_eq in E; subst; reflexivity|reflexivity].
  - intros d _ v x H. destruct v; cbn in H; try discriminate. inversion H; subst. destruct (zs_eqb l d) eqn:E; cbn; [apply zs_eqb_eq in E; subst; reflexivity|reflexivity].
  - intros _ v x H. destruct v; cbn in H; try discriminate. inversion H; subst. reflexivity.
  - intros fs HF Hn v x H. rewrite names_ok_nested in Hn. destruct Hn as [Hnd Hall].
    destruct v as [| |vs]; try (cbn in H; discriminate). rewrite to_dv_nested in H. destruct (to_fields fs vs) as [r|] eqn:E; [|discriminate]. inversion H; subst x.
    rewrite of_dv_nested. rewrite (RT_fields fs HF Hnd Hall vs r E r); [reflexivity|]. intros; reflexivity.
Qed.

(* the top level: an object is a nested kind *)
Corollary from_dict_to_dict_nested fs vs r : NoDup (map fst fs) -> all_names_ok fs -> to_fields fs vs = Some r -> of_fields r fs = Some vs.
Proof.
  intros Hnd Hall H. assert (Hn : names_ok (KNested fs)) by (rewrite names_ok_nested; split; assumption).
  pose proof (dict_roundtrip (KNested fs) Hn (OObj vs) (Some (DDict r))) as RT. rewrite to_dv_nested, H in RT. specialize (RT eq_refl).
  rewrite of_dv_nested in RT. destruct (of_fields r fs); [inversion RT; reflexivity|discriminate].
Qed.

(* defaults are elided at every depth; everything else is stored *)
Lemma default_number_elided d : to_dv (KNum d) (ONum d) = Some None.
Proof. cbn. rewrite Z.eqb_refl. reflexivity. Qed.
Lemma other_number_stored d z : z <> d -> to_dv (KNum d) (ONum z) = Some (Some (DNum z)).
Proof. intros H. cbn. destruct (z =? d) eqn:E; [apply Z.eqb_eq in E; contradiction|reflexivity]. Qed.

Example nested_dict_nonvacuous :
  let inner := [(1%nat, KNum 42); (2%nat, KArrDyn); (3%nat, KArrFixed [0; 0; 0])] in
  let outer := [(7%nat, KNested inner); (8%nat, KNum 0); (9%nat, KNested inner)] in
  let v := [OObj [ONum 42; OArr [1; 2]; OArr [0; 0; 0]]; ONum 5; OObj [ONum 7; OArr []; OArr [0; 1; 0]]] in
  to_fields outer v = Some [(7%nat, DDict [(2%nat, DArr [1; 2])]); (8%nat, DNum 5); (9%nat, DDict [(1%nat, DNum 7); (2%nat, DArr []); (3%nat, DArr [0; 1; 0])])] /\
  of_fields [(7%nat, DDict [(2%nat, DArr [1; 2])]); (8%nat, DNum 5); (9%nat, DDict [(1%nat, DNum 7); (2%nat, DArr []); (3%nat, DArr [0; 1; 0])])] outer = Some v.
Proof. cbv zeta. split; vm_compute; reflexivity. Qed.

(* ---- the order-insensitive judgement evaluated on observed dictionaries ----
   what HybridClass.to_dict must have produced for a value v of kind k, as the entry found under the field's name
   (None = no entry): numbers / fixed arrays are absent exactly when they equal their default, dynamic arrays are
   always present, nested objects are dictionaries whose entries conform field by field and which hold no other key *)
Fixpoint confb (k : fkind) (v : oval) (x : option dv) {struct k} : bool :=
  match k, v, x with
  | KNum d, ONum z, None => z =? d
  | KNum d, ONum z, Some (DNum z') => negb (z =? d) && (z' =? z)
  | KArrFixed d, OArr l, None => zs_eqb l d
  | KArrFixed d, OArr l, Some (DArr l') => negb (zs_eqb l d) && zs_eqb l' l
  | KArrDyn, OArr l, Some (DArr l') => zs_eqb l' l
  | KNested fs, OObj vs, Some (DDict d) =>
      (fix go (fs : list (nat * fkind)) (vs : list oval) : bool :=
         match fs, vs with
         | [], [] => true
         | (n, k') :: fs', v' :: vs' => confb k' v' (lookup n d) && go fs' vs'
         | _, _ => false
         end) fs vs
      && forallb (fun e : nat * dv => existsb (Nat.eqb (fst e)) (map fst fs)) d
  | _, _, _ => false
  end.
Definition conf_fields (d : list (nat * dv)) : list (nat * fkind) -> list oval -> bool :=
  fix go (fs : list (nat * fkind)) (vs : list oval) : bool :=
    match fs, vs with
    | [], [] => true
    | (n, k') :: fs', v' :: vs' => confb k' v' (lookup n d) && go fs' vs'
    | _, _ => false
    end.
Lemma confb_nested fs vs d : confb (KNested fs) (OObj vs) (Some (DDict d)) =
  conf_fields d fs vs && forallb (fun e : nat * dv => existsb (Nat.eqb (fst e)) (map fst fs)) d.
Proof. reflexivity. Qed.

Definition SND (k : fkind) : Prop := forall v x, confb k v x = true -> of_dv k x = Some v.
Lemma conf_fields_sound d : forall fs, Forall (fun nk => SND (snd nk)) fs -> forall vs, conf_fields d fs vs = true -> of_fields d fs = Some vs.
Proof.
  induction fs as [|[n k] fs IH]; intros HF vs H.
  - destruct vs; cbn in H; [reflexivity|discriminate].
  - destruct vs as [|v vs]; cbn in H; [discriminate|]. apply andb_prop in H. destruct H as [H1 H2].
    inversion HF as [|? ? Hk HFt]; subst. cbn [snd] in Hk.
    cbn [of_fields]. fold (of_fields d). rewrite (Hk v _ H1), (IH HFt vs H2). reflexivity.
Qed.
(* SOUNDNESS: a dictionary that conforms rebuilds the object *)
Theorem confb_sound : forall k, SND k.
Proof.
  apply fkind_ind'.
  - intros d v x H. destruct v as [z| |]; destruct x as [[z'| |]|]; cbn in H; try discriminate.
    + apply andb_prop in H. destruct H as [_ H]. apply Z.eqb_eq in H. subst. reflexivity.
    + apply Z.eqb_eq in H. subst. reflexivity.
  - intros d v x H. destruct v as [|l|]; destruct x as [[|l'|]|]; cbn in H; try discriminate.
    + apply andb_prop in H. destruct H as [_ H]. apply zs_eqb_eq in H. subst. reflexivity.
    + apply zs_eqb_eq in H. subst. reflexivity.
  - intros v x H. destruct v as [|l|]; destruct x as [[|l'|]|]; cbn in H; try discriminate. apply zs_eqb_eq in H. subst. reflexivity.
  - intros fs HF v x H. destruct v as [| |vs]; destruct x as [[| |d]|]; try (cbn in H; discriminate).
    rewrite confb_nested in H. apply andb_prop in H. destruct H as [H _].
    rewrite of_dv_nested, (conf_fields_sound d fs HF vs H). reflexivity.
Qed.

(* the model's own to_dict conforms (distinct python names at every level) *)
Lemma zs_eqb_refl l : zs_eqb l l = true.
Proof. induction l as [|x l IH]; [reflexivity|]. cbn. rewrite Z.eqb_refl, IH. reflexivity. Qed.
Definition CMP (k : fkind) : Prop := names_ok k -> forall v x, to_dv k v = Some x -> confb k v x = true.
Lemma conf_fields_complete : forall fs, Forall (fun nk => CMP (snd nk)) fs -> NoDup (map fst fs) -> all_names_ok fs ->
  forall vs r, to_fields fs vs = Some r -> forall d, (forall n, In n (map fst fs) -> lookup n d = lookup n r) -> conf_fields d fs vs = true.
Proof.
  induction fs as [|[n k] fs IH]; intros HF Hnd Hnames vs r H d Hd.
  - destruct vs; cbn in H; [reflexivity|discriminate].
  - destruct vs as [|v vs]; cbn in H; [discriminate|].
    inversion HF as [|? ? Hk HFt]; subst. cbn [snd] in Hk. cbn [map fst] in Hnd. inversion Hnd as [|? ? Hnotin Hnd']; subst.
    cbn in Hnames. destruct Hnames as [Hnk Hnt].
    destruct (to_dv k v) as [[x|]|] eqn:E1; [| |discriminate]; destruct (to_fields fs vs) as [r0|] eqn:E2; try discriminate; inversion H; subst r; clear H.
    + cbn [conf_fields]. fold (conf_fields d).
      assert (L : lookup n d = Some x). { rewrite (Hd n (or_introl eq_refl)). cbn. rewrite Nat.eqb_refl. reflexivity. }
      rewrite L, (Hk Hnk v (Some x) E1). cbn [andb].
      apply (IH HFt Hnd' Hnt vs r0 E2 d). intros m Hm. rewrite (Hd m (or_intror Hm)). cbn. destruct (Nat.eqb n m) eqn:E; [apply Nat.eqb_eq in E; subst; tauto|reflexivity].
    + cbn [conf_fields]. fold (conf_fields d).
      assert (L : lookup n d = None). { rewrite (Hd n (or_introl eq_refl)). apply lookup_not_in. intros Hin. apply Hnotin. eapply to_fields_names; eassumption. }
      rewrite L, (Hk Hnk v None E1). cbn [andb].
      apply (IH HFt Hnd' Hnt vs r0 E2 d). intros m Hm. apply Hd. right. exact Hm.
Qed.
Theorem to_dict_conforms : forall k, CMP k.
Proof.
  apply fkind_ind'.
  - intros d _ v x H. destruct v; cbn in H; try discriminate. inversion H; subst. destruct (z =? d) eqn:E; cbn; rewrite E; [reflexivity|rewrite Z.eqb_refl; reflexivity].
  - intros d _ v x H. destruct v; cbn in H; try discriminate. inversion H; subst. destruct (zs_eqb l d) eqn:E; cbn; rewrite E; [reflexivity|rewrite zs_eqb_refl; reflexivity].
  - intros _ v x H. destruct v; cbn in H; try discriminate. inversion H; subst. cbn. apply zs_eqb_refl.
  - intros fs HF Hn v x H. rewrite names_ok_nested in Hn. destruct Hn as [Hnd Hall].
    destruct v as [| |vs]; try (cbn in H; discriminate). rewrite to_dv_nested in H. destruct (to_fields fs vs) as [r|] eqn:E; [|discriminate]. inversion H; subst x.
    rewrite confb_nested. apply andb_true_intro. split.
    + apply (conf_fields_complete fs HF Hnd Hall vs r E r). intros; reflexivity.
    + apply forallb_forall. intros [n y] Hin. cbn [fst]. apply existsb_exists. exists n. split; [|apply Nat.eqb_refl].
      eapply to_fields_names; [exact E|]. apply in_map_iff. exists (n, y). split; [reflexivity|exact Hin].
Qed.

(* cases for the harness: class description (top level = nested kind), the object's value, the observed dictionary *)
Record dcase := mkDictCase { dk : list (nat * fkind); dvs : list oval; dd : list (nat * dv) }.
Definition dict_ok (c : dcase) : option nat := if confb (KNested (dk c)) (OObj (dvs c)) (Some (DDict (dd c))) then None else Some 1%nat.
Theorem dict_ok_sound c : dict_ok c = None -> of_fields (dd c) (dk c) = Some (dvs c).
Proof.
  unfold dict_ok. destruct (confb _ _ _) eqn:E; [|discriminate]. intros _.
  pose proof (confb_sound (KNested (dk c)) (OObj (dvs c)) (Some (DDict (dd c))) E) as H. rewrite of_dv_nested in H.
  destruct (of_fields (dd c) (dk c)); [inversion H; reflexivity|discriminate].
Qed.
