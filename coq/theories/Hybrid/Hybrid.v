(* Dressed (hybrid) objects over the reference store: a dressed object IS a location of the store
   (object identity + path of a nested part), so its attributes are by construction the buffer data;
   dictionary form with default elision; pickling as a sharing-preserving copy of buffers.
   Definitions only. *)
From Coq Require Import ZArith List Bool Lia.
Import ListNotations.
From XO Require Import Types RefOps.
Open Scope Z_scope.

(* ---- C18 ---- *)
Record dressed := mkD { d_obj : nat; d_path : list nat; d_movable : bool }.
(* the python name of a field is only a key of the renaming table: both names denote field index i *)
Definition getattr (st : store) (d : dressed) (i : nat) : option htree := read_at st (d_obj d) (d_path d ++ [i]).
Definition setattr (st : store) (d : dressed) (i : nat) (x : htree) : option store := write_at st (d_obj d) (d_path d ++ [i]) x.
(* the dressed part for a nested (by value) field, and for a reference field *)
Definition child_nested (d : dressed) (i : nat) : dressed := mkD (d_obj d) (d_path d ++ [i]) false.
Definition child_ref (st : store) (d : dressed) (i : nat) : option dressed :=
  match deref st (d_obj d) (d_path d ++ [i]) with Some r => Some (mkD r [] false) | None => None end.

(* assigning a dressed object: to a plain field its tree is COPIED into the field; to a reference
   field the reference is bound to it, unless it lives in another buffer: then refused, nothing changes *)
Definition tree_of (st : store) (d : dressed) : option htree := read_at st (d_obj d) (d_path d).
Definition assign_copy (st : store) (d : dressed) (i : nat) (src : dressed) : option store :=
  match tree_of st src with Some t => setattr st d i t | None => None end.
Inductive outcome := Done (st : store) | Refused.
Definition assign_ref (st : store) (buf_of : nat -> nat) (d : dressed) (i : nat) (src : dressed) : outcome :=
  if Nat.eqb (buf_of (d_obj d)) (buf_of (d_obj src)) && match d_path src with [] => true | _ => false end
  then match bind_existing st (d_obj d) (d_path d ++ [i]) (d_obj src) 0 with Some st' => Done st' | None => Refused end
  else Refused.
(* move: only top-level, movable, reference-free objects; the object gets a new identity with the same tree *)
Fixpoint ref_free (t : htree) : bool :=
  match t with HLeaf _ => true | HNode cs => forallb ref_free cs | HSlot _ _ => false end.
Definition move (st : store) (d : dressed) : option (store * dressed) :=
  match d_path d, d_movable d, nth_error st (d_obj d) with
  | [], true, Some t => if ref_free t then let '(st', id) := new_obj st t in Some (st', mkD id [] true) else None
  | _, _, _ => None
  end.

(* ---- C19: dictionary form ---- *)
(* a field: declared default (if any) and current scalar value *)
Record dfield := mkF { f_name : nat; f_default : option Z; f_value : Z }.
Definition to_dict (fs : list dfield) : list (nat * Z) :=
  flat_map (fun f => match f_default f with
                     | Some d => if d =? f_value f then [] else [(f_name f, f_value f)]
                     | None => [(f_name f, f_value f)] end) fs.
Fixpoint lookup (k : nat) (d : list (nat * Z)) : option Z :=
  match d with [] => None | (k', v) :: tl => if Nat.eqb k k' then Some v else lookup k tl end.
(* rebuild: a key that is absent takes the declared default *)
Definition from_dict (schema : list (nat * option Z)) (d : list (nat * Z)) : list (option Z) :=
  map (fun s => match lookup (fst s) d with Some v => Some v | None => snd s end) schema.
Definition schema_of (fs : list dfield) : list (nat * option Z) := map (fun f => (f_name f, f_default f)) fs.

(* ---- C20: pickling a group of objects copies every reachable buffer ONCE ---- *)
(* objects are (buffer id, offset); memo: old buffer id -> new buffer id *)
Fixpoint memo_find (b : nat) (memo : list (nat * nat)) : option nat :=
  match memo with [] => None | (o, n) :: tl => if Nat.eqb o b then Some n else memo_find b tl end.
Fixpoint unpickle (next : nat) (memo : list (nat * nat)) (objs : list (nat * Z)) : list (nat * Z) * list (nat * nat) :=
  match objs with
  | [] => ([], memo)
  | (b, off) :: tl =>
    match memo_find b memo with
    | Some nb => let '(r, m) := unpickle next memo tl in ((nb, off) :: r, m)
    | None => let '(r, m) := unpickle (S next) ((b, next) :: memo) tl in ((next, off) :: r, m)
    end
  end.
