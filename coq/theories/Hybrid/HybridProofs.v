From Coq Require Import ZArith List Bool Lia.
Import ListNotations.
From XO Require Import Types RefOps RefOpsProofs Hybrid.
Open Scope Z_scope.

(* ---- C18 ---- *)
(* attributes are the buffer data, and what is set is what is read *)
Theorem getattr_setattr st d i x st' : setattr st d i x = Some st' -> getattr st' d i = Some x.
Proof. unfold setattr, getattr. apply read_write_same. Qed.
(* a nested dressed part is the view of its field: same object, path extended *)
Theorem nested_child_is_field_view st d i j : getattr st (child_nested d i) j = read_at st (d_obj d) ((d_path d ++ [i]) ++ [j]).
Proof. reflexivity. Qed.
(* assigning to a plain field stores a copy: afterwards the field holds the source's tree, and later
   writes to the source object (another object of the store) do not show through *)
Theorem assign_copy_stores_value st d i src st' t : tree_of st src = Some t -> assign_copy st d i src = Some st' ->
  getattr st' d i = Some t.
Proof. unfold assign_copy. intros -> H. eapply getattr_setattr; exact H. Qed.
Theorem assign_copy_independent st d i src st' q x st'' : assign_copy st d i src = Some st' ->
  d_obj src <> d_obj d -> write_at st' (d_obj src) q x = Some st'' ->
  getattr st'' d i = getattr st' d i.
Proof.
  intros _ Hne Hw. unfold getattr, read_at. rewrite (write_other_object _ _ _ _ _ _ Hw) by congruence. reflexivity.
Qed.
(* assigning to a reference field shares the object; across buffers it is refused and the state is untouched *)
Theorem assign_ref_shares st buf_of d i src st' : assign_ref st buf_of d i src = Done st' ->
  child_ref st' d i = Some (mkD (d_obj src) [] false).
Proof.
  unfold assign_ref. destruct (Nat.eqb _ _ && _); [|discriminate].
  destruct (bind_existing st (d_obj d) (d_path d ++ [i]) (d_obj src) 0) as [s|] eqn:E; [|discriminate].
  intros H; inversion H; subst. unfold child_ref. rewrite (bind_existing_aliases _ _ _ _ _ _ E). reflexivity.
Qed.
Theorem assign_ref_cross_buffer_refused st buf_of d i src : buf_of (d_obj d) <> buf_of (d_obj src) ->
  assign_ref st buf_of d i src = Refused.
Proof. intros H. unfold assign_ref. apply Nat.eqb_neq in H. rewrite H. reflexivity. Qed.
(* move: refused for nested parts, non-movable and reference-bearing objects; otherwise the value is kept *)
Theorem move_refused_nested st d i p : d_path d = i :: p -> move st d = None.
Proof. intros H. unfold move. rewrite H. reflexivity. Qed.
Theorem move_refused_unmovable st d : d_movable d = false -> move st d = None.
Proof. intros H. unfold move. rewrite H. destruct (d_path d); reflexivity. Qed.
Theorem move_refused_with_refs st d t : nth_error st (d_obj d) = Some t -> ref_free t = false -> move st d = None.
Proof. intros H1 H2. unfold move. rewrite H1, H2. destruct (d_path d), (d_movable d); reflexivity. Qed.
Theorem move_relocates st d st' d' : move st d = Some (st', d') ->
  exists t, nth_error st (d_obj d) = Some t /\ nth_error st' (d_obj d') = Some t /\ d_obj d' = length st /\ d_path d' = [].
Proof.
  unfold move. destruct (d_path d); [|discriminate]. destruct (d_movable d); [|discriminate].
  destruct (nth_error st (d_obj d)) as [t|] eqn:E; [|discriminate]. destruct (ref_free t); [|discriminate].
  unfold new_obj. intros H; inversion H; subst. exists t. cbn [d_obj d_path]. repeat split; try reflexivity.
  rewrite nth_error_app2 by lia. rewrite Nat.sub_diag. reflexivity.
Qed.

(* ---- C19 ---- *)
Lemma lookup_app k a b : lookup k (a ++ b) = match lookup k a with Some v => Some v | None => lookup k b end.
Proof. induction a as [|[k' v] a IH]; [reflexivity|]. cbn. destruct (Nat.eqb k k'); [reflexivity|exact IH]. Qed.
Lemma lookup_to_dict_absent k fs : ~ In k (map f_name fs) -> lookup k (to_dict fs) = None.
Proof.
  induction fs as [|f fs IH]; intros H; [reflexivity|]. cbn [to_dict flat_map]. rewrite lookup_app.
  cbn [map In] in H. assert (Hk : Nat.eqb k (f_name f) = false) by (apply Nat.eqb_neq; intros E; apply H; left; congruence).
  fold (to_dict fs). rewrite IH by tauto.
  destruct (f_default f) as [d|]; [destruct (d =? f_value f)|]; cbn; rewrite ?Hk; reflexivity.
Qed.
(* rebuilding from the dictionary form gives back every field value; fields equal to their declared
   default are absent from the dictionary *)
Theorem from_dict_to_dict fs : NoDup (map f_name fs) ->
  from_dict (schema_of fs) (to_dict fs) = map (fun f => Some (f_value f)) fs.
Proof.
  induction fs as [|f fs IH]; intros Hnd; [reflexivity|]. inversion Hnd as [|? ? Hnot Hnd']; subst.
  unfold from_dict, schema_of in *. cbn [map fst snd]. f_equal.
  - cbn [to_dict flat_map]. rewrite lookup_app. destruct (f_default f) as [d|] eqn:Ed.
    + destruct (d =? f_value f) eqn:E.
      * cbn [lookup]. fold (to_dict fs). rewrite (lookup_to_dict_absent _ _ Hnot). apply Z.eqb_eq in E. congruence.
      * cbn [lookup]. rewrite Nat.eqb_refl. reflexivity.
    + cbn [lookup]. rewrite Nat.eqb_refl. reflexivity.
  - rewrite <- (IH Hnd'). rewrite !map_map. apply map_ext_in. intros g Hg. cbn [fst snd].
    cbn [to_dict flat_map]. rewrite lookup_app.
    assert (Hne : Nat.eqb (f_name g) (f_name f) = false).
    { apply Nat.eqb_neq. intros E. apply Hnot. rewrite <- E. apply in_map. exact Hg. }
    destruct (f_default f) as [d|]; [destruct (d =? f_value f)|]; cbn [lookup]; rewrite ?Hne; reflexivity.
Qed.
Theorem defaults_elided f fs d : In f fs -> f_default f = Some d -> f_value f = d -> NoDup (map f_name fs) ->
  lookup (f_name f) (to_dict fs) = None.
Proof.
  induction fs as [|g fs IH]; intros Hin Hd Hv Hnd; [destruct Hin|]. inversion Hnd as [|? ? Hnot Hnd']; subst.
  cbn [to_dict flat_map]. rewrite lookup_app. fold (to_dict fs). destruct Hin as [->|Hin].
  - rewrite Hd, Z.eqb_refl. cbn [lookup]. apply lookup_to_dict_absent. exact Hnot.
  - assert (Hne : Nat.eqb (f_name f) (f_name g) = false).
    { apply Nat.eqb_neq. intros E. apply Hnot. rewrite <- E. apply in_map. exact Hin. }
    rewrite (IH Hin Hd eq_refl Hnd').
    destruct (f_default g) as [d'|]; [destruct (d' =? f_value g)|]; cbn [lookup]; rewrite ?Hne; reflexivity.
Qed.

(* ---- C20 ---- *)
(* objects that shared a buffer share the copy; offsets are kept *)
Lemma memo_find_mono : forall objs next memo b nb r m, memo_find b memo = Some nb -> unpickle next memo objs = (r, m) -> memo_find b m = Some nb.
Proof.
  induction objs as [|[b' off] tl IH]; intros next memo b nb r m Hf H; cbn [unpickle] in H.
  - inversion H; subst. exact Hf.
  - destruct (memo_find b' memo) as [n'|] eqn:E.
    + destruct (unpickle next memo tl) as [r' m'] eqn:Eu. inversion H; subst. eapply IH; eassumption.
    + destruct (unpickle (S next) ((b', next) :: memo) tl) as [r' m'] eqn:Eu. inversion H; subst.
      eapply IH; [|exact Eu]. cbn [memo_find]. destruct (Nat.eqb b' b) eqn:Eb; [|exact Hf].
      apply Nat.eqb_eq in Eb. subst. congruence.
Qed.
Theorem unpickle_keeps_offsets : forall objs next memo r m, unpickle next memo objs = (r, m) -> map snd r = map snd objs.
Proof.
  induction objs as [|[b off] tl IH]; intros next memo r m H; cbn [unpickle] in H.
  - inversion H; reflexivity.
  - destruct (memo_find b memo).
    + destruct (unpickle next memo tl) as [r' m'] eqn:Eu. inversion H; subst. cbn. f_equal. eapply IH; exact Eu.
    + destruct (unpickle (S next) ((b, next) :: memo) tl) as [r' m'] eqn:Eu. inversion H; subst. cbn. f_equal. eapply IH; exact Eu.
Qed.
Theorem unpickle_maps_by_memo : forall objs next memo r m, unpickle next memo objs = (r, m) ->
  Forall2 (fun o n => memo_find (fst o) m = Some (fst n)) objs r.
Proof.
  induction objs as [|[b off] tl IH]; intros next memo r m H; cbn [unpickle] in H.
  - inversion H; constructor.
  - destruct (memo_find b memo) as [nb|] eqn:E.
    + destruct (unpickle next memo tl) as [r' m'] eqn:Eu. inversion H; subst. constructor; [|eapply IH; exact Eu].
      cbn [fst]. eapply memo_find_mono; eassumption.
    + destruct (unpickle (S next) ((b, next) :: memo) tl) as [r' m'] eqn:Eu. inversion H; subst. constructor; [|eapply IH; exact Eu].
      cbn [fst]. eapply memo_find_mono; [|exact Eu]. cbn [memo_find]. rewrite Nat.eqb_refl. reflexivity.
Qed.
(* hence two pickled objects of one buffer are restored into one buffer *)
Theorem unpickle_shares objs next memo r m i j oi oj ni nj :
  unpickle next memo objs = (r, m) ->
  nth_error objs i = Some oi -> nth_error objs j = Some oj -> nth_error r i = Some ni -> nth_error r j = Some nj ->
  fst oi = fst oj -> fst ni = fst nj.
Proof.
  intros H Hi Hj Hri Hrj Heq. pose proof (unpickle_maps_by_memo _ _ _ _ _ H) as F.
  assert (G : forall k o n, nth_error objs k = Some o -> nth_error r k = Some n -> memo_find (fst o) m = Some (fst n)).
  { clear - F. induction F as [|o n objs r Hon F IH]; intros k o' n' Ho Hn; [destruct k; discriminate|].
    destruct k; cbn in Ho, Hn; [inversion Ho; inversion Hn; subst; exact Hon|eapply IH; eassumption]. }
  pose proof (G _ _ _ Hi Hri) as A. pose proof (G _ _ _ Hj Hrj) as B. rewrite Heq in A. congruence.
Qed.
