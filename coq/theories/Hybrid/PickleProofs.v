(* More about the sharing-preserving copy Hybrid.unpickle (C20): a part pickled together with its container stays
   inside it, and every restored object lives in a buffer identity that did not exist before (independence). *)
From Coq Require Import ZArith List Bool Lia.
Import ListNotations.
From XO Require Import Hybrid HybridProofs.
Open Scope Z_scope.

Lemma nth_error_map_snd {A B} (l : list (A * B)) i x : nth_error l i = Some x -> nth_error (map snd l) i = Some (snd x).
Proof. intros H. rewrite nth_error_map, H. reflexivity. Qed.

(* container at index i, its part at index j in the same pickle: same buffer before, the part d bytes into the container *)
Theorem unpickle_part_stays_in_container objs next memo r m i j oi oj ni nj d :
  unpickle next memo objs = (r, m) ->
  nth_error objs i = Some oi -> nth_error objs j = Some oj -> nth_error r i = Some ni -> nth_error r j = Some nj ->
  fst oi = fst oj -> snd oj = snd oi + d ->
  fst ni = fst nj /\ snd nj = snd ni + d.
Proof.
  intros H Hi Hj Hni Hnj Hb Ho. split.
  - exact (unpickle_shares objs next memo r m i j oi oj ni nj H Hi Hj Hni Hnj Hb).
  - pose proof (unpickle_keeps_offsets objs next memo r m H) as E.
    pose proof (nth_error_map_snd _ _ _ Hni) as A. pose proof (nth_error_map_snd _ _ _ Hnj) as B. rewrite E in A, B.
    rewrite (nth_error_map_snd _ _ _ Hi) in A. rewrite (nth_error_map_snd _ _ _ Hj) in B. inversion A; inversion B. lia.
Qed.

(* independence: with an empty memo every restored object gets a buffer identity >= next, i.e. one that no
   existing buffer has (identities below next are the existing ones) *)
Lemma unpickle_ids : forall objs next memo r m, unpickle next memo objs = (r, m) ->
  forall x, In x r -> (exists b, memo_find b memo = Some (fst x)) \/ (next <= fst x)%nat.
Proof.
  induction objs as [|[b off] tl IH]; intros next memo r m H x Hin; cbn [unpickle] in H.
  - inversion H; subst. destruct Hin.
  - destruct (memo_find b memo) as [nb|] eqn:Ef.
    + destruct (unpickle next memo tl) as [r' m'] eqn:Eu. inversion H; subst. destruct Hin as [<-|Hin].
      * left. exists b. exact Ef.
      * eapply IH; [exact Eu|exact Hin].
    + destruct (unpickle (S next) ((b, next) :: memo) tl) as [r' m'] eqn:Eu. inversion H; subst. destruct Hin as [<-|Hin].
      * right. cbn. lia.
      * destruct (IH (S next) ((b, next) :: memo) r' m Eu x Hin) as [[b' Hb']|Hge].
        -- cbn [memo_find] in Hb'. destruct (Nat.eqb b b'); [inversion Hb'; right; lia|left; exists b'; exact Hb'].
        -- right. lia.
Qed.
Theorem unpickle_fresh_buffers objs next r m : unpickle next [] objs = (r, m) -> forall x, In x r -> (next <= fst x)%nat.
Proof.
  intros H x Hin. destruct (unpickle_ids objs next [] r m H x Hin) as [[b Hb]|Hge]; [cbn in Hb; discriminate|exact Hge].
Qed.

Example unpickle_nonvacuous :
  unpickle 10 [] [(3%nat, 0); (3%nat, 48); (5%nat, 0); (3%nat, 16)] = ([(10%nat, 0); (10%nat, 48); (11%nat, 0); (10%nat, 16)], [(5%nat, 11%nat); (3%nat, 10%nat)]).
Proof. vm_compute. reflexivity. Qed.
