(* The history judgement of C13 is exact: a history is accepted if and only if the model reproduces it, and a
   rejection names the FIRST step that the model does not reproduce (everything before it conforms). *)
From Coq Require Import ZArith List Bool Lia.
Import ListNotations.
From XO Require Import BufOps BufOpsProofs.
Open Scope Z_scope.

Lemma list_eqb_refl : forall a, list_eqb a a = true.
Proof. induction a as [|x a IH]; cbn [list_eqb]; [reflexivity|]. rewrite Z.eqb_refl, IH. reflexivity. Qed.

Theorem check_hist_complete : forall h s n, conforms s h -> check_hist s n h = None.
Proof.
  induction h as [|st tl IH]; intros s n H; [reflexivity|]. inversion H as [|s0 st0 tl0 Hok Hres Hmem Htl]; subst.
  cbn [check_hist]. rewrite Hok. destruct (exec s (bo_op st)) as [s' r] eqn:Ee. cbn [fst snd] in *. subst r.
  rewrite Hmem, !list_eqb_refl. cbn [andb]. apply IH. exact Htl.
Qed.

Theorem check_hist_exact : forall h s n, check_hist s n h = None <-> conforms s h.
Proof. intros h s n. split; [apply check_hist_sound|apply check_hist_complete]. Qed.

(* the state the model is in after a prefix of the history *)
Definition after (s : bst) (pre : list bobs) : bst := fold_left (fun s st => fst (exec s (bo_op st))) pre s.

Theorem check_hist_first_failure : forall h s n k, check_hist s n h = Some k ->
  exists pre st post, h = pre ++ st :: post /\ k = (n + length pre)%nat /\ conforms s pre /\ ~ conforms (after s pre) [st].
Proof.
  induction h as [|st tl IH]; intros s n k H; [discriminate|]. cbn [check_hist] in H.
  destruct (op_ok s (bo_op st)) eqn:Eok.
  - destruct (exec s (bo_op st)) as [s' r] eqn:Ee.
    destruct (list_eqb r (bo_res st) && list_eqb (b_mem s') (bo_mem st)) eqn:Ec.
    + apply andb_prop in Ec. destruct Ec as [A B]. apply list_eqb_eq in A, B.
      destruct (IH _ _ _ H) as [pre [st' [post [Eh [Ek [Hc Hn]]]]]].
      exists (st :: pre), st', post. split; [rewrite Eh; reflexivity|]. split; [cbn [length]; lia|]. split.
      * constructor; rewrite ?Ee; cbn [fst snd]; assumption.
      * unfold after in *. cbn [fold_left]. rewrite Ee. cbn [fst]. exact Hn.
    + inversion H; subst. exists [], st, tl. split; [reflexivity|]. split; [cbn [length]; lia|]. split; [constructor|].
      unfold after. cbn [fold_left]. intros Hc. inversion Hc as [|s0 st0 tl0 Hok Hres Hmem Htl]; subst.
      rewrite Ee in Hres, Hmem. cbn [fst snd] in Hres, Hmem. rewrite Hres, Hmem, !list_eqb_refl in Ec. discriminate.
  - inversion H; subst. exists [], st, tl. split; [reflexivity|]. split; [cbn [length]; lia|]. split; [constructor|].
    unfold after. cbn [fold_left]. intros Hc. inversion Hc; subst. congruence.
Qed.
