(* CPU buffer copy primitives (BufferNumpy / BufferByteArray of xobjects/context_cpu.py
   and XBuffer.update_from_xbuffer / grow of context.py) on byte lists.
   Both buffer kinds share this model: their observable contract is the same.
   Definitions only; lemmas in BufOpsProofs.v. *)
From Coq Require Import ZArith List Bool Lia.
Import ListNotations.
Open Scope Z_scope.

Definition mem := list Z.     (* bytes 0..255 *)

Definition rd (m : mem) (off n : Z) : list Z := firstn (Z.to_nat n) (skipn (Z.to_nat off) m).
(* buffer[off : off+len(bs)] = bs   (in-range: 0 <= off, off + len bs <= len m) *)
Definition wr (m : mem) (off : Z) (bs : list Z) : mem :=
  firstn (Z.to_nat off) m ++ bs ++ skipn (Z.to_nat off + length bs) m.
Definition zeros (n : Z) : mem := repeat 0 (Z.to_nat n).
Definition in_range (m : mem) (off n : Z) : Prop := 0 <= off /\ 0 <= n /\ off + n <= Z.of_nat (length m).
Definition in_rangeb (m : mem) (off n : Z) : bool := (0 <=? off) && (0 <=? n) && (off + n <=? Z.of_nat (length m)).

(* state: the buffer, the independent copies extracted so far, and native destination
   arrays handed to copy_to_native *)
Record bst := mkB { b_mem : mem; b_copies : list (list Z) }.

Inductive bop :=
| BUpdNative (off : Z) (src : list Z) (soff n : Z)   (* update_from_native(offset, source, source_offset, nbytes) *)
| BCopyToNative (dest : list Z) (doff soff n : Z)    (* copy_to_native(dest, dest_offset, source_offset, nbytes): result = new dest *)
| BToNative (off n : Z)                              (* to_native: an independent copy *)
| BToBytearray (off n : Z)                           (* to_bytearray: an independent copy *)
| BUpdBuffer (off : Z) (src : list Z)                (* update_from_buffer(offset, bytes-like) *)
| BUpdNplike (off : Z) (converted : list Z)          (* update_from_nplike: [converted] = C-order bytes of value.astype(dest dtype), numpy's job *)
| BUpdXbuffer (off : Z) (srcbuf : list Z) (soff n : Z) (* update_from_xbuffer, same or other context *)
| BReadView (off n : Z)                              (* read n bytes through a typed view made by to_nplike at off *)
| BWriteView (off : Z) (bs : list Z)                 (* write through such a view *)
| BReadCopy (k : nat)                                (* look again at the k-th extracted copy *)
| BWriteCopy (k : nat) (off : Z) (bs : list Z)       (* mutate the k-th extracted copy *)
| BGrow (n : Z)                                      (* XBuffer.grow: new zeroed storage, old bytes copied over *)
| BNewBuffer (n : Z).                                (* _new_buffer(n): fresh zeroed native storage (result) *)

Fixpoint set_nth {A} (l : list A) (k : nat) (x : A) : list A :=
  match l, k with
  | [], _ => []
  | _ :: tl, O => x :: tl
  | a :: tl, S k' => a :: set_nth tl k' x
  end.

(* result: bytes returned by the call (empty for pure updates) *)
Definition exec (s : bst) (o : bop) : bst * list Z :=
  let m := b_mem s in
  match o with
  | BUpdNative off src soff n => (mkB (wr m off (rd src soff n)) (b_copies s), [])
  | BCopyToNative dest doff soff n => (s, wr dest doff (rd m soff n))
  | BToNative off n => (mkB m (b_copies s ++ [rd m off n]), rd m off n)
  | BToBytearray off n => (mkB m (b_copies s ++ [rd m off n]), rd m off n)
  | BUpdBuffer off src => (mkB (wr m off src) (b_copies s), [])
  | BUpdNplike off conv => (mkB (wr m off conv) (b_copies s), [])
  | BUpdXbuffer off srcbuf soff n => (mkB (wr m off (rd srcbuf soff n)) (b_copies s), [])
  | BReadView off n => (s, rd m off n)
  | BWriteView off bs => (mkB (wr m off bs) (b_copies s), [])
  | BReadCopy k => (s, nth k (b_copies s) [])
  | BWriteCopy k off bs => (mkB m (set_nth (b_copies s) k (wr (nth k (b_copies s) []) off bs)), [])
  | BGrow n => (mkB (wr (zeros (Z.of_nat (length m) + n)) 0 m) (b_copies s), [])
  | BNewBuffer n => (s, zeros n)
  end.

(* the precondition under which the property speaks: ranges inside the buffers *)
Definition op_ok (s : bst) (o : bop) : bool :=
  let m := b_mem s in
  match o with
  | BUpdNative off src soff n => in_rangeb m off n && in_rangeb src soff n
  | BCopyToNative dest doff soff n => in_rangeb m soff n && in_rangeb dest doff n
  | BToNative off n | BToBytearray off n | BReadView off n => in_rangeb m off n
  | BUpdBuffer off src | BUpdNplike off src | BWriteView off src => in_rangeb m off (Z.of_nat (length src))
  | BUpdXbuffer off srcbuf soff n => in_rangeb m off n && in_rangeb srcbuf soff n
  | BReadCopy k => Nat.ltb k (length (b_copies s))
  | BWriteCopy k off bs => Nat.ltb k (length (b_copies s)) && in_rangeb (nth k (b_copies s) []) off (Z.of_nat (length bs))
  | BGrow n => 0 <=? n
  | BNewBuffer n => 0 <=? n
  end.

(* ---- judging an observed history: each step records the result the implementation
   returned and the whole buffer afterwards ---- *)
Fixpoint list_eqb (a b : list Z) : bool :=
  match a, b with
  | [], [] => true
  | x :: a', y :: b' => (x =? y) && list_eqb a' b'
  | _, _ => false
  end.
Record bobs := mkBO { bo_op : bop; bo_res : list Z; bo_mem : mem }.
Fixpoint check_hist (s : bst) (n : nat) (h : list bobs) : option nat :=
  match h with
  | [] => None
  | st :: tl =>
    if op_ok s (bo_op st) then
      let '(s', r) := exec s (bo_op st) in
      if list_eqb r (bo_res st) && list_eqb (b_mem s') (bo_mem st) then check_hist s' (S n) tl else Some n
    else Some n
  end.
Record bhist := mkBH { bh_init : mem; bh_steps : list bobs }.
Definition hist_ok (h : bhist) : option nat := check_hist (mkB (bh_init h) []) 0 (bh_steps h).
