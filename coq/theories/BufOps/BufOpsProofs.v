From Coq Require Import ZArith List Bool Lia.
Import ListNotations.
From XO Require Import BufOps.
Open Scope Z_scope.

Lemma wr_length m off bs : in_range m off (Z.of_nat (length bs)) -> length (wr m off bs) = length m.
Proof.
  unfold in_range, wr. intros [H1 [H2 H3]].
  rewrite !app_length, firstn_length, skipn_length. lia.
Qed.

Lemma my_nth_firstn {A} : forall (l : list A) n i d, (i < n)%nat -> nth i (firstn n l) d = nth i l d.
Proof.
  induction l as [|a l IH]; intros [|n] [|i] d H; cbn; try reflexivity; try lia. apply IH. lia.
Qed.
Lemma my_nth_skipn {A} : forall (l : list A) n i d, nth i (skipn n l) d = nth (n + i) l d.
Proof.
  induction l as [|a l IH]; intros [|n] i d; cbn [skipn Nat.add]; try reflexivity.
  - destruct i; reflexivity.
  - rewrite IH. reflexivity.
Qed.

(* byte i of a list, for reasoning per position *)
Definition byte (m : mem) (i : Z) : Z := nth (Z.to_nat i) m 0.

Lemma byte_wr_in m off bs i : in_range m off (Z.of_nat (length bs)) ->
  off <= i < off + Z.of_nat (length bs) -> byte (wr m off bs) i = byte bs (i - off).
Proof.
  unfold in_range, wr, byte. intros [H1 [H2 H3]] Hi.
  rewrite app_nth2 by (rewrite firstn_length; lia).
  rewrite firstn_length. replace (Init.Nat.min (Z.to_nat off) (length m)) with (Z.to_nat off) by lia.
  rewrite app_nth1 by lia. f_equal. lia.
Qed.
Lemma byte_wr_out m off bs i : in_range m off (Z.of_nat (length bs)) ->
  0 <= i -> (i < off \/ off + Z.of_nat (length bs) <= i) -> byte (wr m off bs) i = byte m i.
Proof.
  unfold in_range, wr, byte. intros [H1 [H2 H3]] Hi0 [Hi|Hi].
  - rewrite app_nth1 by (rewrite firstn_length; lia). apply my_nth_firstn. lia.
  - rewrite app_nth2 by (rewrite firstn_length; lia).
    rewrite firstn_length. replace (Init.Nat.min (Z.to_nat off) (length m)) with (Z.to_nat off) by lia.
    rewrite app_nth2 by lia. rewrite my_nth_skipn. f_equal. lia.
Qed.

Lemma rd_length m off n : in_range m off n -> length (rd m off n) = Z.to_nat n.
Proof. unfold in_range, rd. intros [H1 [H2 H3]]. rewrite firstn_length, skipn_length. lia. Qed.
Lemma byte_rd m off n i : in_range m off n -> 0 <= i < n -> byte (rd m off n) i = byte m (off + i).
Proof.
  unfold in_range, rd, byte. intros [H1 [H2 H3]] Hi.
  rewrite my_nth_firstn by lia. rewrite my_nth_skipn. f_equal. lia.
Qed.

(* reading back what was written *)
Theorem rd_wr_same m off bs : in_range m off (Z.of_nat (length bs)) -> rd (wr m off bs) off (Z.of_nat (length bs)) = bs.
Proof.
  unfold in_range, rd, wr. intros [H1 [H2 H3]].
  rewrite skipn_app. rewrite firstn_length.
  replace (Init.Nat.min (Z.to_nat off) (length m)) with (Z.to_nat off) by lia.
  rewrite skipn_all2 by (rewrite firstn_length; lia). rewrite Nat.sub_diag. cbn [skipn app].
  rewrite Nat2Z.id. rewrite firstn_app, Nat.sub_diag, firstn_all. cbn [firstn]. rewrite app_nil_r. reflexivity.
Qed.

(* the frame: a write touches exactly [off, off+len) *)
Theorem write_frame m off bs : in_range m off (Z.of_nat (length bs)) ->
  length (wr m off bs) = length m /\
  (forall i, 0 <= i -> (i < off \/ off + Z.of_nat (length bs) <= i) -> byte (wr m off bs) i = byte m i) /\
  (forall i, off <= i < off + Z.of_nat (length bs) -> byte (wr m off bs) i = byte bs (i - off)).
Proof.
  intros H. split; [apply wr_length; exact H|]. split.
  - intros i. apply byte_wr_out; exact H.
  - intros i. apply byte_wr_in; exact H.
Qed.

(* every updating primitive moves exactly the requested bytes *)
Definition written (o : bop) (s : bst) : option (Z * list Z) :=
  match o with
  | BUpdNative off src soff n => Some (off, rd src soff n)
  | BUpdBuffer off src | BUpdNplike off src | BWriteView off src => Some (off, src)
  | BUpdXbuffer off srcbuf soff n => Some (off, rd srcbuf soff n)
  | _ => None
  end.

Lemma in_rangeb_spec m off n : in_rangeb m off n = true <-> in_range m off n.
Proof. unfold in_rangeb, in_range. rewrite !andb_true_iff, !Z.leb_le. tauto. Qed.

Theorem update_moves_exactly s o off bs : op_ok s o = true -> written o s = Some (off, bs) ->
  let m' := b_mem (fst (exec s o)) in
  in_range (b_mem s) off (Z.of_nat (length bs)) /\
  length m' = length (b_mem s) /\
  rd m' off (Z.of_nat (length bs)) = bs /\
  (forall i, 0 <= i -> (i < off \/ off + Z.of_nat (length bs) <= i) -> byte m' i = byte (b_mem s) i) /\
  b_copies (fst (exec s o)) = b_copies s.
Proof.
  intros Hok Hw.
  assert (Hr : in_range (b_mem s) off (Z.of_nat (length bs)) /\ b_mem (fst (exec s o)) = wr (b_mem s) off bs /\ b_copies (fst (exec s o)) = b_copies s).
  { destruct o; cbn [written] in Hw; try discriminate; inversion Hw; subst; cbn [op_ok exec fst b_mem b_copies] in *.
    - apply andb_prop in Hok. destruct Hok as [A B]. apply in_rangeb_spec in A, B.
      rewrite rd_length by exact B. split; [|split; reflexivity]. destruct B as [_ [B2 _]]. rewrite Z2Nat.id by lia. exact A.
    - apply in_rangeb_spec in Hok. auto.
    - apply in_rangeb_spec in Hok. auto.
    - apply andb_prop in Hok. destruct Hok as [A B]. apply in_rangeb_spec in A, B.
      rewrite rd_length by exact B. split; [|split; reflexivity]. destruct B as [_ [B2 _]]. rewrite Z2Nat.id by lia. exact A.
    - apply in_rangeb_spec in Hok. auto. }
  destruct Hr as [Hr [Hm Hc]]. cbv zeta. rewrite Hm. split; [exact Hr|]. split; [apply wr_length; exact Hr|].
  split; [apply rd_wr_same; exact Hr|]. split; [|exact Hc]. intros i. apply byte_wr_out; exact Hr.
Qed.

(* extraction primitives return exactly the requested bytes and change nothing *)
Theorem extract_exact s off n : in_range (b_mem s) off n ->
  let '(s1, r1) := exec s (BToNative off n) in
  let '(s2, r2) := exec s (BToBytearray off n) in
  r1 = rd (b_mem s) off n /\ r2 = r1 /\ b_mem s1 = b_mem s /\ b_mem s2 = b_mem s /\
  length r1 = Z.to_nat n /\ forall i, 0 <= i < n -> byte r1 i = byte (b_mem s) (off + i).
Proof.
  intros H. cbn [exec]. repeat split; try reflexivity.
  - apply rd_length; exact H.
  - intros i Hi. apply byte_rd; assumption.
Qed.

(* copy_to_native writes exactly n bytes of the destination and leaves the buffer alone *)
Theorem copy_to_native_exact s dest doff soff n : in_range (b_mem s) soff n -> in_range dest doff n ->
  let '(s', d') := exec s (BCopyToNative dest doff soff n) in
  s' = s /\ length d' = length dest /\ rd d' doff n = rd (b_mem s) soff n /\
  forall i, 0 <= i -> (i < doff \/ doff + n <= i) -> byte d' i = byte dest i.
Proof.
  intros Hs Hd. cbn [exec].
  assert (Hl : length (rd (b_mem s) soff n) = Z.to_nat n) by (apply rd_length; exact Hs).
  assert (Hr : in_range dest doff (Z.of_nat (length (rd (b_mem s) soff n)))).
  { rewrite Hl. destruct Hd as [A [B C]]. rewrite Z2Nat.id by lia. repeat split; assumption. }
  split; [reflexivity|]. split; [apply wr_length; exact Hr|]. split.
  - pose proof (rd_wr_same dest doff _ Hr) as E. rewrite Hl in E. destruct Hd as [A [B C]]. rewrite Z2Nat.id in E by lia. exact E.
  - intros i Hi Ho. apply byte_wr_out; [exact Hr|exact Hi|]. rewrite Hl. destruct Hd as [A [B C]]. rewrite Z2Nat.id by lia. exact Ho.
Qed.

(* C04's data clause: growing copies every old byte to the same offset of the new storage *)
Theorem grow_preserves m n : 0 <= n ->
  let m' := b_mem (fst (exec (mkB m []) (BGrow n))) in
  Z.of_nat (length m') = Z.of_nat (length m) + n /\ rd m' 0 (Z.of_nat (length m)) = m /\
  forall i, Z.of_nat (length m) <= i -> byte m' i = 0.
Proof.
  intros Hn. cbn [exec fst b_mem].
  assert (Hz : length (zeros (Z.of_nat (length m) + n)) = Z.to_nat (Z.of_nat (length m) + n)) by (unfold zeros; apply repeat_length).
  assert (Hr : in_range (zeros (Z.of_nat (length m) + n)) 0 (Z.of_nat (length m))).
  { unfold in_range. rewrite Hz. lia. }
  split; [rewrite wr_length by exact Hr; rewrite Hz; lia|]. split; [apply rd_wr_same; exact Hr|].
  intros i Hi. rewrite byte_wr_out by (try exact Hr; lia). unfold byte, zeros.
  apply nth_repeat.
Qed.

(* views alias the buffer: what a view reads is whatever was last written there *)
Theorem views_alias s off bs : in_range (b_mem s) off (Z.of_nat (length bs)) ->
  forall o, written o s = Some (off, bs) -> op_ok s o = true ->
  snd (exec (fst (exec s o)) (BReadView off (Z.of_nat (length bs)))) = bs.
Proof.
  intros Hr o Hw Hok. cbn [exec snd].
  destruct (update_moves_exactly s o off bs Hok Hw) as [_ [_ [E _]]]. exact E.
Qed.

(* extracted copies are values: no buffer operation changes them, and mutating a copy
   does not change the buffer *)
Lemma nth_set_nth_other {A} (l : list A) k j x d : k <> j -> nth j (set_nth l k x) d = nth j l d.
Proof.
  revert k j. induction l as [|a l IH]; intros [|k] [|j] H; cbn; try reflexivity; try congruence.
  apply IH. congruence.
Qed.
Lemma nth_app_old {A} (l : list A) x j d : (j < length l)%nat -> nth j (l ++ [x]) d = nth j l d.
Proof. intros H. apply app_nth1. exact H. Qed.

Theorem copies_independent s o j : (j < length (b_copies s))%nat ->
  (forall k off bs, o = BWriteCopy k off bs -> k <> j) ->
  nth j (b_copies (fst (exec s o))) [] = nth j (b_copies s) [] /\
  (forall k off bs, o = BWriteCopy k off bs -> b_mem (fst (exec s o)) = b_mem s).
Proof.
  intros Hj Hne. split.
  - destruct o; cbn [exec fst b_copies]; try reflexivity; try (apply nth_app_old; exact Hj).
    apply nth_set_nth_other. eapply Hne. reflexivity.
  - intros k off bs ->. reflexivity.
Qed.

(* the history checker accepts only histories the model reproduces *)
Lemma list_eqb_eq : forall a b, list_eqb a b = true -> a = b.
Proof.
  induction a as [|x a IH]; intros [|y b] H; cbn in H; try discriminate; [reflexivity|].
  apply andb_prop in H. destruct H as [A B]. apply Z.eqb_eq in A. subst. f_equal. apply IH; exact B.
Qed.
Inductive conforms : bst -> list bobs -> Prop :=
| CF_nil s : conforms s []
| CF_cons s st tl : op_ok s (bo_op st) = true ->
    snd (exec s (bo_op st)) = bo_res st -> b_mem (fst (exec s (bo_op st))) = bo_mem st ->
    conforms (fst (exec s (bo_op st))) tl -> conforms s (st :: tl).
Theorem check_hist_sound : forall h s n, check_hist s n h = None -> conforms s h.
Proof.
  induction h as [|st tl IH]; intros s n H; [constructor|]. cbn [check_hist] in H.
  destruct (op_ok s (bo_op st)) eqn:Eok; [|discriminate].
  destruct (exec s (bo_op st)) as [s' r] eqn:Ee.
  destruct (list_eqb r (bo_res st) && list_eqb (b_mem s') (bo_mem st)) eqn:Ec; [|discriminate].
  apply andb_prop in Ec. destruct Ec as [A B]. apply list_eqb_eq in A, B.
  constructor; rewrite ?Ee; cbn [fst snd]; try assumption. eapply IH; exact H.
Qed.
