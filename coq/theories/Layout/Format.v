(* The documented binary format (Architecture.md, docs/architecture/types.rst, and the
   text of property C05), as an encoder producing the byte image of a reference-free
   value and a STRICT decoder that reads a value back from raw bytes while validating
   every redundant header word (sizes, strides, offset tables, padding of strings).
   Definitions only. *)
From Coq Require Import ZArith List Bool Lia.
Import ListNotations.
From XO Require Import Slots Strides BufOps Types.
Open Scope Z_scope.

(* a cell of an image: a defined byte, or padding no reader ever looks at *)
Definition cell := option Z.
Definition bytes (bs : list Z) : list cell := map Some bs.
Definition pad (n : Z) : list cell := repeat None (Z.to_nat n).
Definition padslot (l : list cell) : list cell := l ++ pad (slot (len l) - len l).
Definition padto (l : list cell) (n : Z) : list cell := l ++ pad (n - len l).

Fixpoint seqopt {A} (l : list (option A)) : option (list A) :=
  match l with
  | [] => Some []
  | Some x :: tl => match seqopt tl with Some r => Some (x :: r) | None => None end
  | None :: _ => None
  end.

(* logical C-order flat index of the element stored at memory position p *)
Definition cshape_of (sh : list Z) (order : list nat) : list Z := gather 0 sh order.
Definition logical_of_mem (sh : list Z) (order : list nat) (p : Z) : Z :=
  let m := unpos (cshape_of sh order) p in                       (* memory multi-index *)
  let idx := map (fun i => nth (index_of i order) m 0) (seq 0 (length order)) in
  pos sh idx.
Definition mem_positions (sh : list Z) : list Z := map Z.of_nat (seq 0 (Z.to_nat (prod sh))).

(* prefix sums: offsets of consecutive parts starting at [start] *)
Fixpoint offsets_from (start : Z) (sizes : list Z) : list Z :=
  match sizes with [] => [] | s :: tl => start :: offsets_from (start + s) tl end.
Definition sumz (l : list Z) : Z := fold_right Z.add 0 l.

(* ---------------------------------------------------------------- encoder *)
Definition enc_struct (fs : list ty) (es : list (list cell)) : list cell :=
  let fe := combine fs es in
  let stat := filter (fun p => is_static (fst p)) fe in
  let dyn := filter (fun p => negb (is_static (fst p))) fe in
  match dyn with
  | [] => concat (map (fun p => padslot (snd p)) fe)
  | _ :: _ =>
    let stat_img := concat (map (fun p => padslot (snd p)) stat) in
    let hdr := 8 + len stat_img + 8 * (len dyn - 1) in
    let dsizes := map (fun p => slot (len (snd p))) dyn in
    let doffs := offsets_from hdr dsizes in
    let total := hdr + sumz dsizes in
    bytes (enc64 total) ++ stat_img ++ concat (map (fun o => bytes (enc64 o)) (tl doffs))
      ++ concat (map (fun p => padslot (snd p)) dyn)
  end.

Definition enc_array (item : ty) (shape : list (option Z)) (order : list nat) (sh : list Z) (es : list (list cell)) : list cell :=
  let n := prod sh in
  let st := is_static item in
  let nd := ndyn shape in
  let hdr := arr_header st shape in
  let es_mem := map (fun p => nth (Z.to_nat (logical_of_mem sh order p)) es []) (mem_positions sh) in
  let isz := match csize item with Some s => s | None => 8 end in
  let strides := if (0 <? nd) && (1 <? len shape) then get_strides sh order isz else [] in
  if st then
    let body := concat es_mem in
    let total := slot (hdr + len body) in
    (if nd =? 0 then [] else bytes (enc64 total) ++ concat (map (fun d => bytes (enc64 d)) (dyn_dims shape sh)) ++ concat (map (fun s => bytes (enc64 s)) strides))
    ++ padto body (total - hdr)
  else
    let sizes := map (fun e => slot (len e)) es_mem in
    let offs := offsets_from (hdr + 8 * n) sizes in
    let total := slot (hdr + 8 * n + sumz sizes) in
    bytes (enc64 total) ++ concat (map (fun d => bytes (enc64 d)) (dyn_dims shape sh)) ++ concat (map (fun s => bytes (enc64 s)) strides)
    ++ concat (map (fun o => bytes (enc64 o)) offs)
    ++ padto (concat (map padslot es_mem)) (total - hdr - 8 * n).

(* every header word is a signed 64-bit integer: a value whose dimensions or strides do not fit has no image *)
Definition fits64b (x : Z) : bool := (- 2^63 <=? x) && (x <? 2^63).
Definition words_fit (item : ty) (shape : list (option Z)) (order : list nat) (sh : list Z) : bool :=
  forallb fits64b (dyn_dims shape sh) &&
  forallb fits64b (get_strides sh order (match csize item with Some s => s | None => 8 end)).

(* image of a reference-free value; None when the value does not have the type *)
Fixpoint enc (t : ty) (v : val) {struct t} : option (list cell) :=
  match t, v with
  | TScalar k, VNum bs => if len bs =? ssize k then Some (bytes bs) else None
  | TString, VStr bs size =>
      if (8 + len bs + 1 <=? size) && forallb (fun b => negb (b =? 0)) bs
      then Some (bytes (enc64 size) ++ bytes bs ++ bytes (repeat 0 (Z.to_nat (size - 8 - len bs))))
      else None
  | TStruct fs, VStruct vs =>
      match (fix go (fs : list ty) (vs : list val) : option (list (list cell)) :=
               match fs, vs with
               | [], [] => Some []
               | f :: fs', v :: vs' =>
                   match enc f v, go fs' vs' with Some e, Some r => Some (e :: r) | _, _ => None end
               | _, _ => None
               end) fs vs with
      | Some es => Some (enc_struct fs es)
      | None => None
      end
  | TArray item shape order, VArr sh items =>
      if shape_ok shape sh && perm_ok order (length shape) && (len items =? prod sh) && words_fit item shape order sh then
        match seqopt (map (enc item) items) with
        | Some es => Some (enc_array item shape order sh es)
        | None => None
        end
      else None
  (* a reference occupies one slot, a union reference two; WHAT the slot holds depends on where the
     referent lies (it is an offset relative to the slot): the image leaves those cells open, the
     condition on them is [targets_ok] in RoundTrip.v *)
  | TRef _, (VNull | VRef _) => Some (pad 8)
  | TUnion ms, VNull => Some (pad 16)
  | TUnion ms, VMember k _ => if (k <? length ms)%nat then Some (pad 16) else None
  | _, _ => None
  end.

(* does a byte string carry an image (padding cells are free) *)
Fixpoint cells_match (cs : list cell) (bs : list Z) : bool :=
  match cs, bs with
  | [], [] => true
  | Some c :: cs', b :: bs' => (c =? b) && cells_match cs' bs'
  | None :: cs', _ :: bs' => cells_match cs' bs'
  | _, _ => false
  end.

(* ---------------------------------------------------------------- strict decoder *)
(* returns the value and the size of the object (its extent) *)
Definition guard (b : bool) : option unit := if b then Some tt else None.
Notation "'do' x <- a ; b" := (match a with Some x => b | None => None end) (at level 200, x pattern, a at level 100, b at level 200).

Definition rd_words (m : mem) (off : Z) (n : Z) : list Z :=
  map (fun i => rd64 m (off + 8 * Z.of_nat i)) (seq 0 (Z.to_nat n)).

Fixpoint list_eqbZ (a b : list Z) : bool :=
  match a, b with [] , [] => true | x :: a', y :: b' => (x =? y) && list_eqbZ a' b' | _, _ => false end.

(* fill the dynamic dimensions of a class shape from header words *)
Fixpoint fill_shape (shape : list (option Z)) (dims : list Z) : list Z :=
  match shape with
  | [] => []
  | Some d :: tl => d :: fill_shape tl dims
  | None :: tl => match dims with x :: r => x :: fill_shape tl r | [] => 0 :: fill_shape tl [] end
  end.

(* strip trailing NULs *)
Fixpoint rstrip0 (bs : list Z) : list Z :=
  match bs with
  | [] => []
  | b :: tl => let r := rstrip0 tl in if (b =? 0) && match r with [] => true | _ => false end then [] else b :: r
  end.

(* parts (offset, size) listed in memory order: each starts at or after the end of the previous
   one, on a slot boundary; returns the end of the last *)
Fixpoint chain_ok (start : Z) (parts : list (Z * Z)) : option Z :=
  match parts with
  | [] => Some start
  | (o, sz) :: tl => if (start <=? o) && (o mod 8 =? 0) then chain_ok (o + sz) tl else None
  end.

Fixpoint dec (t : ty) (m : mem) (off : Z) {struct t} : option (val * Z) :=
  match t with
  | TScalar k =>
      do _ <- guard (in_rangeb m off (ssize k)); Some (VNum (rd m off (ssize k)), ssize k)
  | TString =>
      do _ <- guard (in_rangeb m off 8);
      let size := rd64 m off in
      do _ <- guard ((9 <=? size) && in_rangeb m off size);
      let raw := rd m (off + 8) (size - 8) in
      let s := rstrip0 raw in
      (* NUL terminated, no NUL inside the text *)
      do _ <- guard ((len s <? len raw) && forallb (fun b => negb (b =? 0)) s);
      Some (VStr s size, size)
  | TStruct fs =>
      let stat := filter is_static fs in
      let ndynf := len fs - len stat in
      if ndynf =? 0 then
        (* static struct: fields in declaration order, each in its slot-rounded space *)
        do r <- (fix go (fs : list ty) (o : Z) : option (list val * Z) :=
                   match fs with
                   | [] => Some ([], o)
                   | f :: tl =>
                       do vs <- dec f m o;
                       do r <- go tl (o + slot (snd vs));
                       Some (fst vs :: fst r, snd r)
                   end) fs off;
        Some (VStruct (fst r), snd r - off)
      else
        do _ <- guard (in_rangeb m off 8);
        let total := rd64 m off in
        do _ <- guard ((8 <=? total) && in_rangeb m off total);
        (* static fields right after the size word, then the table, then dynamic data *)
        let stat_len := sumz (map (fun f => match csize f with Some s => slot s | None => 0 end) stat) in
        let hdr := 8 + stat_len + 8 * (ndynf - 1) in
        do r <- (fix go (fs : list ty) (so : Z) (k : Z) (dnext : Z) : option (list val * Z) :=
                   (* so: offset of the next static field; k: number of dynamic fields seen;
                      dnext: expected offset of the next dynamic field (prefix sums) *)
                   match fs with
                   | [] => Some ([], dnext)
                   | f :: tl =>
                       if is_static f then
                         do vs <- dec f m (off + so);
                         do r <- go tl (so + slot (snd vs)) k dnext;
                         Some (fst vs :: fst r, snd r)
                       else
                         (* the 2nd, 3rd.. dynamic fields have their offset stored in the table: the stored
                            offset is authoritative; parts must be slot aligned, in order and disjoint
                            (a copy may leave slack behind a part) *)
                         let o := if k =? 0 then dnext else rd64 m (off + 8 + stat_len + 8 * (k - 1)) in
                         do _ <- guard ((dnext <=? o) && (o mod 8 =? 0));
                         do vs <- dec f m (off + o);
                         do r <- go tl so (k + 1) (o + slot (snd vs));
                         Some (fst vs :: fst r, snd r)
                   end) fs 8 0 hdr;
        do _ <- guard ((snd r <=? total) && (total mod 8 =? 0));
        Some (VStruct (fst r), total)
  | TArray item shape order =>
      let st := is_static item in
      let nd := ndyn shape in
      let hdr := arr_header st shape in
      do _ <- guard (perm_ok order (length shape) && in_rangeb m off hdr);
      let o1 := if st && (nd =? 0) then off else off + 8 in
      let dims := rd_words m o1 nd in
      let sh := fill_shape shape dims in
      do _ <- guard (shape_ok shape sh);
      let n := prod sh in
      let isz := match csize item with Some s => s | None => 8 end in
      let strides := get_strides sh order isz in
      (* stored strides (dynamic shape, >1 axes) must be the ones the axis order implies *)
      do _ <- guard (negb ((0 <? nd) && (1 <? len shape)) || list_eqbZ (rd_words m (o1 + 8 * nd) (len shape)) strides);
      let idxs := map (fun c => unpos sh (Z.of_nat c)) (seq 0 (Z.to_nat n)) in
      if st then
        let total := slot (hdr + isz * n) in
        do _ <- guard (((nd =? 0) || (rd64 m off =? total)) && in_rangeb m off total);
        do items <- seqopt (map (fun idx => match dec item m (off + hdr + dot idx strides) with Some vs => Some (fst vs) | None => None end) idxs);
        Some (VArr sh items, total)
      else
        let total := rd64 m off in
        do _ <- guard ((hdr + 8 * n <=? total) && in_rangeb m off total);
        (* item idx is found through the table entry at strides-position *)
        do ivs <- seqopt (map (fun idx => dec item m (off + rd64 m (off + hdr + dot idx strides))) idxs);
        (* the table lists the items in memory order: slot aligned, increasing, disjoint, inside the object *)
        let sizes_mem := map (fun p => slot (snd (nth (Z.to_nat (logical_of_mem sh order p)) ivs (VNull, 0)))) (mem_positions sh) in
        do fin <- chain_ok (hdr + 8 * n) (combine (rd_words m (off + hdr) n) sizes_mem);
        do _ <- guard ((fin <=? total) && (total mod 8 =? 0));
        Some (VArr sh (map fst ivs), total)
  | TRef target =>
      (* an 8-byte slot: offset of the target relative to the slot itself; one reserved null value *)
      do _ <- guard (in_rangeb m off 8);
      let rel := rd64 m off in
      if rel =? NULLVALUE then Some (VNull, 8)
      else do vs <- dec target m (off + rel); Some (VRef (fst vs), 8)
  | TUnion members =>
      (* two slots: relative offset and member index (-1 with the null offset = nothing) *)
      do _ <- guard (in_rangeb m off 16);
      let rel := rd64 m off in
      let tid := rd64 m (off + 8) in
      if rel =? NULLVALUE then (if tid =? -1 then Some (VNull, 16) else None)
      else
        do _ <- guard (0 <=? tid);
        do vs <- (fix pick (ms : list ty) (k : nat) : option (val * Z) :=
                    match ms, k with
                    | mt :: _, O => dec mt m (off + rel)
                    | _ :: tl, S k' => pick tl k'
                    | [], _ => None
                    end) members (Z.to_nat tid);
        Some (VMember (Z.to_nat tid) (fst vs), 16)
  end.

(* decode an object known to start at [off] and compare with an expected value *)
Fixpoint val_eqb (a b : val) {struct a} : bool :=
  match a, b with
  | VNum x, VNum y => list_eqbZ x y
  | VStr x sx, VStr y sy => list_eqbZ x y && (sx =? sy)
  | VStruct xs, VStruct ys =>
      (fix go (xs ys : list val) : bool :=
         match xs, ys with [], [] => true | x :: xs', y :: ys' => val_eqb x y && go xs' ys' | _, _ => false end) xs ys
  | VArr s1 xs, VArr s2 ys =>
      list_eqbZ s1 s2 &&
      (fix go (xs ys : list val) : bool :=
         match xs, ys with [], [] => true | x :: xs', y :: ys' => val_eqb x y && go xs' ys' | _, _ => false end) xs ys
  | VNull, VNull => true
  | VRef x, VRef y => val_eqb x y
  | VMember i x, VMember j y => Nat.eqb i j && val_eqb x y
  | _, _ => false
  end.
