(* Completeness of the layout judgement: bytes that carry the documented image of the value are
   never rejected (the check raises no alarm on conforming objects). *)
From Coq Require Import ZArith List Bool Lia.
Import ListNotations.
From XO Require Import Slots Strides BufOps Types Format Check LayoutProofs RoundTrip.
Open Scope Z_scope.

Section ValInd.
  Variable P : val -> Prop.
  Hypothesis Hnum : forall bs, P (VNum bs).
  Hypothesis Hstr : forall bs s, P (VStr bs s).
  Hypothesis Hst : forall vs, Forall P vs -> P (VStruct vs).
  Hypothesis Har : forall sh vs, Forall P vs -> P (VArr sh vs).
  Hypothesis Hnull : P VNull.
  Hypothesis Href : forall v, P v -> P (VRef v).
  Hypothesis Hmem : forall i v, P v -> P (VMember i v).
  Fixpoint val_ind' (v : val) : P v :=
    match v with
    | VNum bs => Hnum bs
    | VStr bs s => Hstr bs s
    | VStruct vs => Hst vs ((fix go (l : list val) : Forall P l := match l with [] => Forall_nil P | x :: tl => Forall_cons x (val_ind' x) (go tl) end) vs)
    | VArr sh vs => Har sh vs ((fix go (l : list val) : Forall P l := match l with [] => Forall_nil P | x :: tl => Forall_cons x (val_ind' x) (go tl) end) vs)
    | VNull => Hnull
    | VRef v => Href v (val_ind' v)
    | VMember i v => Hmem i v (val_ind' v)
    end.
End ValInd.

Definition vals_eqb : list val -> list val -> bool :=
  fix go (xs ys : list val) : bool :=
    match xs, ys with [], [] => true | x :: xs', y :: ys' => val_eqb x y && go xs' ys' | _, _ => false end.
Lemma vals_eqb_refl vs : Forall (fun v => val_eqb v v = true) vs -> vals_eqb vs vs = true.
Proof. induction 1 as [|v vs Hv Hvs IH]; [reflexivity|]. cbn. rewrite Hv, IH. reflexivity. Qed.

Lemma val_eqb_refl : forall v, val_eqb v v = true.
Proof.
  apply val_ind'.
  - intros bs. cbn. apply list_eqbZ_refl.
  - intros bs s. cbn. rewrite list_eqbZ_refl, Z.eqb_refl. reflexivity.
  - intros vs H. change (vals_eqb vs vs = true). apply vals_eqb_refl. exact H.
  - intros sh vs H. change (list_eqbZ sh sh && vals_eqb vs vs = true). rewrite list_eqbZ_refl, vals_eqb_refl by exact H. reflexivity.
  - reflexivity.
  - intros v H. exact H.
  - intros i v H. cbn. rewrite Nat.eqb_refl, H. reflexivity.
Qed.

Theorem layout_ok_complete c img : has_refs (lc_ty c) = false ->
  enc (lc_ty c) (lc_val c) = Some img -> len img = lc_size c -> lc_size c < 2^62 ->
  cells_match img (lc_bytes c) = true -> layout_ok c = None.
Proof.
  intros Hrf He Hl Hb Hc. unfold layout_ok. rewrite He.
  pose proof (cells_match_length _ _ Hc) as Hlen.
  assert (Hlb : len (lc_bytes c) = lc_size c) by (unfold len in *; lia).
  rewrite Hl, Hlb, Z.eqb_refl. cbn [negb orb]. rewrite Hc. cbn [negb].
  pose proof (dec_enc_buffer (lc_ty c) (lc_val c) img [] (lc_bytes c) [] Hrf He Hc ltac:(lia)) as Hd.
  cbn [app] in Hd. rewrite app_nil_r in Hd. change (len (@nil Z)) with 0 in Hd. rewrite Hd.
  rewrite val_eqb_refl, Hl, Z.eqb_refl. reflexivity.
Qed.
