(* Completeness of the layout judgement: bytes that carry the documented image of the value are
   never rejected (the check raises no alarm on conforming objects). *)
From Coq Require Import ZArith List Bool Lia.
Import ListNotations.
From XO Require Import Slots Strides BufOps Types Format Check LayoutProofs RoundTrip.
Open Scope Z_scope.

Section ValInd.
  Variable P : val -> Prop.
  Hypothesis Hnum : forall bs, P (VNum bs).
  Hypothesis Hstr : forall bs s, P (VStr bs s).
  Hypothesis Hst : forall vs, Forall P vs -> P (VStruct vs).
  Hypothesis Har : forall sh vs, Forall P vs -> P (VArr sh vs).
  Hypothesis Hnull : P VNull.
  Hypothesis Href : forall v, P v -> P (VRef v).
  Hypothesis Hmem : forall i v, P v -> P (VMember i v).
  Fixpoint val_ind' (v : val) : P v :=
    match v with
    | VNum bs => Hnum bs
    | VStr bs s => Hstr bs s
    | VStruct vs => Hst vs ((fix go (l : list val) : Forall P l := match l with [] => Forall_nil P | x :: tl => Forall_cons x (val_ind' x) (go tl) end) vs)
    | VArr sh vs => Har sh vs ((fix go (l : list val) : Forall P l := match l with [] => Forall_nil P | x :: tl => Forall_cons x (val_ind' x) (go tl) end) vs)
    | VNull => Hnull
    | VRef v => Href v (val_ind' v)
    | VMember i v => Hmem i v (val_ind' v)
    end.
End ValInd.

Definition vals_eqb : list val -> list val -> bool :=
  fix go (xs ys : list val) : bool :=
    match xs, ys with [], [] => true | x :: xs', y :: ys' => val_eqb x y && go xs' ys' | _, _ => false end.
Lemma vals_eqb_refl vs : Forall (fun v => val_eqb v v = true) vs -> vals_eqb vs vs = true.
Proof. induction 1 as [|v vs Hv Hvs IH]; [reflexivity|]. cbn. rewrite Hv, IH. reflexivity. Qed.

Lemma val_eqb_refl : forall v, val_eqb v v = true.
Proof.
  apply val_ind'.
  - intros bs. cbn. apply list_eqbZ_refl.
  - intros bs s. cbn. rewrite list_eqbZ_refl, Z.eqb_refl. reflexivity.
  - intros vs H. change (vals_eqb vs vs = true). apply vals_eqb_refl. exact H.
  - intros sh vs H. change (list_eqbZ sh sh && vals_eqb vs vs = true). rewrite list_eqbZ_refl, vals_eqb_refl by exact H. reflexivity.
  - reflexivity.
  - intros v H. exact H.
  - intros i v H. cbn. rewrite Nat.eqb_refl, H. reflexivity.
Qed.

Theorem layout_ok_complete c img : has_refs (lc_ty c) = false ->
  enc (lc_ty c) (lc_val c) = Some img -> len img = lc_size c -> lc_size c < 2^62 ->
  cells_match img (lc_bytes c) = true -> layout_ok c = None.
Proof.
  intros Hrf He Hl Hb Hc. unfold layout_ok. rewrite He.
  pose proof (cells_match_length _ _ Hc) as Hlen.
  assert (Hlb : len (lc_bytes c) = lc_size c) by (unfold len in *; lia).
  rewrite Hl, Hlb, Z.eqb_refl. cbn [negb orb]. rewrite Hc. cbn [negb].
  pose proof (dec_enc_buffer (lc_ty c) (lc_val c) img [] (lc_bytes c) [] Hrf He Hc ltac:(lia)) as Hd.
  cbn [app] in Hd. rewrite app_nil_r in Hd. change (len (@nil Z)) with 0 in Hd. rewrite Hd.
  rewrite val_eqb_refl, Hl, Z.eqb_refl. reflexivity.
Qed.

(* the same for objects holding references, judged with the whole buffer *)
Lemma skipn_S_tl {A} : forall n (l : list A), skipn (S n) l = tl (skipn n l).
Proof. induction n as [|n IH]; intros [|x l]; try reflexivity. cbn [skipn]. rewrite <- IH. reflexivity. Qed.
Lemma sits_cells_match : forall img m off, sits img m off -> cells_match img (rd m off (len img)) = true.
Proof.
  induction img as [|c img IH]; intros m off [H0 [H1 H2]].
  - unfold rd. cbn. reflexivity.
  - rewrite len_cons in H1 |- *. unfold rd.
    assert (Hlt : (Z.to_nat off < length m)%nat) by (pose proof (len_nonneg img); unfold len in *; lia).
    destruct (skipn (Z.to_nat off) m) as [|b rest] eqn:Es.
    { exfalso. assert (length (skipn (Z.to_nat off) m) = (length m - Z.to_nat off)%nat) by apply skipn_length. rewrite Es in H. cbn in H. lia. }
    replace (Z.to_nat (1 + len img)) with (S (Z.to_nat (len img))) by (pose proof (len_nonneg img); lia). cbn [firstn cells_match].
    assert (Hrest : rest = skipn (Z.to_nat (off + 1)) m).
    { replace (Z.to_nat (off + 1)) with (S (Z.to_nat off)) by lia. rewrite skipn_S_tl, Es. reflexivity. }
    assert (Hb : nth_error m (Z.to_nat off) = Some b).
    { rewrite <- (firstn_skipn (Z.to_nat off) m). rewrite nth_error_app2 by (rewrite firstn_length; lia). rewrite firstn_length, Nat.min_l by lia. rewrite Nat.sub_diag, Es. reflexivity. }
    assert (IHs : sits img m (off + 1)).
    { split; [lia|]. split; [lia|]. intros i x Hi. specialize (H2 (S i) x Hi). replace (Z.to_nat (off + 1) + i)%nat with (Z.to_nat off + S i)%nat by lia. exact H2. }
    specialize (IH m (off + 1) IHs). unfold rd in IH. rewrite <- Hrest in IH.
    destruct c as [cb|].
    + specialize (H2 O cb eq_refl). rewrite Nat.add_0_r in H2. assert (cb = b) by congruence. subst. rewrite Z.eqb_refl. exact IH.
    + exact IH.
Qed.

Theorem heap_img_ok_complete c img :
  enc (hc_ty c) (hc_val c) = Some img -> len img = hc_size c -> hc_size c < 2^62 ->
  sits img (hc_mem c) (hc_off c) -> targets_ok (hc_ty c) (hc_val c) (hc_mem c) (hc_off c) -> heap_img_ok c = None.
Proof.
  intros He Hl Hb Hs Ht. unfold heap_img_ok. rewrite He. rewrite Hl, Z.eqb_refl. cbn [negb orb].
  pose proof (sits_in_range _ _ _ Hs) as Hr. rewrite Hl in Hr. rewrite Hr. cbn [negb].
  pose proof (sits_cells_match img _ _ Hs) as Hc. rewrite Hl in Hc. rewrite Hc. cbn [negb].
  unfold heap_ok. rewrite (RT_all _ _ _ _ _ He Hs ltac:(lia) Ht). rewrite val_eqb_refl, Hl, Z.eqb_refl. reflexivity.
Qed.
