(* Assignment to one element of an object (Field.__set__, Array.__setitem__, _update) at the
   level of logical values, the "fits the space fixed at creation" predicate, and the
   judgement of an observed history of assignments.  Definitions only. *)
From Coq Require Import ZArith List Bool Lia.
Import ListNotations.
From XO Require Import Slots Strides BufOps Types Format Check.
Open Scope Z_scope.

Inductive pstep := PF (i : nat) | PI (c : nat).   (* field index | flat logical (row-major) item index *)
Definition path := list pstep.

Fixpoint set_nth_opt {A} (l : list A) (k : nat) (x : A) : option (list A) :=
  match l, k with
  | [], _ => None
  | _ :: tl, O => Some (x :: tl)
  | a :: tl, S k' => match set_nth_opt tl k' x with Some r => Some (a :: r) | None => None end
  end.

Definition children (v : val) (s : pstep) : option (list val) :=
  match v, s with
  | VStruct fs, PF _ => Some fs
  | VArr _ items, PI _ => Some items
  | _, _ => None
  end.
Definition step_idx (s : pstep) : nat := match s with PF i => i | PI c => c end.
Definition rebuild (v : val) (cs : list val) : val :=
  match v with VStruct _ => VStruct cs | VArr sh _ => VArr sh cs | _ => v end.

Fixpoint vget (v : val) (p : path) : option val :=
  match p with
  | [] => Some v
  | s :: r => match children v s with
              | Some cs => match nth_error cs (step_idx s) with Some x => vget x r | None => None end
              | None => None
              end
  end.
Fixpoint vset (v : val) (p : path) (x : val) : option val :=
  match p with
  | [] => Some x
  | s :: r => match children v s with
              | Some cs => match nth_error cs (step_idx s) with
                           | Some old => match vset old r x with
                                         | Some new => match set_nth_opt cs (step_idx s) new with Some cs' => Some (rebuild v cs') | None => None end
                                         | None => None
                                         end
                           | None => None
                           end
              | None => None
              end
  end.

(* the new value takes over the capacities fixed at creation (string sizes) and must have
   the same shape as what it replaces *)
Fixpoint retag (old new : val) {struct old} : option val :=
  match old, new with
  | VNum a, VNum b => if len a =? len b then Some (VNum b) else None
  | VStr _ sz, VStr b _ => Some (VStr b sz)
  | VStruct os, VStruct ns =>
      match (fix go (os ns : list val) : option (list val) :=
               match os, ns with
               | [], [] => Some []
               | o :: os', n :: ns' => match retag o n, go os' ns' with Some x, Some r => Some (x :: r) | _, _ => None end
               | _, _ => None
               end) os ns with Some r => Some (VStruct r) | None => None end
  | VArr sh os, VArr sh' ns =>
      if list_eqbZ sh sh' then
        match (fix go (os ns : list val) : option (list val) :=
               match os, ns with
               | [], [] => Some []
               | o :: os', n :: ns' => match retag o n, go os' ns' with Some x, Some r => Some (x :: r) | _, _ => None end
               | _, _ => None
               end) os ns with Some r => Some (VArr sh r) | None => None end
      else None
  | _, _ => None
  end.

Fixpoint sub_ty (t : ty) (p : path) : option ty :=
  match p with
  | [] => Some t
  | PF i :: r => match t with TStruct fs => match nth_error fs i with Some f => sub_ty f r | None => None end | _ => None end
  | PI _ :: r => match t with TArray item _ _ => sub_ty item r | _ => None end
  end.

(* the value the object must have after `element at p := x` — None when the assignment cannot
   be honoured (no such element, different shape, does not fit the space fixed at creation) *)
Definition assign (t : ty) (v : val) (p : path) (x : val) : option val :=
  match vget v p, sub_ty t p with
  | Some old, Some st =>
      match retag old x with
      | Some x' => match enc st x' with Some _ => vset v p x' | None => None end
      | None => None
      end
  | _, _ => None
  end.

(* when the new value is itself an object (another xobject), the implementation may also copy it
   as it is -- with the capacities of the SOURCE -- provided it has the same structure and its image
   has exactly the length of the element it replaces ("the element becomes exactly the assigned value") *)
Definition assign_exact (t : ty) (v : val) (p : path) (x : val) : option val :=
  match vget v p, sub_ty t p with
  | Some old, Some st =>
      match retag old x, enc st old, enc st x with
      | Some _, Some a, Some b => if len a =? len b then vset v p x else None
      | _, _, _ => None
      end
  | _, _ => None
  end.

(* ---- judging an observed history ---- *)
(* each step: the assignment attempted (None = a misuse the harness declares: out-of-range index,
   wrong context, offset without buffer...), whether the new value was handed over as an object
   (then the exact copy is acceptable too), whether the implementation accepted it, the object's
   bytes afterwards *)
Record ustep := mkU { u_op : option (path * val); u_exact : bool; u_ok : bool; u_bytes : list Z }.
Definition img_is (t : ty) (v : val) (size : Z) (st : ustep) : bool :=
  match layout_ok (mkLC t v (u_bytes st) size) with None => true | Some _ => false end.
Fixpoint check_updates (t : ty) (v : val) (size : Z) (n : nat) (steps : list ustep) : option nat :=
  match steps with
  | [] => None
  | st :: tl =>
    let e1 := match u_op st with Some (p, x) => assign t v p x | None => None end in
    let e2 := if u_exact st then match u_op st with Some (p, x) => assign_exact t v p x | None => None end else None in
    let refused := negb (u_ok st) && img_is t v size st in
    match e1 with
    | Some v1 =>
        if u_ok st && img_is t v1 size st then check_updates t v1 size (S n) tl
        else match e2 with
             | Some v2 => if u_ok st && img_is t v2 size st then check_updates t v2 size (S n) tl else Some n
             | None => Some n
             end
    | None =>
        match e2 with
        | Some v2 => if u_ok st && img_is t v2 size st then check_updates t v2 size (S n) tl
                     else if refused then check_updates t v size (S n) tl else Some n
        | None => if refused then check_updates t v size (S n) tl else Some n
        end
    end
  end.
Record ucase := mkUC { uc_ty : ty; uc_val : val; uc_size : Z; uc_bytes0 : list Z; uc_steps : list ustep }.
Definition updates_ok (c : ucase) : option nat :=
  match layout_ok (mkLC (uc_ty c) (uc_val c) (uc_bytes0 c) (uc_size c)) with
  | Some _ => Some 999%nat       (* the object was not built as documented: not this property's business, flagged apart *)
  | None => check_updates (uc_ty c) (uc_val c) (uc_size c) 0 (uc_steps c)
  end.
