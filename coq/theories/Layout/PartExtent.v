(* An assignment moves no part: every nested element (at any depth, inside or outside the assigned
   one) keeps its position in the image and the length of its own image (the extent it reports). *)
From Coq Require Import ZArith List Bool Lia.
Import ListNotations.
From XO Require Import ListAux Slots Strides Perm BufOps BufOpsProofs Types Format Check LayoutProofs RoundTrip Update UpdateProofs UpdateSize UpdateFrame UpdateAt.
Open Scope Z_scope.

(* ---- positions depend on the parts only through their lengths ---- *)
Lemma same_lens_firstn es es' n : same_lens es es' -> same_lens (firstn n es) (firstn n es').
Proof. intros H. revert n. induction H as [|e e' es es' He Hes IH]; intros [|n]; cbn [firstn]; try (constructor; fail); constructor; [exact He|apply IH]. Qed.

Lemma len_psz ps : len (psz ps) = len ps.
Proof. unfold len, psz. rewrite map_length. reflexivity. Qed.

Lemma field_off_cong fs es es' i : same_lens es es' -> field_off fs es i = field_off fs es' i.
Proof.
  intros H. unfold field_off.
  destruct (spairs_psz_cong fs es es' H) as [A B].
  destruct (spairs_psz_cong (firstn i fs) (firstn i es) (firstn i es') (same_lens_firstn _ _ i H)) as [A1 B1].
  assert (L : len (dpairs fs es) = len (dpairs fs es')) by (rewrite <- !len_psz, B; reflexivity).
  rewrite A, A1, B1, L. reflexivity.
Qed.

Lemma item_pos_cong item shape order sh es es' c : same_lens es es' -> item_pos item shape order sh es c = item_pos item shape order sh es' c.
Proof.
  intros H. unfold item_pos. destruct (csize item); [reflexivity|].
  unfold es_mem_of. rewrite (same_lens_szs _ _ (es_mem_same_lens sh order es es' H)). reflexivity.
Qed.

(* ---- "same extents at every depth" ---- *)
Definition shape_of (v : val) : option (list Z) := match v with VArr sh _ => Some sh | _ => None end.
Definition LEq (t : ty) (v v' : val) : Prop :=
  forall q st, sub_ty t q = Some st ->
    match vget v q, vget v' q with
    | Some w, Some w' => shape_of w = shape_of w' /\ (forall e e', enc st w = Some e -> enc st w' = Some e' -> len e = len e')
    | None, None => True
    | _, _ => False
    end.

Lemma LEq_refl t v : LEq t v v.
Proof. intros q st Hs. destruct (vget v q) as [w|]; [|exact I]. split; [reflexivity|]. intros e e' A B. congruence. Qed.

Lemma LEq_here t v v' e e' : LEq t v v' -> enc t v = Some e -> enc t v' = Some e' -> len e = len e'.
Proof. intros H. specialize (H [] t eq_refl). cbn in H. destruct H as [_ H]. apply H. Qed.

Lemma LEq_field fs vs v' i f w : LEq (TStruct fs) (VStruct vs) v' -> nth_error fs i = Some f -> nth_error vs i = Some w ->
  exists vs' w', v' = VStruct vs' /\ nth_error vs' i = Some w' /\ LEq f w w'.
Proof.
  intros H Hf Hw. pose proof (H [PF i] f) as H1. cbn [sub_ty] in H1. rewrite Hf in H1. specialize (H1 eq_refl).
  cbn [vget children step_idx] in H1. rewrite Hw in H1.
  destruct v' as [| |vs'| | | |]; cbn [children] in H1; try contradiction.
  destruct (nth_error vs' i) as [w'|] eqn:Ew'; [|contradiction].
  exists vs', w'. split; [reflexivity|]. split; [exact Ew'|].
  intros q st Hs. pose proof (H (PF i :: q) st) as H2. cbn [sub_ty] in H2. rewrite Hf in H2. specialize (H2 Hs).
  cbn [vget children step_idx] in H2. rewrite Hw, Ew' in H2. exact H2.
Qed.

Lemma LEq_field_none fs vs vs' i f : LEq (TStruct fs) (VStruct vs) (VStruct vs') -> nth_error fs i = Some f -> nth_error vs i = None -> nth_error vs' i = None.
Proof.
  intros H Hf Hw. pose proof (H [PF i] f) as H1. cbn [sub_ty] in H1. rewrite Hf in H1. specialize (H1 eq_refl).
  cbn [vget children step_idx] in H1. rewrite Hw in H1. destruct (nth_error vs' i); [contradiction|reflexivity].
Qed.

Lemma LEq_item item shape order sh vs v' c w : LEq (TArray item shape order) (VArr sh vs) v' -> nth_error vs c = Some w ->
  exists vs' w', v' = VArr sh vs' /\ nth_error vs' c = Some w' /\ LEq item w w'.
Proof.
  intros H Hw. pose proof (H [PI c] item eq_refl) as H1.
  cbn [vget children step_idx] in H1. rewrite Hw in H1.
  destruct v' as [| | |sh' vs'| | |]; cbn [children] in H1; try contradiction.
  destruct (nth_error vs' c) as [w'|] eqn:Ew'; [|contradiction].
  pose proof (H [] _ eq_refl) as H0. cbn in H0. destruct H0 as [Hsh _]. inversion Hsh; subst sh'.
  exists vs', w'. split; [reflexivity|]. split; [exact Ew'|].
  intros q st Hs. pose proof (H (PI c :: q) st) as H2. cbn [sub_ty] in H2. specialize (H2 Hs).
  cbn [vget children step_idx] in H2. rewrite Hw, Ew' in H2. exact H2.
Qed.

(* the images of the direct parts have pairwise equal lengths *)
Lemma Forall2_nth_error {A B} (R : A -> B -> Prop) : forall (l : list A) (l' : list B), length l = length l' ->
  (forall i a b, nth_error l i = Some a -> nth_error l' i = Some b -> R a b) -> Forall2 R l l'.
Proof.
  induction l as [|a l IH]; intros [|b l'] Hl H; cbn in Hl; try discriminate; constructor.
  - apply (H 0%nat); reflexivity.
  - apply IH; [congruence|]. intros i x y Hx Hy. apply (H (S i)); assumption.
Qed.

Lemma enc_list_length : forall fs vs es, enc_list fs vs = Some es -> length es = length fs /\ length vs = length fs.
Proof.
  induction fs as [|f fs IH]; intros vs es H.
  - destruct vs; cbn in H; [|discriminate]. inversion H. split; reflexivity.
  - destruct vs as [|v vs]; cbn in H; [discriminate|]. destruct (enc f v); [|discriminate]. destruct (enc_list fs vs) as [r|] eqn:E; [|discriminate].
    inversion H; subst. destruct (IH vs r E) as [A B]. cbn. split; congruence.
Qed.
Lemma seqopt_length {A} : forall (l : list (option A)) r, seqopt l = Some r -> length r = length l.
Proof.
  induction l as [|o l IH]; intros r H; cbn in H; [inversion H; reflexivity|].
  destruct o; [|discriminate]. destruct (seqopt l) as [r0|] eqn:E; [|discriminate]. inversion H; subst. cbn. f_equal. apply IH. reflexivity.
Qed.

Lemma nth_error_some_lt {A} (l : list A) i x : nth_error l i = Some x -> (i < length l)%nat.
Proof. intros H. apply nth_error_Some. congruence. Qed.
Lemma nth_error_lt_some {A} (l : list A) i : (i < length l)%nat -> exists x, nth_error l i = Some x.
Proof. intros H. destruct (nth_error l i) eqn:E; [eauto|]. apply nth_error_None in E. lia. Qed.

Lemma LEq_fields_same_lens fs vs vs' es es' : LEq (TStruct fs) (VStruct vs) (VStruct vs') ->
  enc_list fs vs = Some es -> enc_list fs vs' = Some es' -> same_lens es es'.
Proof.
  intros H He He'. destruct (enc_list_length _ _ _ He) as [L1 L2]. destruct (enc_list_length _ _ _ He') as [L1' L2'].
  apply Forall2_nth_error; [congruence|]. intros i a b Ha Hb.
  pose proof (nth_error_some_lt _ _ _ Ha) as Hi.
  destruct (nth_error_lt_some fs i ltac:(lia)) as [f Hf]. destruct (nth_error_lt_some vs i ltac:(lia)) as [w Hw].
  destruct (LEq_field fs vs (VStruct vs') i f w H Hf Hw) as [vs2 [w' [Ev [Hw' HL]]]]. inversion Ev; subst vs2.
  destruct (enc_list_nth fs vs es i f w He Hf Hw) as [ec [A1 A2]]. destruct (enc_list_nth fs vs' es' i f w' He' Hf Hw') as [ec' [B1 B2]].
  rewrite Ha in A1. rewrite Hb in B1. inversion A1; inversion B1; subst. eapply LEq_here; eassumption.
Qed.

Lemma LEq_items_same_lens item shape order sh vs vs' es es' : LEq (TArray item shape order) (VArr sh vs) (VArr sh vs') ->
  length vs = length vs' ->
  seqopt (map (enc item) vs) = Some es -> seqopt (map (enc item) vs') = Some es' -> same_lens es es'.
Proof.
  intros H Hl He He'. pose proof (seqopt_length _ _ He) as L1. pose proof (seqopt_length _ _ He') as L1'. rewrite map_length in L1, L1'.
  apply Forall2_nth_error; [congruence|]. intros i a b Ha Hb.
  pose proof (nth_error_some_lt _ _ _ Ha) as Hi.
  destruct (nth_error_lt_some vs i ltac:(lia)) as [w Hw].
  destruct (LEq_item item shape order sh vs (VArr sh vs') i w H Hw) as [vs2 [w' [Ev [Hw' HL]]]]. inversion Ev; subst vs2.
  destruct (seqopt_enc_nth item vs es i w He Hw) as [ec [A1 A2]]. destruct (seqopt_enc_nth item vs' es' i w' He' Hw') as [ec' [B1 B2]].
  rewrite Ha in A1. rewrite Hb in B1. inversion A1; inversion B1; subst. eapply LEq_here; eassumption.
Qed.

Lemma enc_struct_inv fs v img : enc (TStruct fs) v = Some img -> exists vs es, v = VStruct vs /\ enc_list fs vs = Some es /\ img = enc_struct fs es.
Proof.
  intros H. destruct v as [| |vs| | | |]; try (cbn in H; discriminate).
  rewrite enc_struct_eq in H. destruct (enc_list fs vs) as [es|] eqn:E; [|discriminate]. inversion H. eauto.
Qed.
Lemma enc_array_inv item shape order v img : enc (TArray item shape order) v = Some img ->
  exists sh vs es, v = VArr sh vs /\ len vs = prod sh /\ seqopt (map (enc item) vs) = Some es /\ img = enc_array item shape order sh es.
Proof.
  intros H. destruct v as [| | |sh vs| | |]; try (cbn in H; discriminate). cbn [enc] in H.
  destruct (shape_ok shape sh && perm_ok order (length shape) && (len vs =? prod sh) && words_fit item shape order sh) eqn:G; [|discriminate].
  destruct (seqopt (map (enc item) vs)) as [es|] eqn:E; [|discriminate]. inversion H.
  apply andb_prop in G. destruct G as [G _]. apply andb_prop in G. destruct G as [_ G]. apply Z.eqb_eq in G. eauto 8.
Qed.

Lemma path_off_LEq : forall q t v v' img img', LEq t v v' -> enc t v = Some img -> enc t v' = Some img' -> path_off t v q = path_off t v' q.
Proof.
  induction q as [|s r IH]; intros t v v' img img' HL He He'; [reflexivity|].
  destruct s as [i|c].
  - destruct t as [| |fs| | |]; try (cbn [path_off]; destruct v, v'; reflexivity).
    destruct (enc_struct_inv _ _ _ He) as [vs [es [Ev [Eel _]]]]. destruct (enc_struct_inv _ _ _ He') as [vs' [es' [Ev' [Eel' _]]]]. subst v v'.
    cbn [path_off]. rewrite Eel, Eel'.
    destruct (nth_error fs i) as [f|] eqn:Ef; [|reflexivity].
    destruct (nth_error vs i) as [w|] eqn:Ew.
    + destruct (LEq_field fs vs (VStruct vs') i f w HL Ef Ew) as [vs2 [w' [E2 [Ew' HLc]]]]. inversion E2; subst vs2. rewrite Ew'.
      destruct (enc_list_nth fs vs es i f w Eel Ef Ew) as [ec [_ Ec]]. destruct (enc_list_nth fs vs' es' i f w' Eel' Ef Ew') as [ec' [_ Ec']].
      rewrite (IH f w w' ec ec' HLc Ec Ec'). rewrite (field_off_cong fs es es' i (LEq_fields_same_lens _ _ _ _ _ HL Eel Eel')). reflexivity.
    + rewrite (LEq_field_none fs vs vs' i f HL Ef Ew). reflexivity.
  - destruct t as [| | |item shape order| |]; try (cbn [path_off]; destruct v, v'; reflexivity).
    destruct (enc_array_inv _ _ _ _ _ He) as [sh [vs [es [Ev [Hn [Eel _]]]]]]. destruct (enc_array_inv _ _ _ _ _ He') as [sh' [vs' [es' [Ev' [Hn' [Eel' _]]]]]]. subst v v'.
    pose proof (HL [] _ eq_refl) as H0. cbn in H0. destruct H0 as [Hsh _]. inversion Hsh; subst sh'.
    assert (Hlen : length vs = length vs') by (unfold len in Hn, Hn'; lia).
    cbn [path_off]. rewrite Eel, Eel'.
    destruct (nth_error vs c) as [w|] eqn:Ew.
    + destruct (LEq_item item shape order sh vs (VArr sh vs') c w HL Ew) as [vs2 [w' [E2 [Ew' HLc]]]]. inversion E2; subst vs2. rewrite Ew'.
      destruct (seqopt_enc_nth item vs es c w Eel Ew) as [ec [_ Ec]]. destruct (seqopt_enc_nth item vs' es' c w' Eel' Ew') as [ec' [_ Ec']].
      rewrite (IH item w w' ec ec' HLc Ec Ec'). rewrite (item_pos_cong item shape order sh es es' c (LEq_items_same_lens _ _ _ _ _ _ _ _ HL Hlen Eel Eel')). reflexivity.
    + apply nth_error_None in Ew. assert (Ew' : nth_error vs' c = None) by (apply nth_error_None; lia). rewrite Ew'. reflexivity.
Qed.

(* ---- retag: the re-tagged new value has the extents of the old one at every depth ---- *)
Lemma retag_list_nth : forall os ns r i, retag_list os ns = Some r ->
  match nth_error os i with
  | Some o => exists n o', nth_error ns i = Some n /\ nth_error r i = Some o' /\ retag o n = Some o'
  | None => nth_error r i = None
  end.
Proof.
  induction os as [|o os IH]; intros ns r i H.
  - destruct ns; cbn in H; [|discriminate]. inversion H. destruct i; reflexivity.
  - destruct ns as [|n ns]; cbn in H; [discriminate|].
    destruct (retag o n) as [y|] eqn:Ry; [|discriminate]. destruct (retag_list os ns) as [r0|] eqn:Rl; [|discriminate]. inversion H; subst r.
    destruct i as [|i]; cbn [nth_error].
    + exists n, y. repeat split; assumption.
    + apply (IH ns r0 i Rl).
Qed.

Lemma retag_inv old x x' : retag old x = Some x' ->
  match old with
  | VNum a => exists b, x' = VNum b
  | VStr _ sz => exists b, x' = VStr b sz
  | VStruct os => exists ns r, x = VStruct ns /\ retag_list os ns = Some r /\ x' = VStruct r
  | VArr sh os => exists ns r, x = VArr sh ns /\ retag_list os ns = Some r /\ x' = VArr sh r
  | _ => False
  end.
Proof.
  intros H. destruct old as [a|a sz|os|sh os| | |]; destruct x as [b|b sz'|ns|sh' ns| | |]; try (cbn in H; discriminate).
  - cbn in H. destruct (len a =? len b); [|discriminate]. inversion H. eauto.
  - cbn in H. inversion H. eauto.
  - rewrite retag_struct_eq in H. destruct (retag_list os ns) as [r|] eqn:E; [|discriminate]. inversion H. eauto.
  - rewrite retag_array_eq in H. destruct (list_eqbZ sh sh') eqn:Es; [|discriminate]. apply list_eqbZ_eq in Es. subst sh'.
    destruct (retag_list os ns) as [r|] eqn:E; [|discriminate]. inversion H. eauto.
Qed.

Lemma retag_LEq_at : forall q old x x' t st, retag old x = Some x' -> sub_ty t q = Some st ->
  match vget old q, vget x' q with
  | Some w, Some w' => shape_of w = shape_of w' /\ (forall e e', enc st w = Some e -> enc st w' = Some e' -> len e = len e')
  | None, None => True
  | _, _ => False
  end.
Proof.
  induction q as [|s r IH]; intros old x x' t st Hr Hs.
  - cbn in Hs. inversion Hs; subst st. cbn [vget]. split.
    + pose proof (retag_inv _ _ _ Hr) as Hi. destruct old; try contradiction.
      * destruct Hi as [b E]; subst; reflexivity.
      * destruct Hi as [b E]; subst; reflexivity.
      * destruct Hi as [ns [r0 [_ [_ E]]]]; subst; reflexivity.
      * destruct Hi as [ns [r0 [_ [_ E]]]]; subst; reflexivity.
    + intros e e' A B. exact (keeps_len_all t old x x' e e' Hr A B).
  - pose proof (retag_inv _ _ _ Hr) as Hi. cbn [vget]. destruct old as [a|a sz|os|sh os| | |]; try contradiction.
    + destruct Hi as [b E]; subst x'. cbn. exact I.
    + destruct Hi as [b E]; subst x'. cbn. exact I.
    + destruct Hi as [ns [r0 [Ex [Hl E]]]]; subst x x'. destruct s as [i|c]; cbn [children step_idx]; [|exact I].
      cbn [sub_ty] in Hs. destruct t as [| |fs| | |]; try discriminate. destruct (nth_error fs i) as [f|] eqn:Ef; [|discriminate].
      pose proof (retag_list_nth os ns r0 i Hl) as Hn. destruct (nth_error os i) as [o|].
      * destruct Hn as [n [o' [_ [Ho' Ro]]]]. rewrite Ho'. exact (IH o n o' f st Ro Hs).
      * rewrite Hn. exact I.
    + destruct Hi as [ns [r0 [Ex [Hl E]]]]; subst x x'. destruct s as [i|c]; cbn [children step_idx]; [exact I|].
      cbn [sub_ty] in Hs. destruct t as [| | |item shape order| |]; try discriminate.
      pose proof (retag_list_nth os ns r0 c Hl) as Hn. destruct (nth_error os c) as [o|].
      * destruct Hn as [n [o' [_ [Ho' Ro]]]]. rewrite Ho'. exact (IH o n o' item st Ro Hs).
      * rewrite Hn. exact I.
Qed.

Lemma retag_LEq st old x x' : retag old x = Some x' -> LEq st old x'.
Proof. intros H q t' Hs. exact (retag_LEq_at q old x x' st t' H Hs). Qed.

(* ---- replacing one element by one of the same extents keeps all extents ---- *)
Lemma same_at_refl st (o : option val) :
  match o, o with
  | Some w, Some w' => shape_of w = shape_of w' /\ (forall e e', enc st w = Some e -> enc st w' = Some e' -> len e = len e')
  | None, None => True
  | _, _ => False
  end.
Proof. destruct o; [|exact I]. split; [reflexivity|]. intros e e' A B. congruence. Qed.

Lemma vset_LEq : forall p t v old x' v' st, vget v p = Some old -> sub_ty t p = Some st -> LEq st old x' -> vset v p x' = Some v' -> LEq t v v'.
Proof.
  induction p as [|s r IH]; intros t v old x' v' st Hg Ht HL Hs.
  - cbn in Hg, Ht, Hs. inversion Hg; inversion Ht; inversion Hs; subst. exact HL.
  - cbn [vget vset] in Hg, Hs. destruct (children v s) as [cs|] eqn:Ec; [|discriminate].
    destruct (nth_error cs (step_idx s)) as [oldc|] eqn:En; [|discriminate].
    destruct (vset oldc r x') as [newc|] eqn:Ev; [|discriminate].
    destruct (set_nth_opt cs (step_idx s) newc) as [cs'|] eqn:Esn; [|discriminate]. inversion Hs; subst v'. clear Hs.
    destruct s as [i|c]; cbn [sub_ty] in Ht.
    + destruct t as [| |fs| | |]; try discriminate. destruct (nth_error fs i) as [f|] eqn:Ef; [|discriminate].
      destruct v as [| |vs| | | |]; try discriminate. cbn in Ec. inversion Ec; subst cs. cbn [step_idx rebuild] in *.
      pose proof (IH f oldc old x' newc st Hg Ht HL Ev) as HLc.
      intros q st' Hq. destruct q as [|s' r'].
      * cbn in Hq. inversion Hq; subst st'. cbn [vget]. split; [reflexivity|]. intros e e' A B.
        rewrite enc_struct_eq in A, B. destruct (enc_list fs vs) as [es|] eqn:Eel; [|discriminate]. destruct (enc_list fs cs') as [es'|] eqn:Eel'; [|discriminate].
        inversion A; inversion B; subst. apply len_enc_struct_cong.
        destruct (enc_list_length _ _ _ Eel) as [L1 L2]. destruct (enc_list_length _ _ _ Eel') as [L1' L2'].
        apply Forall2_nth_error; [congruence|]. intros j a b Ha Hb.
        pose proof (nth_error_some_lt _ _ _ Ha) as Hj.
        destruct (nth_error_lt_some fs j ltac:(lia)) as [fj Hfj]. destruct (nth_error_lt_some vs j ltac:(lia)) as [w Hw].
        destruct (enc_list_nth fs vs es j fj w Eel Hfj Hw) as [ec [A1 A2]]. rewrite Ha in A1. inversion A1; subst ec.
        destruct (Nat.eq_dec j i) as [->|Hne].
        -- rewrite En in Hw. inversion Hw; subst w. rewrite Ef in Hfj. inversion Hfj; subst fj.
           destruct (enc_list_nth fs cs' es' i f newc Eel' Ef (set_nth_opt_same _ _ _ _ Esn)) as [ec' [B1 B2]]. rewrite Hb in B1. inversion B1; subst ec'.
           eapply LEq_here; eassumption.
        -- assert (Hw' : nth_error cs' j = Some w) by (rewrite (set_nth_opt_other _ _ _ _ _ Esn Hne); exact Hw).
           destruct (enc_list_nth fs cs' es' j fj w Eel' Hfj Hw') as [ec' [B1 B2]]. rewrite Hb in B1. inversion B1; subst ec'. congruence.
      * cbn [vget]. destruct s' as [j|c']; cbn [children step_idx]; [|exact I].
        cbn [sub_ty] in Hq. destruct (nth_error fs j) as [fj|] eqn:Hfj; [|discriminate].
        destruct (Nat.eq_dec j i) as [->|Hne].
        -- rewrite En, (set_nth_opt_same _ _ _ _ Esn). rewrite Ef in Hfj. inversion Hfj; subst fj. exact (HLc r' st' Hq).
        -- rewrite (set_nth_opt_other _ _ _ _ _ Esn Hne). destruct (nth_error vs j) as [w|]; [|exact I]. destruct (vget w r'); [split; [reflexivity|intros e e' A B; congruence]|exact I].
    + destruct t as [| | |item shape order| |]; try discriminate.
      destruct v as [| | |sh vs| | |]; try discriminate. cbn in Ec. inversion Ec; subst cs. cbn [step_idx rebuild] in *.
      pose proof (IH item oldc old x' newc st Hg Ht HL Ev) as HLc.
      intros q st' Hq. destruct q as [|s' r'].
      * cbn in Hq. inversion Hq; subst st'. cbn [vget]. split; [reflexivity|]. intros e e' A B.
        destruct (enc_array_inv _ _ _ _ _ A) as [sh1 [vs1 [es [E1 [Hn [Eel Ei]]]]]]. inversion E1; subst sh1 vs1.
        destruct (enc_array_inv _ _ _ _ _ B) as [sh2 [vs2 [es' [E2 [Hn' [Eel' Ei']]]]]]. inversion E2; subst sh2 vs2. subst e e'.
        apply len_enc_array_cong.
        pose proof (seqopt_length _ _ Eel) as L1. pose proof (seqopt_length _ _ Eel') as L1'. rewrite map_length in L1, L1'.
        pose proof (set_nth_opt_length _ _ _ _ Esn) as Lc.
        apply Forall2_nth_error; [congruence|]. intros j a b Ha Hb.
        pose proof (nth_error_some_lt _ _ _ Ha) as Hj.
        destruct (nth_error_lt_some vs j ltac:(lia)) as [w Hw].
        destruct (seqopt_enc_nth item vs es j w Eel Hw) as [ec [A1 A2]]. rewrite Ha in A1. inversion A1; subst ec.
        destruct (Nat.eq_dec j c) as [->|Hne].
        -- rewrite En in Hw. inversion Hw; subst w.
           destruct (seqopt_enc_nth item cs' es' c newc Eel' (set_nth_opt_same _ _ _ _ Esn)) as [ec' [B1 B2]]. rewrite Hb in B1. inversion B1; subst ec'.
           eapply LEq_here; eassumption.
        -- assert (Hw' : nth_error cs' j = Some w) by (rewrite (set_nth_opt_other _ _ _ _ _ Esn Hne); exact Hw).
           destruct (seqopt_enc_nth item cs' es' j w Eel' Hw') as [ec' [B1 B2]]. rewrite Hb in B1. inversion B1; subst ec'. congruence.
      * cbn [vget]. destruct s' as [j|c']; cbn [children step_idx]; [exact I|].
        cbn [sub_ty] in Hq.
        destruct (Nat.eq_dec c' c) as [->|Hne].
        -- rewrite En, (set_nth_opt_same _ _ _ _ Esn). exact (HLc r' st' Hq).
        -- rewrite (set_nth_opt_other _ _ _ _ _ Esn Hne). destruct (nth_error vs c') as [w|]; [|exact I]. destruct (vget w r'); [split; [reflexivity|intros e e' A B; congruence]|exact I].
Qed.

Theorem assign_LEq t v p x v' : assign t v p x = Some v' -> LEq t v v'.
Proof.
  unfold assign. intros Ha. destruct (vget v p) as [old|] eqn:Eg; [|discriminate]. destruct (sub_ty t p) as [st|] eqn:Et; [|discriminate].
  destruct (retag old x) as [x'|] eqn:Er; [|discriminate]. destruct (enc st x') as [b|] eqn:Eb; [|discriminate].
  eapply vset_LEq; [exact Eg|exact Et|eapply retag_LEq; exact Er|exact Ha].
Qed.

(* ---- extents of parts ---- *)
Lemma vset_exists' : forall p v old x, vget v p = Some old -> exists v', vset v p x = Some v'.
Proof.
  induction p as [|s r IH]; intros v old x H; [eexists; reflexivity|]. cbn [vget vset] in *.
  destruct (children v s) as [cs|]; [|discriminate]. destruct (nth_error cs (step_idx s)) as [oldc|] eqn:En; [|discriminate].
  destruct (IH oldc old x H) as [newc Hn]. rewrite Hn.
  destruct (set_nth_opt_exists cs (step_idx s) newc (nth_error_some_lt _ _ _ En)) as [cs' Hc]. rewrite Hc. eexists; reflexivity.
Qed.

Lemma enc_sub_some : forall q t v w st img, enc t v = Some img -> vget v q = Some w -> sub_ty t q = Some st -> exists e, enc st w = Some e.
Proof.
  induction q as [|s r IH]; intros t v w st img He Hg Hs.
  - cbn in Hg, Hs. inversion Hg; inversion Hs; subst. eauto.
  - cbn [vget] in Hg. destruct (children v s) as [cs|] eqn:Ec; [|discriminate]. destruct (nth_error cs (step_idx s)) as [c0|] eqn:En; [|discriminate].
    destruct s as [i|c]; cbn [sub_ty] in Hs.
    + destruct t as [| |fs| | |]; try discriminate. destruct (nth_error fs i) as [f|] eqn:Ef; [|discriminate].
      destruct (enc_struct_inv _ _ _ He) as [vs [es [Ev [Eel _]]]]. subst v. cbn in Ec. inversion Ec; subst cs. cbn [step_idx] in En.
      destruct (enc_list_nth fs vs es i f c0 Eel Ef En) as [ec [_ Eec]]. exact (IH f c0 w st ec Eec Hg Hs).
    + destruct t as [| | |item shape order| |]; try discriminate.
      destruct (enc_array_inv _ _ _ _ _ He) as [sh [vs [es [Ev [_ [Eel _]]]]]]. subst v. cbn in Ec. inversion Ec; subst cs. cbn [step_idx] in En.
      destruct (seqopt_enc_nth item vs es c c0 Eel En) as [ec [_ Eec]]. exact (IH item c0 w st ec Eec Hg Hs).
Qed.

(* where the element a path denotes lies in the object's image, and how long its own image is *)
Definition part_extent (t : ty) (v : val) (q : path) : option (Z * Z) :=
  match path_off t v q, sub_ty t q, vget v q with
  | Some o, Some st, Some w => match enc st w with Some e => Some (o, len e) | None => None end
  | _, _, _ => None
  end.

(* meaning: the part's own image sits at that offset of the object's image *)
Theorem part_extent_sits t v q img o l : enc t v = Some img -> part_extent t v q = Some (o, l) ->
  exists st w e pre post, sub_ty t q = Some st /\ vget v q = Some w /\ enc st w = Some e /\ len e = l /\
    img = pre ++ e ++ post /\ len pre = o /\ 0 <= o /\ o + l <= len img.
Proof.
  unfold part_extent. intros He H. destruct (path_off t v q) as [d|] eqn:Ep; [|discriminate]. destruct (sub_ty t q) as [st|] eqn:Es; [|discriminate].
  destruct (vget v q) as [w|] eqn:Eg; [|discriminate]. destruct (enc st w) as [e|] eqn:Ee; [|discriminate]. inversion H; subst o l.
  destruct (vset_exists' q v w w Eg) as [v' Hv'].
  destruct (vset_frame_at q t v w w v' st e img Eg Es Ee) as [a [img' [d' [Ea [_ [Hd [pre [post [Hi [_ Hl]]]]]]]]]]; try assumption.
  { intros a Ha. congruence. }
  rewrite Ee in Ea. inversion Ea; subst a. rewrite Ep in Hd. inversion Hd; subst d'.
  exists st, w, e, pre, post. repeat split; try assumption; try reflexivity.
  - apply len_nonneg.
  - rewrite Hi, !len_app. pose proof (len_nonneg post). lia.
Qed.

(* THE THEOREM: an honoured assignment moves no part and changes the extent of none: for EVERY path q
   (into the assigned element, above it, or elsewhere) position and image length are what they were *)
Theorem assign_moves_no_part t v p x v' img : assign t v p x = Some v' -> enc t v = Some img ->
  forall q, part_extent t v' q = part_extent t v q.
Proof.
  intros Ha He q. destruct (assign_keeps_extent t v p x v' img Ha He) as [img' [He' _]].
  pose proof (assign_LEq t v p x v' Ha) as HL.
  unfold part_extent. rewrite <- (path_off_LEq q t v v' img img' HL He He').
  destruct (path_off t v q) as [o|]; [|reflexivity]. destruct (sub_ty t q) as [st|] eqn:Es; [|reflexivity].
  pose proof (HL q st Es) as Hq. destruct (vget v q) as [w|] eqn:Eg; destruct (vget v' q) as [w'|] eqn:Eg'; try contradiction; [|reflexivity].
  destruct Hq as [_ Hlen].
  destruct (enc_sub_some q t v w st img He Eg Es) as [e Ee]. destruct (enc_sub_some q t v' w' st img' He' Eg' Es) as [e' Ee'].
  rewrite Ee, Ee'. rewrite (Hlen e e' Ee Ee'). reflexivity.
Qed.

(* non-vacuity: a struct holding a number, a string and a 2-D Fortran-order array of structs (number, string);
   the string of item (1,0) is assigned a shorter text: the model honours it, and e.g. the last item (a part that
   was not assigned, lying BEHIND the assigned one) has a definite, unchanged extent *)
Example moves_no_part_nonvacuous :
  let it := TStruct [TScalar I16; TString] in
  let t := TStruct [TScalar I32; TString; TArray it [None; Some 2] [1%nat; 0%nat]] in
  let i x := VStruct [VNum [x; 0]; VStr [x; x; x] 24] in
  let v := VStruct [VNum [1;0;0;0]; VStr [104;105] 16; VArr [2;2] [i 97; i 98; i 99; i 100]] in
  let p := [PF 2%nat; PI 2%nat; PF 1%nat] in
  exists v' o l, assign t v p (VStr [120] 16) = Some v' /\ v' <> v /\
    part_extent t v [PF 2%nat; PI 3%nat] = Some (o, l) /\ part_extent t v' [PF 2%nat; PI 3%nat] = Some (o, l) /\ 0 < o /\ 0 < l.
Proof. cbv zeta. eexists. eexists. eexists. split; [vm_compute; reflexivity|]. split; [intros H; discriminate H|]. split; [vm_compute; reflexivity|]. split; [vm_compute; reflexivity|]. split; reflexivity. Qed.

(* in a buffer: wherever the object's image sits, the part's image sits at object offset + part offset, inside
   the object -- before the assignment and, with the SAME offset and length, after it *)
Corollary part_sits_in_buffer t v q img o l m off : enc t v = Some img -> part_extent t v q = Some (o, l) -> sits img m off ->
  exists st w e, sub_ty t q = Some st /\ vget v q = Some w /\ enc st w = Some e /\ len e = l /\ sits e m (off + o) /\
    off <= off + o /\ off + o + l <= off + len img.
Proof.
  intros He Hp Hs. destruct (part_extent_sits t v q img o l He Hp) as [st [w [e [pre [post [A [B [C [D [Ei [Hl [H0 H1]]]]]]]]]]]].
  rewrite Ei in Hs. apply sits_app in Hs. destruct Hs as [_ Hs]. apply sits_app in Hs. destruct Hs as [Hs _]. rewrite Hl in Hs.
  exists st, w, e. split; [exact A|]. split; [exact B|]. split; [exact C|]. split; [exact D|]. split; [exact Hs|]. split; lia.
Qed.
