(* The general round trip  decode (encode v) = v  for the documented format, by induction over the
   type grammar (reference-free types: the encoder is defined exactly there). *)
From Coq Require Import ZArith List Bool Lia Permutation.
Import ListNotations.
From XO Require Import ListAux Slots Strides Perm BufOps BufOpsProofs Types Format Check LayoutProofs.
Open Scope Z_scope.

(* ---- nested induction principle for types ---- *)
Section TyInd.
  Variable P : ty -> Prop.
  Hypothesis Hsc : forall k, P (TScalar k).
  Hypothesis Hstr : P TString.
  Hypothesis Hst : forall fs, Forall P fs -> P (TStruct fs).
  Hypothesis Har : forall item shape order, P item -> P (TArray item shape order).
  Hypothesis Hrf : forall t, P t -> P (TRef t).
  Hypothesis Hun : forall ms, Forall P ms -> P (TUnion ms).
  Fixpoint ty_ind' (t : ty) : P t :=
    match t with
    | TScalar k => Hsc k
    | TString => Hstr
    | TStruct fs => Hst fs ((fix go (l : list ty) : Forall P l := match l with [] => Forall_nil P | x :: tl => Forall_cons x (ty_ind' x) (go tl) end) fs)
    | TArray item shape order => Har item shape order (ty_ind' item)
    | TRef t => Hrf t (ty_ind' t)
    | TUnion ms => Hun ms ((fix go (l : list ty) : Forall P l := match l with [] => Forall_nil P | x :: tl => Forall_cons x (ty_ind' x) (go tl) end) ms)
    end.
End TyInd.

(* ---- the list functions hidden inside enc / dec, named ---- *)
Definition enc_list : list ty -> list val -> option (list (list cell)) :=
  fix go (fs : list ty) (vs : list val) : option (list (list cell)) :=
    match fs, vs with
    | [], [] => Some []
    | f :: fs', v :: vs' => match enc f v, go fs' vs' with Some e, Some r => Some (e :: r) | _, _ => None end
    | _, _ => None
    end.
Lemma enc_struct_eq fs vs : enc (TStruct fs) (VStruct vs) = match enc_list fs vs with Some es => Some (enc_struct fs es) | None => None end.
Proof. reflexivity. Qed.

Definition dec_static_list (m : mem) : list ty -> Z -> option (list val * Z) :=
  fix go (fs : list ty) (o : Z) : option (list val * Z) :=
    match fs with
    | [] => Some ([], o)
    | f :: tl =>
        match dec f m o with
        | Some vs => match go tl (o + slot (snd vs)) with Some r => Some (fst vs :: fst r, snd r) | None => None end
        | None => None
        end
    end.
Lemma dec_struct_static_eq fs m off : len fs - len (filter is_static fs) =? 0 = true ->
  dec (TStruct fs) m off = match dec_static_list m fs off with Some r => Some (VStruct (fst r), snd r - off) | None => None end.
Proof. intros H. cbn [dec]. rewrite H. reflexivity. Qed.

(* ---- small facts ---- *)
Lemma len_padslot l : len (padslot l) = slot (len l).
Proof.
  unfold padslot, pad. rewrite len_app. pose proof (slot_spec (len l)) as [[A B] _].
  rewrite len_repeat by lia. lia.
Qed.
Lemma len_cons {A} (x : A) l : len (x :: l) = 1 + len l.
Proof. unfold len. cbn [length]. lia. Qed.
Lemma len_nil {A} : len (@nil A) = 0.
Proof. reflexivity. Qed.
Lemma sits_nil m off : 0 <= off <= len m -> sits [] m off.
Proof. intros H. unfold sits. change (len (@nil cell)) with 0. split; [lia|]. split; [lia|]. intros i b Hi. destruct i; discriminate. Qed.
Lemma sits_padslot e rest m o : sits (padslot e ++ rest) m o -> sits e m o /\ sits rest m (o + slot (len e)).
Proof.
  intros H. apply sits_app in H. destruct H as [H1 H2]. rewrite len_padslot in H2. split; [|exact H2].
  unfold padslot in H1. apply sits_app in H1. tauto.
Qed.
Lemma sits_range img m off : sits img m off -> 0 <= off /\ off + len img <= len m.
Proof. intros [A [B _]]. split; assumption. Qed.

(* static size of an image *)
Lemma filter_all_true {A} (f : A -> bool) l : forallb f l = true -> filter f l = l.
Proof. induction l as [|a l IH]; [reflexivity|]. cbn. intros H. apply andb_prop in H. destruct H as [A1 A2]. rewrite A1, IH by exact A2. reflexivity. Qed.
Lemma filter_none_false {A} (f : A -> bool) l : forallb f l = true -> filter (fun x => negb (f x)) l = [].
Proof. induction l as [|a l IH]; [reflexivity|]. cbn. intros H. apply andb_prop in H. destruct H as [A1 A2]. rewrite A1, IH by exact A2. reflexivity. Qed.

Lemma enc_list_length : forall fs vs es, enc_list fs vs = Some es -> length es = length fs /\ length vs = length fs.
Proof.
  induction fs as [|f fs IH]; intros [|v vs] es H; cbn in H; try discriminate.
  - inversion H. auto.
  - destruct (enc f v) as [e|]; [|discriminate]. destruct (enc_list fs vs) as [r|] eqn:E; [|discriminate].
    inversion H; subst. destruct (IH _ _ E) as [A B]. cbn. auto.
Qed.
Lemma map_snd_combine {A B} : forall (l1 : list A) (l2 : list B), length l2 = length l1 -> map snd (combine l1 l2) = l2.
Proof. induction l1 as [|a l1 IH]; intros [|b l2] H; cbn in *; try reflexivity; try discriminate. f_equal. apply IH. lia. Qed.

(* ================= what the open cells of reference slots must hold ================= *)
Definition stat_len_of (fs : list ty) : Z := sumz (map (fun f => match csize f with Some s => slot s | None => 0 end) (filter is_static fs)).
Definition szs (l : list (list cell)) : list Z := map (fun e => slot (len e)) l.
Definition es_mem_of (sh : list Z) (order : list nat) (es : list (list cell)) : list (list cell) :=
  map (fun p => nth (Z.to_nat (logical_of_mem sh order p)) es []) (mem_positions sh).
(* offset (relative to the array) of logical item c *)
Definition item_pos (item : ty) (shape : list (option Z)) (order : list nat) (sh : list Z) (es : list (list cell)) (c : nat) : Z :=
  let mp := Perm.mem_pos sh order (unpos sh (Z.of_nat c)) in
  match csize item with
  | Some isz => arr_header true shape + isz * mp
  | None => arr_header false shape + 8 * prod sh + sumz (firstn (Z.to_nat mp) (szs (es_mem_of sh order es)))
  end.

(* [targets_ok t v m off]: every reference slot of the object of type t and value v lying at off in m
   holds the null word (for VNull) or an offset rel such that the referent's image sits at slot+rel
   (recursively); union references also hold the member index.  Positions of the parts are those of the
   image (pure arithmetic on image lengths).  Trivially true for reference-free types. *)
Fixpoint targets_ok (t : ty) (v : val) (m : mem) (off : Z) {struct t} : Prop :=
  match t, v with
  | TRef _, VNull => in_rangeb m off 8 = true /\ rd64 m off = NULLVALUE
  | TRef target, VRef w =>
      in_rangeb m off 8 = true /\ rd64 m off <> NULLVALUE /\
      exists timg, enc target w = Some timg /\ sits timg m (off + rd64 m off) /\ len timg < 2^62 /\ targets_ok target w m (off + rd64 m off)
  | TUnion _, VNull => in_rangeb m off 16 = true /\ rd64 m off = NULLVALUE /\ rd64 m (off + 8) = -1
  | TUnion ms, VMember k w =>
      in_rangeb m off 16 = true /\ rd64 m off <> NULLVALUE /\ rd64 m (off + 8) = Z.of_nat k /\
      (fix pick (ms : list ty) (k : nat) : Prop :=
         match ms, k with
         | mt :: _, O => exists timg, enc mt w = Some timg /\ sits timg m (off + rd64 m off) /\ len timg < 2^62 /\ targets_ok mt w m (off + rd64 m off)
         | _ :: tl, S k' => pick tl k'
         | [], _ => False
         end) ms k
  | TStruct fs, VStruct vs =>
      if forallb is_static fs then
        (fix go (fs : list ty) (vs : list val) (o : Z) : Prop :=
           match fs, vs with
           | [], [] => True
           | f :: fs', w :: vs' => targets_ok f w m o /\ match enc f w with Some e => go fs' vs' (o + slot (len e)) | None => False end
           | _, _ => False
           end) fs vs off
      else
        (fix go (fs : list ty) (vs : list val) (so dnext : Z) : Prop :=
           match fs, vs with
           | [], [] => True
           | f :: fs', w :: vs' =>
               match enc f w with
               | Some e => if is_static f then targets_ok f w m (off + so) /\ go fs' vs' (so + slot (len e)) dnext
                           else targets_ok f w m (off + dnext) /\ go fs' vs' so (dnext + slot (len e))
               | None => False
               end
           | _, _ => False
           end) fs vs 8 (8 + stat_len_of fs + 8 * (len fs - len (filter is_static fs) - 1))
  | TArray item shape order, VArr sh items =>
      match seqopt (map (enc item) items) with
      | Some es => forall c, (c < length items)%nat -> targets_ok item (nth c items VNull) m (off + item_pos item shape order sh es c)
      | None => False
      end
  | _, _ => True
  end.

Definition tok_static_list (m : mem) : list ty -> list val -> Z -> Prop :=
  fix go (fs : list ty) (vs : list val) (o : Z) : Prop :=
    match fs, vs with
    | [], [] => True
    | f :: fs', w :: vs' => targets_ok f w m o /\ match enc f w with Some e => go fs' vs' (o + slot (len e)) | None => False end
    | _, _ => False
    end.
Definition tok_dyn_list (m : mem) (off : Z) : list ty -> list val -> Z -> Z -> Prop :=
  fix go (fs : list ty) (vs : list val) (so dnext : Z) : Prop :=
    match fs, vs with
    | [], [] => True
    | f :: fs', w :: vs' =>
        match enc f w with
        | Some e => if is_static f then targets_ok f w m (off + so) /\ go fs' vs' (so + slot (len e)) dnext
                    else targets_ok f w m (off + dnext) /\ go fs' vs' so (dnext + slot (len e))
        | None => False
        end
    | _, _ => False
    end.
Lemma targets_ok_struct_eq fs vs m off : targets_ok (TStruct fs) (VStruct vs) m off =
  if forallb is_static fs then tok_static_list m fs vs off
  else tok_dyn_list m off fs vs 8 (8 + stat_len_of fs + 8 * (len fs - len (filter is_static fs) - 1)).
Proof. reflexivity. Qed.
Lemma targets_ok_array_eq item shape order sh items m off : targets_ok (TArray item shape order) (VArr sh items) m off =
  match seqopt (map (enc item) items) with
  | Some es => forall c, (c < length items)%nat -> targets_ok item (nth c items VNull) m (off + item_pos item shape order sh es c)
  | None => False
  end.
Proof. reflexivity. Qed.

(* ================= the statement ================= *)
Definition RT (t : ty) : Prop := forall v img m off,
  enc t v = Some img -> sits img m off -> len img < 2^62 -> targets_ok t v m off -> dec t m off = Some (v, len img).

Lemma RT_scalar k : RT (TScalar k).
Proof. intros v img m off H Hs _ _. destruct v as [bs| | | | | |]; try discriminate. eapply dec_enc_scalar; eassumption. Qed.
Lemma RT_string : RT TString.
Proof.
  intros v img m off H Hs Hl _. destruct v as [|bs size| | | | |]; try discriminate.
  assert (Hsz : size < 2^63).
  { cbn [enc] in H. destruct ((8 + len bs + 1 <=? size) && _) eqn:E; [|discriminate].
    assert (Himg : img = bytes (enc64 size) ++ bytes bs ++ bytes (repeat 0 (Z.to_nat (size - 8 - len bs)))) by congruence. subst img.
    rewrite !len_app, !len_bytes in Hl. apply andb_prop in E. destruct E as [E _]. apply Z.leb_le in E.
    rewrite len_repeat in Hl by (pose proof (len_nonneg bs); lia).
    assert (L8 : len (enc64 size) = 8) by (unfold len; rewrite enc64_length; reflexivity). lia. }
  eapply dec_enc_string; eassumption.
Qed.

(* ---- static structs ---- *)
Lemma len_concat_padslot_cons e r : len (concat (map padslot (e :: r))) = slot (len e) + len (concat (map padslot r)).
Proof. cbn [map concat]. rewrite len_app, len_padslot. reflexivity. Qed.

Lemma dec_static_list_ok : forall fs, Forall RT fs -> forall vs es m o,
  enc_list fs vs = Some es -> sits (concat (map padslot es)) m o -> len (concat (map padslot es)) < 2^62 ->
  tok_static_list m fs vs o ->
  dec_static_list m fs o = Some (vs, o + len (concat (map padslot es))).
Proof.
  induction fs as [|f fs IH]; intros HF vs es m o He Hs Hl Ht.
  - destruct vs; cbn in He; [|discriminate]. inversion He; subst. cbn. f_equal. f_equal. change (len (@nil cell)) with 0. lia.
  - destruct vs as [|v vs]; cbn in He; [discriminate|].
    destruct (enc f v) as [e|] eqn:Ee; [|discriminate]. destruct (enc_list fs vs) as [r|] eqn:Er; [|discriminate].
    inversion He; subst es. clear He. inversion HF as [|? ? Hf HFt]; subst.
    rewrite len_concat_padslot_cons in Hl. cbn [map concat] in Hs. apply sits_padslot in Hs. destruct Hs as [S1 S2].
    pose proof (slot_spec (len e)) as [[A _] _]. pose proof (len_nonneg (concat (map padslot r))) as Ln. pose proof (len_nonneg e).
    cbn [tok_static_list] in Ht. rewrite Ee in Ht. destruct Ht as [Ht1 Ht2].
    cbn [dec_static_list]. rewrite (Hf v e m o Ee S1 ltac:(lia) Ht1). cbn [fst snd].
    rewrite (IH HFt vs r m (o + slot (len e)) Er S2 ltac:(lia) Ht2). cbn [fst snd].
    rewrite len_concat_padslot_cons. f_equal. f_equal. lia.
Qed.

Lemma forallb_static_ndyn fs : forallb is_static fs = true -> len fs - len (filter is_static fs) =? 0 = true.
Proof. intros H. rewrite (filter_all_true _ _ H). lia. Qed.
Lemma combine_filter_static : forall (fs : list ty) (es : list (list cell)), length es = length fs -> forallb is_static fs = true ->
  filter (fun p : ty * list cell => negb (is_static (fst p))) (combine fs es) = [].
Proof.
  induction fs as [|f fs IH]; intros [|e es] Hl H; cbn in *; try reflexivity; try discriminate.
  apply andb_prop in H. destruct H as [A B]. rewrite A. cbn. apply IH; [lia|exact B].
Qed.

Lemma RT_struct_static fs : Forall RT fs -> forallb is_static fs = true -> RT (TStruct fs).
Proof.
  intros HF Hst v img m off H Hs Hl Ht. destruct v as [| |vs| | | |]; try discriminate.
  rewrite targets_ok_struct_eq, Hst in Ht.
  rewrite enc_struct_eq in H. destruct (enc_list fs vs) as [es|] eqn:Ee; [|discriminate]. inversion H; subst img. clear H.
  destruct (enc_list_length _ _ _ Ee) as [L1 L2].
  assert (Himg : enc_struct fs es = concat (map padslot es)).
  { unfold enc_struct. rewrite (combine_filter_static fs es L1 Hst). rewrite <- (map_snd_combine fs es L1) at 2.
    rewrite map_map. reflexivity. }
  rewrite Himg in *. rewrite (dec_struct_static_eq fs m off (forallb_static_ndyn fs Hst)).
  rewrite (dec_static_list_ok fs HF vs es m off Ee Hs Hl Ht). cbn [fst snd]. f_equal. f_equal. lia.
Qed.

(* ================= words in memory ================= *)
Definition words (ws : list Z) : list cell := concat (map (fun w => bytes (enc64 w)) ws).
Lemma len_words ws : len (words ws) = 8 * len ws.
Proof.
  induction ws as [|w ws IH]; [reflexivity|]. unfold words in *. cbn [map concat]. rewrite len_app, IH, len_bytes, len_cons.
  assert (L8 : len (enc64 w) = 8) by (unfold len; rewrite enc64_length; reflexivity). lia.
Qed.
Lemma sits_words_nth : forall ws m o, sits (words ws) m o -> Forall (fun w => - 2^63 <= w < 2^63) ws ->
  forall i, (i < length ws)%nat -> rd64 m (o + 8 * Z.of_nat i) = nth i ws 0.
Proof.
  induction ws as [|w ws IH]; intros m o Hs Hf i Hi; [cbn in Hi; lia|].
  inversion Hf as [|? ? Hw Hft]; subst. unfold words in Hs. cbn [map concat] in Hs. apply sits_app in Hs. destruct Hs as [S1 S2].
  rewrite len_bytes in S2. assert (L8 : len (enc64 w) = 8) by (unfold len; rewrite enc64_length; reflexivity). rewrite L8 in S2.
  destruct i as [|i].
  - cbn [nth]. replace (o + 8 * Z.of_nat 0) with o by lia. apply sits_rd64; assumption.
  - cbn [nth]. replace (o + 8 * Z.of_nat (S i)) with ((o + 8) + 8 * Z.of_nat i) by lia. apply IH; try assumption. cbn in Hi. lia.
Qed.
Lemma rd_words_spec m o ws : sits (words ws) m o -> Forall (fun w => - 2^63 <= w < 2^63) ws -> rd_words m o (len ws) = ws.
Proof.
  intros Hs Hf. unfold rd_words. unfold len. rewrite Nat2Z.id.
  apply nth_error_ext. intros i. destruct (Nat.lt_ge_cases i (length ws)) as [Hl|Hl].
  - rewrite nth_error_map. rewrite (nth_error_nth' (seq 0 (length ws)) O) by (rewrite seq_length; exact Hl).
    rewrite seq_nth by exact Hl. cbn [option_map Nat.add]. rewrite (sits_words_nth ws m o Hs Hf i Hl).
    symmetry. apply nth_error_nth'. exact Hl.
  - rewrite (proj2 (nth_error_None ws i) Hl). apply nth_error_None. rewrite map_length, seq_length. exact Hl.
Qed.

(* ================= shapes ================= *)
Lemma fill_dyn_dims : forall shape sh, shape_ok shape sh = true -> fill_shape shape (dyn_dims shape sh) = sh.
Proof.
  induction shape as [|[d|] tl IH]; intros [|x r] H; cbn in H; try discriminate; [reflexivity| |].
  - apply andb_prop in H. destruct H as [H Hr]. apply andb_prop in H. destruct H as [Hd _]. apply Z.eqb_eq in Hd. subst.
    cbn [dyn_dims fill_shape]. f_equal. apply IH; exact Hr.
  - apply andb_prop in H. destruct H as [_ Hr]. cbn [dyn_dims fill_shape]. f_equal. apply IH; exact Hr.
Qed.
Lemma shape_ok_length : forall shape sh, shape_ok shape sh = true -> length sh = length shape.
Proof.
  induction shape as [|[d|] tl IH]; intros [|x r] H; cbn in H; try discriminate; [reflexivity| |]; cbn; f_equal; apply IH.
  - apply andb_prop in H. tauto.
  - apply andb_prop in H. tauto.
Qed.
Lemma shape_ok_nonneg : forall shape sh, shape_ok shape sh = true -> Forall (fun d => 0 <= d) sh.
Proof.
  induction shape as [|[d|] tl IH]; intros [|x r] H; cbn in H; try discriminate; [constructor| |].
  - apply andb_prop in H. destruct H as [H Hr]. apply andb_prop in H. destruct H as [_ Hx]. constructor; [lia|apply IH; exact Hr].
  - apply andb_prop in H. destruct H as [Hx Hr]. constructor; [lia|apply IH; exact Hr].
Qed.
Lemma dyn_dims_length : forall shape sh, shape_ok shape sh = true -> len (dyn_dims shape sh) = ndyn shape.
Proof.
  induction shape as [|[d|] tl IH]; intros [|x r] H; cbn in H; try discriminate; [reflexivity| |]; cbn [dyn_dims ndyn].
  - apply andb_prop in H. apply IH. tauto.
  - apply andb_prop in H. rewrite len_cons, IH by tauto. reflexivity.
Qed.
Lemma prod_nonneg sh : Forall (fun d => 0 <= d) sh -> 0 <= prod sh.
Proof. induction 1; cbn [prod]; nia. Qed.
Lemma pos_shape_of_prod sh : Forall (fun d => 0 <= d) sh -> 0 < prod sh -> pos_shape sh.
Proof.
  induction 1 as [|d tl Hd Ht IH]; intros Hp; [constructor|]. cbn [prod] in Hp. pose proof (prod_nonneg tl Ht).
  constructor; [nia|apply IH; nia].
Qed.
Lemma perm_ok_is_perm order n : perm_ok order n = true -> Perm.is_perm order /\ length order = n.
Proof.
  unfold perm_ok. intros H. apply andb_prop in H. destruct H as [A B]. apply Nat.eqb_eq in A. split; [|exact A].
  unfold Perm.is_perm. rewrite A. apply Permutation_sym. apply NoDup_Permutation_bis; [apply seq_NoDup|rewrite seq_length; lia|].
  intros i Hi. rewrite forallb_forall in B. specialize (B i Hi). apply existsb_exists in B. destruct B as [x [Hx E]].
  apply Nat.eqb_eq in E. subst. exact Hx.
Qed.

(* memory position p holds the item with logical (row-major) index logical_of_mem p, and conversely *)
Lemma logical_of_mem_eq sh order p : logical_of_mem sh order p = pos sh (Perm.logical_idx sh order p).
Proof. reflexivity. Qed.
Lemma lom_range shape sh order p : shape_ok shape sh = true -> perm_ok order (length shape) = true -> 0 <= p < prod sh ->
  0 <= logical_of_mem sh order p < prod sh.
Proof.
  intros Hs Hp Hr. destruct (perm_ok_is_perm _ _ Hp) as [P1 P2]. pose proof (shape_ok_length _ _ Hs) as Hl.
  pose proof (pos_shape_of_prod sh (shape_ok_nonneg _ _ Hs) ltac:(lia)) as Hps.
  destruct (Perm.mem_pos_logical sh order p P1 ltac:(lia) Hps Hr) as [A _]. rewrite logical_of_mem_eq. apply pos_bound; assumption.
Qed.
Lemma lom_of_idx shape sh order c : shape_ok shape sh = true -> perm_ok order (length shape) = true -> 0 <= c < prod sh ->
  let idx := unpos sh c in
  0 <= Perm.mem_pos sh order idx < prod sh /\ logical_of_mem sh order (Perm.mem_pos sh order idx) = c /\
  forall isz, dot idx (get_strides sh order isz) = isz * Perm.mem_pos sh order idx.
Proof.
  intros Hs Hp Hr idx. destruct (perm_ok_is_perm _ _ Hp) as [P1 P2]. pose proof (shape_ok_length _ _ Hs) as Hl.
  pose proof (pos_shape_of_prod sh (shape_ok_nonneg _ _ Hs) ltac:(lia)) as Hps.
  assert (Hir : Strides.in_range sh idx) by (unfold idx; apply unpos_range; assumption).
  destruct (Perm.logical_mem_pos sh order idx P1 ltac:(lia) Hps Hir) as [A B]. split; [exact A|]. split.
  - rewrite logical_of_mem_eq, B. unfold idx. apply pos_unpos; assumption.
  - intros isz. apply Perm.strides_address; [exact P1|lia|exact Hir].
Qed.



(* ---- seqopt over map ---- *)
Lemma seqopt_map_spec {A B} (f : A -> option B) (dA : A) (dB : B) : forall l r, seqopt (map f l) = Some r ->
  length r = length l /\ forall i, (i < length l)%nat -> f (nth i l dA) = Some (nth i r dB).
Proof.
  induction l as [|a l IH]; intros r H; cbn in H.
  - inversion H; subst. split; [reflexivity|]. intros i Hi. cbn in Hi. lia.
  - destruct (f a) as [b|] eqn:Ea; [|discriminate]. destruct (seqopt (map f l)) as [r'|] eqn:E; [|discriminate].
    inversion H; subst. destruct (IH r' eq_refl) as [L N]. split; [cbn; lia|]. intros [|i] Hi; [exact Ea|]. cbn in Hi. cbn [nth]. apply N. lia.
Qed.
Lemma seqopt_map_intro {A B} (f : A -> option B) (dA : A) (dB : B) : forall l r, length r = length l ->
  (forall i, (i < length l)%nat -> f (nth i l dA) = Some (nth i r dB)) -> seqopt (map f l) = Some r.
Proof.
  induction l as [|a l IH]; intros [|b r] L N; cbn in L; try discriminate; [reflexivity|].
  cbn [map seqopt]. pose proof (N O ltac:(cbn; lia)) as N0. cbn [nth] in N0. rewrite N0. rewrite (IH r ltac:(lia)); [reflexivity|].
  intros i Hi. apply (N (S i)). cbn. lia.
Qed.

Lemma len_map {A B} (f : A -> B) l : len (map f l) = len l.
Proof. unfold len. rewrite map_length. reflexivity. Qed.
(* ---- a concatenation of equally long parts ---- *)
Lemma len_concat_uniform (l : list (list cell)) k : (forall x, In x l -> len x = k) -> len (concat l) = k * len l.
Proof.
  induction l as [|x l IH]; intros H; [cbn; change (len (@nil (list cell))) with 0; lia|].
  cbn [concat]. rewrite len_app, len_cons, IH by (intros y Hy; apply H; right; exact Hy). rewrite (H x) by (left; reflexivity). lia.
Qed.
Lemma sits_concat_uniform : forall (l : list (list cell)) m o k, sits (concat l) m o -> (forall x, In x l -> len x = k) ->
  forall p, (p < length l)%nat -> sits (nth p l []) m (o + k * Z.of_nat p).
Proof.
  induction l as [|x l IH]; intros m o k Hs Hk p Hp; [cbn in Hp; lia|].
  cbn [concat] in Hs. apply sits_app in Hs. destruct Hs as [S1 S2]. rewrite (Hk x) in S2 by (left; reflexivity).
  destruct p as [|p].
  - cbn [nth]. replace (o + k * Z.of_nat 0) with o by lia. exact S1.
  - cbn [nth]. replace (o + k * Z.of_nat (S p)) with ((o + k) + k * Z.of_nat p) by lia. apply IH; [exact S2| |cbn in Hp; lia].
    intros y Hy. apply Hk. right. exact Hy.
Qed.

(* ================= sizes of images of static types ================= *)
Definition csize_list : list ty -> option Z :=
  fix go (fs : list ty) : option Z :=
    match fs with
    | [] => Some 0
    | f :: tl => match csize f, go tl with Some a, Some b => Some (slot a + b) | _, _ => None end
    end.
Lemma csize_struct_eq fs : csize (TStruct fs) = csize_list fs.
Proof. reflexivity. Qed.
Lemma csize_list_static : forall fs s, csize_list fs = Some s -> forallb is_static fs = true.
Proof.
  induction fs as [|f fs IH]; intros s H; [reflexivity|]. cbn in H. cbn [forallb]. unfold is_static at 1.
  destruct (csize f) as [a|]; [|discriminate]. destruct (csize_list fs) as [b|] eqn:E; [|discriminate]. cbn. apply (IH b eq_refl).
Qed.
Lemma enc_struct_static fs es : length es = length fs -> forallb is_static fs = true -> enc_struct fs es = concat (map padslot es).
Proof.
  intros L H. unfold enc_struct. rewrite (combine_filter_static fs es L H).
  rewrite <- (map_snd_combine fs es L) at 2. rewrite map_map. reflexivity.
Qed.

Definition SZ (t : ty) : Prop := forall v img s, enc t v = Some img -> csize t = Some s -> len img = s.

Lemma SZ_list : forall fs, Forall SZ fs -> forall vs es s, enc_list fs vs = Some es -> csize_list fs = Some s ->
  len (concat (map padslot es)) = s.
Proof.
  induction fs as [|f fs IH]; intros HF vs es s He Hc.
  - destruct vs; cbn in He; [|discriminate]. inversion He; subst. cbn in Hc. inversion Hc. reflexivity.
  - destruct vs as [|v vs]; cbn in He; [discriminate|].
    destruct (enc f v) as [e|] eqn:Ee; [|discriminate]. destruct (enc_list fs vs) as [r|] eqn:Er; [|discriminate].
    inversion He; subst es. clear He. inversion HF as [|? ? Hf HFt]; subst.
    cbn in Hc. destruct (csize f) as [a|] eqn:Ca; [|discriminate]. destruct (csize_list fs) as [b|] eqn:Cb; [|discriminate].
    inversion Hc; subst s. rewrite len_concat_padslot_cons. rewrite (Hf v e a Ee Ca). rewrite (IH HFt vs r b Er eq_refl). reflexivity.
Qed.

Lemma all_some_shape_ok : forall shape sh0 sh, all_some shape = Some sh0 -> shape_ok shape sh = true -> sh = sh0 /\ ndyn shape = 0.
Proof.
  induction shape as [|[d|] tl IH]; intros sh0 [|x r] Ha Hs; cbn in Ha, Hs; try discriminate.
  - inversion Ha. split; reflexivity.
  - destruct (all_some tl) as [r0|] eqn:E; [|discriminate]. inversion Ha; subst sh0.
    apply andb_prop in Hs. destruct Hs as [Hs Hr]. apply andb_prop in Hs. destruct Hs as [Hd _]. apply Z.eqb_eq in Hd. subst x.
    destruct (IH r0 r eq_refl Hr) as [A B]. subst. split; [reflexivity|exact B].
Qed.

Lemma mem_positions_length sh : 0 <= prod sh -> len (mem_positions sh) = prod sh.
Proof. intros H. unfold mem_positions, len. rewrite map_length, seq_length. lia. Qed.
Lemma In_mem_positions sh p : In p (mem_positions sh) -> 0 <= p < prod sh.
Proof.
  unfold mem_positions. intros H. apply in_map_iff in H. destruct H as [i [E Hi]]. apply in_seq in Hi. lia.
Qed.

(* all item images of a static item type have the static size, hence so do the images in memory order *)
Lemma es_mem_uniform item shape order sh items es isz :
  SZ item -> csize item = Some isz -> shape_ok shape sh = true -> perm_ok order (length shape) = true ->
  len items = prod sh -> seqopt (map (enc item) items) = Some es ->
  forall x, In x (map (fun p => nth (Z.to_nat (logical_of_mem sh order p)) es []) (mem_positions sh)) -> len x = isz.
Proof.
  intros Hsz Hc Hs Hp Hn He x Hx. apply in_map_iff in Hx. destruct Hx as [p [E Hpin]]. apply In_mem_positions in Hpin.
  destruct (seqopt_map_spec (enc item) VNull [] items es He) as [L N].
  pose proof (lom_range shape sh order p Hs Hp Hpin) as Hr.
  assert (Hi : (Z.to_nat (logical_of_mem sh order p) < length items)%nat) by (unfold len in Hn; lia).
  subst x. eapply Hsz; [apply N; exact Hi|exact Hc].
Qed.

Lemma SZ_all : forall t, SZ t.
Proof.
  apply ty_ind'.
  - intros k v img s H Hc. destruct v as [bs| | | | | |]; try discriminate. cbn in H, Hc.
    destruct (len bs =? ssize k) eqn:E; [|discriminate]. apply Z.eqb_eq in E. inversion H; subst. inversion Hc; subst. rewrite len_bytes. exact E.
  - intros v img s H Hc. discriminate.
  - intros fs HF v img s H Hc. destruct v as [| |vs| | | |]; try discriminate.
    rewrite enc_struct_eq in H. destruct (enc_list fs vs) as [es|] eqn:Ee; [|discriminate]. inversion H; subst img. clear H.
    rewrite csize_struct_eq in Hc. destruct (enc_list_length _ _ _ Ee) as [L1 _].
    rewrite (enc_struct_static fs es L1 (csize_list_static fs s Hc)). eapply SZ_list; eassumption.
  - intros item shape order Hsz v img s H Hc. destruct v as [| | |sh items| | |]; try discriminate.
    cbn [enc] in H. destruct (shape_ok shape sh && perm_ok order (length shape) && (len items =? prod sh) && words_fit item shape order sh) eqn:G; [|discriminate].
  apply andb_prop in G. destruct G as [G Gw].
    apply andb_prop in G. destruct G as [G Gn]. apply andb_prop in G. destruct G as [Gs Gp]. apply Z.eqb_eq in Gn.
    destruct (seqopt (map (enc item) items)) as [es|] eqn:Ee; [|discriminate]. inversion H; subst img. clear H.
    cbn [csize] in Hc. destruct (csize item) as [isz|] eqn:Ci; [|discriminate]. destruct (all_some shape) as [sh0|] eqn:Ea; [|discriminate].
    inversion Hc; subst s. clear Hc. destruct (all_some_shape_ok _ _ _ Ea Gs) as [Esh Hnd]. subst sh0.
    unfold enc_array. unfold is_static. rewrite Ci. unfold arr_header. rewrite Hnd. cbn [andb Z.eqb Z.ltb Z.compare Z.mul Z.add].
    set (es_mem := map (fun p => nth (Z.to_nat (logical_of_mem sh order p)) es []) (mem_positions sh)).
    pose proof (es_mem_uniform item shape order sh items es isz Hsz Ci Gs Gp Gn Ee) as Hu. fold es_mem in Hu.
    pose proof (prod_nonneg sh (shape_ok_nonneg _ _ Gs)) as Hpn.
    assert (Hlen : len (concat es_mem) = isz * prod sh).
    { rewrite (len_concat_uniform es_mem isz Hu). unfold es_mem. rewrite len_map, mem_positions_length by exact Hpn. reflexivity. }
    assert (Hisz : 0 <= isz * prod sh) by (rewrite <- Hlen; apply len_nonneg).
    pose proof (slot_spec (isz * prod sh)) as [[A B] _].
    rewrite Hlen. cbn [app]. unfold padto, pad. rewrite len_app, Hlen, len_repeat by lia. lia.
  - intros t _ v img s H Hc. cbn [csize] in Hc. inversion Hc; subst s. destruct v as [| | | | |w|]; try discriminate; cbn [enc] in H; inversion H; reflexivity.
  - intros ms _ v img s H Hc. cbn [csize] in Hc. inversion Hc; subst s. destruct v as [| | | | | |k w]; try discriminate; cbn [enc] in H.
    + inversion H; reflexivity.
    + destruct (k <? length ms)%nat; [inversion H; reflexivity|discriminate].
Qed.

(* ================= arrays of static items ================= *)
Definition fits (x : Z) : Prop := - 2^63 <= x < 2^63.
Lemma forallb_fits l : forallb fits64b l = true -> Forall fits l.
Proof.
  intros H. apply Forall_forall. intros x Hx. rewrite forallb_forall in H. specialize (H x Hx). unfold fits64b in H.
  apply andb_prop in H. destruct H as [A B]. apply Z.leb_le in A. apply Z.ltb_lt in B. split; assumption.
Qed.

Lemma guard_true b : b = true -> guard b = Some tt.
Proof. intros ->. reflexivity. Qed.
Lemma dyn_dims_nil shape sh : shape_ok shape sh = true -> ndyn shape = 0 -> dyn_dims shape sh = [].
Proof. intros H Z0. pose proof (dyn_dims_length _ _ H) as L. rewrite Z0 in L. destruct (dyn_dims shape sh); [reflexivity|]. rewrite len_cons in L. pose proof (len_nonneg l). lia. Qed.
Lemma ndyn_nonneg shape : 0 <= ndyn shape.
Proof. induction shape as [|[d|] tl IH]; cbn [ndyn]; lia. Qed.
Lemma list_eqbZ_refl l : list_eqbZ l l = true.
Proof. induction l as [|x l IH]; [reflexivity|]. cbn. rewrite Z.eqb_refl, IH. reflexivity. Qed.
Lemma rd_words_0 m o : rd_words m o 0 = [].
Proof. reflexivity. Qed.

Lemma map_nth_in {A B} (f : A -> B) : forall l k dB dA, (k < length l)%nat -> nth k (map f l) dB = f (nth k l dA).
Proof. induction l as [|a l IH]; intros [|k] dB dA H; cbn in *; try lia; [reflexivity|]. apply IH. lia. Qed.
Lemma nth_mem_positions sh k : (k < Z.to_nat (prod sh))%nat -> nth k (mem_positions sh) 0 = Z.of_nat k.
Proof. intros H. unfold mem_positions. rewrite (map_nth_in _ _ _ 0 O%nat) by (rewrite seq_length; exact H). rewrite seq_nth by exact H. reflexivity. Qed.

Lemma items_static_dec item shape order isz sh items es m base :
  RT item -> csize item = Some isz -> shape_ok shape sh = true -> perm_ok order (length shape) = true ->
  len items = prod sh -> seqopt (map (enc item) items) = Some es ->
  sits (concat (map (fun p => nth (Z.to_nat (logical_of_mem sh order p)) es []) (mem_positions sh))) m base ->
  isz * prod sh < 2^62 ->
  (forall c, (c < length items)%nat -> targets_ok item (nth c items VNull) m (base + isz * Perm.mem_pos sh order (unpos sh (Z.of_nat c)))) ->
  forall c, (c < Z.to_nat (prod sh))%nat ->
  dec item m (base + dot (unpos sh (Z.of_nat c)) (get_strides sh order isz)) = Some (nth c items VNull, isz).
Proof.
  intros HR Ci Gs Gp Gn Ee SB Hb Htok c Hc.
  pose proof (es_mem_uniform item shape order sh items es isz (SZ_all item) Ci Gs Gp Gn Ee) as Hu.
  set (es_mem := map (fun p => nth (Z.to_nat (logical_of_mem sh order p)) es []) (mem_positions sh)) in *.
  destruct (lom_of_idx shape sh order (Z.of_nat c) Gs Gp ltac:(lia)) as [Hmp [Hlom Hdot]]. cbv zeta in Hmp, Hlom, Hdot.
  set (mp := Perm.mem_pos sh order (unpos sh (Z.of_nat c))) in *.
  rewrite Hdot.
  assert (Hlm : length es_mem = Z.to_nat (prod sh)) by (unfold es_mem, mem_positions; rewrite !map_length, seq_length; reflexivity).
  pose proof (sits_concat_uniform es_mem m base isz SB Hu (Z.to_nat mp) ltac:(lia)) as Sx.
  rewrite Z2Nat.id in Sx by lia.
  assert (Ex : nth (Z.to_nat mp) es_mem [] = nth c es []).
  { unfold es_mem. rewrite (map_nth_in _ _ _ [] 0) by (unfold mem_positions; rewrite map_length, seq_length; lia).
    rewrite nth_mem_positions by lia. rewrite Z2Nat.id by lia. rewrite Hlom. rewrite Nat2Z.id. reflexivity. }
  rewrite Ex in Sx.
  destruct (seqopt_map_spec (enc item) VNull [] items es Ee) as [L N].
  assert (Hci : (c < length items)%nat) by (unfold len in Gn; lia).
  pose proof (N c Hci) as Hen. pose proof (SZ_all item _ _ _ Hen Ci) as Hle.
  rewrite (HR _ _ m _ Hen Sx); [rewrite Hle; reflexivity| |apply (Htok c Hci)]. rewrite Hle.
  assert (0 <= isz) by (rewrite <- Hle; apply len_nonneg). nia.
Qed.

Lemma items_static_seqopt item shape order isz sh items es m base :
  RT item -> csize item = Some isz -> shape_ok shape sh = true -> perm_ok order (length shape) = true ->
  len items = prod sh -> seqopt (map (enc item) items) = Some es ->
  sits (concat (map (fun p => nth (Z.to_nat (logical_of_mem sh order p)) es []) (mem_positions sh))) m base ->
  isz * prod sh < 2^62 ->
  (forall c, (c < length items)%nat -> targets_ok item (nth c items VNull) m (base + isz * Perm.mem_pos sh order (unpos sh (Z.of_nat c)))) ->
  seqopt (map (fun idx : list Z => match dec item m (base + dot idx (get_strides sh order isz)) with Some vs => Some (fst vs) | None => None end)
              (map (fun c : nat => unpos sh (Z.of_nat c)) (seq 0 (Z.to_nat (prod sh))))) = Some items.
Proof.
  intros HR Ci Gs Gp Gn Ee SB Hb Htok. rewrite map_map.
  apply (seqopt_map_intro _ O VNull); [rewrite seq_length; unfold len in Gn; lia|].
  intros i Hi. rewrite seq_length in Hi. rewrite seq_nth by exact Hi. cbn [Nat.add].
  rewrite (items_static_dec item shape order isz sh items es m base HR Ci Gs Gp Gn Ee SB Hb Htok i Hi). reflexivity.
Qed.

Lemma RT_array_static item shape order isz : RT item -> csize item = Some isz ->
  forall sh items img m off,
  enc (TArray item shape order) (VArr sh items) = Some img -> sits img m off -> len img < 2^62 ->
  targets_ok (TArray item shape order) (VArr sh items) m off ->
  dec (TArray item shape order) m off = Some (VArr sh items, len img).
Proof.
  intros HR Ci sh items img m off H Hs Hl Htok0. rewrite targets_ok_array_eq in Htok0.
  cbn [enc] in H. destruct (shape_ok shape sh && perm_ok order (length shape) && (len items =? prod sh) && words_fit item shape order sh) eqn:G; [|discriminate].
  apply andb_prop in G. destruct G as [G Gw].
  apply andb_prop in G. destruct G as [G Gn]. apply andb_prop in G. destruct G as [Gs Gp]. apply Z.eqb_eq in Gn.
  destruct (seqopt (map (enc item) items)) as [es|] eqn:Ee; [|discriminate]. inversion H; subst img. clear H.
  unfold words_fit in Gw. rewrite Ci in Gw. apply andb_prop in Gw. destruct Gw as [Fd Fs]. apply forallb_fits in Fd. apply forallb_fits in Fs.
  pose proof (es_mem_uniform item shape order sh items es isz (SZ_all item) Ci Gs Gp Gn Ee) as Hu.
  assert (Hst : is_static item = true) by (unfold is_static; rewrite Ci; reflexivity).
  unfold enc_array in *. rewrite Hst, Ci in *.
  set (es_mem := map (fun p => nth (Z.to_nat (logical_of_mem sh order p)) es []) (mem_positions sh)) in *.
  pose proof (prod_nonneg sh (shape_ok_nonneg _ _ Gs)) as Hpn.
  assert (Hlen : len (concat es_mem) = isz * prod sh).
  { rewrite (len_concat_uniform es_mem isz Hu). unfold es_mem. rewrite len_map, mem_positions_length by exact Hpn. reflexivity. }
  rewrite Hlen in *.
  set (hdr := arr_header true shape) in *. set (total := slot (hdr + isz * prod sh)) in *.
  pose proof (ndyn_nonneg shape) as Hnd0. pose proof (len_nonneg shape) as Hls0.
  assert (Hisz : 0 <= isz * prod sh) by (rewrite <- Hlen; apply len_nonneg).
  assert (Hhdr0 : 0 <= hdr).
  { unfold hdr, arr_header. destruct (true && (ndyn shape =? 0)); destruct ((0 <? ndyn shape) && (1 <? len shape)); lia. }
  pose proof (slot_spec (hdr + isz * prod sh)) as [[TA TB] TM]. fold total in TA, TB, TM.
  pose proof (dyn_dims_length _ _ Gs) as Ldd.
  assert (Lst : len (get_strides sh order isz) = len shape).
  { unfold len. rewrite get_strides_length. apply andb_prop in Gp. destruct Gp as [Gp _]. apply Nat.eqb_eq in Gp. lia. }
  apply sits_app in Hs. destruct Hs as [SH SB].
  assert (Hbody : forall base, sits (padto (concat es_mem) (total - hdr)) m base -> sits (concat es_mem) m base).
  { intros base Hb. unfold padto in Hb. apply sits_app in Hb. tauto. }
  assert (Hlimg : len (padto (concat es_mem) (total - hdr)) = total - hdr).
  { unfold padto, pad. rewrite len_app, Hlen, len_repeat by lia. lia. }
  rewrite len_app, Hlimg in Hl |- *.
  assert (Htl : total - hdr + hdr = total) by lia.
  assert (Hib : isz * prod sh < 2^62) by (match type of Hl with len ?h + _ < _ => pose proof (len_nonneg h) end; lia).
  cbn [dec]. rewrite Hst, Ci. fold hdr. cbn [andb].
  destruct (ndyn shape =? 0) eqn:End.
  - apply Z.eqb_eq in End. assert (Hh : hdr = 0) by (unfold hdr, arr_header; rewrite End; reflexivity).
    change (len (@nil cell)) with 0 in *.
    rewrite guard_true by (rewrite Gp; cbn [andb]; unfold in_rangeb; destruct SH as [? [? _]]; unfold len in *; lia).
    rewrite End, rd_words_0. rewrite <- (dyn_dims_nil shape sh Gs End), (fill_dyn_dims _ _ Gs), Gs. cbn [guard].
    change (0 <? 0) with false. cbn [andb negb orb guard]. fold total.
    rewrite guard_true by (apply (sits_in_range _ _ _) in SB; rewrite Hlimg in SB; replace (off + 0) with off in SB by lia; replace total with (total - hdr) by lia; exact SB).
    rewrite (items_static_seqopt item shape order isz sh items es m (off + hdr) HR Ci Gs Gp Gn Ee); [f_equal; f_equal; lia| |exact Hib|
      intros c Hc; specialize (Htok0 c Hc); unfold item_pos in Htok0; rewrite Ci in Htok0;
      replace (off + hdr + isz * Perm.mem_pos sh order (unpos sh (Z.of_nat c))) with (off + (arr_header true shape + isz * Perm.mem_pos sh order (unpos sh (Z.of_nat c)))) by (unfold hdr; lia); exact Htok0].
    apply Hbody. replace (off + hdr) with (off + 0) by lia. exact SB.
  - apply Z.eqb_neq in End. assert (Hndp : 0 < ndyn shape) by lia.
    change (concat (map (fun d : Z => bytes (enc64 d)) (dyn_dims shape sh))) with (words (dyn_dims shape sh)) in *.
    set (strs := if (0 <? ndyn shape) && (1 <? len shape) then get_strides sh order isz else []) in *.
    change (concat (map (fun s : Z => bytes (enc64 s)) strs)) with (words strs) in *.
    assert (L8 : len (bytes (enc64 total)) = 8) by (rewrite len_bytes; unfold len; rewrite enc64_length; reflexivity).
    assert (LH : len (bytes (enc64 total) ++ words (dyn_dims shape sh) ++ words strs) = hdr).
    { rewrite !len_app, L8, !len_words, Ldd. unfold hdr, arr_header, strs. replace (ndyn shape =? 0) with false by (symmetry; apply Z.eqb_neq; lia).
      cbn [andb]. destruct ((0 <? ndyn shape) && (1 <? len shape)); [rewrite Lst|change (len (@nil Z)) with 0]; lia. }
    rewrite LH in *.
    pose proof SH as SH0. apply sits_app in SH. destruct SH as [S0 SH]. rewrite L8 in SH. apply sits_app in SH. destruct SH as [S1 S2].
    rewrite len_words, Ldd in S2.
    rewrite guard_true by (rewrite Gp; cbn [andb]; apply (sits_in_range _ _ _) in SH0; rewrite LH in SH0; exact SH0).
    assert (Hrw : rd_words m (off + 8) (ndyn shape) = dyn_dims shape sh) by (rewrite <- Ldd; apply rd_words_spec; assumption).
    rewrite Hrw.
    rewrite (fill_dyn_dims _ _ Gs), Gs. cbn [guard]. fold total.
    assert (Hg2 : negb ((0 <? ndyn shape) && (1 <? len shape)) || list_eqbZ (rd_words m (off + 8 + 8 * ndyn shape) (len shape)) (get_strides sh order isz) = true).
    { unfold strs in S2. destruct ((0 <? ndyn shape) && (1 <? len shape)); [|reflexivity]. cbn [negb orb].
      rewrite <- Lst. rewrite (rd_words_spec m _ _ S2 Fs). apply list_eqbZ_refl. }
    rewrite Hg2. cbn [guard].
    rewrite (sits_rd64 total m off ltac:(lia) S0). rewrite Z.eqb_refl. cbn [orb andb].
    rewrite guard_true by (unfold in_rangeb; destruct SB as [? [SBr _]]; destruct S0 as [? _]; rewrite Hlimg in SBr; unfold len in *; lia).
    rewrite (items_static_seqopt item shape order isz sh items es m (off + hdr) HR Ci Gs Gp Gn Ee); [f_equal; f_equal; lia| |exact Hib|
      intros c Hc; specialize (Htok0 c Hc); unfold item_pos in Htok0; rewrite Ci in Htok0;
      replace (off + hdr + isz * Perm.mem_pos sh order (unpos sh (Z.of_nat c))) with (off + (arr_header true shape + isz * Perm.mem_pos sh order (unpos sh (Z.of_nat c)))) by (unfold hdr; lia); exact Htok0].
    apply Hbody. exact SB.
Qed.



(* ================= structs with dynamic fields ================= *)
Definition dec_dyn_list (m : mem) (off stat_len : Z) : list ty -> Z -> Z -> Z -> option (list val * Z) :=
  fix go (fs : list ty) (so : Z) (k : Z) (dnext : Z) : option (list val * Z) :=
    match fs with
    | [] => Some ([], dnext)
    | f :: tl =>
        if is_static f then
          match dec f m (off + so) with
          | Some vs => match go tl (so + slot (snd vs)) k dnext with Some r => Some (fst vs :: fst r, snd r) | None => None end
          | None => None
          end
        else
          let o := if k =? 0 then dnext else rd64 m (off + 8 + stat_len + 8 * (k - 1)) in
          match guard ((dnext <=? o) && (o mod 8 =? 0)) with
          | Some _ =>
            match dec f m (off + o) with
            | Some vs => match go tl so (k + 1) (o + slot (snd vs)) with Some r => Some (fst vs :: fst r, snd r) | None => None end
            | None => None
            end
          | None => None
          end
    end.


Lemma dec_struct_dyn_eq fs m off : len fs - len (filter is_static fs) =? 0 = false ->
  dec (TStruct fs) m off =
  match guard (in_rangeb m off 8) with
  | Some _ =>
    let total := rd64 m off in
    match guard ((8 <=? total) && in_rangeb m off total) with
    | Some _ =>
      let hdr := 8 + stat_len_of fs + 8 * (len fs - len (filter is_static fs) - 1) in
      match dec_dyn_list m off (stat_len_of fs) fs 8 0 hdr with
      | Some r => match guard ((snd r <=? total) && (total mod 8 =? 0)) with Some _ => Some (VStruct (fst r), total) | None => None end
      | None => None
      end
    | None => None
    end
  | None => None
  end.
Proof. intros H. cbn [dec]. rewrite H. reflexivity. Qed.

Definition spairs (fs : list ty) (es : list (list cell)) := filter (fun p : ty * list cell => is_static (fst p)) (combine fs es).
Definition dpairs (fs : list ty) (es : list (list cell)) := filter (fun p : ty * list cell => negb (is_static (fst p))) (combine fs es).
Definition pimg (ps : list (ty * list cell)) : list cell := concat (map (fun p => padslot (snd p)) ps).
Definition psz (ps : list (ty * list cell)) : list Z := map (fun p => slot (len (snd p))) ps.

Lemma enc_struct_dyn_eq fs es p ps : dpairs fs es = p :: ps ->
  enc_struct fs es =
  let hdr := 8 + len (pimg (spairs fs es)) + 8 * (len (dpairs fs es) - 1) in
  bytes (enc64 (hdr + sumz (psz (dpairs fs es)))) ++ pimg (spairs fs es) ++ words (tl (offsets_from hdr (psz (dpairs fs es)))) ++ pimg (dpairs fs es).
Proof. intros H. unfold enc_struct. fold (spairs fs es). fold (dpairs fs es). rewrite H. reflexivity. Qed.

Lemma spairs_cons_static f e fs es : is_static f = true -> spairs (f :: fs) (e :: es) = (f, e) :: spairs fs es.
Proof. intros H. unfold spairs. cbn [combine filter fst]. rewrite H. reflexivity. Qed.
Lemma spairs_cons_dyn f e fs es : is_static f = false -> spairs (f :: fs) (e :: es) = spairs fs es.
Proof. intros H. unfold spairs. cbn [combine filter fst]. rewrite H. reflexivity. Qed.
Lemma dpairs_cons_static f e fs es : is_static f = true -> dpairs (f :: fs) (e :: es) = dpairs fs es.
Proof. intros H. unfold dpairs. cbn [combine filter fst]. rewrite H. reflexivity. Qed.
Lemma dpairs_cons_dyn f e fs es : is_static f = false -> dpairs (f :: fs) (e :: es) = (f, e) :: dpairs fs es.
Proof. intros H. unfold dpairs. cbn [combine filter fst]. rewrite H. reflexivity. Qed.
Lemma pimg_cons f e ps : pimg ((f, e) :: ps) = padslot e ++ pimg ps.
Proof. reflexivity. Qed.
Lemma psz_cons f e ps : psz ((f, e) :: ps) = slot (len e) :: psz ps.
Proof. reflexivity. Qed.
Lemma sumz_cons x l : sumz (x :: l) = x + sumz l.
Proof. reflexivity. Qed.
Lemma len_pimg ps : len (pimg ps) = sumz (psz ps).
Proof. induction ps as [|[f e] ps IH]; [reflexivity|]. rewrite pimg_cons, psz_cons, sumz_cons, len_app, len_padslot, IH. reflexivity. Qed.
Lemma sumz_psz_nonneg ps : 0 <= sumz (psz ps).
Proof. rewrite <- len_pimg. apply len_nonneg. Qed.
Lemma sumz_psz_mod8 ps : sumz (psz ps) mod 8 = 0.
Proof.
  induction ps as [|[f e] ps IH]; [reflexivity|]. rewrite psz_cons, sumz_cons.
  pose proof (slot_spec (len e)) as [_ M]. rewrite Z.add_mod, M, IH by lia. reflexivity.
Qed.

Lemma dec_dyn_list_ok m off stat_len : forall fs, Forall RT fs -> forall vs es so k dnext,
  enc_list fs vs = Some es ->
  sits (pimg (spairs fs es)) m (off + so) -> sits (pimg (dpairs fs es)) m (off + dnext) ->
  (forall j, (j < length (psz (dpairs fs es)))%nat -> 1 <= k + Z.of_nat j ->
     rd64 m (off + 8 + stat_len + 8 * (k + Z.of_nat j - 1)) = dnext + sumz (firstn j (psz (dpairs fs es)))) ->
  0 <= k -> dnext mod 8 = 0 -> sumz (psz (spairs fs es)) < 2^62 -> sumz (psz (dpairs fs es)) < 2^62 ->
  tok_dyn_list m off fs vs so dnext ->
  dec_dyn_list m off stat_len fs so k dnext = Some (vs, dnext + sumz (psz (dpairs fs es))).
Proof.
  induction fs as [|f fs IH]; intros HF vs es so k dnext He Ss Sd Ht Hk Hm Bs Bd Htok.
  - destruct vs; cbn in He; [|discriminate]. inversion He; subst. cbn. f_equal. f_equal. lia.
  - destruct vs as [|v vs]; cbn in He; [discriminate|].
    destruct (enc f v) as [e|] eqn:Ee; [|discriminate]. destruct (enc_list fs vs) as [r|] eqn:Er; [|discriminate].
    inversion He; subst es. clear He. inversion HF as [|? ? Hf HFt]; subst.
    pose proof (slot_spec (len e)) as [[SA SB] SM]. pose proof (len_nonneg e) as Le.
    cbn [tok_dyn_list] in Htok. rewrite Ee in Htok.
    cbn [dec_dyn_list]. destruct (is_static f) eqn:Es; destruct Htok as [Htok1 Htok2].
    + rewrite (spairs_cons_static f e fs r Es) in Ss, Bs. rewrite (dpairs_cons_static f e fs r Es) in Sd, Ht, Bd |- *.
      rewrite pimg_cons in Ss. apply sits_padslot in Ss. destruct Ss as [S1 S2]. rewrite psz_cons, sumz_cons in Bs.
      pose proof (sumz_psz_nonneg (spairs fs r)).
      rewrite (Hf v e m (off + so) Ee S1 ltac:(lia) Htok1). cbn [fst snd].
      rewrite (IH HFt vs r (so + slot (len e)) k dnext Er); try assumption; [reflexivity| |lia].
      replace (off + (so + slot (len e))) with (off + so + slot (len e)) by lia. exact S2.
    + rewrite (spairs_cons_dyn f e fs r Es) in Ss, Bs. rewrite (dpairs_cons_dyn f e fs r Es) in Sd, Ht, Bd |- *.
      rewrite pimg_cons in Sd. apply sits_padslot in Sd. destruct Sd as [S1 S2]. rewrite psz_cons, sumz_cons in Bd |- *.
      pose proof (sumz_psz_nonneg (dpairs fs r)).
      assert (Ho : (if k =? 0 then dnext else rd64 m (off + 8 + stat_len + 8 * (k - 1))) = dnext).
      { destruct (k =? 0) eqn:Ek; [reflexivity|]. apply Z.eqb_neq in Ek.
        pose proof (Ht O ltac:(rewrite psz_cons; cbn; lia) ltac:(lia)) as H0. cbn [firstn sumz fold_right] in H0.
        replace (k + Z.of_nat 0 - 1) with (k - 1) in H0 by lia. rewrite H0. lia. }
      rewrite Ho. rewrite guard_true by (rewrite Z.leb_refl, Hm; reflexivity).
      rewrite (Hf v e m (off + dnext) Ee S1 ltac:(lia) Htok1). cbn [fst snd].
      rewrite (IH HFt vs r so (k + 1) (dnext + slot (len e)) Er); try assumption.
      * rewrite Z.add_assoc. reflexivity.
      * replace (off + (dnext + slot (len e))) with (off + dnext + slot (len e)) by lia. exact S2.
      * intros j Hj H1. pose proof (Ht (S j) ltac:(rewrite psz_cons; cbn [length]; lia) ltac:(lia)) as HS.
        rewrite psz_cons in HS. cbn [firstn] in HS. rewrite sumz_cons in HS.
        replace (k + 1 + Z.of_nat j - 1) with (k + Z.of_nat (S j) - 1) by lia. rewrite HS. lia.
      * lia.
      * rewrite Z.add_mod, Hm, SM by lia. reflexivity.
      * lia.
Qed.

Lemma stat_len_spairs : forall fs vs es, enc_list fs vs = Some es -> stat_len_of fs = sumz (psz (spairs fs es)).
Proof.
  induction fs as [|f fs IH]; intros vs es He.
  - destruct vs; cbn in He; [|discriminate]. inversion He; subst. reflexivity.
  - destruct vs as [|v vs]; cbn in He; [discriminate|].
    destruct (enc f v) as [e|] eqn:Ee; [|discriminate]. destruct (enc_list fs vs) as [r|] eqn:Er; [|discriminate].
    inversion He; subst es. clear He. unfold stat_len_of in *. cbn [filter]. destruct (is_static f) eqn:Es.
    + rewrite (spairs_cons_static f e fs r Es), psz_cons, sumz_cons. cbn [map]. rewrite sumz_cons, (IH vs r Er).
      unfold is_static in Es. destruct (csize f) as [s|] eqn:Cs; [|discriminate]. rewrite (SZ_all f v e s Ee Cs). reflexivity.
    + rewrite (spairs_cons_dyn f e fs r Es). apply (IH vs r Er).
Qed.
Lemma len_dpairs : forall fs es, length es = length fs -> len (dpairs fs es) = len fs - len (filter is_static fs).
Proof.
  induction fs as [|f fs IH]; intros [|e es] L; cbn in L; try discriminate; [reflexivity|].
  cbn [filter]. destruct (is_static f) eqn:Es.
  - rewrite (dpairs_cons_static f e fs es Es), !len_cons, IH by lia. lia.
  - rewrite (dpairs_cons_dyn f e fs es Es), !len_cons, IH by lia. lia.
Qed.
Lemma offsets_from_length : forall l s, length (offsets_from s l) = length l.
Proof. induction l as [|x l IH]; intros s; cbn; [reflexivity|]. rewrite IH. reflexivity. Qed.
Lemma offsets_from_nth : forall l s j, (j < length l)%nat -> nth j (offsets_from s l) 0 = s + sumz (firstn j l).
Proof.
  induction l as [|x l IH]; intros s j H; cbn in H; [lia|]. destruct j as [|j]; cbn [offsets_from nth firstn]; [cbn; lia|].
  rewrite IH by lia. rewrite sumz_cons. lia.
Qed.
Lemma offsets_from_fits : forall l s, 0 <= s -> Forall (fun x => 0 <= x) l -> s + sumz l < 2^62 -> Forall (fun w => - 2^63 <= w < 2^63) (offsets_from s l).
Proof.
  induction l as [|x l IH]; intros s Hs Hl Hb; cbn [offsets_from]; [constructor|]. inversion Hl as [|? ? Hx Hl']; subst. rewrite sumz_cons in Hb.
  assert (Hsum : 0 <= sumz l) by (clear - Hl'; induction Hl' as [|y l' Hy Hl' IH']; [cbn; lia|rewrite sumz_cons; lia]).
  assert (P : 2^62 < 2^63) by reflexivity.
  constructor; [lia|]. apply IH; [lia|assumption|lia].
Qed.
Lemma psz_nonneg ps : Forall (fun x => 0 <= x) (psz ps).
Proof. induction ps as [|[f e] ps IH]; [constructor|]. rewrite psz_cons. constructor; [|exact IH]. pose proof (slot_spec (len e)) as [[A _] _]. pose proof (len_nonneg e). lia. Qed.

Lemma filter_length_le {A} (f : A -> bool) l : (length (filter f l) <= length l)%nat.
Proof. induction l as [|a l IH]; cbn; [lia|]. destruct (f a); cbn; lia. Qed.

Lemma RT_struct_dyn fs : Forall RT fs -> forallb is_static fs = false -> RT (TStruct fs).
Proof.
  intros HF Hst v img m off H Hs Hl Htok. destruct v as [| |vs| | | |]; try discriminate.
  rewrite targets_ok_struct_eq, Hst in Htok.
  rewrite enc_struct_eq in H. destruct (enc_list fs vs) as [es|] eqn:Ee; [|discriminate]. inversion H; subst img. clear H.
  destruct (enc_list_length _ _ _ Ee) as [L1 L2].
  pose proof (len_dpairs fs es L1) as Ld. rewrite <- Ld in Htok.
  destruct (dpairs fs es) as [|p ps] eqn:Ed.
  { exfalso. change (len (@nil (ty * list cell))) with 0 in Ld.
    assert (filter is_static fs = fs -> forallb is_static fs = true).
    { clear. induction fs as [|f fs IH]; [reflexivity|]. cbn. destruct (is_static f) eqn:E.
      - intros H. inversion H. rewrite H1. cbn. apply IH. exact H1.
      - intros H. pose proof (filter_length_le is_static fs) as Hle. rewrite H in Hle. cbn in Hle. lia. }
    assert (Hlen : length (filter is_static fs) = length fs) by (unfold len in Ld; lia).
    assert (filter is_static fs = fs).
    { clear - Hlen. induction fs as [|f fs IH]; [reflexivity|]. cbn in *. destruct (is_static f).
      - cbn in Hlen. f_equal. apply IH. lia.
      - pose proof (filter_length_le is_static fs). lia. }
    rewrite (H H0) in Hst. discriminate. }
  rewrite (enc_struct_dyn_eq fs es p ps Ed) in Hs, Hl |- *. rewrite <- Ed in *. cbv zeta in *.
  rewrite len_pimg in *. rewrite <- (stat_len_spairs fs vs es Ee) in *.
  assert (Ldp : 1 <= len (dpairs fs es)) by (rewrite Ed, len_cons; pose proof (len_nonneg ps); lia).
  set (hdr := 8 + stat_len_of fs + 8 * (len (dpairs fs es) - 1)) in *.
  set (total := hdr + sumz (psz (dpairs fs es))) in *.
  pose proof (sumz_psz_nonneg (spairs fs es)) as Ns. rewrite <- (stat_len_spairs fs vs es Ee) in Ns.
  pose proof (sumz_psz_nonneg (dpairs fs es)) as Nd.
  assert (L8 : len (bytes (enc64 total)) = 8) by (rewrite len_bytes; unfold len; rewrite enc64_length; reflexivity).
  assert (Lo : len (tl (offsets_from hdr (psz (dpairs fs es)))) = len (dpairs fs es) - 1).
  { assert (E : length (offsets_from hdr (psz (dpairs fs es))) = length (dpairs fs es)) by (rewrite offsets_from_length; unfold psz; apply map_length).
    pose proof Ldp as Ldp'. unfold len in Ldp' |- *. revert E. generalize (offsets_from hdr (psz (dpairs fs es))).
    intros [|o os] E; cbn [tl length] in E |- *; lia. }
  assert (Limg : len (bytes (enc64 total) ++ pimg (spairs fs es) ++ words (tl (offsets_from hdr (psz (dpairs fs es)))) ++ pimg (dpairs fs es)) = total).
  { rewrite !len_app, L8, !len_pimg, len_words, Lo, <- (stat_len_spairs fs vs es Ee). unfold total, hdr. lia. }
  rewrite Limg in *.
  pose proof Hs as Hs0. apply sits_app in Hs. destruct Hs as [S0 Hs]. rewrite L8 in Hs.
  apply sits_app in Hs. destruct Hs as [S1 Hs]. rewrite len_pimg, <- (stat_len_spairs fs vs es Ee) in Hs.
  apply sits_app in Hs. destruct Hs as [S2 S3]. rewrite len_words, Lo in S3.
  rewrite dec_struct_dyn_eq by (rewrite <- Ld; apply Z.eqb_neq; lia).
  apply sits_in_range in Hs0. rewrite Limg in Hs0.
  rewrite guard_true by (unfold in_rangeb in *; lia).
  cbv zeta. rewrite (sits_rd64 total m off ltac:(lia) S0).
  rewrite guard_true by (rewrite Hs0; unfold total, hdr; lia).
  rewrite <- Ld. fold hdr.
  assert (Hm8 : hdr mod 8 = 0).
  { unfold hdr. rewrite (stat_len_spairs fs vs es Ee). replace (8 + sumz (psz (spairs fs es)) + 8 * (len (dpairs fs es) - 1)) with (sumz (psz (spairs fs es)) + len (dpairs fs es) * 8) by lia.
    rewrite Z_mod_plus_full. apply sumz_psz_mod8. }
  rewrite (dec_dyn_list_ok m off (stat_len_of fs) fs HF vs es 8 0 hdr Ee); try assumption; try lia.
  - cbn [fst snd]. fold total. rewrite guard_true; [reflexivity|]. rewrite Z.leb_refl. cbn [andb]. apply Z.eqb_eq.
    unfold total. rewrite Z.add_mod, Hm8, sumz_psz_mod8 by lia. reflexivity.
  - replace (off + hdr) with (off + 8 + stat_len_of fs + 8 * (len (dpairs fs es) - 1)) by (unfold hdr; lia). exact S3.
  - intros j Hj H1. destruct j as [|j]; [lia|].
    pose proof (offsets_from_fits (psz (dpairs fs es)) hdr ltac:(unfold hdr; lia) (psz_nonneg _) ltac:(fold total; lia)) as Ff.
    assert (Ftl : Forall (fun w => - 2^63 <= w < 2^63) (tl (offsets_from hdr (psz (dpairs fs es))))).
    { destruct (offsets_from hdr (psz (dpairs fs es))); [constructor|]. inversion Ff; assumption. }
    assert (Hjl : (j < length (tl (offsets_from hdr (psz (dpairs fs es)))))%nat).
    { pose proof (offsets_from_length (psz (dpairs fs es)) hdr) as E. destruct (offsets_from hdr (psz (dpairs fs es))); cbn in *; lia. }
    pose proof (sits_words_nth _ m _ S2 Ftl j Hjl) as Hw.
    replace (off + 8 + stat_len_of fs + 8 * (0 + Z.of_nat (S j) - 1)) with (off + 8 + stat_len_of fs + 8 * Z.of_nat j) by lia.
    rewrite Hw. rewrite <- (offsets_from_nth (psz (dpairs fs es)) hdr (S j) Hj).
    destruct (offsets_from hdr (psz (dpairs fs es))); [destruct j; reflexivity|reflexivity].
  - rewrite <- (stat_len_spairs fs vs es Ee). unfold total, hdr in Hl. lia.
Qed.



(* ================= arrays of dynamically sized items ================= *)
Lemma szs_cons e l : szs (e :: l) = slot (len e) :: szs l.
Proof. reflexivity. Qed.
Lemma szs_nonneg l : Forall (fun x => 0 <= x) (szs l).
Proof. induction l as [|e l IH]; [constructor|]. rewrite szs_cons. constructor; [|exact IH]. pose proof (slot_spec (len e)) as [[A _] _]. pose proof (len_nonneg e). lia. Qed.
Lemma szs_mod8 l : Forall (fun x => x mod 8 = 0) (szs l).
Proof. induction l as [|e l IH]; [constructor|]. rewrite szs_cons. constructor; [|exact IH]. apply (slot_spec (len e)). Qed.
Lemma sumz_nonneg l : Forall (fun x => 0 <= x) l -> 0 <= sumz l.
Proof. induction 1 as [|x l Hx Hl IH]; [cbn; lia|rewrite sumz_cons; lia]. Qed.
Lemma sumz_mod8 l : Forall (fun x => x mod 8 = 0) l -> sumz l mod 8 = 0.
Proof. induction 1 as [|x l Hx Hl IH]; [reflexivity|]. rewrite sumz_cons, Z.add_mod, Hx, IH by lia. reflexivity. Qed.
Lemma len_concat_padslot l : len (concat (map padslot l)) = sumz (szs l).
Proof. induction l as [|e l IH]; [reflexivity|]. rewrite len_concat_padslot_cons, szs_cons, sumz_cons, IH. reflexivity. Qed.

Lemma sits_concat_padslot_nth : forall (l : list (list cell)) m o p, sits (concat (map padslot l)) m o -> (p < length l)%nat ->
  sits (nth p l []) m (o + sumz (firstn p (szs l))).
Proof.
  induction l as [|e l IH]; intros m o p Hs Hp; [cbn in Hp; lia|].
  cbn [map concat] in Hs. apply sits_padslot in Hs. destruct Hs as [S1 S2]. destruct p as [|p].
  - cbn [nth firstn sumz fold_right]. replace (o + 0) with o by lia. exact S1.
  - cbn [nth]. rewrite szs_cons. cbn [firstn]. rewrite sumz_cons. replace (o + (slot (len e) + sumz (firstn p (szs l)))) with (o + slot (len e) + sumz (firstn p (szs l))) by lia.
    apply IH; [exact S2|cbn in Hp; lia].
Qed.

Lemma chain_ok_offsets : forall sizes s, s mod 8 = 0 -> Forall (fun x => x mod 8 = 0) sizes ->
  chain_ok s (combine (offsets_from s sizes) sizes) = Some (s + sumz sizes).
Proof.
  induction sizes as [|x l IH]; intros s Hs Hf; [cbn; f_equal; lia|]. inversion Hf as [|? ? Hx Hl]; subst.
  cbn [offsets_from combine chain_ok]. rewrite Z.leb_refl, Hs. cbn [Z.eqb andb]. rewrite IH; [|rewrite Z.add_mod, Hs, Hx by lia; reflexivity|exact Hl].
  rewrite sumz_cons. f_equal. lia.
Qed.

Lemma map_nth_seq_gen {A} (d : A) (l : list A) : map (fun i => nth i l d) (seq 0 (length l)) = l.
Proof.
  induction l as [|x l IH]; [reflexivity|]. cbn [length seq map nth]. f_equal. rewrite <- seq_shift, map_map. exact IH.
Qed.

Lemma RT_array_dyn item shape order : RT item -> csize item = None ->
  forall sh items img m off,
  enc (TArray item shape order) (VArr sh items) = Some img -> sits img m off -> len img < 2^62 ->
  targets_ok (TArray item shape order) (VArr sh items) m off ->
  dec (TArray item shape order) m off = Some (VArr sh items, len img).
Proof.
  intros HR Ci sh items img m off H Hs Hl Htok0. rewrite targets_ok_array_eq in Htok0.
  cbn [enc] in H. destruct (shape_ok shape sh && perm_ok order (length shape) && (len items =? prod sh) && words_fit item shape order sh) eqn:G; [|discriminate].
  apply andb_prop in G. destruct G as [G Gw].
  apply andb_prop in G. destruct G as [G Gn]. apply andb_prop in G. destruct G as [Gs Gp]. apply Z.eqb_eq in Gn.
  destruct (seqopt (map (enc item) items)) as [es|] eqn:Ee; [|discriminate]. inversion H; subst img. clear H.
  unfold words_fit in Gw. rewrite Ci in Gw. apply andb_prop in Gw. destruct Gw as [Fd Fs]. apply forallb_fits in Fd. apply forallb_fits in Fs.
  assert (Htok : forall c, (c < length items)%nat -> targets_ok item (nth c items VNull) m
             (off + (arr_header false shape + 8 * prod sh + sumz (firstn (Z.to_nat (Perm.mem_pos sh order (unpos sh (Z.of_nat c)))) (szs (es_mem_of sh order es)))))).
  { intros c Hc. specialize (Htok0 c Hc). unfold item_pos in Htok0. rewrite Ci in Htok0. exact Htok0. }
  clear Htok0. unfold es_mem_of in Htok.
  assert (Hst : is_static item = false) by (unfold is_static; rewrite Ci; reflexivity).
  unfold enc_array in *. rewrite Hst, Ci in *.
  set (es_mem := map (fun p => nth (Z.to_nat (logical_of_mem sh order p)) es []) (mem_positions sh)) in *.
  fold (szs es_mem) in *.
  pose proof (prod_nonneg sh (shape_ok_nonneg _ _ Gs)) as Hpn.
  set (n := prod sh) in *.
  set (hdr := arr_header false shape) in *.
  set (total := slot (hdr + 8 * n + sumz (szs es_mem))) in *.
  set (offs := offsets_from (hdr + 8 * n) (szs es_mem)) in *.
  set (strs := if (0 <? ndyn shape) && (1 <? len shape) then get_strides sh order 8 else []) in *.
  change (concat (map (fun d : Z => bytes (enc64 d)) (dyn_dims shape sh))) with (words (dyn_dims shape sh)) in *.
  change (concat (map (fun s : Z => bytes (enc64 s)) strs)) with (words strs) in *.
  change (concat (map (fun o : Z => bytes (enc64 o)) offs)) with (words offs) in *.
  pose proof (ndyn_nonneg shape) as Hnd0. pose proof (len_nonneg shape) as Hls0.
  pose proof (sumz_nonneg _ (szs_nonneg es_mem)) as Hsz0.
  pose proof (slot_spec (hdr + 8 * n + sumz (szs es_mem))) as [[TA TB] TM]. fold total in TA, TB, TM.
  pose proof (dyn_dims_length _ _ Gs) as Ldd.
  assert (Lst : len (get_strides sh order 8) = len shape).
  { unfold len. rewrite get_strides_length. apply andb_prop in Gp. destruct Gp as [Gp' _]. apply Nat.eqb_eq in Gp'. lia. }
  assert (Lem : length es_mem = Z.to_nat n) by (unfold es_mem, mem_positions; rewrite !map_length, seq_length; reflexivity).
  assert (Loffs : len offs = n) by (unfold offs, len; rewrite offsets_from_length; unfold szs; rewrite map_length, Lem; lia).
  assert (L8 : len (bytes (enc64 total)) = 8) by (rewrite len_bytes; unfold len; rewrite enc64_length; reflexivity).
  assert (Hhdr : hdr = 8 + 8 * ndyn shape + len (words strs)).
  { unfold hdr, arr_header, strs. cbn [andb]. rewrite len_words. destruct ((0 <? ndyn shape) && (1 <? len shape)); [rewrite Lst|change (len (@nil Z)) with 0]; lia. }
  assert (Hls : 0 <= len (words strs)) by apply len_nonneg.
  assert (Lbody : len (padto (concat (map padslot es_mem)) (total - hdr - 8 * n)) = total - hdr - 8 * n).
  { unfold padto, pad. rewrite len_app, len_concat_padslot, len_repeat by lia. lia. }
  assert (Limg : len (bytes (enc64 total) ++ words (dyn_dims shape sh) ++ words strs ++ words offs ++ padto (concat (map padslot es_mem)) (total - hdr - 8 * n)) = total).
  { rewrite !len_app, L8, Lbody, (len_words (dyn_dims shape sh)), (len_words offs), Ldd, Loffs. lia. }
  rewrite Limg in *.
  pose proof Hs as Hs0. apply sits_in_range in Hs0. rewrite Limg in Hs0.
  apply sits_app in Hs. destruct Hs as [S0 Hs]. rewrite L8 in Hs.
  apply sits_app in Hs. destruct Hs as [S1 Hs]. rewrite len_words, Ldd in Hs.
  apply sits_app in Hs. destruct Hs as [S2 Hs].
  replace (off + 8 + 8 * ndyn shape + len (words strs)) with (off + hdr) in Hs by lia.
  apply sits_app in Hs. destruct Hs as [S3 S4]. rewrite len_words, Loffs in S4.
  unfold padto in S4. apply sits_app in S4. destruct S4 as [S4 _].
  destruct (seqopt_map_spec (enc item) VNull [] items es Ee) as [Les Nes].
  assert (Foffs : Forall (fun w => - 2^63 <= w < 2^63) offs).
  { apply offsets_from_fits; [lia|apply szs_nonneg|lia]. }
  assert (Hitem : forall c, (c < Z.to_nat n)%nat ->
     dec item m (off + rd64 m (off + hdr + dot (unpos sh (Z.of_nat c)) (get_strides sh order 8))) = Some (nth c items VNull, len (nth c es []))).
  { intros c Hc. destruct (lom_of_idx shape sh order (Z.of_nat c) Gs Gp ltac:(lia)) as [Hmp [Hlom Hdot]]. cbv zeta in Hmp, Hlom, Hdot.
    set (mp := Perm.mem_pos sh order (unpos sh (Z.of_nat c))) in *. fold n in Hmp. rewrite Hdot.
    assert (Hmpl : (Z.to_nat mp < length offs)%nat) by (unfold len in Loffs; lia).
    pose proof (sits_words_nth offs m (off + hdr) S3 Foffs (Z.to_nat mp) Hmpl) as Hw. rewrite Z2Nat.id in Hw by lia.
    replace (off + hdr + 8 * mp) with (off + hdr + 8 * mp) by lia. rewrite Hw.
    unfold offs. rewrite offsets_from_nth by (unfold szs; rewrite map_length; lia).
    pose proof (sits_concat_padslot_nth es_mem m (off + hdr + 8 * n) (Z.to_nat mp) S4 ltac:(lia)) as Sx.
    assert (Ex : nth (Z.to_nat mp) es_mem [] = nth c es []).
    { unfold es_mem. rewrite (map_nth_in _ _ _ [] 0) by (unfold mem_positions; rewrite map_length, seq_length; fold n; lia).
      rewrite nth_mem_positions by (fold n; lia). rewrite Z2Nat.id by lia. rewrite Hlom. rewrite Nat2Z.id. reflexivity. }
    rewrite Ex in Sx.
    assert (Hci : (c < length items)%nat) by (unfold len in Gn; lia).
    replace (off + (hdr + 8 * n + sumz (firstn (Z.to_nat mp) (szs es_mem)))) with (off + hdr + 8 * n + sumz (firstn (Z.to_nat mp) (szs es_mem))) by lia.
    apply (HR _ _ m _ (Nes c Hci) Sx).
    2: { specialize (Htok c Hci). fold mp in Htok. replace (off + hdr + 8 * n + sumz (firstn (Z.to_nat mp) (szs es_mem))) with (off + (hdr + 8 * n + sumz (firstn (Z.to_nat mp) (szs es_mem)))) by lia. exact Htok. }
    (* the item lies inside the data area *)
    assert (Hin : In (nth (Z.to_nat mp) es_mem []) es_mem) by (apply nth_In; lia).
    rewrite Ex in Hin.
    assert (Hle : forall l x, In x l -> slot (len x) <= sumz (szs l)).
    { clear. induction l as [|e l IH]; intros x Hin; [destruct Hin|]. destruct Hin as [E|Hx]; rewrite szs_cons, sumz_cons.
      - subst. pose proof (sumz_nonneg _ (szs_nonneg l)). lia.
      - pose proof (IH x Hx). pose proof (slot_spec (len e)) as [[A _] _]. pose proof (len_nonneg e). lia. }
    pose proof (Hle _ _ Hin). pose proof (slot_spec (len (nth c es []))) as [[A _] _]. lia. }
  cbn [dec]. rewrite Hst, Ci. fold hdr. cbn [andb].
  rewrite guard_true by (rewrite Gp; cbn [andb]; unfold in_rangeb in *; lia).
  assert (Hrw : rd_words m (off + 8) (ndyn shape) = dyn_dims shape sh) by (rewrite <- Ldd; apply rd_words_spec; assumption).
  rewrite Hrw, (fill_dyn_dims _ _ Gs), Gs. cbn [guard]. fold n.
  assert (Hg2 : negb ((0 <? ndyn shape) && (1 <? len shape)) || list_eqbZ (rd_words m (off + 8 + 8 * ndyn shape) (len shape)) (get_strides sh order 8) = true).
  { unfold strs in S2. destruct ((0 <? ndyn shape) && (1 <? len shape)); [|reflexivity]. cbn [negb orb].
    rewrite <- Lst. rewrite (rd_words_spec m _ _ S2 Fs). apply list_eqbZ_refl. }
  rewrite Hg2. cbn [guard].
  rewrite (sits_rd64 total m off ltac:(lia) S0).
  rewrite guard_true by (rewrite Hs0; lia).
  set (ivs := map (fun c => (nth c items VNull, len (nth c es []))) (seq 0 (Z.to_nat n))).
  assert (Hivs : seqopt (map (fun idx : list Z => dec item m (off + rd64 m (off + hdr + dot idx (get_strides sh order 8))))
                   (map (fun c : nat => unpos sh (Z.of_nat c)) (seq 0 (Z.to_nat n)))) = Some ivs).
  { rewrite map_map. apply (seqopt_map_intro _ O (VNull, 0)); [unfold ivs; rewrite map_length; reflexivity|].
    intros i Hi. rewrite seq_length in Hi. rewrite seq_nth by exact Hi. cbn [Nat.add]. rewrite (Hitem i Hi).
    unfold ivs. rewrite (map_nth_in _ _ _ (VNull, 0) O) by (rewrite seq_length; exact Hi). rewrite seq_nth by exact Hi. reflexivity. }
  rewrite Hivs.
  assert (Hsm : map (fun p : Z => slot (snd (nth (Z.to_nat (logical_of_mem sh order p)) ivs (VNull, 0)))) (mem_positions sh) = szs es_mem).
  { unfold szs, es_mem. rewrite map_map. apply map_ext_in. intros p Hp. apply In_mem_positions in Hp.
    pose proof (lom_range shape sh order p Gs Gp Hp) as Hr. fold n in Hr.
    unfold ivs. rewrite (map_nth_in _ _ _ (VNull, 0) O) by (rewrite seq_length; lia). rewrite seq_nth by lia. reflexivity. }
  rewrite Hsm.
  assert (Hrw2 : rd_words m (off + hdr) n = offs) by (rewrite <- Loffs; apply rd_words_spec; assumption).
  rewrite Hrw2. unfold offs.
  assert (Hm8 : (hdr + 8 * n) mod 8 = 0).
  { rewrite Hhdr, len_words. replace (8 + 8 * ndyn shape + 8 * len strs + 8 * n) with (0 + (1 + ndyn shape + len strs + n) * 8) by lia. apply Z_mod_plus_full. }
  rewrite (chain_ok_offsets (szs es_mem) (hdr + 8 * n) Hm8 (szs_mod8 es_mem)).
  rewrite guard_true by (rewrite TM; lia).
  f_equal. f_equal. f_equal. unfold ivs. rewrite map_map. cbn [fst].
  replace (Z.to_nat n) with (length items) by (unfold len in Gn; lia). apply map_nth_seq_gen.
Qed.

(* ================= the round trip, for every type of the grammar ================= *)
(* ---- references ---- *)
Lemma len_pad n : 0 <= n -> len (pad n) = n.
Proof. intros H. unfold pad. apply len_repeat. exact H. Qed.

Lemma RT_ref target : RT target -> RT (TRef target).
Proof.
  intros HR v img m off H Hs Hl Htok. destruct v as [| | | | |w|]; try discriminate; cbn [enc] in H; inversion H; subst img; clear H; cbn [targets_ok] in Htok.
  - destruct Htok as [Hr Hn]. cbn [dec]. rewrite Hr. cbn [guard]. rewrite Hn, Z.eqb_refl. rewrite len_pad by lia. reflexivity.
  - destruct Htok as [Hr [Hn [timg [Et [St [Lt Tt]]]]]]. cbn [dec]. rewrite Hr. cbn [guard].
    replace (rd64 m off =? NULLVALUE) with false by (symmetry; apply Z.eqb_neq; exact Hn).
    rewrite (HR w timg m (off + rd64 m off) Et St Lt Tt). cbn [fst]. rewrite len_pad by lia. reflexivity.
Qed.

Definition dec_pick (m : mem) (base : Z) : list ty -> nat -> option (val * Z) :=
  fix pick (ms : list ty) (k : nat) : option (val * Z) :=
    match ms, k with
    | mt :: _, O => dec mt m base
    | _ :: tl, S k' => pick tl k'
    | [], _ => None
    end.
Definition tok_pick (m : mem) (base : Z) (w : val) : list ty -> nat -> Prop :=
  fix pick (ms : list ty) (k : nat) : Prop :=
    match ms, k with
    | mt :: _, O => exists timg, enc mt w = Some timg /\ sits timg m base /\ len timg < 2^62 /\ targets_ok mt w m base
    | _ :: tl, S k' => pick tl k'
    | [], _ => False
    end.
Lemma dec_pick_ok m base w : forall ms, Forall RT ms -> forall k, tok_pick m base w ms k -> exists s, dec_pick m base ms k = Some (w, s).
Proof.
  induction ms as [|mt ms IH]; intros HF k Ht; [destruct k; destruct Ht|]. inversion HF as [|? ? Hm HFt]; subst.
  destruct k as [|k]; cbn [tok_pick dec_pick] in *.
  - destruct Ht as [timg [Et [St [Lt Tt]]]]. exists (len timg). apply (Hm w timg m base Et St Lt Tt).
  - apply IH; assumption.
Qed.

Lemma RT_union ms : Forall RT ms -> RT (TUnion ms).
Proof.
  intros HF v img m off H Hs Hl Htok. destruct v as [| | | | | |k w]; try discriminate; cbn [enc] in H.
  - inversion H; subst img; clear H. cbn [targets_ok] in Htok. destruct Htok as [Hr [Hn Hm1]].
    cbn [dec]. rewrite Hr. cbn [guard]. rewrite Hn, Z.eqb_refl, Hm1. cbn [Z.eqb]. rewrite len_pad by lia. reflexivity.
  - destruct (k <? length ms)%nat; [|discriminate]. inversion H; subst img; clear H.
    change (targets_ok (TUnion ms) (VMember k w) m off) with
      (in_rangeb m off 16 = true /\ rd64 m off <> NULLVALUE /\ rd64 m (off + 8) = Z.of_nat k /\ tok_pick m (off + rd64 m off) w ms k) in Htok.
    destruct Htok as [Hr [Hn [Hk Hp]]].
    destruct (dec_pick_ok m (off + rd64 m off) w ms HF k Hp) as [s Hd].
    cbn [dec]. rewrite Hr. cbn [guard].
    replace (rd64 m off =? NULLVALUE) with false by (symmetry; apply Z.eqb_neq; exact Hn).
    rewrite Hk. replace (0 <=? Z.of_nat k) with true by (symmetry; apply Z.leb_le; lia). cbn [guard]. rewrite Nat2Z.id.
    change ((fix pick (ms0 : list ty) (k0 : nat) {struct ms0} : option (val * Z) :=
               match ms0 with
               | [] => None
               | mt :: tl => match k0 with 0%nat => dec mt m (off + rd64 m off) | S k' => pick tl k' end
               end) ms k) with (dec_pick m (off + rd64 m off) ms k).
    rewrite Hd. cbn [fst]. rewrite len_pad by lia. reflexivity.
Qed.

(* ================= the round trip, for every type of the grammar, references included ================= *)
(* For reference-free types [targets_ok] is trivially true (targets_ok_ref_free below); for types with
   Ref / UnionRef it says what the reference slots hold. *)
Theorem RT_all : forall t, RT t.
Proof.
  apply ty_ind'.
  - exact RT_scalar.
  - exact RT_string.
  - intros fs HF. destruct (forallb is_static fs) eqn:E; [apply RT_struct_static|apply RT_struct_dyn]; assumption.
  - intros item shape order HR v img m off H Hs Hl Htok. destruct v as [| | |sh items| | |]; try discriminate.
    destruct (csize item) as [isz|] eqn:Ci.
    + eapply RT_array_static; eassumption.
    + eapply RT_array_dyn; eassumption.
  - exact RT_ref.
  - exact RT_union.
Qed.

(* ---- reference-free types: no condition on the memory beyond the image ---- *)
Definition TOK (t : ty) : Prop := has_refs t = false -> forall v img m off, enc t v = Some img -> targets_ok t v m off.

Lemma existsb_false_cons {A} (f : A -> bool) x l : existsb f (x :: l) = false -> f x = false /\ existsb f l = false.
Proof. cbn. intros H. apply orb_false_iff in H. exact H. Qed.

Lemma tok_static_list_free m : forall fs, Forall TOK fs -> existsb has_refs fs = false -> forall vs es, enc_list fs vs = Some es ->
  forall o, tok_static_list m fs vs o.
Proof.
  induction fs as [|f fs IH]; intros HF Hr vs es He o.
  - destruct vs; cbn in He; [exact I|discriminate].
  - destruct vs as [|v vs]; cbn in He; [discriminate|].
    destruct (enc f v) as [e|] eqn:Ee; [|discriminate]. destruct (enc_list fs vs) as [r|] eqn:Er; [|discriminate].
    inversion HF as [|? ? Hf HFt]; subst. destruct (existsb_false_cons _ _ _ Hr) as [R1 R2].
    cbn [tok_static_list]. rewrite Ee. split; [apply (Hf R1 v e m o Ee)|]. eapply IH; eassumption.
Qed.
Lemma tok_dyn_list_free m off : forall fs, Forall TOK fs -> existsb has_refs fs = false -> forall vs es, enc_list fs vs = Some es ->
  forall so dnext, tok_dyn_list m off fs vs so dnext.
Proof.
  induction fs as [|f fs IH]; intros HF Hr vs es He so dnext.
  - destruct vs; cbn in He; [exact I|discriminate].
  - destruct vs as [|v vs]; cbn in He; [discriminate|].
    destruct (enc f v) as [e|] eqn:Ee; [|discriminate]. destruct (enc_list fs vs) as [r|] eqn:Er; [|discriminate].
    inversion HF as [|? ? Hf HFt]; subst. destruct (existsb_false_cons _ _ _ Hr) as [R1 R2].
    cbn [tok_dyn_list]. rewrite Ee. destruct (is_static f); (split; [apply (Hf R1 v e m _ Ee)|eapply IH; eassumption]).
Qed.

Theorem targets_ok_ref_free : forall t, TOK t.
Proof.
  apply ty_ind'.
  - intros k _ v img m off _. destruct v; exact I.
  - intros _ v img m off _. destruct v; exact I.
  - intros fs HF Hr v img m off He. destruct v as [| |vs| | | |]; try discriminate. cbn [has_refs] in Hr.
    rewrite enc_struct_eq in He. destruct (enc_list fs vs) as [es|] eqn:Ee; [|discriminate].
    rewrite targets_ok_struct_eq. destruct (forallb is_static fs); [eapply tok_static_list_free|eapply tok_dyn_list_free]; eassumption.
  - intros item shape order HT Hr v img m off He. destruct v as [| | |sh items| | |]; try discriminate. cbn [has_refs] in Hr.
    rewrite targets_ok_array_eq. cbn [enc] in He.
    destruct (shape_ok shape sh && perm_ok order (length shape) && (len items =? prod sh) && words_fit item shape order sh); [|discriminate].
    destruct (seqopt (map (enc item) items)) as [es|] eqn:Ee; [|discriminate].
    destruct (seqopt_map_spec (enc item) VNull [] items es Ee) as [L N].
    intros c Hc. apply (HT Hr _ _ m _ (N c Hc)).
  - intros t _ Hr. discriminate.
  - intros ms _ Hr. discriminate.
Qed.

(* the round trip for reference-free types: no side condition besides the size bound *)
Theorem RT_ref_free t v img m off : has_refs t = false ->
  enc t v = Some img -> sits img m off -> len img < 2^62 -> dec t m off = Some (v, len img).
Proof. intros Hr He Hs Hl. apply (RT_all t v img m off He Hs Hl). exact (targets_ok_ref_free t Hr v img m off He). Qed.

(* the same statement about raw buffers: wherever the bytes of a buffer carry the image (padding cells
   free), decoding at that offset returns the value and the image length as the object's size *)
Theorem dec_enc_buffer t v img pre bs post : has_refs t = false ->
  enc t v = Some img -> cells_match img bs = true -> len img < 2^62 ->
  dec t (pre ++ bs ++ post) (len pre) = Some (v, len img).
Proof.
  intros Hr He Hc Hl. apply (RT_ref_free t v img (pre ++ bs ++ post) (len pre) Hr He); [|exact Hl].
  apply cells_match_sits. exact Hc.
Qed.

(* the reported size of a static type is its class size *)
Theorem enc_static_size t v img s : enc t v = Some img -> csize t = Some s -> len img = s.
Proof. apply SZ_all. Qed.

(* non-vacuity: a nested dynamic value (struct with a string and a 2-D Fortran-order array of strings) has an image *)
Example RT_nonvacuous :
  let t := TStruct [TScalar I32; TString; TArray TString [None; Some 2] [1%nat; 0%nat]] in
  let s x := VStr [x] 16 in
  let v := VStruct [VNum [1;0;0;0]; VStr [104;105] 16; VArr [2;2] [s 97; s 98; s 99; s 100]] in
  exists img, enc t v = Some img /\ 100 < len img.
Proof. cbv zeta. eexists. split; [vm_compute; reflexivity|reflexivity]. Qed.

(* decoding does not depend on the buffer or the offset at which the image lies *)
Theorem placement_independent t v img m off m' off' : has_refs t = false ->
  enc t v = Some img -> len img < 2^62 -> sits img m off -> sits img m' off' -> dec t m off = dec t m' off'.
Proof. intros Hr He Hl S1 S2. rewrite (RT_ref_free t v img m off Hr He S1 Hl), (RT_ref_free t v img m' off' Hr He S2 Hl). reflexivity. Qed.
Theorem dec_enc_size t v img m off : has_refs t = false ->
  enc t v = Some img -> sits img m off -> len img < 2^62 -> exists v', dec t m off = Some (v', len img).
Proof. intros Hr H1 H2 H3. exists v. exact (RT_ref_free t v img m off Hr H1 H2 H3). Qed.
