(* The general round trip  decode (encode v) = v  for the documented format, by induction over the
   type grammar (reference-free types: the encoder is defined exactly there). *)
From Coq Require Import ZArith List Bool Lia Permutation.
Import ListNotations.
From XO Require Import ListAux Slots Strides Perm BufOps BufOpsProofs Types Format Check LayoutProofs.
Open Scope Z_scope.

(* ---- nested induction principle for types ---- *)
Section TyInd.
  Variable P : ty -> Prop.
  Hypothesis Hsc : forall k, P (TScalar k).
  Hypothesis Hstr : P TString.
  Hypothesis Hst : forall fs, Forall P fs -> P (TStruct fs).
  Hypothesis Har : forall item shape order, P item -> P (TArray item shape order).
  Hypothesis Hrf : forall t, P t -> P (TRef t).
  Hypothesis Hun : forall ms, Forall P ms -> P (TUnion ms).
  Fixpoint ty_ind' (t : ty) : P t :=
    match t with
    | TScalar k => Hsc k
    | TString => Hstr
    | TStruct fs => Hst fs ((fix go (l : list ty) : Forall P l := match l with [] => Forall_nil P | x :: tl => Forall_cons x (ty_ind' x) (go tl) end) fs)
    | TArray item shape order => Har item shape order (ty_ind' item)
    | TRef t => Hrf t (ty_ind' t)
    | TUnion ms => Hun ms ((fix go (l : list ty) : Forall P l := match l with [] => Forall_nil P | x :: tl => Forall_cons x (ty_ind' x) (go tl) end) ms)
    end.
End TyInd.

(* ---- the list functions hidden inside enc / dec, named ---- *)
Definition enc_list : list ty -> list val -> option (list (list cell)) :=
  fix go (fs : list ty) (vs : list val) : option (list (list cell)) :=
    match fs, vs with
    | [], [] => Some []
    | f :: fs', v :: vs' => match enc f v, go fs' vs' with Some e, Some r => Some (e :: r) | _, _ => None end
    | _, _ => None
    end.
Lemma enc_struct_eq fs vs : enc (TStruct fs) (VStruct vs) = match enc_list fs vs with Some es => Some (enc_struct fs es) | None => None end.
Proof. reflexivity. Qed.

Definition dec_static_list (m : mem) : list ty -> Z -> option (list val * Z) :=
  fix go (fs : list ty) (o : Z) : option (list val * Z) :=
    match fs with
    | [] => Some ([], o)
    | f :: tl =>
        match dec f m o with
        | Some vs => match go tl (o + slot (snd vs)) with Some r => Some (fst vs :: fst r, snd r) | None => None end
        | None => None
        end
    end.
Lemma dec_struct_static_eq fs m off : len fs - len (filter is_static fs) =? 0 = true ->
  dec (TStruct fs) m off = match dec_static_list m fs off with Some r => Some (VStruct (fst r), snd r - off) | None => None end.
Proof. intros H. cbn [dec]. rewrite H. reflexivity. Qed.

(* ---- small facts ---- *)
Lemma len_padslot l : len (padslot l) = slot (len l).
Proof.
  unfold padslot, pad. rewrite len_app. pose proof (slot_spec (len l)) as [[A B] _].
  rewrite len_repeat by lia. lia.
Qed.
Lemma len_cons {A} (x : A) l : len (x :: l) = 1 + len l.
Proof. unfold len. cbn [length]. lia. Qed.
Lemma len_nil {A} : len (@nil A) = 0.
Proof. reflexivity. Qed.
Lemma sits_nil m off : 0 <= off <= len m -> sits [] m off.
Proof. intros H. unfold sits. change (len (@nil cell)) with 0. split; [lia|]. split; [lia|]. intros i b Hi. destruct i; discriminate. Qed.
Lemma sits_padslot e rest m o : sits (padslot e ++ rest) m o -> sits e m o /\ sits rest m (o + slot (len e)).
Proof.
  intros H. apply sits_app in H. destruct H as [H1 H2]. rewrite len_padslot in H2. split; [|exact H2].
  unfold padslot in H1. apply sits_app in H1. tauto.
Qed.
Lemma sits_range img m off : sits img m off -> 0 <= off /\ off + len img <= len m.
Proof. intros [A [B _]]. split; assumption. Qed.

(* static size of an image *)
Lemma filter_all_true {A} (f : A -> bool) l : forallb f l = true -> filter f l = l.
Proof. induction l as [|a l IH]; [reflexivity|]. cbn. intros H. apply andb_prop in H. destruct H as [A1 A2]. rewrite A1, IH by exact A2. reflexivity. Qed.
Lemma filter_none_false {A} (f : A -> bool) l : forallb f l = true -> filter (fun x => negb (f x)) l = [].
Proof. induction l as [|a l IH]; [reflexivity|]. cbn. intros H. apply andb_prop in H. destruct H as [A1 A2]. rewrite A1, IH by exact A2. reflexivity. Qed.

Lemma enc_list_length : forall fs vs es, enc_list fs vs = Some es -> length es = length fs /\ length vs = length fs.
Proof.
  induction fs as [|f fs IH]; intros [|v vs] es H; cbn in H; try discriminate.
  - inversion H. auto.
  - destruct (enc f v) as [e|]; [|discriminate]. destruct (enc_list fs vs) as [r|] eqn:E; [|discriminate].
    inversion H; subst. destruct (IH _ _ E) as [A B]. cbn. auto.
Qed.
Lemma map_snd_combine {A B} : forall (l1 : list A) (l2 : list B), length l2 = length l1 -> map snd (combine l1 l2) = l2.
Proof. induction l1 as [|a l1 IH]; intros [|b l2] H; cbn in *; try reflexivity; try discriminate. f_equal. apply IH. lia. Qed.

(* ================= the statement ================= *)
Definition RT (t : ty) : Prop := forall v img m off,
  enc t v = Some img -> sits img m off -> len img < 2^62 -> dec t m off = Some (v, len img).

Lemma RT_scalar k : RT (TScalar k).
Proof. intros v img m off H Hs _. destruct v as [bs| | | | | |]; try discriminate. eapply dec_enc_scalar; eassumption. Qed.
Lemma RT_string : RT TString.
Proof.
  intros v img m off H Hs Hl. destruct v as [|bs size| | | | |]; try discriminate.
  assert (Hsz : size < 2^63).
  { cbn [enc] in H. destruct ((8 + len bs + 1 <=? size) && _) eqn:E; [|discriminate].
    assert (Himg : img = bytes (enc64 size) ++ bytes bs ++ bytes (repeat 0 (Z.to_nat (size - 8 - len bs)))) by congruence. subst img.
    rewrite !len_app, !len_bytes in Hl. apply andb_prop in E. destruct E as [E _]. apply Z.leb_le in E.
    rewrite len_repeat in Hl by (pose proof (len_nonneg bs); lia).
    assert (L8 : len (enc64 size) = 8) by (unfold len; rewrite enc64_length; reflexivity). lia. }
  eapply dec_enc_string; eassumption.
Qed.

(* ---- static structs ---- *)
Lemma len_concat_padslot_cons e r : len (concat (map padslot (e :: r))) = slot (len e) + len (concat (map padslot r)).
Proof. cbn [map concat]. rewrite len_app, len_padslot. reflexivity. Qed.

Lemma dec_static_list_ok : forall fs, Forall RT fs -> forall vs es m o,
  enc_list fs vs = Some es -> sits (concat (map padslot es)) m o -> len (concat (map padslot es)) < 2^62 ->
  dec_static_list m fs o = Some (vs, o + len (concat (map padslot es))).
Proof.
  induction fs as [|f fs IH]; intros HF vs es m o He Hs Hl.
  - destruct vs; cbn in He; [|discriminate]. inversion He; subst. cbn. f_equal. f_equal. change (len (@nil cell)) with 0. lia.
  - destruct vs as [|v vs]; cbn in He; [discriminate|].
    destruct (enc f v) as [e|] eqn:Ee; [|discriminate]. destruct (enc_list fs vs) as [r|] eqn:Er; [|discriminate].
    inversion He; subst es. clear He. inversion HF as [|? ? Hf HFt]; subst.
    rewrite len_concat_padslot_cons in Hl. cbn [map concat] in Hs. apply sits_padslot in Hs. destruct Hs as [S1 S2].
    pose proof (slot_spec (len e)) as [[A _] _]. pose proof (len_nonneg (concat (map padslot r))) as Ln. pose proof (len_nonneg e).
    cbn [dec_static_list]. rewrite (Hf v e m o Ee S1 ltac:(lia)). cbn [fst snd].
    rewrite (IH HFt vs r m (o + slot (len e)) Er S2 ltac:(lia)). cbn [fst snd].
    rewrite len_concat_padslot_cons. f_equal. f_equal. lia.
Qed.

Lemma forallb_static_ndyn fs : forallb is_static fs = true -> len fs - len (filter is_static fs) =? 0 = true.
Proof. intros H. rewrite (filter_all_true _ _ H). lia. Qed.
Lemma combine_filter_static : forall (fs : list ty) (es : list (list cell)), length es = length fs -> forallb is_static fs = true ->
  filter (fun p : ty * list cell => negb (is_static (fst p))) (combine fs es) = [].
Proof.
  induction fs as [|f fs IH]; intros [|e es] Hl H; cbn in *; try reflexivity; try discriminate.
  apply andb_prop in H. destruct H as [A B]. rewrite A. cbn. apply IH; [lia|exact B].
Qed.

Lemma RT_struct_static fs : Forall RT fs -> forallb is_static fs = true -> RT (TStruct fs).
Proof.
  intros HF Hst v img m off H Hs Hl. destruct v as [| |vs| | | |]; try discriminate.
  rewrite enc_struct_eq in H. destruct (enc_list fs vs) as [es|] eqn:Ee; [|discriminate]. inversion H; subst img. clear H.
  destruct (enc_list_length _ _ _ Ee) as [L1 L2].
  assert (Himg : enc_struct fs es = concat (map padslot es)).
  { unfold enc_struct. rewrite (combine_filter_static fs es L1 Hst). rewrite <- (map_snd_combine fs es L1) at 2.
    rewrite map_map. reflexivity. }
  rewrite Himg in *. rewrite (dec_struct_static_eq fs m off (forallb_static_ndyn fs Hst)).
  rewrite (dec_static_list_ok fs HF vs es m off Ee Hs Hl). cbn [fst snd]. f_equal. f_equal. lia.
Qed.

(* ================= words in memory ================= *)
Definition words (ws : list Z) : list cell := concat (map (fun w => bytes (enc64 w)) ws).
Lemma len_words ws : len (words ws) = 8 * len ws.
Proof.
  induction ws as [|w ws IH]; [reflexivity|]. unfold words in *. cbn [map concat]. rewrite len_app, IH, len_bytes, len_cons.
  assert (L8 : len (enc64 w) = 8) by (unfold len; rewrite enc64_length; reflexivity). lia.
Qed.
Lemma sits_words_nth : forall ws m o, sits (words ws) m o -> Forall (fun w => - 2^63 <= w < 2^63) ws ->
  forall i, (i < length ws)%nat -> rd64 m (o + 8 * Z.of_nat i) = nth i ws 0.
Proof.
  induction ws as [|w ws IH]; intros m o Hs Hf i Hi; [cbn in Hi; lia|].
  inversion Hf as [|? ? Hw Hft]; subst. unfold words in Hs. cbn [map concat] in Hs. apply sits_app in Hs. destruct Hs as [S1 S2].
  rewrite len_bytes in S2. assert (L8 : len (enc64 w) = 8) by (unfold len; rewrite enc64_length; reflexivity). rewrite L8 in S2.
  destruct i as [|i].
  - cbn [nth]. replace (o + 8 * Z.of_nat 0) with o by lia. apply sits_rd64; assumption.
  - cbn [nth]. replace (o + 8 * Z.of_nat (S i)) with ((o + 8) + 8 * Z.of_nat i) by lia. apply IH; try assumption. cbn in Hi. lia.
Qed.
Lemma rd_words_spec m o ws : sits (words ws) m o -> Forall (fun w => - 2^63 <= w < 2^63) ws -> rd_words m o (len ws) = ws.
Proof.
  intros Hs Hf. unfold rd_words. unfold len. rewrite Nat2Z.id.
  apply nth_error_ext. intros i. destruct (Nat.lt_ge_cases i (length ws)) as [Hl|Hl].
  - rewrite nth_error_map. rewrite (nth_error_nth' (seq 0 (length ws)) O) by (rewrite seq_length; exact Hl).
    rewrite seq_nth by exact Hl. cbn [option_map Nat.add]. rewrite (sits_words_nth ws m o Hs Hf i Hl).
    symmetry. apply nth_error_nth'. exact Hl.
  - rewrite (proj2 (nth_error_None ws i) Hl). apply nth_error_None. rewrite map_length, seq_length. exact Hl.
Qed.

(* ================= shapes ================= *)
Lemma fill_dyn_dims : forall shape sh, shape_ok shape sh = true -> fill_shape shape (dyn_dims shape sh) = sh.
Proof.
  induction shape as [|[d|] tl IH]; intros [|x r] H; cbn in H; try discriminate; [reflexivity| |].
  - apply andb_prop in H. destruct H as [H Hr]. apply andb_prop in H. destruct H as [Hd _]. apply Z.eqb_eq in Hd. subst.
    cbn [dyn_dims fill_shape]. f_equal. apply IH; exact Hr.
  - apply andb_prop in H. destruct H as [_ Hr]. cbn [dyn_dims fill_shape]. f_equal. apply IH; exact Hr.
Qed.
Lemma shape_ok_length : forall shape sh, shape_ok shape sh = true -> length sh = length shape.
Proof.
  induction shape as [|[d|] tl IH]; intros [|x r] H; cbn in H; try discriminate; [reflexivity| |]; cbn; f_equal; apply IH.
  - apply andb_prop in H. tauto.
  - apply andb_prop in H. tauto.
Qed.
Lemma shape_ok_nonneg : forall shape sh, shape_ok shape sh = true -> Forall (fun d => 0 <= d) sh.
Proof.
  induction shape as [|[d|] tl IH]; intros [|x r] H; cbn in H; try discriminate; [constructor| |].
  - apply andb_prop in H. destruct H as [H Hr]. apply andb_prop in H. destruct H as [_ Hx]. constructor; [lia|apply IH; exact Hr].
  - apply andb_prop in H. destruct H as [Hx Hr]. constructor; [lia|apply IH; exact Hr].
Qed.
Lemma dyn_dims_length : forall shape sh, shape_ok shape sh = true -> len (dyn_dims shape sh) = ndyn shape.
Proof.
  induction shape as [|[d|] tl IH]; intros [|x r] H; cbn in H; try discriminate; [reflexivity| |]; cbn [dyn_dims ndyn].
  - apply andb_prop in H. apply IH. tauto.
  - apply andb_prop in H. rewrite len_cons, IH by tauto. reflexivity.
Qed.
Lemma prod_nonneg sh : Forall (fun d => 0 <= d) sh -> 0 <= prod sh.
Proof. induction 1; cbn [prod]; nia. Qed.
Lemma pos_shape_of_prod sh : Forall (fun d => 0 <= d) sh -> 0 < prod sh -> pos_shape sh.
Proof.
  induction 1 as [|d tl Hd Ht IH]; intros Hp; [constructor|]. cbn [prod] in Hp. pose proof (prod_nonneg tl Ht).
  constructor; [nia|apply IH; nia].
Qed.
Lemma perm_ok_is_perm order n : perm_ok order n = true -> Perm.is_perm order /\ length order = n.
Proof.
  unfold perm_ok. intros H. apply andb_prop in H. destruct H as [A B]. apply Nat.eqb_eq in A. split; [|exact A].
  unfold Perm.is_perm. rewrite A. apply Permutation_sym. apply NoDup_Permutation_bis; [apply seq_NoDup|rewrite seq_length; lia|].
  intros i Hi. rewrite forallb_forall in B. specialize (B i Hi). apply existsb_exists in B. destruct B as [x [Hx E]].
  apply Nat.eqb_eq in E. subst. exact Hx.
Qed.

(* memory position p holds the item with logical (row-major) index logical_of_mem p, and conversely *)
Lemma logical_of_mem_eq sh order p : logical_of_mem sh order p = pos sh (Perm.logical_idx sh order p).
Proof. reflexivity. Qed.
Lemma lom_range shape sh order p : shape_ok shape sh = true -> perm_ok order (length shape) = true -> 0 <= p < prod sh ->
  0 <= logical_of_mem sh order p < prod sh.
Proof.
  intros Hs Hp Hr. destruct (perm_ok_is_perm _ _ Hp) as [P1 P2]. pose proof (shape_ok_length _ _ Hs) as Hl.
  pose proof (pos_shape_of_prod sh (shape_ok_nonneg _ _ Hs) ltac:(lia)) as Hps.
  destruct (Perm.mem_pos_logical sh order p P1 ltac:(lia) Hps Hr) as [A _]. rewrite logical_of_mem_eq. apply pos_bound; assumption.
Qed.
Lemma lom_of_idx shape sh order c : shape_ok shape sh = true -> perm_ok order (length shape) = true -> 0 <= c < prod sh ->
  let idx := unpos sh c in
  0 <= Perm.mem_pos sh order idx < prod sh /\ logical_of_mem sh order (Perm.mem_pos sh order idx) = c /\
  forall isz, dot idx (get_strides sh order isz) = isz * Perm.mem_pos sh order idx.
Proof.
  intros Hs Hp Hr idx. destruct (perm_ok_is_perm _ _ Hp) as [P1 P2]. pose proof (shape_ok_length _ _ Hs) as Hl.
  pose proof (pos_shape_of_prod sh (shape_ok_nonneg _ _ Hs) ltac:(lia)) as Hps.
  assert (Hir : Strides.in_range sh idx) by (unfold idx; apply unpos_range; assumption).
  destruct (Perm.logical_mem_pos sh order idx P1 ltac:(lia) Hps Hir) as [A B]. split; [exact A|]. split.
  - rewrite logical_of_mem_eq, B. unfold idx. apply pos_unpos; assumption.
  - intros isz. apply Perm.strides_address; [exact P1|lia|exact Hir].
Qed.
