(* Copies at byte level: a copy is the same documented image placed in storage of its own; what it reads
   depends on the bytes of its own extent only, so nothing done to the original (or to anything else outside
   that extent) shows through it, and vice versa. *)
From Coq Require Import ZArith List Bool Lia.
Import ListNotations.
From XO Require Import ListAux Slots Strides Perm BufOps BufOpsProofs Types Format Check LayoutProofs RoundTrip.
Open Scope Z_scope.

(* two memories agree on [o, o+n) *)
Definition agree_on (m m' : mem) (o n : Z) : Prop := forall i, o <= i < o + n -> nth_error m' (Z.to_nat i) = nth_error m (Z.to_nat i).

Lemma sits_agree img m m' o : sits img m o -> len m <= len m' -> agree_on m m' o (len img) -> sits img m' o.
Proof.
  intros [H0 [H1 H2]] Hl Ha. split; [exact H0|]. split; [lia|].
  intros i b Hi. specialize (H2 i b Hi).
  assert (Hil : (i < length img)%nat) by (apply nth_error_Some; rewrite Hi; discriminate).
  specialize (Ha (o + Z.of_nat i) ltac:(unfold len; lia)).
  replace (Z.to_nat (o + Z.of_nat i)) with (Z.to_nat o + i)%nat in Ha by lia. rewrite Ha. exact H2.
Qed.

(* THE COPY READS WHAT WAS COPIED, whatever happens outside its extent (any number of writes to the original,
   to other objects, growth of the buffer): reference-free types, every value *)
Theorem copy_reads_its_own_bytes t v img m m' coff : has_refs t = false ->
  enc t v = Some img -> len img < 2^62 -> sits img m coff ->
  len m <= len m' -> agree_on m m' coff (len img) ->
  dec t m' coff = Some (v, len img).
Proof.
  intros Hr He Hl Hs Hlen Ha. apply (RT_ref_free t v img m' coff Hr He); [|exact Hl]. eapply sits_agree; eassumption.
Qed.

(* a write whose range is disjoint from an extent leaves the memory agreeing on that extent *)
Lemma wr_agree m woff bs o n : BufOps.in_range m woff (Z.of_nat (length bs)) -> 0 <= o -> o + n <= len m ->
  (o + n <= woff \/ woff + len bs <= o) -> agree_on m (wr m woff bs) o n.
Proof.
  intros Hir H0 H1 Hd i Hi.
  destruct (BufOpsProofs.write_frame m woff bs Hir) as [WL [WO _]].
  assert (Hb : BufOpsProofs.byte (wr m woff bs) i = BufOpsProofs.byte m i) by (apply WO; [lia|unfold len in *; lia]).
  unfold BufOpsProofs.byte in Hb.
  assert (L1 : (Z.to_nat i < length m)%nat) by (unfold len in *; lia).
  assert (L2 : (Z.to_nat i < length (wr m woff bs))%nat) by (rewrite WL; exact L1).
  rewrite (nth_error_nth' _ 0 L1), (nth_error_nth' _ 0 L2). f_equal. exact Hb.
Qed.

(* original and copy: the same image at two disjoint places (same buffer).  Both read the same value; a write
   anywhere inside the original's extent leaves the copy reading the copied value, and a write inside the copy's
   extent leaves the original reading its value *)
Theorem copy_and_original_independent t v img m off coff woff bs : has_refs t = false ->
  enc t v = Some img -> len img < 2^62 -> sits img m off -> sits img m coff ->
  (coff + len img <= off \/ off + len img <= coff) ->
  dec t m coff = dec t m off /\
  (off <= woff -> woff + len bs <= off + len img -> dec t (wr m woff bs) coff = Some (v, len img)) /\
  (coff <= woff -> woff + len bs <= coff + len img -> dec t (wr m woff bs) off = Some (v, len img)).
Proof.
  intros Hr He Hl So Sc Hd.
  destruct (sits_range _ _ _ So) as [O0 O1]. destruct (sits_range _ _ _ Sc) as [C0 C1].
  split; [rewrite (RT_ref_free t v img m coff Hr He Sc Hl), (RT_ref_free t v img m off Hr He So Hl); reflexivity|].
  split; intros W0 W1.
  - assert (Hir : BufOps.in_range m woff (Z.of_nat (length bs))) by (unfold BufOps.in_range, len in *; lia).
    destruct (BufOpsProofs.write_frame m woff bs Hir) as [WL _].
    eapply copy_reads_its_own_bytes; try eassumption; [unfold len in *; lia|].
    apply wr_agree; try assumption. lia.
  - assert (Hir : BufOps.in_range m woff (Z.of_nat (length bs))) by (unfold BufOps.in_range, len in *; lia).
    destruct (BufOpsProofs.write_frame m woff bs Hir) as [WL _].
    eapply copy_reads_its_own_bytes; try eassumption; [unfold len in *; lia|].
    apply wr_agree; try assumption. lia.
Qed.

(* a copy in ANOTHER buffer (or context): it reads the value of the original, and no change of the original's
   buffer can matter at all since its bytes live elsewhere *)
Theorem copy_in_other_buffer_equal t v img m off m2 coff : has_refs t = false ->
  enc t v = Some img -> len img < 2^62 -> sits img m off -> sits img m2 coff -> dec t m2 coff = dec t m off.
Proof. intros Hr He Hl So Sc. exact (placement_independent t v img m2 coff m off Hr He Hl Sc So). Qed.

(* with references: original and copy hold the same value as soon as each one's reference slots denote images
   of the same referents (the SAME objects when they share a buffer: the slot-relative offsets then differ;
   duplicates otherwise) -- whichever buffers they live in *)
Theorem copy_with_references_equal t v img m off m2 coff :
  enc t v = Some img -> len img < 2^62 ->
  sits img m off -> targets_ok t v m off -> sits img m2 coff -> targets_ok t v m2 coff ->
  dec t m2 coff = dec t m off /\ dec t m off = Some (v, len img).
Proof.
  intros He Hl So To Sc Tc. rewrite (RT_all t v img m2 coff He Sc Hl Tc), (RT_all t v img m off He So Hl To). split; reflexivity.
Qed.
