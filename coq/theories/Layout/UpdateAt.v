(* Positional version of the byte-level frame of an assignment: WHERE in the image the replaced
   sub-image lies (pure arithmetic on image lengths: field_off, item_pos, summed along the path). *)
From Coq Require Import ZArith List Bool Lia.
Import ListNotations.
From XO Require Import ListAux Slots Strides Perm BufOps BufOpsProofs Types Format Check LayoutProofs RoundTrip Update UpdateProofs UpdateSize UpdateFrame.
Open Scope Z_scope.

Definition SpliceAt (k : Z) (a b img img' : list cell) : Prop :=
  exists pre post, img = pre ++ a ++ post /\ img' = pre ++ b ++ post /\ len pre = k.

Lemma spliceat_splice k a b x y : SpliceAt k a b x y -> Splice a b x y.
Proof. intros [pre [post [A [B _]]]]. exists pre, post. split; assumption. Qed.
Lemma spliceat_here a b : SpliceAt 0 a b a b.
Proof. exists [], []. rewrite !app_nil_r. repeat split. Qed.
Lemma spliceat_ctx k a b x y p q : SpliceAt k a b x y -> SpliceAt (len p + k) a b (p ++ x ++ q) (p ++ y ++ q).
Proof. intros [pre [post [E1 [E2 E3]]]]. exists (p ++ pre), (post ++ q). subst. rewrite <- !app_assoc, len_app. repeat split. Qed.
Lemma spliceat_left k a b x y q : SpliceAt k a b x y -> SpliceAt k a b (x ++ q) (y ++ q).
Proof. intros H. pose proof (spliceat_ctx k a b x y [] q H) as H'. exact H'. Qed.
Lemma spliceat_right k a b x y p : SpliceAt k a b x y -> SpliceAt (len p + k) a b (p ++ x) (p ++ y).
Proof. intros H. pose proof (spliceat_ctx k a b x y p [] H) as H'. rewrite !app_nil_r in H'. exact H'. Qed.
Lemma spliceat_nest k1 k2 a b x y img img' : SpliceAt k1 a b x y -> SpliceAt k2 x y img img' -> SpliceAt (k2 + k1) a b img img'.
Proof. intros H [pre [post [E1 [E2 E3]]]]. subst. apply spliceat_ctx. exact H. Qed.
Lemma spliceat_eq k k' a b x y : k = k' -> SpliceAt k a b x y -> SpliceAt k' a b x y.
Proof. intros ->. exact (fun H => H). Qed.

Lemma padslot_spliceat e e' : len e = len e' -> SpliceAt 0 e e' (padslot e) (padslot e').
Proof. intros H. unfold padslot. rewrite H. apply spliceat_left. apply spliceat_here. Qed.

Lemma concat_set_spliceat : forall (l : list (list cell)) i x x' l', set_nth_opt l i x' = Some l' -> nth_error l i = Some x ->
  SpliceAt (len (concat (firstn i l))) x x' (concat l) (concat l').
Proof.
  induction l as [|y l IH]; intros i x x' l' Hs Hn; [destruct i; discriminate|]. destruct i as [|i]; cbn in Hs, Hn.
  - inversion Hs; inversion Hn; subst. cbn [concat firstn]. apply spliceat_left. apply spliceat_here.
  - destruct (set_nth_opt l i x') as [r|] eqn:E; [|discriminate]. inversion Hs; subst. cbn [concat firstn]. rewrite len_app.
    apply spliceat_right. eapply IH; eassumption.
Qed.
Lemma concat_padslot_set_spliceat : forall (l : list (list cell)) i x x' l', set_nth_opt l i x' = Some l' -> nth_error l i = Some x -> len x = len x' ->
  SpliceAt (sumz (szs (firstn i l))) x x' (concat (map padslot l)) (concat (map padslot l')).
Proof.
  induction l as [|y l IH]; intros i x x' l' Hs Hn Hl; [destruct i; discriminate|]. destruct i as [|i]; cbn in Hs, Hn.
  - inversion Hs; inversion Hn; subst. cbn [map concat firstn]. change (sumz (szs [])) with 0. apply spliceat_left. apply padslot_spliceat. exact Hl.
  - destruct (set_nth_opt l i x') as [r|] eqn:E; [|discriminate]. inversion Hs; subst. cbn [map concat firstn]. rewrite szs_cons, sumz_cons.
    rewrite <- (len_padslot y). apply spliceat_right. eapply IH; eassumption.
Qed.

(* ---- structs ---- *)
Lemma pimg_struct_spliceat : forall fs es i f e e' es', nth_error fs i = Some f -> set_nth_opt es i e' = Some es' -> nth_error es i = Some e -> len e = len e' ->
  if is_static f
  then SpliceAt (sumz (psz (spairs (firstn i fs) (firstn i es)))) e e' (pimg (spairs fs es)) (pimg (spairs fs es')) /\ pimg (dpairs fs es) = pimg (dpairs fs es')
  else pimg (spairs fs es) = pimg (spairs fs es') /\ SpliceAt (sumz (psz (dpairs (firstn i fs) (firstn i es)))) e e' (pimg (dpairs fs es)) (pimg (dpairs fs es')).
Proof.
  induction fs as [|f0 fs IH]; intros es i f e e' es' Hf Hs Hn Hl; [destruct i; discriminate|].
  destruct es as [|e0 es]; [destruct i; discriminate|]. destruct i as [|i]; cbn in Hf, Hs, Hn.
  - inversion Hf; inversion Hs; inversion Hn; subst. cbn [firstn]. change (sumz (psz (spairs [] []))) with 0. change (sumz (psz (dpairs [] []))) with 0.
    destruct (is_static f) eqn:Es.
    + rewrite !(spairs_cons_static f _ fs _ Es), !(dpairs_cons_static f _ fs _ Es), !pimg_cons. split; [|reflexivity].
      apply spliceat_left. apply padslot_spliceat. exact Hl.
    + rewrite !(spairs_cons_dyn f _ fs _ Es), !(dpairs_cons_dyn f _ fs _ Es), !pimg_cons. split; [reflexivity|].
      apply spliceat_left. apply padslot_spliceat. exact Hl.
  - destruct (set_nth_opt es i e') as [r|] eqn:E; [|discriminate]. inversion Hs; subst es'. cbn [firstn].
    pose proof (IH es i f e e' r Hf E Hn Hl) as H. destruct (is_static f); destruct H as [A B]; destruct (is_static f0) eqn:E0;
      rewrite ?(spairs_cons_static f0 _ _ _ E0), ?(dpairs_cons_static f0 _ _ _ E0), ?(spairs_cons_dyn f0 _ _ _ E0), ?(dpairs_cons_dyn f0 _ _ _ E0), ?pimg_cons, ?psz_cons, ?sumz_cons, <- ?(len_padslot e0);
      (split; [first [apply spliceat_right; exact A | rewrite A; reflexivity | exact A] | first [apply spliceat_right; exact B | rewrite B; reflexivity | exact B]]).
Qed.

Lemma In_dpairs : forall fs es i f e, nth_error fs i = Some f -> nth_error es i = Some e -> is_static f = false -> In (f, e) (dpairs fs es).
Proof.
  induction fs as [|f0 fs IH]; intros es i f e Hf He Hs; [destruct i; discriminate|].
  destruct es as [|e0 es]; [destruct i; discriminate|]. destruct i as [|i]; cbn in Hf, He.
  - inversion Hf; inversion He; subst. rewrite (dpairs_cons_dyn f e fs es Hs). left. reflexivity.
  - destruct (is_static f0) eqn:E0; [rewrite (dpairs_cons_static f0 e0 fs es E0)|rewrite (dpairs_cons_dyn f0 e0 fs es E0); right]; eapply IH; eassumption.
Qed.

(* offset of field i inside the image of a struct *)
Definition field_off (fs : list ty) (es : list (list cell)) (i : nat) : Z :=
  let sb := sumz (psz (spairs (firstn i fs) (firstn i es))) in
  if len (dpairs fs es) =? 0 then sb
  else match nth_error fs i with
       | Some f => if is_static f then 8 + sb
                   else 8 + sumz (psz (spairs fs es)) + 8 * (len (dpairs fs es) - 1) + sumz (psz (dpairs (firstn i fs) (firstn i es)))
       | None => 0
       end.

Lemma enc_struct_spliceat fs es i f e e' es' : nth_error fs i = Some f -> set_nth_opt es i e' = Some es' -> nth_error es i = Some e -> len e = len e' ->
  SpliceAt (field_off fs es i) e e' (enc_struct fs es) (enc_struct fs es').
Proof.
  intros Hf Hs Hn Hl. pose proof (same_lens_set es i e e' es' Hs Hn Hl) as Hsl.
  destruct (spairs_psz_cong fs es es' Hsl) as [PA PB].
  pose proof (pimg_struct_spliceat fs es i f e e' es' Hf Hs Hn Hl) as H.
  rewrite !enc_struct_assemble. unfold field_off. rewrite Hf. cbv zeta.
  assert (Ld : len (dpairs fs es) = len (dpairs fs es')).
  { assert (E : length (psz (dpairs fs es)) = length (psz (dpairs fs es'))) by (rewrite PB; reflexivity). unfold psz in E. rewrite !map_length in E. unfold len. lia. }
  unfold assemble. destruct (dpairs fs es) as [|p ps] eqn:E1; destruct (dpairs fs es') as [|p' ps'] eqn:E2; try (unfold len in Ld; cbn in Ld; lia).
  - change (len (@nil (ty * list cell)) =? 0) with true. cbv iota.
    destruct (is_static f) eqn:Es; destruct H as [A B]; [exact A|].
    exfalso. pose proof (In_dpairs fs es i f e Hf Hn Es) as Hin. rewrite E1 in Hin. exact Hin.
  - replace (len (p :: ps) =? 0) with false by (symmetry; apply Z.eqb_neq; rewrite len_cons; pose proof (len_nonneg ps); lia).
    cbv zeta. rewrite !len_pimg, <- PA, <- PB, <- Ld.
    assert (L8 : forall x, len (bytes (enc64 x)) = 8) by (intros x; rewrite len_bytes; unfold len; rewrite enc64_length; reflexivity).
    destruct (is_static f); destruct H as [A B].
    + rewrite B. eapply spliceat_eq; [|apply spliceat_right; apply spliceat_left; exact A]. rewrite L8. reflexivity.
    + rewrite A. eapply spliceat_eq; [|apply spliceat_right; apply spliceat_right; apply spliceat_right; exact B].
      rewrite L8, len_pimg, len_words.
      assert (Lo : len (tl (offsets_from (8 + sumz (psz (spairs fs es)) + 8 * (len (p :: ps) - 1)) (psz (p :: ps)))) = len (p :: ps) - 1).
      { generalize (8 + sumz (psz (spairs fs es)) + 8 * (len (p :: ps) - 1)). intros h.
        assert (E : length (offsets_from h (psz (p :: ps))) = length (p :: ps)) by (rewrite offsets_from_length; unfold psz; apply map_length).
        unfold len. revert E. generalize (offsets_from h (psz (p :: ps))). intros [|o0 os] E; cbn [tl length] in E |- *; lia. }
      rewrite Lo. rewrite <- ?PA. lia.
Qed.

(* ---- arrays ---- *)
Lemma len_arr_head_static shape order sh isz T : shape_ok shape sh = true -> perm_ok order (length shape) = true ->
  len (if ndyn shape =? 0 then [] else bytes (enc64 T) ++ concat (map (fun d : Z => bytes (enc64 d)) (dyn_dims shape sh)) ++
         concat (map (fun s : Z => bytes (enc64 s)) (if (0 <? ndyn shape) && (1 <? len shape) then get_strides sh order isz else [])))
  = arr_header true shape.
Proof.
  intros Gs Gp. pose proof (ndyn_nonneg shape). destruct (ndyn shape =? 0) eqn:End.
  - apply Z.eqb_eq in End. unfold arr_header. rewrite End. reflexivity.
  - apply Z.eqb_neq in End.
    change (concat (map (fun d : Z => bytes (enc64 d)) (dyn_dims shape sh))) with (words (dyn_dims shape sh)).
    set (strs := if (0 <? ndyn shape) && (1 <? len shape) then get_strides sh order isz else []).
    change (concat (map (fun s : Z => bytes (enc64 s)) strs)) with (words strs).
    rewrite !len_app, !len_words, (dyn_dims_length _ _ Gs), len_bytes.
    assert (L8 : forall x, len (enc64 x) = 8) by (intros x; unfold len; rewrite enc64_length; reflexivity). rewrite L8.
    unfold arr_header, strs. replace (ndyn shape =? 0) with false by (symmetry; apply Z.eqb_neq; lia). cbn [andb].
    destruct ((0 <? ndyn shape) && (1 <? len shape)); [|change (len (@nil Z)) with 0; lia].
    assert (Lst : len (get_strides sh order isz) = len shape).
    { unfold len. rewrite get_strides_length. apply andb_prop in Gp. destruct Gp as [Gp' _]. apply Nat.eqb_eq in Gp'. lia. }
    rewrite Lst. lia.
Qed.
Lemma len_arr_head_dyn shape order sh T offs : shape_ok shape sh = true -> perm_ok order (length shape) = true -> len offs = prod sh ->
  len (bytes (enc64 T) ++ concat (map (fun d : Z => bytes (enc64 d)) (dyn_dims shape sh)) ++
       concat (map (fun s : Z => bytes (enc64 s)) (if (0 <? ndyn shape) && (1 <? len shape) then get_strides sh order 8 else [])) ++
       concat (map (fun o : Z => bytes (enc64 o)) offs))
  = arr_header false shape + 8 * prod sh.
Proof.
  intros Gs Gp Lo.
  change (concat (map (fun d : Z => bytes (enc64 d)) (dyn_dims shape sh))) with (words (dyn_dims shape sh)).
  set (strs := if (0 <? ndyn shape) && (1 <? len shape) then get_strides sh order 8 else []).
  change (concat (map (fun s : Z => bytes (enc64 s)) strs)) with (words strs).
  change (concat (map (fun o : Z => bytes (enc64 o)) offs)) with (words offs).
  rewrite !len_app, !len_words, (dyn_dims_length _ _ Gs), len_bytes, Lo.
  assert (L8 : forall x, len (enc64 x) = 8) by (intros x; unfold len; rewrite enc64_length; reflexivity). rewrite L8.
  unfold arr_header, strs. cbn [andb].
  destruct ((0 <? ndyn shape) && (1 <? len shape)); [|change (len (@nil Z)) with 0; lia].
  assert (Lst : len (get_strides sh order 8) = len shape).
  { unfold len. rewrite get_strides_length. apply andb_prop in Gp. destruct Gp as [Gp' _]. apply Nat.eqb_eq in Gp'. lia. }
  rewrite Lst. lia.
Qed.

Lemma es_mem_set_at shape sh order es es' c e e' : shape_ok shape sh = true -> perm_ok order (length shape) = true ->
  length es = Z.to_nat (prod sh) -> set_nth_opt es c e' = Some es' -> nth_error es c = Some e ->
  let p0 := Z.to_nat (Perm.mem_pos sh order (unpos sh (Z.of_nat c))) in
  set_nth_opt (es_mem_of sh order es) p0 e' = Some (es_mem_of sh order es') /\ nth_error (es_mem_of sh order es) p0 = Some e /\ (p0 < Z.to_nat (prod sh))%nat.
Proof.
  intros Gs Gp Hlen Hs Hn p0.
  assert (Hc : (c < length es)%nat) by (apply nth_error_Some; rewrite Hn; discriminate).
  pose proof (prod_nonneg sh (shape_ok_nonneg _ _ Gs)) as Hpn.
  destruct (lom_of_idx shape sh order (Z.of_nat c) Gs Gp ltac:(lia)) as [Hmp [Hlom _]]. cbv zeta in Hmp, Hlom.
  set (mp := Perm.mem_pos sh order (unpos sh (Z.of_nat c))) in *.
  assert (Lm : forall X, length (es_mem_of sh order X) = Z.to_nat (prod sh)) by (intros X; unfold es_mem_of, mem_positions; rewrite !map_length, seq_length; reflexivity).
  assert (Nm : forall X k, (k < Z.to_nat (prod sh))%nat -> nth k (es_mem_of sh order X) [] = nth (Z.to_nat (logical_of_mem sh order (Z.of_nat k))) X []).
  { intros X k Hk. unfold es_mem_of. rewrite (map_nth_in _ _ _ [] 0) by (unfold mem_positions; rewrite map_length, seq_length; exact Hk).
    rewrite nth_mem_positions by exact Hk. reflexivity. }
  unfold p0. split; [|split; [|lia]].
  - apply (set_nth_opt_char []); [rewrite Lm; lia|rewrite !Lm; reflexivity|].
    intros k Hk. rewrite Lm in Hk. rewrite !Nm by exact Hk. rewrite (set_nth_opt_nth [] es c e' es' Hs).
    destruct (Nat.eqb (Z.to_nat (logical_of_mem sh order (Z.of_nat k))) c) eqn:E1; destruct (Nat.eqb k (Z.to_nat mp)) eqn:E2; try reflexivity.
    + apply Nat.eqb_eq in E1. apply Nat.eqb_neq in E2. exfalso. apply E2.
      pose proof (lom_range shape sh order (Z.of_nat k) Gs Gp ltac:(lia)) as Hr.
      assert (Ek : Z.of_nat k = mp) by (apply (lom_injective_at shape sh order (Z.of_nat c) (Z.of_nat k) Gs Gp); lia). lia.
    + apply Nat.eqb_eq in E2. apply Nat.eqb_neq in E1. exfalso. apply E1. subst k. rewrite Z2Nat.id by lia. rewrite Hlom. lia.
  - rewrite (nth_error_nth' _ []) by (rewrite Lm; lia). rewrite Nm by lia. rewrite Z2Nat.id by lia. rewrite Hlom, Nat2Z.id.
    f_equal. apply nth_error_nth. exact Hn.
Qed.

Lemma len_concat_firstn_uniform (l : list (list cell)) k n : (forall x, In x l -> len x = k) -> (n <= length l)%nat -> len (concat (firstn n l)) = k * Z.of_nat n.
Proof.
  intros Hu Hn. rewrite (len_concat_uniform (firstn n l) k).
  - unfold len. rewrite firstn_length, Nat.min_l by exact Hn. reflexivity.
  - intros x Hx. apply Hu. rewrite <- (firstn_skipn n l). apply in_or_app. left. exact Hx.
Qed.

Lemma enc_array_spliceat item shape order sh items es es' c e e' :
  shape_ok shape sh = true -> perm_ok order (length shape) = true -> len items = prod sh ->
  seqopt (map (enc item) items) = Some es ->
  set_nth_opt es c e' = Some es' -> nth_error es c = Some e -> len e = len e' ->
  SpliceAt (item_pos item shape order sh es c) e e' (enc_array item shape order sh es) (enc_array item shape order sh es').
Proof.
  intros Gs Gp Gn Ee Hs Hn Hl.
  assert (Hlen : length es = Z.to_nat (prod sh)).
  { pose proof (seqopt_length _ _ Ee) as L. rewrite map_length in L. unfold len in Gn. lia. }
  destruct (es_mem_set_at shape sh order es es' c e e' Gs Gp Hlen Hs Hn) as [Hset [Hnth Hp0]]. cbv zeta in Hset, Hnth, Hp0.
  set (mp := Perm.mem_pos sh order (unpos sh (Z.of_nat c))) in *.
  pose proof (same_lens_set _ _ _ _ _ Hset Hnth Hl) as Hsl.
  assert (Lm : length (es_mem_of sh order es) = Z.to_nat (prod sh)) by (unfold es_mem_of, mem_positions; rewrite !map_length, seq_length; reflexivity).
  unfold enc_array, item_pos. fold (es_mem_of sh order es). fold (es_mem_of sh order es'). fold mp.
  set (em := es_mem_of sh order es) in *. set (em' := es_mem_of sh order es') in *.
  assert (Hc : (c < length es)%nat) by (apply nth_error_Some; rewrite Hn; discriminate).
  assert (Hmp0 : 0 <= mp) by (destruct (lom_of_idx shape sh order (Z.of_nat c) Gs Gp ltac:(lia)) as [Hmp _]; exact (proj1 Hmp)).
  unfold is_static. destruct (csize item) as [isz|] eqn:Ci.
  - pose proof (es_mem_uniform item shape order sh items es isz (SZ_all item) Ci Gs Gp Gn Ee) as Hu. fold (es_mem_of sh order es) in Hu. fold em in Hu.
    rewrite (same_lens_concat em em' Hsl).
    eapply spliceat_eq; [|apply spliceat_right; unfold padto; rewrite (same_lens_concat em em' Hsl); apply spliceat_left; eapply concat_set_spliceat; eassumption].
    rewrite <- (same_lens_concat em em' Hsl). rewrite (len_arr_head_static shape order sh isz _ Gs Gp).
    rewrite (len_concat_firstn_uniform em isz (Z.to_nat mp) Hu ltac:(lia)). rewrite Z2Nat.id by lia. reflexivity.
  - fold (szs em). fold (szs em'). rewrite (same_lens_szs em em' Hsl).
    set (T := slot (arr_header false shape + 8 * prod sh + sumz (szs em'))).
    set (offs := offsets_from (arr_header false shape + 8 * prod sh) (szs em')).
    assert (Lo : len offs = prod sh).
    { unfold offs, len. rewrite offsets_from_length. unfold szs. rewrite map_length. unfold em'. unfold es_mem_of, mem_positions. rewrite !map_length, seq_length.
      pose proof (prod_nonneg sh (shape_ok_nonneg _ _ Gs)). lia. }
    replace (bytes (enc64 T) ++ concat (map (fun d : Z => bytes (enc64 d)) (dyn_dims shape sh)) ++
             concat (map (fun s : Z => bytes (enc64 s)) (if (0 <? ndyn shape) && (1 <? len shape) then get_strides sh order 8 else [])) ++
             concat (map (fun o : Z => bytes (enc64 o)) offs) ++ padto (concat (map padslot em)) (T - arr_header false shape - 8 * prod sh))
      with ((bytes (enc64 T) ++ concat (map (fun d : Z => bytes (enc64 d)) (dyn_dims shape sh)) ++
             concat (map (fun s : Z => bytes (enc64 s)) (if (0 <? ndyn shape) && (1 <? len shape) then get_strides sh order 8 else [])) ++
             concat (map (fun o : Z => bytes (enc64 o)) offs)) ++ padto (concat (map padslot em)) (T - arr_header false shape - 8 * prod sh))
      by (rewrite <- !app_assoc; reflexivity).
    replace (bytes (enc64 T) ++ concat (map (fun d : Z => bytes (enc64 d)) (dyn_dims shape sh)) ++
             concat (map (fun s : Z => bytes (enc64 s)) (if (0 <? ndyn shape) && (1 <? len shape) then get_strides sh order 8 else [])) ++
             concat (map (fun o : Z => bytes (enc64 o)) offs) ++ padto (concat (map padslot em')) (T - arr_header false shape - 8 * prod sh))
      with ((bytes (enc64 T) ++ concat (map (fun d : Z => bytes (enc64 d)) (dyn_dims shape sh)) ++
             concat (map (fun s : Z => bytes (enc64 s)) (if (0 <? ndyn shape) && (1 <? len shape) then get_strides sh order 8 else [])) ++
             concat (map (fun o : Z => bytes (enc64 o)) offs)) ++ padto (concat (map padslot em')) (T - arr_header false shape - 8 * prod sh))
      by (rewrite <- !app_assoc; reflexivity).
    eapply spliceat_eq; [|apply spliceat_right; unfold padto; rewrite !len_concat_padslot, (same_lens_szs em em' Hsl); apply spliceat_left; eapply concat_padslot_set_spliceat; eassumption].
    rewrite (len_arr_head_dyn shape order sh T offs Gs Gp Lo). rewrite <- (same_lens_szs em em' Hsl). unfold szs. rewrite <- firstn_map. reflexivity.
Qed.

(* ---- along an access path: where the element lies inside the object ---- *)
Fixpoint path_off (t : ty) (v : val) (p : path) {struct p} : option Z :=
  match p with
  | [] => Some 0
  | PF i :: r =>
      match t, v with
      | TStruct fs, VStruct vs =>
          match enc_list fs vs, nth_error fs i, nth_error vs i with
          | Some es, Some f, Some w => match path_off f w r with Some d => Some (field_off fs es i + d) | None => None end
          | _, _, _ => None
          end
      | _, _ => None
      end
  | PI c :: r =>
      match t, v with
      | TArray item shape order, VArr sh items =>
          match seqopt (map (enc item) items), nth_error items c with
          | Some es, Some w => match path_off item w r with Some d => Some (item_pos item shape order sh es c + d) | None => None end
          | _, _ => None
          end
      | _, _ => None
      end
  end.

Lemma vset_frame_at : forall p t v old x' v' st b img,
  vget v p = Some old -> sub_ty t p = Some st -> enc st x' = Some b ->
  (forall a, enc st old = Some a -> len a = len b) ->
  vset v p x' = Some v' -> enc t v = Some img ->
  exists a img' d, enc st old = Some a /\ enc t v' = Some img' /\ path_off t v p = Some d /\ SpliceAt d a b img img'.
Proof.
  induction p as [|s r IH]; intros t v old x' v' st b img Hg Ht Hb Hlen Hs He.
  - cbn in Hg, Ht, Hs. inversion Hg; inversion Ht; inversion Hs; subst. exists img, b, 0. split; [exact He|]. split; [exact Hb|]. split; [reflexivity|apply spliceat_here].
  - cbn [vget vset] in Hg, Hs. destruct (children v s) as [cs|] eqn:Ec; [|discriminate].
    destruct (nth_error cs (step_idx s)) as [oldc|] eqn:En; [|discriminate].
    destruct (vset oldc r x') as [newc|] eqn:Ev; [|discriminate].
    destruct (set_nth_opt cs (step_idx s) newc) as [cs'|] eqn:Esn; [|discriminate]. inversion Hs; subst v'. clear Hs.
    destruct s as [i|c]; cbn [sub_ty] in Ht.
    + destruct t as [| |fs| | |]; try discriminate. destruct (nth_error fs i) as [f|] eqn:Ef; [|discriminate].
      destruct v as [| |vs| | | |]; try discriminate. cbn in Ec. inversion Ec; subst cs. cbn [step_idx rebuild] in *.
      rewrite enc_struct_eq in He. destruct (enc_list fs vs) as [es|] eqn:Eel; [|discriminate]. inversion He; subst img. clear He.
      destruct (enc_list_nth fs vs es i f oldc Eel Ef En) as [ec [Hec Eoc]].
      destruct (IH f oldc old x' newc st b ec Hg Ht Hb Hlen Ev Eoc) as [a [ec' [d [Ea [Enc [Hd Hsp]]]]]].
      destruct (enc_list_set fs vs es i f newc cs' ec' Eel Ef Esn Enc) as [es' [Ees' Hset]].
      assert (Hl : len ec = len ec').
      { destruct Hsp as [pre [post [E1 [E2 _]]]]. subst. rewrite !len_app. rewrite (Hlen a Ea). reflexivity. }
      exists a, (enc_struct fs es'), (field_off fs es i + d). split; [exact Ea|]. split; [rewrite enc_struct_eq, Ees'; reflexivity|].
      split; [cbn [path_off]; rewrite Eel, Ef, En, Hd; reflexivity|].
      eapply spliceat_nest; [exact Hsp|]. eapply enc_struct_spliceat; eassumption.
    + destruct t as [| | |item shape order| |]; try discriminate.
      destruct v as [| | |sh vs| | |]; try discriminate. cbn in Ec. inversion Ec; subst cs. cbn [step_idx rebuild] in *.
      cbn [enc] in He |- *.
      destruct (shape_ok shape sh && perm_ok order (length shape) && (len vs =? prod sh) && words_fit item shape order sh) eqn:G; [|discriminate].
      destruct (seqopt (map (enc item) vs)) as [es|] eqn:Eel; [|discriminate]. inversion He; subst img. clear He.
      destruct (seqopt_enc_nth item vs es c oldc Eel En) as [ec [Hec Eoc]].
      destruct (IH item oldc old x' newc st b ec Hg Ht Hb Hlen Ev Eoc) as [a [ec' [d [Ea [Enc [Hd Hsp]]]]]].
      destruct (seqopt_enc_set item vs es c newc cs' ec' Eel Esn Enc) as [es' [Ees' Hset]].
      assert (Hl : len ec = len ec').
      { destruct Hsp as [pre [post [E1 [E2 _]]]]. subst. rewrite !len_app. rewrite (Hlen a Ea). reflexivity. }
      assert (Hlv : len cs' = len vs) by (unfold len; rewrite (set_nth_opt_length _ _ _ _ Esn); reflexivity).
      exists a, (enc_array item shape order sh es'), (item_pos item shape order sh es c + d). split; [exact Ea|]. split; [rewrite Hlv, G, Ees'; reflexivity|].
      split; [cbn [path_off]; rewrite Eel, En, Hd; reflexivity|].
      eapply spliceat_nest; [exact Hsp|].
      apply andb_prop in G. destruct G as [G _]. apply andb_prop in G. destruct G as [G Gn]. apply andb_prop in G. destruct G as [Gs Gp]. apply Z.eqb_eq in Gn.
      eapply enc_array_spliceat; eassumption.
Qed.

Theorem assign_frame_at t v p x v' img :
  assign t v p x = Some v' -> enc t v = Some img ->
  exists st old x' a b img' d, vget v p = Some old /\ sub_ty t p = Some st /\ retag old x = Some x' /\
    enc st old = Some a /\ enc st x' = Some b /\ len a = len b /\ enc t v' = Some img' /\ path_off t v p = Some d /\ SpliceAt d a b img img'.
Proof.
  unfold assign. intros Ha He. destruct (vget v p) as [old|] eqn:Eg; [|discriminate]. destruct (sub_ty t p) as [st|] eqn:Et; [|discriminate].
  destruct (retag old x) as [x'|] eqn:Er; [|discriminate]. destruct (enc st x') as [b|] eqn:Eb; [|discriminate].
  destruct (vset_frame_at p t v old x' v' st b img Eg Et Eb) as [a [img' [d [Ea [Ei [Hd Hsp]]]]]]; try assumption.
  { intros a Ea. exact (keeps_len_all st old x x' a b Er Ea Eb). }
  exists st, old, x', a, b, img', d. repeat split; try assumption. exact (keeps_len_all st old x x' a b Er Ea Eb).
Qed.

(* a store of the new sub-image at the place of the old one turns a buffer holding the old image into one
   holding the new image; every byte outside the stored range is untouched (BufOpsProofs.write_frame) *)
Lemma sits_splice_wr k a bs img img' m o : SpliceAt k a (bytes bs) img img' -> len a = len bs ->
  sits img m o -> sits img' (wr m (o + k) bs) o.
Proof.
  intros [pre [post [E1 [E2 E3]]]] Hl Hs. subst img img' k.
  apply sits_app in Hs. destruct Hs as [S1 S2]. apply sits_app in S2. destruct S2 as [S2 S3].
  destruct (sits_range _ _ _ S2) as [R0 R1].
  assert (Hir : BufOps.in_range m (o + len pre) (Z.of_nat (length bs))).
  { unfold BufOps.in_range. unfold len in *. lia. }
  destruct (BufOpsProofs.write_frame m (o + len pre) bs Hir) as [WL [WO WI]].
  assert (Hpres : forall part q, sits part m q -> (q + len part <= o + len pre \/ o + len pre + len bs <= q) -> sits part (wr m (o + len pre) bs) q).
  { intros part q [P0 [P1 P2]] Hd. split; [exact P0|]. split; [unfold len in *; lia|].
    intros i c Hi. specialize (P2 i c Hi).
    assert (Hil : (i < length part)%nat) by (apply nth_error_Some; rewrite Hi; discriminate).
    assert (Hb : BufOpsProofs.byte (wr m (o + len pre) bs) (q + Z.of_nat i) = BufOpsProofs.byte m (q + Z.of_nat i)).
    { apply WO; [lia|]. unfold len in *. lia. }
    unfold BufOpsProofs.byte in Hb. replace (Z.to_nat (q + Z.of_nat i)) with (Z.to_nat q + i)%nat in Hb by lia.
    rewrite (nth_error_nth _ _ 0 P2) in Hb.
    assert (Hlt : (Z.to_nat q + i < length (wr m (o + len pre) bs))%nat) by (rewrite WL; unfold len in *; lia).
    rewrite (nth_error_nth' _ 0 Hlt). f_equal. exact Hb. }
  apply sits_app. split; [apply Hpres; [exact S1|left; lia]|].
  apply sits_app. split.
  - split; [lia|]. split; [rewrite len_bytes; unfold len in *; lia|].
    intros i c Hi. unfold bytes in Hi. rewrite nth_error_map in Hi. destruct (nth_error bs i) as [y|] eqn:Ey; [|discriminate]. cbn in Hi. inversion Hi; subst c.
    assert (Hil : (i < length bs)%nat) by (apply nth_error_Some; rewrite Ey; discriminate).
    pose proof (WI (o + len pre + Z.of_nat i) ltac:(lia)) as Hb.
    unfold BufOpsProofs.byte in Hb. replace (Z.to_nat (o + len pre + Z.of_nat i)) with (Z.to_nat (o + len pre) + i)%nat in Hb by lia.
    replace (Z.to_nat (o + len pre + Z.of_nat i - (o + len pre))) with i in Hb by lia. rewrite (nth_error_nth _ _ 0 Ey) in Hb.
    assert (Hlt : (Z.to_nat (o + len pre) + i < length (wr m (o + len pre) bs))%nat) by (rewrite WL; unfold len in *; lia).
    rewrite (nth_error_nth' _ 0 Hlt). f_equal. exact Hb.
  - rewrite len_bytes. rewrite <- Hl. apply Hpres; [exact S3|right; rewrite Hl; lia].
Qed.
