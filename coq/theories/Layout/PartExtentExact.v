(* Exact copies (Update.assign_exact: an object of the element's class and of exactly its size is copied as it is):
   the parts INSIDE the assigned element take the source's layout, every other part of the object -- the element
   itself, everything above it and everything beside it -- keeps its position and the length of its image. *)
From Coq Require Import ZArith List Bool Lia.
Import ListNotations.
From XO Require Import ListAux Slots Strides Perm BufOps BufOpsProofs Types Format Check LayoutProofs RoundTrip Update UpdateProofs UpdateSize UpdateFrame UpdateAt PartExtent.
Open Scope Z_scope.

(* which paths are excluded from the comparison *)
Inductive exc := ENone | EAll | EPath (p : path).
Definition pstep_eqb (a b : pstep) : bool :=
  match a, b with PF i, PF j => Nat.eqb i j | PI i, PI j => Nat.eqb i j | _, _ => false end.
Lemma pstep_eqb_eq a b : pstep_eqb a b = true <-> a = b.
Proof. destruct a, b; cbn; rewrite ?Nat.eqb_eq; split; intros H; try discriminate; try (inversion H; reflexivity); congruence. Qed.

Fixpoint allowedP (p q : path) : Prop :=
  match p with
  | [] => q = []
  | s :: p' => match q with [] => True | s' :: q' => if pstep_eqb s s' then allowedP p' q' else True end
  end.
Definition allowed (ex : exc) (q : path) : Prop :=
  match ex with ENone => True | EAll => False | EPath p => allowedP p q end.
Definition child_ex (ex : exc) (s : pstep) : exc :=
  match ex with
  | ENone => ENone | EAll => EAll
  | EPath [] => EAll
  | EPath (s' :: p') => if pstep_eqb s' s then EPath p' else ENone
  end.
Lemma allowed_child ex s q : allowed ex (s :: q) <-> allowed (child_ex ex s) q.
Proof.
  destruct ex as [| |[|s' p']].
  - cbn. tauto.
  - cbn. tauto.
  - cbn. split; [intros H; discriminate H|intros []].
  - cbn [allowed allowedP child_ex]. destruct (pstep_eqb s' s); cbn; tauto.
Qed.
Lemma allowed_nil ex : ex <> EAll -> allowed ex [].
Proof. destruct ex as [| |[|s p]]; cbn; auto; try congruence. Qed.
(* the meaning: with EPath p exactly the paths strictly inside p are excluded *)
Lemma allowed_EPath_iff : forall p q, allowed (EPath p) q <-> ~ (exists r, r <> [] /\ q = p ++ r).
Proof.
  unfold allowed. induction p as [|s p IH]; intros q; cbn [allowedP].
  - split; [intros -> [r [Hr E]]; cbn in E; congruence|]. intros H. destruct q as [|a q]; [reflexivity|]. exfalso. apply H. exists (a :: q). split; [discriminate|reflexivity].
  - destruct q as [|s' q'].
    + split; [intros _ [r [_ E]]; discriminate|tauto].
    + destruct (pstep_eqb s s') eqn:E.
      * apply pstep_eqb_eq in E. subst s'. rewrite IH. split; intros H [r [Hr Er]]; apply H; exists r; split; auto; cbn in *; congruence.
      * split; [|tauto]. intros _ [r [_ Er]]. cbn in Er. inversion Er; subst. assert (pstep_eqb s s = true) by (apply pstep_eqb_eq; reflexivity). congruence.
Qed.

Definition LEqX (ex : exc) (t : ty) (v v' : val) : Prop :=
  forall q st, allowed ex q -> sub_ty t q = Some st ->
    match vget v q, vget v' q with
    | Some w, Some w' => shape_of w = shape_of w' /\ (forall e e', enc st w = Some e -> enc st w' = Some e' -> len e = len e')
    | None, None => True
    | _, _ => False
    end.

Lemma LEqX_none t v v' : LEqX ENone t v v' <-> LEq t v v'.
Proof. unfold LEqX, LEq. cbn. split; intros H q st; [intros Hs; apply H; [exact I|exact Hs]|intros _ Hs; apply H; exact Hs]. Qed.

Lemma LEqX_here ex t v v' e e' : ex <> EAll -> LEqX ex t v v' -> enc t v = Some e -> enc t v' = Some e' -> len e = len e'.
Proof. intros Hx H. specialize (H [] t (allowed_nil ex Hx) eq_refl). cbn in H. destruct H as [_ H]. apply H. Qed.

Lemma LEqX_field ex fs vs v' i f w : allowed ex [PF i] -> LEqX ex (TStruct fs) (VStruct vs) v' -> nth_error fs i = Some f -> nth_error vs i = Some w ->
  exists vs' w', v' = VStruct vs' /\ nth_error vs' i = Some w' /\ LEqX (child_ex ex (PF i)) f w w'.
Proof.
  intros Ha H Hf Hw. pose proof (H [PF i] f Ha) as H1. cbn [sub_ty] in H1. rewrite Hf in H1. specialize (H1 eq_refl).
  cbn [vget children step_idx] in H1. rewrite Hw in H1.
  destruct v' as [| |vs'| | | |]; cbn [children] in H1; try contradiction.
  destruct (nth_error vs' i) as [w'|] eqn:Ew'; [|contradiction].
  exists vs', w'. split; [reflexivity|]. split; [exact Ew'|].
  intros q st Hq Hs. pose proof (H (PF i :: q) st (proj2 (allowed_child ex (PF i) q) Hq)) as H2. cbn [sub_ty] in H2. rewrite Hf in H2. specialize (H2 Hs).
  cbn [vget children step_idx] in H2. rewrite Hw, Ew' in H2. exact H2.
Qed.
Lemma LEqX_field_none ex fs vs vs' i f : allowed ex [PF i] -> LEqX ex (TStruct fs) (VStruct vs) (VStruct vs') -> nth_error fs i = Some f -> nth_error vs i = None -> nth_error vs' i = None.
Proof.
  intros Ha H Hf Hw. pose proof (H [PF i] f Ha) as H1. cbn [sub_ty] in H1. rewrite Hf in H1. specialize (H1 eq_refl).
  cbn [vget children step_idx] in H1. rewrite Hw in H1. destruct (nth_error vs' i); [contradiction|reflexivity].
Qed.
Lemma LEqX_item ex item shape order sh vs v' c w : ex <> EAll -> allowed ex [PI c] -> LEqX ex (TArray item shape order) (VArr sh vs) v' -> nth_error vs c = Some w ->
  exists vs' w', v' = VArr sh vs' /\ nth_error vs' c = Some w' /\ LEqX (child_ex ex (PI c)) item w w'.
Proof.
  intros Hx Ha H Hw. pose proof (H [PI c] item Ha eq_refl) as H1.
  cbn [vget children step_idx] in H1. rewrite Hw in H1.
  destruct v' as [| | |sh' vs'| | |]; cbn [children] in H1; try contradiction.
  destruct (nth_error vs' c) as [w'|] eqn:Ew'; [|contradiction].
  pose proof (H [] _ (allowed_nil ex Hx) eq_refl) as H0. cbn in H0. destruct H0 as [Hsh _]. inversion Hsh; subst sh'.
  exists vs', w'. split; [reflexivity|]. split; [exact Ew'|].
  intros q st Hq Hs. pose proof (H (PI c :: q) st (proj2 (allowed_child ex (PI c) q) Hq)) as H2. cbn [sub_ty] in H2. specialize (H2 Hs).
  cbn [vget children step_idx] in H2. rewrite Hw, Ew' in H2. exact H2.
Qed.

(* when one step below the top is allowed, every direct child may be compared at its own top *)
Lemma allowed_step_siblings ex s r s' : allowed ex (s :: r) -> allowed ex [s'] /\ child_ex ex s' <> EAll /\ ex <> EAll.
Proof.
  destruct ex as [| |[|a p]]; cbn; intros H.
  - split; [exact I|]. split; congruence.
  - contradiction.
  - discriminate.
  - split; [destruct (pstep_eqb a s'); [destruct p; cbn; auto|exact I]|]. split; [destruct (pstep_eqb a s'); congruence|congruence].
Qed.

Lemma LEqX_fields_same_lens ex fs vs vs' es es' : (forall i, allowed ex [PF i] /\ child_ex ex (PF i) <> EAll) ->
  LEqX ex (TStruct fs) (VStruct vs) (VStruct vs') -> enc_list fs vs = Some es -> enc_list fs vs' = Some es' -> same_lens es es'.
Proof.
  intros Hal H He He'. destruct (enc_list_length _ _ _ He) as [L1 L2]. destruct (enc_list_length _ _ _ He') as [L1' L2'].
  apply Forall2_nth_error; [congruence|]. intros i a b Ha Hb.
  pose proof (nth_error_some_lt _ _ _ Ha) as Hi.
  destruct (nth_error_lt_some fs i ltac:(lia)) as [f Hf]. destruct (nth_error_lt_some vs i ltac:(lia)) as [w Hw].
  destruct (Hal i) as [A1 A2].
  destruct (LEqX_field ex fs vs (VStruct vs') i f w A1 H Hf Hw) as [vs2 [w' [Ev [Hw' HL]]]]. inversion Ev; subst vs2.
  destruct (enc_list_nth fs vs es i f w He Hf Hw) as [ec [B1 B2]]. destruct (enc_list_nth fs vs' es' i f w' He' Hf Hw') as [ec' [C1 C2]].
  rewrite Ha in B1. rewrite Hb in C1. inversion B1; inversion C1; subst. eapply LEqX_here; eassumption.
Qed.
Lemma LEqX_items_same_lens ex item shape order sh vs vs' es es' : ex <> EAll -> (forall c, allowed ex [PI c] /\ child_ex ex (PI c) <> EAll) ->
  LEqX ex (TArray item shape order) (VArr sh vs) (VArr sh vs') -> length vs = length vs' ->
  seqopt (map (enc item) vs) = Some es -> seqopt (map (enc item) vs') = Some es' -> same_lens es es'.
Proof.
  intros Hx Hal H Hl He He'. pose proof (seqopt_length _ _ He) as L1. pose proof (seqopt_length _ _ He') as L1'. rewrite map_length in L1, L1'.
  apply Forall2_nth_error; [congruence|]. intros i a b Ha Hb.
  pose proof (nth_error_some_lt _ _ _ Ha) as Hi.
  destruct (nth_error_lt_some vs i ltac:(lia)) as [w Hw]. destruct (Hal i) as [A1 A2].
  destruct (LEqX_item ex item shape order sh vs (VArr sh vs') i w Hx A1 H Hw) as [vs2 [w' [Ev [Hw' HL]]]]. inversion Ev; subst vs2.
  destruct (seqopt_enc_nth item vs es i w He Hw) as [ec [B1 B2]]. destruct (seqopt_enc_nth item vs' es' i w' He' Hw') as [ec' [C1 C2]].
  rewrite Ha in B1. rewrite Hb in C1. inversion B1; inversion C1; subst. eapply LEqX_here; eassumption.
Qed.

Lemma path_off_LEqX : forall q ex t v v' img img', allowed ex q -> LEqX ex t v v' -> enc t v = Some img -> enc t v' = Some img' -> path_off t v q = path_off t v' q.
Proof.
  induction q as [|s r IH]; intros ex t v v' img img' Hq HL He He'; [reflexivity|].
  assert (Hsib : forall s', allowed ex [s'] /\ child_ex ex s' <> EAll) by (intros s'; destruct (allowed_step_siblings ex s r s' Hq) as [A [B _]]; split; assumption).
  assert (Hx : ex <> EAll) by (destruct (allowed_step_siblings ex s r s Hq) as [_ [_ C]]; exact C).
  pose proof (proj1 (allowed_child ex s r) Hq) as Hqc.
  destruct s as [i|c].
  - destruct t as [| |fs| | |]; try (cbn [path_off]; destruct v, v'; reflexivity).
    destruct (enc_struct_inv _ _ _ He) as [vs [es [Ev [Eel _]]]]. destruct (enc_struct_inv _ _ _ He') as [vs' [es' [Ev' [Eel' _]]]]. subst v v'.
    cbn [path_off]. rewrite Eel, Eel'.
    destruct (nth_error fs i) as [f|] eqn:Ef; [|reflexivity].
    destruct (nth_error vs i) as [w|] eqn:Ew.
    + destruct (LEqX_field ex fs vs (VStruct vs') i f w (proj1 (Hsib (PF i))) HL Ef Ew) as [vs2 [w' [E2 [Ew' HLc]]]]. inversion E2; subst vs2. rewrite Ew'.
      destruct (enc_list_nth fs vs es i f w Eel Ef Ew) as [ec [_ Ec]]. destruct (enc_list_nth fs vs' es' i f w' Eel' Ef Ew') as [ec' [_ Ec']].
      rewrite (IH (child_ex ex (PF i)) f w w' ec ec' Hqc HLc Ec Ec').
      rewrite (field_off_cong fs es es' i (LEqX_fields_same_lens ex fs vs vs' es es' (fun j => Hsib (PF j)) HL Eel Eel')). reflexivity.
    + rewrite (LEqX_field_none ex fs vs vs' i f (proj1 (Hsib (PF i))) HL Ef Ew). reflexivity.
  - destruct t as [| | |item shape order| |]; try (cbn [path_off]; destruct v, v'; reflexivity).
    destruct (enc_array_inv _ _ _ _ _ He) as [sh [vs [es [Ev [Hn [Eel _]]]]]]. destruct (enc_array_inv _ _ _ _ _ He') as [sh' [vs' [es' [Ev' [Hn' [Eel' _]]]]]]. subst v v'.
    pose proof (HL [] _ (allowed_nil ex Hx) eq_refl) as H0. cbn in H0. destruct H0 as [Hsh _]. inversion Hsh; subst sh'.
    assert (Hlen : length vs = length vs') by (unfold len in Hn, Hn'; lia).
    cbn [path_off]. rewrite Eel, Eel'.
    destruct (nth_error vs c) as [w|] eqn:Ew.
    + destruct (LEqX_item ex item shape order sh vs (VArr sh vs') c w Hx (proj1 (Hsib (PI c))) HL Ew) as [vs2 [w' [E2 [Ew' HLc]]]]. inversion E2; subst vs2. rewrite Ew'.
      destruct (seqopt_enc_nth item vs es c w Eel Ew) as [ec [_ Ec]]. destruct (seqopt_enc_nth item vs' es' c w' Eel' Ew') as [ec' [_ Ec']].
      rewrite (IH (child_ex ex (PI c)) item w w' ec ec' Hqc HLc Ec Ec').
      rewrite (item_pos_cong item shape order sh es es' c (LEqX_items_same_lens ex item shape order sh vs vs' es es' Hx (fun j => Hsib (PI j)) HL Hlen Eel Eel')). reflexivity.
    + apply nth_error_None in Ew. assert (Ew' : nth_error vs' c = None) by (apply nth_error_None; lia). rewrite Ew'. reflexivity.
Qed.

(* ---- replacing one element by one of the same top-level extent ---- *)
Definition TopEq (st : ty) (old x : val) : Prop :=
  shape_of old = shape_of x /\ forall e e', enc st old = Some e -> enc st x = Some e' -> len e = len e'.

Lemma vset_LEqX : forall p t v old x v' st, vget v p = Some old -> sub_ty t p = Some st -> TopEq st old x -> vset v p x = Some v' -> LEqX (EPath p) t v v'.
Proof.
  induction p as [|s r IH]; intros t v old x v' st Hg Ht HT Hs.
  - cbn in Hg, Ht, Hs. inversion Hg; inversion Ht; inversion Hs; subst. intros q st' Hq Hsq. cbn in Hq. subst q. cbn in Hsq. inversion Hsq; subst st'. cbn [vget]. exact HT.
  - cbn [vget vset] in Hg, Hs. destruct (children v s) as [cs|] eqn:Ec; [|discriminate].
    destruct (nth_error cs (step_idx s)) as [oldc|] eqn:En; [|discriminate].
    destruct (vset oldc r x) as [newc|] eqn:Ev; [|discriminate].
    destruct (set_nth_opt cs (step_idx s) newc) as [cs'|] eqn:Esn; [|discriminate]. inversion Hs; subst v'. clear Hs.
    assert (Hne : EPath r <> EAll) by discriminate.
    destruct s as [i|c]; cbn [sub_ty] in Ht.
    + destruct t as [| |fs| | |]; try discriminate. destruct (nth_error fs i) as [f|] eqn:Ef; [|discriminate].
      destruct v as [| |vs| | | |]; try discriminate. cbn in Ec. inversion Ec; subst cs. cbn [step_idx rebuild] in *.
      pose proof (IH f oldc old x newc st Hg Ht HT Ev) as HLc.
      intros q st' Hal Hq. destruct q as [|s' r'].
      * cbn in Hq. inversion Hq; subst st'. cbn [vget]. split; [reflexivity|]. intros e e' A B.
        rewrite enc_struct_eq in A, B. destruct (enc_list fs vs) as [es|] eqn:Eel; [|discriminate]. destruct (enc_list fs cs') as [es'|] eqn:Eel'; [|discriminate].
        inversion A; inversion B; subst. apply len_enc_struct_cong.
        destruct (enc_list_length _ _ _ Eel) as [L1 L2]. destruct (enc_list_length _ _ _ Eel') as [L1' L2'].
        apply Forall2_nth_error; [congruence|]. intros j a b Ha Hb.
        pose proof (nth_error_some_lt _ _ _ Ha) as Hj.
        destruct (nth_error_lt_some fs j ltac:(lia)) as [fj Hfj]. destruct (nth_error_lt_some vs j ltac:(lia)) as [w Hw].
        destruct (enc_list_nth fs vs es j fj w Eel Hfj Hw) as [ec [A1 A2]]. rewrite Ha in A1. inversion A1; subst ec.
        destruct (Nat.eq_dec j i) as [->|Hnei].
        -- rewrite En in Hw. inversion Hw; subst w. rewrite Ef in Hfj. inversion Hfj; subst fj.
           destruct (enc_list_nth fs cs' es' i f newc Eel' Ef (set_nth_opt_same _ _ _ _ Esn)) as [ec' [B1 B2]]. rewrite Hb in B1. inversion B1; subst ec'.
           eapply LEqX_here; [exact Hne|exact HLc|exact A2|exact B2].
        -- assert (Hw' : nth_error cs' j = Some w) by (rewrite (set_nth_opt_other _ _ _ _ _ Esn Hnei); exact Hw).
           destruct (enc_list_nth fs cs' es' j fj w Eel' Hfj Hw') as [ec' [B1 B2]]. rewrite Hb in B1. inversion B1; subst ec'. congruence.
      * cbn [vget]. destruct s' as [j|c']; cbn [children step_idx]; [|exact I].
        cbn [sub_ty] in Hq. destruct (nth_error fs j) as [fj|] eqn:Hfj; [|discriminate].
        destruct (Nat.eq_dec j i) as [->|Hnei].
        -- rewrite En, (set_nth_opt_same _ _ _ _ Esn). rewrite Ef in Hfj. inversion Hfj; subst fj.
           cbn [allowed allowedP pstep_eqb] in Hal. rewrite Nat.eqb_refl in Hal. exact (HLc r' st' Hal Hq).
        -- rewrite (set_nth_opt_other _ _ _ _ _ Esn Hnei). destruct (nth_error vs j) as [w|]; [|exact I].
           destruct (vget w r'); [split; [reflexivity|intros e e' A B; congruence]|exact I].
    + destruct t as [| | |item shape order| |]; try discriminate.
      destruct v as [| | |sh vs| | |]; try discriminate. cbn in Ec. inversion Ec; subst cs. cbn [step_idx rebuild] in *.
      pose proof (IH item oldc old x newc st Hg Ht HT Ev) as HLc.
      intros q st' Hal Hq. destruct q as [|s' r'].
      * cbn in Hq. inversion Hq; subst st'. cbn [vget]. split; [reflexivity|]. intros e e' A B.
        destruct (enc_array_inv _ _ _ _ _ A) as [sh1 [vs1 [es [E1 [Hn [Eel Ei]]]]]]. inversion E1; subst sh1 vs1.
        destruct (enc_array_inv _ _ _ _ _ B) as [sh2 [vs2 [es' [E2 [Hn' [Eel' Ei']]]]]]. inversion E2; subst sh2 vs2. subst e e'.
        apply len_enc_array_cong.
        pose proof (seqopt_length _ _ Eel) as L1. pose proof (seqopt_length _ _ Eel') as L1'. rewrite map_length in L1, L1'.
        pose proof (set_nth_opt_length _ _ _ _ Esn) as Lc.
        apply Forall2_nth_error; [congruence|]. intros j a b Ha Hb.
        pose proof (nth_error_some_lt _ _ _ Ha) as Hj.
        destruct (nth_error_lt_some vs j ltac:(lia)) as [w Hw].
        destruct (seqopt_enc_nth item vs es j w Eel Hw) as [ec [A1 A2]]. rewrite Ha in A1. inversion A1; subst ec.
        destruct (Nat.eq_dec j c) as [->|Hnei].
        -- rewrite En in Hw. inversion Hw; subst w.
           destruct (seqopt_enc_nth item cs' es' c newc Eel' (set_nth_opt_same _ _ _ _ Esn)) as [ec' [B1 B2]]. rewrite Hb in B1. inversion B1; subst ec'.
           eapply LEqX_here; [exact Hne|exact HLc|exact A2|exact B2].
        -- assert (Hw' : nth_error cs' j = Some w) by (rewrite (set_nth_opt_other _ _ _ _ _ Esn Hnei); exact Hw).
           destruct (seqopt_enc_nth item cs' es' j w Eel' Hw') as [ec' [B1 B2]]. rewrite Hb in B1. inversion B1; subst ec'. congruence.
      * cbn [vget]. destruct s' as [j|c']; cbn [children step_idx]; [exact I|].
        cbn [sub_ty] in Hq.
        destruct (Nat.eq_dec c' c) as [->|Hnei].
        -- rewrite En, (set_nth_opt_same _ _ _ _ Esn).
           cbn [allowed allowedP pstep_eqb] in Hal. rewrite Nat.eqb_refl in Hal. exact (HLc r' st' Hal Hq).
        -- rewrite (set_nth_opt_other _ _ _ _ _ Esn Hnei). destruct (nth_error vs c') as [w|]; [|exact I].
           destruct (vget w r'); [split; [reflexivity|intros e e' A B; congruence]|exact I].
Qed.

Lemma retag_shape old x x' : retag old x = Some x' -> shape_of old = shape_of x.
Proof.
  intros H. pose proof (retag_inv _ _ _ H) as Hi. destruct old; try contradiction.
  - destruct x; try (cbn in H; discriminate). reflexivity.
  - destruct x; try (cbn in H; discriminate). reflexivity.
  - destruct Hi as [ns [r [Ex _]]]. subst x. reflexivity.
  - destruct Hi as [ns [r [Ex _]]]. subst x. reflexivity.
Qed.

(* THE THEOREM for exact copies: every part that is not strictly inside the assigned element keeps its extent *)
Theorem assign_exact_moves_only_inside t v p x v' img : assign_exact t v p x = Some v' -> enc t v = Some img ->
  forall q, ~ (exists r, r <> [] /\ q = p ++ r) -> part_extent t v' q = part_extent t v q.
Proof.
  intros Ha He q Hq. destruct (assign_exact_frame t v p x v' img Ha He) as [st [old [a [b [img' [Hg [Hs [Ea [Eb [Hl [He' _]]]]]]]]]]].
  unfold assign_exact in Ha. rewrite Hg, Hs in Ha. destruct (retag old x) as [x'|] eqn:Er; [|discriminate]. rewrite Ea, Eb in Ha.
  destruct (len a =? len b); [|discriminate].
  assert (HT : TopEq st old x) by (split; [eapply retag_shape; exact Er|intros e e' A B; congruence]).
  pose proof (vset_LEqX p t v old x v' st Hg Hs HT Ha) as HL.
  pose proof (proj2 (allowed_EPath_iff p q) Hq) as Hal.
  unfold part_extent. rewrite <- (path_off_LEqX q (EPath p) t v v' img img' Hal HL He He').
  destruct (path_off t v q) as [o|]; [|reflexivity]. destruct (sub_ty t q) as [sq|] eqn:Esq; [|reflexivity].
  pose proof (HL q sq Hal Esq) as Hq2. destruct (vget v q) as [w|] eqn:Eg; destruct (vget v' q) as [w'|] eqn:Eg'; try contradiction; [|reflexivity].
  destruct Hq2 as [_ Hlen].
  destruct (enc_sub_some q t v w sq img He Eg Esq) as [e Ee]. destruct (enc_sub_some q t v' w' sq img' He' Eg' Esq) as [e' Ee'].
  rewrite Ee, Ee'. rewrite (Hlen e e' Ee Ee'). reflexivity.
Qed.

(* non-vacuity: a struct whose two strings swap their lengths (same total size): the element itself and its neighbour
   keep their extents, the second string inside it moves *)
Example exact_copy_nonvacuous :
  let inner := TStruct [TString; TScalar I64; TString] in
  let t := TStruct [TScalar I32; inner; TScalar I64] in
  let s1 := VStr [97; 98; 99; 100; 101; 102; 103; 104; 105; 106] 24 in let s2 := VStr [120] 16 in
  let s1' := VStr [120] 16 in let s2' := VStr [97; 98; 99; 100; 101; 102; 103; 104; 105; 106] 24 in
  let v := VStruct [VNum [1;0;0;0]; VStruct [s1; VNum [0;0;0;0;0;0;0;0]; s2]; VNum [9;0;0;0;0;0;0;0]] in
  exists v', assign_exact t v [PF 1%nat] (VStruct [s1'; VNum [0;0;0;0;0;0;0;0]; s2']) = Some v' /\
    part_extent t v' [PF 1%nat] = part_extent t v [PF 1%nat] /\ part_extent t v' [PF 2%nat] = part_extent t v [PF 2%nat] /\
    part_extent t v' [PF 1%nat; PF 2%nat] <> part_extent t v [PF 1%nat; PF 2%nat].
Proof. cbv zeta. eexists. split; [vm_compute; reflexivity|]. split; [vm_compute; reflexivity|]. split; [vm_compute; reflexivity|]. vm_compute. intros H. discriminate H. Qed.
