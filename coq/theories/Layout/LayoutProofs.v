From Coq Require Import ZArith List Bool Lia.
Import ListNotations.
From XO Require Import ListAux Slots Strides BufOps BufOpsProofs Types Format Check.
Open Scope Z_scope.

(* ---------------- header words: little-endian two's complement ---------------- *)
Lemma le_val_le_bytes : forall n x, 0 <= x < 256 ^ Z.of_nat n -> le_val (le_bytes n x) = x.
Proof.
  induction n as [|n IH]; intros x Hx.
  - cbn in *. lia.
  - cbn [le_bytes le_val]. rewrite IH.
    + pose proof (Z.div_mod x 256 ltac:(lia)). lia.
    + rewrite Nat2Z.inj_succ, Z.pow_succ_r in Hx by lia. split; [apply Z.div_pos; lia|].
      apply Z.div_lt_upper_bound; lia.
Qed.
Lemma le_bytes_length n x : length (le_bytes n x) = n.
Proof. revert x. induction n; intros; cbn; [reflexivity|rewrite IHn; reflexivity]. Qed.
Lemma le_bytes_range : forall n x, Forall (fun b => 0 <= b < 256) (le_bytes n x).
Proof. induction n; intros; cbn; constructor; [apply Z.mod_pos_bound; lia|apply IHn]. Qed.

Theorem dec64_enc64 x : - 2^63 <= x < 2^63 -> dec64 (enc64 x) = x.
Proof.
  intros Hx. unfold dec64, enc64. rewrite le_val_le_bytes.
  2:{ change (256 ^ Z.of_nat 8) with (2^64). apply Z.mod_pos_bound. lia. }
  destruct (Z_lt_ge_dec x 0) as [Hn|Hp].
  - assert (E : x mod 2^64 = x + 2^64).
    { symmetry. apply Z.mod_unique with (q := -1); lia. }
    rewrite E. destruct (x + 2^64 <? 2^63) eqn:C; lia.
  - rewrite Z.mod_small by lia. destruct (x <? 2^63) eqn:C; lia.
Qed.
Lemma enc64_length x : length (enc64 x) = 8%nat.
Proof. apply le_bytes_length. Qed.

(* ---------------- an image sitting in memory ---------------- *)
(* the defined cells of [img] are found in [m] starting at [off] *)
Definition sits (img : list cell) (m : mem) (off : Z) : Prop :=
  0 <= off /\ off + len img <= len m /\
  forall i b, nth_error img i = Some (Some b) -> nth_error m (Z.to_nat off + i) = Some b.

Lemma len_app {A} (a b : list A) : len (a ++ b) = len a + len b.
Proof. unfold len. rewrite app_length. lia. Qed.
Lemma len_nonneg {A} (a : list A) : 0 <= len a.
Proof. unfold len. lia. Qed.

Lemma sits_app a b m off : sits (a ++ b) m off <-> sits a m off /\ sits b m (off + len a).
Proof.
  unfold sits. rewrite len_app. pose proof (len_nonneg a) as La. pose proof (len_nonneg b) as Lb. split.
  - intros [H0 [H1 H2]]. split; [split; [lia|split; [lia|]]|split; [lia|split; [lia|]]].
    + intros i b0 Hi. apply H2. rewrite nth_error_app1; [exact Hi|]. apply nth_error_Some. congruence.
    + intros i b0 Hi. replace (Z.to_nat (off + len a) + i)%nat with (Z.to_nat off + (length a + i))%nat by (unfold len; lia).
      apply H2. rewrite nth_error_app2 by lia. replace (length a + i - length a)%nat with i by lia. exact Hi.
  - intros [[H0 [H1 H2]] [H3 [H4 H5]]]. split; [lia|split; [lia|]].
    intros i b0 Hi. destruct (Nat.lt_ge_cases i (length a)) as [Hl|Hl].
    + rewrite nth_error_app1 in Hi by exact Hl. apply H2. exact Hi.
    + rewrite nth_error_app2 in Hi by exact Hl. specialize (H5 _ _ Hi).
      replace (Z.to_nat off + i)%nat with (Z.to_nat (off + len a) + (i - length a))%nat by (unfold len; lia). exact H5.
Qed.

Lemma cells_match_length : forall img bs, cells_match img bs = true -> length img = length bs.
Proof.
  induction img as [|[z|] img IH]; intros [|b bs] H; cbn in H; try discriminate.
  - reflexivity.
  - apply andb_prop in H. destruct H as [_ H]. cbn. f_equal. apply IH; exact H.
  - cbn. f_equal. apply IH; exact H.
Qed.
Lemma cells_match_nth : forall img bs i b, cells_match img bs = true ->
  nth_error img i = Some (Some b) -> nth_error bs i = Some b.
Proof.
  induction img as [|[z|] img IH]; intros [|b0 bs] i b H Hi; cbn in H; try discriminate.
  - destruct i; discriminate.
  - destruct i as [|i]; cbn in *.
    + inversion Hi; subst. apply andb_prop in H. destruct H as [E _]. apply Z.eqb_eq in E. subst. reflexivity.
    + apply andb_prop in H. destruct H as [_ H]. apply (IH bs i b H Hi).
  - destruct i as [|i]; cbn in *; [discriminate|]. apply (IH bs i b H Hi).
Qed.
Lemma cells_match_sits : forall img bs pre post,
  cells_match img bs = true -> sits img (pre ++ bs ++ post) (len pre).
Proof.
  intros img bs pre post H. pose proof (cells_match_length _ _ H) as Hl.
  unfold sits. split; [apply len_nonneg|]. split.
  - rewrite !len_app. unfold len. rewrite Hl. lia.
  - intros i b Hi. unfold len. rewrite Nat2Z.id. rewrite nth_error_app2 by lia.
    replace (length pre + i - length pre)%nat with i by lia.
    assert (Hi' : (i < length img)%nat) by (apply nth_error_Some; congruence).
    rewrite nth_error_app1 by lia. eapply cells_match_nth; eassumption.
Qed.

(* reading defined bytes back *)
Lemma sits_bytes_rd bs m off : sits (bytes bs) m off -> rd m off (len bs) = bs.
Proof.
  unfold sits, bytes, rd. intros [H0 [H1 H2]]. unfold len in *. rewrite map_length in H1.
  apply nth_error_ext. intros i.
  destruct (Nat.lt_ge_cases i (length bs)) as [Hl|Hl].
  - rewrite Nat2Z.id. rewrite nth_error_firstn_lt by exact Hl. rewrite nth_error_skipn.
    destruct (nth_error bs i) as [b|] eqn:E; [|apply nth_error_None in E; lia].
    apply H2. rewrite nth_error_map, E. reflexivity.
  - rewrite (proj2 (nth_error_None bs i) Hl). apply nth_error_None.
    rewrite firstn_length. lia.
Qed.

Lemma sits_in_range img m off : sits img m off -> in_rangeb m off (len img) = true.
Proof.
  intros [H0 [H1 _]]. unfold in_rangeb. pose proof (len_nonneg img). unfold len in *.
  rewrite !andb_true_iff, !Z.leb_le. lia.
Qed.
Lemma bytes_app a b : bytes (a ++ b) = bytes a ++ bytes b.
Proof. unfold bytes. apply map_app. Qed.
Lemma len_bytes a : len (bytes a) = len a.
Proof. unfold len, bytes. rewrite map_length. reflexivity. Qed.
Lemma len_repeat {A} (x : A) n : 0 <= n -> len (repeat x (Z.to_nat n)) = n.
Proof. intros. unfold len. rewrite repeat_length. lia. Qed.

(* ---------------- base cases of the round trip ---------------- *)
Theorem dec_enc_scalar k bs img m off :
  enc (TScalar k) (VNum bs) = Some img -> sits img m off -> dec (TScalar k) m off = Some (VNum bs, len img).
Proof.
  cbn [enc]. destruct (len bs =? ssize k) eqn:E; [|discriminate]. intros H Hs.
  assert (Himg : img = bytes bs) by congruence. subst img.
  apply Z.eqb_eq in E. cbn [dec]. rewrite len_bytes in *. pose proof (sits_in_range _ _ _ Hs) as Hr. rewrite len_bytes, E in Hr.
  rewrite Hr. cbn [guard]. rewrite <- E. rewrite (sits_bytes_rd _ _ _ Hs). reflexivity.
Qed.

Lemma rstrip0_zeros n : rstrip0 (repeat 0 n) = [].
Proof. induction n; cbn; [reflexivity|]. rewrite IHn. reflexivity. Qed.
Lemma rstrip0_app_zeros : forall bs n, forallb (fun b => negb (b =? 0)) bs = true ->
  rstrip0 (bs ++ repeat 0 n) = bs.
Proof.
  induction bs as [|b bs IH]; intros n H; cbn [app].
  - apply rstrip0_zeros.
  - cbn [forallb] in H. apply andb_prop in H. destruct H as [Hb H]. cbn [rstrip0]. rewrite IH by exact H.
    destruct (b =? 0); [discriminate|]. reflexivity.
Qed.

Lemma sits_rd64 x m off : - 2^63 <= x < 2^63 -> sits (bytes (enc64 x)) m off -> rd64 m off = x.
Proof.
  intros Hx Hs. unfold rd64. pose proof (sits_bytes_rd _ _ _ Hs) as E.
  assert (L : len (enc64 x) = 8) by (unfold len; rewrite enc64_length; reflexivity).
  rewrite L in E. rewrite E. apply dec64_enc64. exact Hx.
Qed.

Theorem dec_enc_string bs size img m off : size < 2^63 ->
  enc TString (VStr bs size) = Some img -> sits img m off -> dec TString m off = Some (VStr bs size, len img).
Proof.
  intros Hsz. cbn [enc].
  destruct ((8 + len bs + 1 <=? size) && forallb (fun b => negb (b =? 0)) bs) eqn:E; [|discriminate].
  apply andb_prop in E. destruct E as [E1 E2]. apply Z.leb_le in E1. pose proof (len_nonneg bs) as Lb.
  intros H Hs.
  assert (Himg : img = bytes (enc64 size) ++ bytes bs ++ bytes (repeat 0 (Z.to_nat (size - 8 - len bs)))) by congruence.
  subst img. clear H.
  assert (Hlen : len (bytes (enc64 size) ++ bytes bs ++ bytes (repeat 0 (Z.to_nat (size - 8 - len bs)))) = size).
  { rewrite !len_app, !len_bytes. assert (L8 : len (enc64 size) = 8) by (unfold len; rewrite enc64_length; reflexivity).
    rewrite L8, len_repeat by lia. lia. }
  rewrite Hlen. pose proof (sits_in_range _ _ _ Hs) as Hr. rewrite Hlen in Hr.
  assert (L8 : len (enc64 size) = 8) by (unfold len; rewrite enc64_length; reflexivity).
  apply sits_app in Hs. destruct Hs as [S1 S2]. rewrite len_bytes, L8 in S2.
  pose proof (sits_rd64 size m off ltac:(lia) S1) as R.
  cbn [dec].
  assert (Hr8 : in_rangeb m off 8 = true).
  { unfold in_rangeb in *. rewrite !andb_true_iff, !Z.leb_le in *. lia. }
  rewrite Hr8. cbn [guard]. rewrite R.
  replace (9 <=? size) with true by lia. rewrite Hr. cbn [andb guard].
  rewrite <- bytes_app in S2. pose proof (sits_bytes_rd _ _ _ S2) as E.
  rewrite len_app, len_repeat in E by lia. replace (len bs + (size - 8 - len bs)) with (size - 8) in E by lia.
  rewrite E. rewrite rstrip0_app_zeros by exact E2.
  rewrite len_app, len_repeat by lia. replace (len bs <? len bs + (size - 8 - len bs)) with true by lia.
  rewrite E2. cbn [andb guard]. reflexivity.
Qed.

(* ---------------- what an accepted observation means ---------------- *)
Theorem layout_ok_sound c : layout_ok c = None ->
  exists img, enc (lc_ty c) (lc_val c) = Some img /\ len img = lc_size c /\
    cells_match img (lc_bytes c) = true /\
    exists v, dec (lc_ty c) (lc_bytes c) 0 = Some (v, lc_size c) /\ val_eqb v (lc_val c) = true.
Proof.
  unfold layout_ok. destruct (enc (lc_ty c) (lc_val c)) as [img|]; [|discriminate].
  destruct (negb (len img =? lc_size c) || negb (len (lc_bytes c) =? lc_size c)) eqn:E1; [discriminate|].
  destruct (negb (cells_match img (lc_bytes c))) eqn:E2; [discriminate|].
  destruct (dec (lc_ty c) (lc_bytes c) 0) as [[v s]|]; [|discriminate].
  destruct (val_eqb v (lc_val c) && (s =? lc_size c)) eqn:E3; [|discriminate]. intros _.
  apply orb_false_elim in E1. destruct E1 as [A _]. apply negb_false_iff in A, E2. apply Z.eqb_eq in A.
  apply andb_prop in E3. destruct E3 as [B C]. apply Z.eqb_eq in C. subst s.
  exists img. repeat split; try assumption. exists v. split; [reflexivity|exact B].
Qed.

Lemma rd_split m off n : in_rangeb m off n = true -> exists pre post, m = pre ++ rd m off n ++ post /\ len pre = off.
Proof.
  unfold in_rangeb, rd. intros H. apply andb_prop in H. destruct H as [H H3]. apply andb_prop in H. destruct H as [H1 H2].
  apply Z.leb_le in H1, H2, H3.
  exists (firstn (Z.to_nat off) m), (skipn (Z.to_nat n) (skipn (Z.to_nat off) m)). split.
  - rewrite firstn_skipn. rewrite firstn_skipn. reflexivity.
  - unfold len. rewrite firstn_length. lia.
Qed.
Theorem heap_img_ok_sound c : heap_img_ok c = None ->
  exists img, enc (hc_ty c) (hc_val c) = Some img /\ len img = hc_size c /\ sits img (hc_mem c) (hc_off c) /\
    exists v, dec (hc_ty c) (hc_mem c) (hc_off c) = Some (v, hc_size c) /\ val_eqb v (hc_val c) = true.
Proof.
  unfold heap_img_ok. destruct (enc (hc_ty c) (hc_val c)) as [img|]; [|discriminate].
  destruct (negb (len img =? hc_size c) || negb (in_rangeb (hc_mem c) (hc_off c) (hc_size c))) eqn:E1; [discriminate|].
  destruct (negb (cells_match img (rd (hc_mem c) (hc_off c) (hc_size c)))) eqn:E2; [discriminate|].
  unfold heap_ok. destruct (dec (hc_ty c) (hc_mem c) (hc_off c)) as [[v s]|]; [|discriminate].
  destruct (val_eqb v (hc_val c) && (s =? hc_size c)) eqn:E3; [|discriminate]. intros _.
  apply orb_false_elim in E1. destruct E1 as [A R]. apply negb_false_iff in A, R, E2. apply Z.eqb_eq in A.
  apply andb_prop in E3. destruct E3 as [B C]. apply Z.eqb_eq in C. subst s.
  exists img. split; [reflexivity|]. split; [exact A|]. split.
  - destruct (rd_split _ _ _ R) as [pre [post [Em Lp]]]. pose proof (cells_match_sits img _ pre post E2) as Hs. rewrite <- Em, Lp in Hs. exact Hs.
  - exists v. split; [reflexivity|exact B].
Qed.
