(* Judging observed objects against the documented format (what the harness evaluates). *)
From Coq Require Import ZArith List Bool Lia.
Import ListNotations.
From XO Require Import Slots Strides BufOps Types Format.
Open Scope Z_scope.

(* type, expected logical value, the bytes of the object's extent as found in the
   implementation's buffer, and the size the implementation reports *)
Record lcase := mkLC { lc_ty : ty; lc_val : val; lc_bytes : list Z; lc_size : Z }.

(* None = conforms; Some code = first failed clause
   1: the value does not have the type (harness error)   2: reported size <> size of the documented image
   3: a defined byte differs from the documented image    4: the strict decoder rejects the bytes
   5: the strict decoder recovers a different value *)
Definition layout_ok (c : lcase) : option nat :=
  match enc (lc_ty c) (lc_val c) with
  | None => Some 1%nat
  | Some img =>
    if negb (len img =? lc_size c) || negb (len (lc_bytes c) =? lc_size c) then Some 2%nat
    else if negb (cells_match img (lc_bytes c)) then Some 3%nat
    else match dec (lc_ty c) (lc_bytes c) 0 with
         | None => Some 4%nat
         | Some (v, s) => if val_eqb v (lc_val c) && (s =? lc_size c) then None else Some 5%nat
         end
  end.

(* objects that hold references have no contiguous image: they are judged by the strict decoder
   alone, run on the whole buffer (targets live elsewhere in it) *)
Record hcase := mkHC { hc_ty : ty; hc_val : val; hc_mem : list Z; hc_off : Z; hc_size : Z }.
Definition heap_ok (c : hcase) : option nat :=
  match dec (hc_ty c) (hc_mem c) (hc_off c) with
  | None => Some 4%nat
  | Some (v, s) => if val_eqb v (hc_val c) && (s =? hc_size c) then None else Some 5%nat
  end.

(* freshly constructed objects that hold references: the holder's own bytes must be the documented image
   (reference slots are open cells) AND the strict decoder, following the references through the whole
   buffer, must recover the value.  Codes as for layout_ok. *)
Definition heap_img_ok (c : hcase) : option nat :=
  match enc (hc_ty c) (hc_val c) with
  | None => Some 1%nat
  | Some img =>
    if negb (len img =? hc_size c) || negb (in_rangeb (hc_mem c) (hc_off c) (hc_size c)) then Some 2%nat
    else if negb (cells_match img (rd (hc_mem c) (hc_off c) (hc_size c))) then Some 3%nat
    else heap_ok c
  end.

(* format conformance alone (no expected value): the bytes of an object, after whatever the implementation
   accepted to do to it, are still accepted by the strict decoder and have the size fixed at creation *)
Record dcase := mkDC { dc_ty : ty; dc_bytes : list Z; dc_size : Z }.
Definition decodes_ok (c : dcase) : option nat :=
  match dec (dc_ty c) (dc_bytes c) 0 with
  | Some (_, s) => if s =? dc_size c then None else Some 5%nat
  | None => Some 4%nat
  end.
