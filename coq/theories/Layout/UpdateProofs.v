From Coq Require Import ZArith List Bool Lia.
Import ListNotations.
From XO Require Import Slots Strides BufOps Types Format Check LayoutProofs Update.
Open Scope Z_scope.

Lemma set_nth_opt_same {A} : forall (l : list A) k x l', set_nth_opt l k x = Some l' -> nth_error l' k = Some x.
Proof.
  induction l as [|a l IH]; intros [|k] x l' H; cbn in H; try discriminate.
  - inversion H; reflexivity.
  - destruct (set_nth_opt l k x) as [r|] eqn:E; [|discriminate]. inversion H; subst. cbn. eapply IH; exact E.
Qed.
Lemma set_nth_opt_other {A} : forall (l : list A) k x l' j, set_nth_opt l k x = Some l' -> j <> k -> nth_error l' j = nth_error l j.
Proof.
  induction l as [|a l IH]; intros [|k] x l' j H Hj; cbn in H; try discriminate.
  - inversion H; subst. destruct j; [congruence|reflexivity].
  - destruct (set_nth_opt l k x) as [r|] eqn:E; [|discriminate]. inversion H; subst.
    destruct j; [reflexivity|]. cbn. eapply IH; [exact E|congruence].
Qed.
Lemma set_nth_opt_length {A} : forall (l : list A) k x l', set_nth_opt l k x = Some l' -> length l' = length l.
Proof.
  induction l as [|a l IH]; intros [|k] x l' H; cbn in H; try discriminate.
  - inversion H; reflexivity.
  - destruct (set_nth_opt l k x) as [r|] eqn:E; [|discriminate]. inversion H; subst. cbn. f_equal. eapply IH; exact E.
Qed.

Lemma children_rebuild v s cs cs' : children v s = Some cs -> children (rebuild v cs') s = Some cs'.
Proof. destruct v, s; cbn; intros H; try discriminate; reflexivity. Qed.

(* the assigned element reads back as the assigned value *)
Theorem vget_vset_same : forall p v x v', vset v p x = Some v' -> vget v' p = Some x.
Proof.
  induction p as [|s r IH]; intros v x v' H; cbn in H.
  - inversion H; reflexivity.
  - destruct (children v s) as [cs|] eqn:Ec; [|discriminate].
    destruct (nth_error cs (step_idx s)) as [old|] eqn:En; [|discriminate].
    destruct (vset old r x) as [new|] eqn:Es; [|discriminate].
    destruct (set_nth_opt cs (step_idx s) new) as [cs'|] eqn:Et; [|discriminate].
    inversion H; subst v'. cbn [vget]. rewrite (children_rebuild _ _ _ _ Ec).
    rewrite (set_nth_opt_same _ _ _ _ Et). eapply IH; exact Es.
Qed.

(* two element positions are independent when neither path is a prefix of the other *)
Fixpoint diverge (p q : path) : Prop :=
  match p, q with
  | s :: p', t :: q' =>
      match s, t with
      | PF i, PF j => (i <> j) \/ (i = j /\ diverge p' q')
      | PI i, PI j => (i <> j) \/ (i = j /\ diverge p' q')
      | _, _ => True     (* one treats the value as a struct, the other as an array: at most one is valid *)
      end
  | _, _ => False
  end.

(* every other element is unchanged *)
Theorem vget_vset_other : forall p v x v' q, vset v p x = Some v' -> diverge p q -> vget v' q = vget v q.
Proof.
  induction p as [|s r IH]; intros v x v' q H Hd; [destruct q; destruct Hd|].
  destruct q as [|t q']; [destruct Hd|]. cbn in H.
  destruct (children v s) as [cs|] eqn:Ec; [|discriminate].
  destruct (nth_error cs (step_idx s)) as [old|] eqn:En; [|discriminate].
  destruct (vset old r x) as [new|] eqn:Es; [|discriminate].
  destruct (set_nth_opt cs (step_idx s) new) as [cs'|] eqn:Et; [|discriminate].
  inversion H; subst v'. cbn [vget].
  destruct v; cbn [children] in Ec; try discriminate; destruct s; try discriminate; inversion Ec; subst cs; cbn [rebuild children];
    destruct t; cbn [children step_idx diverge] in *; try reflexivity.
  - destruct Hd as [Hne|[-> Hd]].
    + rewrite (set_nth_opt_other _ _ _ _ _ Et) by congruence. reflexivity.
    + rewrite (set_nth_opt_same _ _ _ _ Et), En. eapply IH; eassumption.
  - destruct Hd as [Hne|[-> Hd]].
    + rewrite (set_nth_opt_other _ _ _ _ _ Et) by congruence. reflexivity.
    + rewrite (set_nth_opt_same _ _ _ _ Et), En. eapply IH; eassumption.
Qed.

(* an assignment that the model does not allow leaves the value as it is (by definition of the
   judgement), and one it allows reads back the re-tagged value at p and the old value elsewhere *)
Theorem assign_local t v p x v' : assign t v p x = Some v' ->
  exists old x', vget v p = Some old /\ retag old x = Some x' /\ vget v' p = Some x' /\
    forall q, diverge p q -> vget v' q = vget v q.
Proof.
  unfold assign. destruct (vget v p) as [old|] eqn:Eg; [|discriminate].
  destruct (sub_ty t p) as [st|]; [|discriminate].
  destruct (retag old x) as [x'|] eqn:Er; [|discriminate].
  destruct (enc st x') as [img|]; [|discriminate]. intros H.
  exists old, x'. split; [reflexivity|]. split; [exact Er|]. split; [eapply vget_vset_same; exact H|].
  intros q Hd. eapply vget_vset_other; eassumption.
Qed.

(* strings keep the size fixed at creation *)
Theorem retag_string_keeps_size bs sz bs' sz' x : retag (VStr bs sz) (VStr bs' sz') = Some x -> x = VStr bs' sz.
Proof. cbn. intros H; inversion H; reflexivity. Qed.

(* soundness of the history judgement: after every accepted step the object's bytes are the
   documented image of the model's current value, of unchanged size; refused steps left it as it was *)
Inductive conforms : ty -> val -> Z -> list ustep -> Prop :=
| CU_nil t v size : conforms t v size []
| CU_fit t v size st tl p x v' : u_op st = Some (p, x) -> assign t v p x = Some v' -> u_ok st = true ->
    layout_ok (mkLC t v' (u_bytes st) size) = None -> conforms t v' size tl -> conforms t v size (st :: tl)
| CU_refused t v size st tl : (match u_op st with Some (p, x) => assign t v p x | None => None end) = None -> u_ok st = false ->
    layout_ok (mkLC t v (u_bytes st) size) = None -> conforms t v size tl -> conforms t v size (st :: tl).

Theorem check_updates_sound : forall steps t v size n, check_updates t v size n steps = None -> conforms t v size steps.
Proof.
  induction steps as [|st tl IH]; intros t v size n H; [constructor|]. cbn [check_updates] in H.
  destruct (match u_op st with Some (p, x) => assign t v p x | None => None end) as [v'|] eqn:Ee.
  - destruct (u_ok st) eqn:Eo; [|discriminate]. cbn [andb] in H.
    destruct (layout_ok (mkLC t v' (u_bytes st) size)) eqn:El; [discriminate|].
    destruct (u_op st) as [[p x]|] eqn:Eu; [|discriminate].
    eapply CU_fit; try eassumption. eapply IH; exact H.
  - destruct (u_ok st) eqn:Eo; [discriminate|]. cbn [negb andb] in H.
    destruct (layout_ok (mkLC t v (u_bytes st) size)) eqn:El; [discriminate|].
    eapply CU_refused; try eassumption. eapply IH; exact H.
Qed.
