From Coq Require Import ZArith List Bool Lia.
Import ListNotations.
From XO Require Import Slots Strides BufOps Types Format Check LayoutProofs Update.
Open Scope Z_scope.

Lemma set_nth_opt_same {A} : forall (l : list A) k x l', set_nth_opt l k x = Some l' -> nth_error l' k = Some x.
Proof.
  induction l as [|a l IH]; intros [|k] x l' H; cbn in H; try discriminate.
  - inversion H; reflexivity.
  - destruct (set_nth_opt l k x) as [r|] eqn:E; [|discriminate]. inversion H; subst. cbn. eapply IH; exact E.
Qed.
Lemma set_nth_opt_other {A} : forall (l : list A) k x l' j, set_nth_opt l k x = Some l' -> j <> k -> nth_error l' j = nth_error l j.
Proof.
  induction l as [|a l IH]; intros [|k] x l' j H Hj; cbn in H; try discriminate.
  - inversion H; subst. destruct j; [congruence|reflexivity].
  - destruct (set_nth_opt l k x) as [r|] eqn:E; [|discriminate]. inversion H; subst.
    destruct j; [reflexivity|]. cbn. eapply IH; [exact E|congruence].
Qed.
Lemma set_nth_opt_length {A} : forall (l : list A) k x l', set_nth_opt l k x = Some l' -> length l' = length l.
Proof.
  induction l as [|a l IH]; intros [|k] x l' H; cbn in H; try discriminate.
  - inversion H; reflexivity.
  - destruct (set_nth_opt l k x) as [r|] eqn:E; [|discriminate]. inversion H; subst. cbn. f_equal. eapply IH; exact E.
Qed.

Lemma children_rebuild v s cs cs' : children v s = Some cs -> children (rebuild v cs') s = Some cs'.
Proof. destruct v, s; cbn; intros H; try discriminate; reflexivity. Qed.

(* the assigned element reads back as the assigned value *)
Theorem vget_vset_same : forall p v x v', vset v p x = Some v' -> vget v' p = Some x.
Proof.
  induction p as [|s r IH]; intros v x v' H; cbn in H.
  - inversion H; reflexivity.
  - destruct (children v s) as [cs|] eqn:Ec; [|discriminate].
    destruct (nth_error cs (step_idx s)) as [old|] eqn:En; [|discriminate].
    destruct (vset old r x) as [new|] eqn:Es; [|discriminate].
    destruct (set_nth_opt cs (step_idx s) new) as [cs'|] eqn:Et; [|discriminate].
    inversion H; subst v'. cbn [vget]. rewrite (children_rebuild _ _ _ _ Ec).
    rewrite (set_nth_opt_same _ _ _ _ Et). eapply IH; exact Es.
Qed.

(* two element positions are independent when neither path is a prefix of the other *)
Fixpoint diverge (p q : path) : Prop :=
  match p, q with
  | s :: p', t :: q' =>
      match s, t with
      | PF i, PF j => (i <> j) \/ (i = j /\ diverge p' q')
      | PI i, PI j => (i <> j) \/ (i = j /\ diverge p' q')
      | _, _ => True     (* one treats the value as a struct, the other as an array: at most one is valid *)
      end
  | _, _ => False
  end.

(* every other element is unchanged *)
Theorem vget_vset_other : forall p v x v' q, vset v p x = Some v' -> diverge p q -> vget v' q = vget v q.
Proof.
  induction p as [|s r IH]; intros v x v' q H Hd; [destruct q; destruct Hd|].
  destruct q as [|t q']; [destruct Hd|]. cbn in H.
  destruct (children v s) as [cs|] eqn:Ec; [|discriminate].
  destruct (nth_error cs (step_idx s)) as [old|] eqn:En; [|discriminate].
  destruct (vset old r x) as [new|] eqn:Es; [|discriminate].
  destruct (set_nth_opt cs (step_idx s) new) as [cs'|] eqn:Et; [|discriminate].
  inversion H; subst v'. cbn [vget].
  destruct v; cbn [children] in Ec; try discriminate; destruct s; try discriminate; inversion Ec; subst cs; cbn [rebuild children];
    destruct t; cbn [children step_idx diverge] in *; try reflexivity.
  - destruct Hd as [Hne|[-> Hd]].
    + rewrite (set_nth_opt_other _ _ _ _ _ Et) by congruence. reflexivity.
    + rewrite (set_nth_opt_same _ _ _ _ Et), En. eapply IH; eassumption.
  - destruct Hd as [Hne|[-> Hd]].
    + rewrite (set_nth_opt_other _ _ _ _ _ Et) by congruence. reflexivity.
    + rewrite (set_nth_opt_same _ _ _ _ Et), En. eapply IH; eassumption.
Qed.

(* an assignment that the model does not allow leaves the value as it is (by definition of the
   judgement), and one it allows reads back the re-tagged value at p and the old value elsewhere *)
Theorem assign_local t v p x v' : assign t v p x = Some v' ->
  exists old x', vget v p = Some old /\ retag old x = Some x' /\ vget v' p = Some x' /\
    forall q, diverge p q -> vget v' q = vget v q.
Proof.
  unfold assign. destruct (vget v p) as [old|] eqn:Eg; [|discriminate].
  destruct (sub_ty t p) as [st|]; [|discriminate].
  destruct (retag old x) as [x'|] eqn:Er; [|discriminate].
  destruct (enc st x') as [img|]; [|discriminate]. intros H.
  exists old, x'. split; [reflexivity|]. split; [exact Er|]. split; [eapply vget_vset_same; exact H|].
  intros q Hd. eapply vget_vset_other; eassumption.
Qed.

(* strings keep the size fixed at creation *)
Theorem retag_string_keeps_size bs sz bs' sz' x : retag (VStr bs sz) (VStr bs' sz') = Some x -> x = VStr bs' sz.
Proof. cbn. intros H; inversion H; reflexivity. Qed.

(* soundness of the history judgement: after every accepted step the object's bytes are the
   documented image of the model's current value, of unchanged size; refused steps left it as it was *)
Inductive conforms : ty -> val -> Z -> list ustep -> Prop :=
| CU_nil t v size : conforms t v size []
| CU_fit t v size st tl p x v' : u_op st = Some (p, x) -> assign t v p x = Some v' -> u_ok st = true ->
    layout_ok (mkLC t v' (u_bytes st) size) = None -> conforms t v' size tl -> conforms t v size (st :: tl)
| CU_exact t v size st tl p x v' : u_op st = Some (p, x) -> u_exact st = true -> assign_exact t v p x = Some v' -> u_ok st = true ->
    layout_ok (mkLC t v' (u_bytes st) size) = None -> conforms t v' size tl -> conforms t v size (st :: tl)
| CU_refused t v size st tl : (match u_op st with Some (p, x) => assign t v p x | None => None end) = None -> u_ok st = false ->
    layout_ok (mkLC t v (u_bytes st) size) = None -> conforms t v size tl -> conforms t v size (st :: tl).

Lemma img_is_true t v size st : img_is t v size st = true -> layout_ok (mkLC t v (u_bytes st) size) = None.
Proof. unfold img_is. destruct (layout_ok _); [discriminate|reflexivity]. Qed.

Theorem check_updates_sound : forall steps t v size n, check_updates t v size n steps = None -> conforms t v size steps.
Proof.
  induction steps as [|st tl IH]; intros t v size n H; [constructor|]. cbn [check_updates] in H. cbv zeta in H.
  assert (Hex : forall v2, (if u_exact st then match u_op st with Some (p, x) => assign_exact t v p x | None => None end else None) = Some v2 ->
             u_ok st && img_is t v2 size st = true -> check_updates t v2 size (S n) tl = None -> conforms t v size (st :: tl)).
  { intros v2 E2 Hok Hc. destruct (u_exact st) eqn:Ex; [|discriminate]. destruct (u_op st) as [[p x]|] eqn:Eu; [|discriminate].
    apply andb_prop in Hok. destruct Hok as [Ho Hi]. eapply CU_exact; try eassumption; [apply img_is_true; exact Hi|eapply IH; exact Hc]. }
  assert (Href : (match u_op st with Some (p, x) => assign t v p x | None => None end) = None ->
             negb (u_ok st) && img_is t v size st = true -> check_updates t v size (S n) tl = None -> conforms t v size (st :: tl)).
  { intros E1 Hr Hc. apply andb_prop in Hr. destruct Hr as [Ho Hi]. apply negb_true_iff in Ho.
    eapply CU_refused; try eassumption; [apply img_is_true; exact Hi|eapply IH; exact Hc]. }
  destruct (match u_op st with Some (p, x) => assign t v p x | None => None end) as [v1|] eqn:E1.
  - destruct (u_ok st && img_is t v1 size st) eqn:G1.
    + apply andb_prop in G1. destruct G1 as [Ho Hi]. destruct (u_op st) as [[p x]|] eqn:Eu; [|discriminate].
      eapply CU_fit; try eassumption; [apply img_is_true; exact Hi|eapply IH; exact H].
    + destruct (if u_exact st then match u_op st with Some (p, x) => assign_exact t v p x | None => None end else None) as [v2|] eqn:E2; [|discriminate].
      destruct (u_ok st && img_is t v2 size st) eqn:G2; [|discriminate]. eapply Hex; [reflexivity|exact G2|exact H].
  - destruct (if u_exact st then match u_op st with Some (p, x) => assign_exact t v p x | None => None end else None) as [v2|] eqn:E2.
    + destruct (u_ok st && img_is t v2 size st) eqn:G2; [eapply Hex; [reflexivity|exact G2|exact H]|].
      destruct (negb (u_ok st) && img_is t v size st) eqn:G3; [|discriminate]. apply Href; [reflexivity|reflexivity|exact H].
    + destruct (negb (u_ok st) && img_is t v size st) eqn:G3; [|discriminate]. apply Href; [reflexivity|reflexivity|exact H].
Qed.
