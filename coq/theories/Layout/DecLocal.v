(* The strict decoder reads only the object's own extent: whatever bytes it ACCEPTS as an object of a reference-free
   type (a freshly written image, or bytes after any number of assignments, slack included), the value and the
   size it returns depend on the bytes [off, off+size) only, that range lies inside the buffer, and a statically
   sized type always reports its class size. *)
From Coq Require Import ZArith List Bool Lia.
Import ListNotations.
From XO Require Import ListAux Slots Strides Perm BufOps BufOpsProofs Types Format Check LayoutProofs RoundTrip CopyBytes.
Open Scope Z_scope.

Lemma agree_sub m m' o n o' n' : agree_on m m' o n -> o <= o' -> o' + n' <= o + n -> agree_on m m' o' n'.
Proof. intros H A B i Hi. apply H. lia. Qed.

Lemma in_rangeb_true m o n : in_rangeb m o n = true <-> 0 <= o /\ 0 <= n /\ o + n <= len m.
Proof. unfold in_rangeb, len. rewrite !andb_true_iff, !Z.leb_le. tauto. Qed.

Lemma in_rangeb_mono m m' o n : in_rangeb m o n = true -> len m <= len m' -> in_rangeb m' o n = true.
Proof. rewrite !in_rangeb_true. lia. Qed.

Lemma rd_agree m m' o n : in_rangeb m o n = true -> len m <= len m' -> agree_on m m' o n -> rd m' o n = rd m o n.
Proof.
  intros Hr Hl Ha. apply in_rangeb_true in Hr. destruct Hr as [H0 [H1 H2]].
  assert (L1 : length (rd m o n) = Z.to_nat n) by (apply rd_length; unfold in_range, len in *; lia).
  assert (L2 : length (rd m' o n) = Z.to_nat n) by (apply rd_length; unfold in_range, len in *; lia).
  apply (nth_ext _ _ 0 0); [congruence|]. intros k Hk. rewrite L2 in Hk.
  pose proof (byte_rd m o n (Z.of_nat k) ltac:(unfold in_range, len in *; lia) ltac:(lia)) as B1.
  pose proof (byte_rd m' o n (Z.of_nat k) ltac:(unfold in_range, len in *; lia) ltac:(lia)) as B2.
  unfold byte in B1, B2. rewrite Nat2Z.id in B1, B2. rewrite B1, B2.
  specialize (Ha (o + Z.of_nat k) ltac:(lia)).
  assert (K1 : (Z.to_nat (o + Z.of_nat k) < length m)%nat) by (unfold len in *; lia).
  assert (K2 : (Z.to_nat (o + Z.of_nat k) < length m')%nat) by (unfold len in *; lia).
  rewrite (nth_error_nth' _ 0 K1), (nth_error_nth' _ 0 K2) in Ha. congruence.
Qed.

Lemma rd64_agree m m' o : in_rangeb m o 8 = true -> len m <= len m' -> agree_on m m' o 8 -> rd64 m' o = rd64 m o.
Proof. intros. unfold rd64. rewrite (rd_agree m m' o 8); auto. Qed.

Lemma rd_words_agree m m' o n : in_rangeb m o (8 * n) = true -> len m <= len m' -> agree_on m m' o (8 * n) -> rd_words m' o n = rd_words m o n.
Proof.
  intros Hr Hl Ha. unfold rd_words. apply map_ext_in. intros i Hi. apply in_seq in Hi.
  apply in_rangeb_true in Hr.
  apply rd64_agree; [apply in_rangeb_true; lia|exact Hl|]. eapply agree_sub; [exact Ha| |]; lia.
Qed.

Definition DL (t : ty) : Prop := has_refs t = false -> forall m off v s, dec t m off = Some (v, s) ->
  0 <= s /\
  (forall cs, csize t = Some cs -> s = cs) /\
  (forall m', len m <= len m' -> agree_on m m' off s -> dec t m' off = Some (v, s)).

Lemma ssize_pos k : 0 < ssize k.
Proof. destruct k; cbn; lia. Qed.

Lemma DL_scalar k : DL (TScalar k).
Proof.
  intros _ m off v s H. cbn [dec] in H. destruct (in_rangeb m off (ssize k)) eqn:G; cbn in H; [|discriminate]. inversion H; subst v s. clear H.
  pose proof (ssize_pos k). pose proof (proj1 (in_rangeb_true _ _ _) G) as [A [B C]].
  split; [lia|]. split; [intros cs E; cbn in E; congruence|].
  intros m' Hl Ha. cbn [dec]. rewrite (in_rangeb_mono m m' _ _ G Hl). cbn. rewrite (rd_agree m m' off (ssize k) G Hl Ha). reflexivity.
Qed.

Lemma DL_string : DL TString.
Proof.
  intros _ m off v s H. cbn [dec] in H. destruct (in_rangeb m off 8) eqn:G8; cbn in H; [|discriminate].
  destruct ((9 <=? rd64 m off) && in_rangeb m off (rd64 m off)) eqn:G; cbn in H; [|discriminate].
  apply andb_prop in G. destruct G as [G9 Gr]. apply Z.leb_le in G9. pose proof (proj1 (in_rangeb_true _ _ _) Gr) as [A [B C]].
  set (size := rd64 m off) in *.
  destruct ((len (rstrip0 (rd m (off + 8) (size - 8))) <? len (rd m (off + 8) (size - 8))) && forallb (fun b => negb (b =? 0)) (rstrip0 (rd m (off + 8) (size - 8)))) eqn:Gs; cbn in H; [|discriminate].
  inversion H; subst v s. clear H.
  split; [lia|]. split; [intros cs E; cbn in E; discriminate|].
  intros m' Hl Ha. cbn [dec]. rewrite (in_rangeb_mono m m' _ _ G8 Hl). cbn.
  assert (E64 : rd64 m' off = size) by (apply rd64_agree; [exact G8|exact Hl|eapply agree_sub; [exact Ha|lia|lia]]).
  rewrite E64. assert (G' : (9 <=? size) && in_rangeb m' off size = true) by (apply andb_true_intro; split; [apply Z.leb_le; exact G9|exact (in_rangeb_mono m m' _ _ Gr Hl)]).
  rewrite G'. cbn.
  assert (Er : rd m' (off + 8) (size - 8) = rd m (off + 8) (size - 8)).
  { apply rd_agree; [apply in_rangeb_true; lia|exact Hl|eapply agree_sub; [exact Ha|lia|lia]]. }
  rewrite Er, Gs. reflexivity.
Qed.

(* ---- static structs: fields one after the other ---- *)
Fixpoint csize_sum (fs : list ty) : option Z :=
  match fs with [] => Some 0 | f :: tl => match csize f, csize_sum tl with Some a, Some b => Some (slot a + b) | _, _ => None end end.
Lemma csize_struct_sum fs : csize (TStruct fs) = csize_sum fs.
Proof. cbn [csize]. induction fs as [|f fs IH]; [reflexivity|]. cbn [csize_sum]. rewrite <- IH. reflexivity. Qed.

Lemma slot_ge n : n <= slot n.
Proof. pose proof (slot_spec n). lia. Qed.

Lemma DL_static_list : forall fs, Forall DL fs -> existsb has_refs fs = false -> forall m o vs e, dec_static_list m fs o = Some (vs, e) ->
  o <= e /\
  (forall cs, csize_sum fs = Some cs -> e - o = cs) /\
  (forall m', len m <= len m' -> agree_on m m' o (e - o) -> dec_static_list m' fs o = Some (vs, e)).
Proof.
  induction fs as [|f fs IH]; intros HF Hr m o vs e H.
  - cbn in H. inversion H; subst. split; [lia|]. split; [intros cs E; cbn in E; inversion E; lia|]. intros; reflexivity.
  - inversion HF as [|? ? Hf HFt]; subst. apply existsb_false_cons in Hr. destruct Hr as [Hr1 Hr2].
    cbn [dec_static_list] in H. destruct (dec f m o) as [[v1 s1]|] eqn:E1; [|discriminate]. cbn [fst snd] in H.
    destruct (dec_static_list m fs (o + slot s1)) as [[r e']|] eqn:E2; [|discriminate]. cbn [fst snd] in H. inversion H; subst vs e'. clear H.
    destruct (Hf Hr1 m o v1 s1 E1) as [S0 [SC SL]]. destruct (IH HFt Hr2 m (o + slot s1) r e E2) as [T0 [TC TL]].
    pose proof (slot_ge s1). split; [lia|]. split.
    + intros cs E. cbn [csize_sum] in E. destruct (csize f) as [a|] eqn:Ca; [|discriminate]. destruct (csize_sum fs) as [b|] eqn:Cb; [|discriminate]. inversion E; subst cs.
      rewrite <- (SC a eq_refl). rewrite <- (TC b eq_refl). lia.
    + intros m' Hl Ha. cbn [dec_static_list]. rewrite (SL m' Hl ltac:(eapply agree_sub; [exact Ha|lia|lia])). cbn [fst snd].
      rewrite (TL m' Hl ltac:(eapply agree_sub; [exact Ha|lia|lia])). reflexivity.
Qed.

(* ---- dynamic structs ---- *)
Definition ndynf (fs : list ty) : Z := len (filter (fun f => negb (is_static f)) fs).
Lemma ndynf_eq fs : len fs - len (filter is_static fs) = ndynf fs.
Proof.
  unfold ndynf. induction fs as [|f fs IH]; [reflexivity|]. cbn [filter]. destruct (is_static f); cbn [negb]; rewrite !len_cons; lia.
Qed.
Lemma ndynf_nonneg fs : 0 <= ndynf fs.
Proof. unfold ndynf. apply len_nonneg. Qed.
Lemma ndynf_cons f fs : ndynf (f :: fs) = (if is_static f then 0 else 1) + ndynf fs.
Proof. unfold ndynf. cbn [filter]. destruct (is_static f); cbn [negb]; rewrite ?len_cons; lia. Qed.
Lemma stat_len_of_cons f fs : stat_len_of (f :: fs) = (match csize f with Some s => slot s | None => 0 end) + stat_len_of fs.
Proof.
  unfold stat_len_of. cbn [filter]. unfold is_static at 1. destruct (csize f) as [s|] eqn:E.
  - cbn [map]. rewrite sumz_cons, E. reflexivity.
  - lia.
Qed.

Lemma DL_dyn_list m off stat_len K total : in_rangeb m off total = true -> 1 <= K -> forall fs, Forall DL fs -> existsb has_refs fs = false -> forall so k dnext vs fin,
  dec_dyn_list m off stat_len fs so k dnext = Some (vs, fin) ->
  0 <= k -> k + ndynf fs = K -> 0 <= so -> so + stat_len_of fs = 8 + stat_len -> 8 + stat_len + 8 * (K - 1) <= dnext -> fin <= total ->
  so <= 8 + stat_len /\ dnext <= fin /\
  (forall m', len m <= len m' -> agree_on m m' off total -> dec_dyn_list m' off stat_len fs so k dnext = Some (vs, fin)).
Proof.
  intros Hrt HK1. induction fs as [|f fs IH]; intros HF Hr so k dnext vs fin H Hk HK Hso Hst Hd Hfin.
  - cbn in H. inversion H; subst. assert (E0 : stat_len_of [] = 0) by reflexivity. rewrite E0 in Hst. split; [lia|]. split; [lia|]. intros; reflexivity.
  - pose proof (Forall_inv HF) as Hf. pose proof (Forall_inv_tail HF) as HFt. apply existsb_false_cons in Hr. destruct Hr as [Hr1 Hr2].
    rewrite ndynf_cons in HK. rewrite stat_len_of_cons in Hst.
    cbn [dec_dyn_list] in H. unfold is_static in H, HK. destruct (csize f) as [cs|] eqn:Ec.
    + (* static field at off + so *)
      destruct (dec f m (off + so)) as [[v1 s1]|] eqn:E1; [|discriminate]. cbn [fst snd] in H.
      destruct (dec_dyn_list m off stat_len fs (so + slot s1) k dnext) as [[r e']|] eqn:E2; [|discriminate]. cbn [fst snd] in H. inversion H; subst vs e'. clear H.
      destruct (Hf Hr1 m (off + so) v1 s1 E1) as [S0 [SC SL]]. pose proof (SC cs Ec) as Es. subst cs. pose proof (slot_ge s1).
      destruct (IH HFt Hr2 (so + slot s1) k dnext r fin E2 Hk ltac:(lia) ltac:(lia) ltac:(lia) Hd Hfin) as [T1 [T2 TL]].
      split; [lia|]. split; [exact T2|].
      intros m' Hl Ha. cbn [dec_dyn_list]. unfold is_static. rewrite Ec.
      assert (Hsub : agree_on m m' (off + so) s1).
      { eapply agree_sub; [exact Ha|lia|]. lia. }
      rewrite (SL m' Hl Hsub). cbn [fst snd]. rewrite (TL m' Hl Ha). reflexivity.
    + (* dynamic field: offset dnext (first) or from the table *)
      set (o := if k =? 0 then dnext else rd64 m (off + 8 + stat_len + 8 * (k - 1))) in *.
      destruct ((dnext <=? o) && (o mod 8 =? 0)) eqn:G; cbn [guard] in H; [|discriminate].
      apply andb_prop in G. destruct G as [G1 G2]. apply Z.leb_le in G1.
      destruct (dec f m (off + o)) as [[v1 s1]|] eqn:E1; [|discriminate]. cbn [fst snd] in H.
      destruct (dec_dyn_list m off stat_len fs so (k + 1) (o + slot s1)) as [[r e']|] eqn:E2; [|discriminate]. cbn [fst snd] in H. inversion H; subst vs e'. clear H.
      destruct (Hf Hr1 m (off + o) v1 s1 E1) as [S0 [SC SL]]. pose proof (slot_ge s1).
      destruct (IH HFt Hr2 so (k + 1) (o + slot s1) r fin E2 ltac:(lia) ltac:(lia) Hso ltac:(lia) ltac:(lia) Hfin) as [T1 [T2 TL]].
      pose proof (ndynf_nonneg fs).
      split; [exact T1|]. split; [lia|].
      intros m' Hl Ha. cbn [dec_dyn_list]. unfold is_static. rewrite Ec.
      assert (Eo : (if k =? 0 then dnext else rd64 m' (off + 8 + stat_len + 8 * (k - 1))) = o).
      { unfold o. destruct (k =? 0) eqn:Ek; [reflexivity|]. apply Z.eqb_neq in Ek.
        pose proof (proj1 (in_rangeb_true _ _ _) Hrt) as [R0 [R1 R2]].
        apply rd64_agree; [apply in_rangeb_true; lia|exact Hl|eapply agree_sub; [exact Ha|lia|lia]]. }
      rewrite Eo. assert (G : (dnext <=? o) && (o mod 8 =? 0) = true) by (apply andb_true_intro; split; [apply Z.leb_le; exact G1|exact G2]).
      rewrite G. cbn [guard].
      rewrite (SL m' Hl ltac:(eapply agree_sub; [exact Ha|lia|lia])). cbn [fst snd]. rewrite (TL m' Hl Ha). reflexivity.
Qed.

Lemma csize_sum_static fs cs : csize_sum fs = Some cs -> forallb is_static fs = true.
Proof.
  revert cs. induction fs as [|f fs IH]; intros cs E; [reflexivity|]. cbn [csize_sum] in E. cbn [forallb]. unfold is_static at 1.
  destruct (csize f); [|discriminate]. destruct (csize_sum fs) as [b|]; [|discriminate]. rewrite (IH b eq_refl). reflexivity.
Qed.

Lemma DL_struct fs : Forall DL fs -> DL (TStruct fs).
Proof.
  intros HF Hr m off v s H. cbn [has_refs] in Hr.
  destruct (len fs - len (filter is_static fs) =? 0) eqn:Ed.
  - rewrite (dec_struct_static_eq fs m off Ed) in H. destruct (dec_static_list m fs off) as [[vs e]|] eqn:E; [|discriminate]. cbn [fst snd] in H. inversion H; subst v s. clear H.
    destruct (DL_static_list fs HF Hr m off vs e E) as [A [B C]].
    split; [lia|]. split; [intros cs Ec; rewrite csize_struct_sum in Ec; exact (B cs Ec)|].
    intros m' Hl Ha. rewrite (dec_struct_static_eq fs m' off Ed). rewrite (C m' Hl Ha). reflexivity.
  - rewrite (dec_struct_dyn_eq fs m off Ed) in H.
    destruct (in_rangeb m off 8) eqn:G8; cbn [guard] in H; [|discriminate]. cbv zeta in H.
    set (total := rd64 m off) in *.
    destruct ((8 <=? total) && in_rangeb m off total) eqn:G; cbn [guard] in H; [|discriminate].
    apply andb_prop in G. destruct G as [Gt Gr]. apply Z.leb_le in Gt.
    set (hdr := 8 + stat_len_of fs + 8 * (len fs - len (filter is_static fs) - 1)) in *.
    destruct (dec_dyn_list m off (stat_len_of fs) fs 8 0 hdr) as [[vs fin]|] eqn:E; [|discriminate]. cbn [fst snd] in H.
    destruct ((fin <=? total) && (total mod 8 =? 0)) eqn:G2; cbn [guard] in H; [|discriminate]. inversion H; subst v s. clear H.
    apply andb_prop in G2. destruct G2 as [Gf Gm]. apply Z.leb_le in Gf.
    apply Z.eqb_neq in Ed. pose proof (ndynf_eq fs) as En. pose proof (ndynf_nonneg fs) as Hn0.
    destruct (DL_dyn_list m off (stat_len_of fs) (ndynf fs) total Gr ltac:(lia) fs HF Hr 8 0 hdr vs fin E ltac:(lia) ltac:(lia) ltac:(lia) ltac:(lia) ltac:(unfold hdr; lia) Gf) as [A [B C]].
    split; [lia|]. split.
    + intros cs Ec. rewrite csize_struct_sum in Ec. pose proof (csize_sum_static fs cs Ec) as Hs. apply forallb_static_ndyn in Hs. apply Z.eqb_eq in Hs. lia.
    + intros m' Hl Ha. rewrite (dec_struct_dyn_eq fs m' off ltac:(apply Z.eqb_neq; lia)).
      rewrite (in_rangeb_mono m m' _ _ G8 Hl). cbn [guard]. cbv zeta.
      assert (E64 : rd64 m' off = total) by (apply rd64_agree; [exact G8|exact Hl|eapply agree_sub; [exact Ha|lia|lia]]).
      rewrite E64. assert (G' : (8 <=? total) && in_rangeb m' off total = true) by (apply andb_true_intro; split; [apply Z.leb_le; exact Gt|exact (in_rangeb_mono m m' _ _ Gr Hl)]).
      rewrite G'. cbn [guard]. fold hdr. rewrite (C m' Hl Ha). cbn [fst snd].
      assert (G2' : (fin <=? total) && (total mod 8 =? 0) = true) by (apply andb_true_intro; split; [apply Z.leb_le; exact Gf|exact Gm]).
      rewrite G2'. reflexivity.
Qed.

(* ---- arrays of statically sized items ---- *)
Lemma DL_items_static item isz m base shape sh order items : DL item -> has_refs item = false -> csize item = Some isz ->
  shape_ok shape sh = true -> perm_ok order (length shape) = true ->
  seqopt (map (fun idx => match dec item m (base + dot idx (get_strides sh order isz)) with Some vs => Some (fst vs) | None => None end)
              (map (fun c => unpos sh (Z.of_nat c)) (seq 0 (Z.to_nat (prod sh))))) = Some items ->
  (0 < prod sh -> 0 <= isz) /\
  forall m' lo n, len m <= len m' -> agree_on m m' lo n -> lo <= base -> base + isz * prod sh <= lo + n ->
    seqopt (map (fun idx => match dec item m' (base + dot idx (get_strides sh order isz)) with Some vs => Some (fst vs) | None => None end)
                (map (fun c => unpos sh (Z.of_nat c)) (seq 0 (Z.to_nat (prod sh))))) = Some items.
Proof.
  intros HD Hr Ci Gs Gp H.
  set (idxs := map (fun c => unpos sh (Z.of_nat c)) (seq 0 (Z.to_nat (prod sh)))) in *.
  destruct (seqopt_map_spec _ [] VNull idxs items H) as [L N].
  assert (Hlen : length idxs = Z.to_nat (prod sh)) by (unfold idxs; rewrite map_length, seq_length; reflexivity).
  assert (Hnth : forall c, (c < Z.to_nat (prod sh))%nat -> nth c idxs [] = unpos sh (Z.of_nat c)).
  { intros c Hc. unfold idxs. rewrite (map_nth_in _ _ _ [] O) by (rewrite seq_length; exact Hc). rewrite seq_nth by exact Hc. reflexivity. }
  (* every item decodes, with size isz *)
  assert (Hitem : forall c, (c < Z.to_nat (prod sh))%nat -> exists v1, dec item m (base + isz * Perm.mem_pos sh order (unpos sh (Z.of_nat c))) = Some (v1, isz) /\ 0 <= isz /\
            0 <= Perm.mem_pos sh order (unpos sh (Z.of_nat c)) < prod sh).
  { intros c Hc. pose proof (N c ltac:(lia)) as Nc. rewrite (Hnth c Hc) in Nc.
    destruct (lom_of_idx shape sh order (Z.of_nat c) Gs Gp ltac:(lia)) as [Hmp [_ Hdot]]. cbv zeta in Hmp, Hdot. rewrite Hdot in Nc.
    destruct (dec item m (base + isz * Perm.mem_pos sh order (unpos sh (Z.of_nat c)))) as [[v1 s1]|] eqn:E1; [|discriminate].
    destruct (HD Hr m _ v1 s1 E1) as [S0 [SC _]]. pose proof (SC isz Ci). subst s1. exists v1. split; [reflexivity|]. split; [exact S0|exact Hmp]. }
  split.
  - intros Hp. destruct (Hitem O ltac:(lia)) as [v1 [_ [A _]]]. exact A.
  - intros m' lo n Hl Ha Hlo Hhi. rewrite <- H. f_equal. apply map_ext_in. intros idx Hin.
    destruct (In_nth idxs idx [] Hin) as [c [Hc Ec]]. rewrite Hlen in Hc. rewrite (Hnth c Hc) in Ec. subst idx.
    destruct (Hitem c Hc) as [v1 [E1 [I0 Hmp]]].
    destruct (lom_of_idx shape sh order (Z.of_nat c) Gs Gp ltac:(lia)) as [_ [_ Hdot]]. cbv zeta in Hdot. rewrite Hdot.
    destruct (HD Hr m _ v1 isz E1) as [_ [_ SL]].
    rewrite E1. rewrite (SL m' Hl ltac:(eapply agree_sub; [exact Ha|nia|nia])). reflexivity.
Qed.

(* ---- arrays of dynamically sized items ---- *)
Lemma chain_ok_bounds : forall parts start fin, chain_ok start parts = Some fin -> Forall (fun p : Z * Z => 0 <= snd p) parts ->
  start <= fin /\ forall k, (k < length parts)%nat -> start <= fst (nth k parts (0, 0)) /\ fst (nth k parts (0, 0)) + snd (nth k parts (0, 0)) <= fin.
Proof.
  induction parts as [|[o sz] tl IH]; intros start fin H HF.
  - cbn in H. inversion H. split; [lia|]. intros k Hk. cbn in Hk. lia.
  - cbn [chain_ok] in H. destruct ((start <=? o) && (o mod 8 =? 0)) eqn:G; [|discriminate]. apply andb_prop in G. destruct G as [G _]. apply Z.leb_le in G.
    inversion HF as [|? ? H0 HFt]; subst. cbn [snd] in H0. destruct (IH (o + sz) fin H HFt) as [A B].
    split; [lia|]. intros [|k] Hk; cbn [nth fst snd].
    + lia.
    + cbn in Hk. destruct (B k ltac:(lia)) as [B1 B2]. lia.
Qed.

Lemma combine_nth_pair (a b : list Z) k : length a = length b -> nth k (combine a b) (0, 0) = (nth k a 0, nth k b 0).
Proof. intros H. apply combine_nth. exact H. Qed.

Lemma rd_words_length m o n : length (rd_words m o n) = Z.to_nat n.
Proof. unfold rd_words. rewrite map_length, seq_length. reflexivity. Qed.
Lemma rd_words_nth m o n k : (k < Z.to_nat n)%nat -> nth k (rd_words m o n) 0 = rd64 m (o + 8 * Z.of_nat k).
Proof. intros Hk. unfold rd_words. rewrite (map_nth_in _ _ _ 0 O) by (rewrite seq_length; exact Hk). rewrite seq_nth by exact Hk. reflexivity. Qed.

Lemma DL_items_dyn item m off hdr total shape sh order ivs fin : DL item -> has_refs item = false ->
  shape_ok shape sh = true -> perm_ok order (length shape) = true -> 0 <= hdr ->
  in_rangeb m off total = true -> hdr + 8 * prod sh <= total ->
  seqopt (map (fun idx => dec item m (off + rd64 m (off + hdr + dot idx (get_strides sh order 8))))
              (map (fun c => unpos sh (Z.of_nat c)) (seq 0 (Z.to_nat (prod sh))))) = Some ivs ->
  chain_ok (hdr + 8 * prod sh)
           (combine (rd_words m (off + hdr) (prod sh))
                    (map (fun p => slot (snd (nth (Z.to_nat (logical_of_mem sh order p)) ivs (VNull, 0)))) (mem_positions sh))) = Some fin ->
  fin <= total ->
  forall m', len m <= len m' -> agree_on m m' off total ->
    seqopt (map (fun idx => dec item m' (off + rd64 m' (off + hdr + dot idx (get_strides sh order 8))))
                (map (fun c => unpos sh (Z.of_nat c)) (seq 0 (Z.to_nat (prod sh))))) = Some ivs.
Proof.
  intros HD Hr Gs Gp Hh Hrt Htab H Hch Hfin m' Hl Ha.
  set (n := prod sh) in *.
  set (idxs := map (fun c => unpos sh (Z.of_nat c)) (seq 0 (Z.to_nat n))) in *.
  destruct (seqopt_map_spec _ [] (VNull, 0) idxs ivs H) as [L N].
  assert (Hlen : length idxs = Z.to_nat n) by (unfold idxs; rewrite map_length, seq_length; reflexivity).
  assert (Hnth : forall c, (c < Z.to_nat n)%nat -> nth c idxs [] = unpos sh (Z.of_nat c)).
  { intros c Hc. unfold idxs. rewrite (map_nth_in _ _ _ [] O) by (rewrite seq_length; exact Hc). rewrite seq_nth by exact Hc. reflexivity. }
  pose proof (proj1 (in_rangeb_true _ _ _) Hrt) as [R0 [R1 R2]].
  (* item c: decoded from the table entry at memory position mp *)
  assert (Hitem : forall c, (c < Z.to_nat n)%nat ->
            let mp := Perm.mem_pos sh order (unpos sh (Z.of_nat c)) in
            0 <= mp < n /\ logical_of_mem sh order mp = Z.of_nat c /\
            dot (unpos sh (Z.of_nat c)) (get_strides sh order 8) = 8 * mp /\
            dec item m (off + rd64 m (off + hdr + 8 * mp)) = Some (nth c ivs (VNull, 0)) /\ 0 <= snd (nth c ivs (VNull, 0))).
  { intros c Hc mp. pose proof (N c ltac:(lia)) as Nc. rewrite (Hnth c Hc) in Nc.
    destruct (lom_of_idx shape sh order (Z.of_nat c) Gs Gp ltac:(unfold n in *; lia)) as [Hmp [Hlom Hdot]]. cbv zeta in Hmp, Hlom, Hdot. fold mp in Hmp, Hlom.
    rewrite (Hdot 8) in Nc. fold mp in Nc. split; [exact Hmp|]. split; [exact Hlom|]. split; [apply Hdot|]. split; [exact Nc|].
    destruct (nth c ivs (VNull, 0)) as [v1 s1] eqn:En. destruct (HD Hr m _ v1 s1 Nc) as [S0 _]. exact S0. }
  (* the chain: every entry lies behind the table and its item ends before fin *)
  set (sizes_mem := map (fun p => slot (snd (nth (Z.to_nat (logical_of_mem sh order p)) ivs (VNull, 0)))) (mem_positions sh)) in *.
  assert (Hn0 : 0 <= n) by (unfold n; apply prod_nonneg; eapply shape_ok_nonneg; exact Gs).
  assert (Lsz : length sizes_mem = Z.to_nat n) by (unfold sizes_mem, mem_positions; rewrite !map_length, seq_length; reflexivity).
  assert (Hsz : forall p, (p < Z.to_nat n)%nat -> nth p sizes_mem 0 = slot (snd (nth (Z.to_nat (logical_of_mem sh order (Z.of_nat p))) ivs (VNull, 0)))).
  { intros p Hp. unfold sizes_mem. rewrite (map_nth_in _ _ _ 0 0) by (unfold mem_positions; rewrite map_length, seq_length; exact Hp).
    rewrite nth_mem_positions by exact Hp. reflexivity. }
  assert (Hnn : Forall (fun p : Z * Z => 0 <= snd p) (combine (rd_words m (off + hdr) n) sizes_mem)).
  { apply Forall_forall. intros [a b] Hin. apply in_combine_r in Hin. cbn [snd].
    destruct (In_nth sizes_mem b 0 Hin) as [p [Hp Ep]]. rewrite Lsz in Hp. rewrite (Hsz p Hp) in Ep. subst b.
    pose proof (lom_range shape sh order (Z.of_nat p) Gs Gp ltac:(unfold n in *; lia)) as Hlr.
    destruct (Hitem (Z.to_nat (logical_of_mem sh order (Z.of_nat p))) ltac:(unfold n in *; lia)) as [_ [_ [_ [_ S0]]]].
    pose proof (slot_ge (snd (nth (Z.to_nat (logical_of_mem sh order (Z.of_nat p))) ivs (VNull, 0)))). lia. }
  destruct (chain_ok_bounds _ _ _ Hch Hnn) as [C0 CB].
  rewrite <- H. f_equal. apply map_ext_in. intros idx Hin.
  destruct (In_nth idxs idx [] Hin) as [c [Hc Ec]]. rewrite Hlen in Hc. rewrite (Hnth c Hc) in Ec. subst idx.
  destruct (Hitem c Hc) as [Hmp [Hlom [Hdot [Ed S0]]]]. cbv zeta in Hmp, Hlom, Hdot, Ed.
  set (mp := Perm.mem_pos sh order (unpos sh (Z.of_nat c))) in *.
  rewrite Hdot.
  assert (E64 : rd64 m' (off + hdr + 8 * mp) = rd64 m (off + hdr + 8 * mp)).
  { apply rd64_agree; [apply in_rangeb_true; lia|exact Hl|eapply agree_sub; [exact Ha|lia|lia]]. }
  rewrite E64.
  (* bounds of this item from the chain at position mp *)
  assert (Lc : length (combine (rd_words m (off + hdr) n) sizes_mem) = Z.to_nat n) by (rewrite combine_length, rd_words_length, Lsz; lia).
  destruct (CB (Z.to_nat mp) ltac:(lia)) as [B1 B2].
  rewrite combine_nth_pair in B1, B2 by (rewrite rd_words_length, Lsz; reflexivity). cbn [fst snd] in B1, B2.
  rewrite rd_words_nth in B1, B2 by lia. rewrite Hsz in B2 by lia. rewrite !Z2Nat.id in B1, B2 by lia.
  rewrite Hlom, Nat2Z.id in B2.
  destruct (nth c ivs (VNull, 0)) as [v1 s1] eqn:En. cbn [snd] in B2, S0.
  destruct (HD Hr m _ v1 s1 Ed) as [_ [_ SL]]. pose proof (slot_ge s1).
  rewrite Ed. apply SL; [exact Hl|]. eapply agree_sub; [exact Ha|lia|lia].
Qed.

Definition arr_items_static (item : ty) (m : mem) (base : Z) (sh : list Z) (order : list nat) (isz : Z) : option (list val) :=
  seqopt (map (fun idx => match dec item m (base + dot idx (get_strides sh order isz)) with Some vs => Some (fst vs) | None => None end)
              (map (fun c => unpos sh (Z.of_nat c)) (seq 0 (Z.to_nat (prod sh))))).
Definition arr_items_dyn (item : ty) (m : mem) (off hdr : Z) (sh : list Z) (order : list nat) : option (list (val * Z)) :=
  seqopt (map (fun idx => dec item m (off + rd64 m (off + hdr + dot idx (get_strides sh order 8))))
              (map (fun c => unpos sh (Z.of_nat c)) (seq 0 (Z.to_nat (prod sh))))).

Lemma dec_array_eq item shape order m off : dec (TArray item shape order) m off =
  let st := is_static item in
  let nd := ndyn shape in
  let hdr := arr_header st shape in
  match guard (perm_ok order (length shape) && in_rangeb m off hdr) with None => None | Some _ =>
  let o1 := if st && (nd =? 0) then off else off + 8 in
  let sh := fill_shape shape (rd_words m o1 nd) in
  match guard (shape_ok shape sh) with None => None | Some _ =>
  let n := prod sh in
  let isz := match csize item with Some s => s | None => 8 end in
  let strides := get_strides sh order isz in
  match guard (negb ((0 <? nd) && (1 <? len shape)) || list_eqbZ (rd_words m (o1 + 8 * nd) (len shape)) strides) with None => None | Some _ =>
  if st then
    let total := slot (hdr + isz * n) in
    match guard (((nd =? 0) || (rd64 m off =? total)) && in_rangeb m off total) with None => None | Some _ =>
    match arr_items_static item m (off + hdr) sh order isz with None => None | Some items => Some (VArr sh items, total) end end
  else
    let total := rd64 m off in
    match guard ((hdr + 8 * n <=? total) && in_rangeb m off total) with None => None | Some _ =>
    match arr_items_dyn item m off hdr sh order with None => None | Some ivs =>
    match chain_ok (hdr + 8 * n) (combine (rd_words m (off + hdr) n)
             (map (fun p => slot (snd (nth (Z.to_nat (logical_of_mem sh order p)) ivs (VNull, 0)))) (mem_positions sh))) with None => None | Some fin =>
    match guard ((fin <=? total) && (total mod 8 =? 0)) with None => None | Some _ => Some (VArr sh (map fst ivs), total) end end end end
  end end end.
Proof.
  cbn [dec]. unfold arr_items_static, arr_items_dyn. cbv zeta.
  destruct (guard (perm_ok order (length shape) && in_rangeb m off (arr_header (is_static item) shape))); [|reflexivity].
  destruct (guard (shape_ok shape _)); [|reflexivity].
  destruct (guard (negb _ || _)); [|reflexivity].
  destruct (is_static item) eqn:Es.
  - reflexivity.
  - unfold is_static in Es. destruct (csize item); [discriminate|]. reflexivity.
Qed.

Lemma arr_header_nonneg st shape : 0 <= arr_header st shape.
Proof.
  unfold arr_header. pose proof (ndyn_nonneg shape). pose proof (len_nonneg shape).
  destruct (st && (ndyn shape =? 0)); destruct ((0 <? ndyn shape) && (1 <? len shape)); lia.
Qed.
Lemma arr_header_words st shape : (st && (ndyn shape =? 0) = false -> 8 + 8 * ndyn shape <= arr_header st shape) /\
  ((0 <? ndyn shape) && (1 <? len shape) = true -> 8 + 8 * ndyn shape + 8 * len shape <= arr_header st shape).
Proof.
  unfold arr_header. pose proof (ndyn_nonneg shape). pose proof (len_nonneg shape). split.
  - intros E. rewrite E. destruct ((0 <? ndyn shape) && (1 <? len shape)); lia.
  - intros E. rewrite E. apply andb_prop in E. destruct E as [E _]. apply Z.ltb_lt in E.
    destruct (st && (ndyn shape =? 0)) eqn:E2; [|lia]. apply andb_prop in E2. destruct E2 as [_ E2]. apply Z.eqb_eq in E2. lia.
Qed.

Lemma DL_array item shape order : DL item -> DL (TArray item shape order).
Proof.
  intros HD Hr m off v s H. cbn [has_refs] in Hr.
  rewrite dec_array_eq in H. cbv zeta in H.
  set (st := is_static item) in *. set (nd := ndyn shape) in *. set (hdr := arr_header st shape) in *.
  destruct (perm_ok order (length shape) && in_rangeb m off hdr) eqn:G1; cbn [guard] in H; [|discriminate].
  apply andb_prop in G1. destruct G1 as [Gp Gh].
  set (o1 := if st && (nd =? 0) then off else off + 8) in *.
  set (sh := fill_shape shape (rd_words m o1 nd)) in *.
  destruct (shape_ok shape sh) eqn:Gs; cbn [guard] in H; [|discriminate].
  set (n := prod sh) in *. set (isz := match csize item with Some s0 => s0 | None => 8 end) in *.
  destruct (negb ((0 <? nd) && (1 <? len shape)) || list_eqbZ (rd_words m (o1 + 8 * nd) (len shape)) (get_strides sh order isz)) eqn:G3; cbn [guard] in H; [|discriminate].
  pose proof (arr_header_nonneg st shape) as Hh0. fold hdr in Hh0.
  pose proof (arr_header_words st shape) as [HW1 HW2]. fold hdr nd in HW1, HW2.
  pose proof (proj1 (in_rangeb_true _ _ _) Gh) as [Rh0 [Rh1 Rh2]].
  pose proof (ndyn_nonneg shape) as Hnd0. fold nd in Hnd0.
  assert (Hn0 : 0 <= n) by (unfold n; apply prod_nonneg; eapply shape_ok_nonneg; exact Gs).
  (* the header words read the same in any memory agreeing on [off, off+hdr) *)
  assert (Hhead : forall m', len m <= len m' -> agree_on m m' off hdr ->
            fill_shape shape (rd_words m' o1 nd) = sh /\
            (negb ((0 <? nd) && (1 <? len shape)) || list_eqbZ (rd_words m' (o1 + 8 * nd) (len shape)) (get_strides sh order isz)) = true).
  { intros m' Hl Ha. assert (Ed : rd_words m' o1 nd = rd_words m o1 nd).
    { destruct (st && (nd =? 0)) eqn:E0.
      - apply andb_prop in E0. destruct E0 as [_ E0]. apply Z.eqb_eq in E0. rewrite E0. rewrite !rd_words_0. reflexivity.
      - specialize (HW1 eq_refl). apply rd_words_agree; [apply in_rangeb_true; lia|exact Hl|eapply agree_sub; [exact Ha|lia|lia]]. }
    split; [unfold sh; rewrite Ed; reflexivity|].
    destruct ((0 <? nd) && (1 <? len shape)) eqn:E1; [|reflexivity]. cbn [negb orb] in G3 |- *.
    specialize (HW2 eq_refl). pose proof (len_nonneg shape).
    assert (Eo : o1 = off + 8).
    { unfold o1. apply andb_prop in E1. destruct E1 as [E1 _]. apply Z.ltb_lt in E1. destruct (st && (nd =? 0)) eqn:E0; [|reflexivity].
      apply andb_prop in E0. destruct E0 as [_ E0]. apply Z.eqb_eq in E0. lia. }
    rewrite (rd_words_agree m m' (o1 + 8 * nd) (len shape)); [exact G3|apply in_rangeb_true; lia|exact Hl|eapply agree_sub; [exact Ha|lia|lia]]. }
  destruct st eqn:Est.
  - (* statically sized items *)
    set (total := slot (hdr + isz * n)) in *.
    destruct (((nd =? 0) || (rd64 m off =? total)) && in_rangeb m off total) eqn:G4; cbn [guard] in H; [|discriminate].
    apply andb_prop in G4. destruct G4 as [G4 Gt]. pose proof (proj1 (in_rangeb_true _ _ _) Gt) as [Rt0 [Rt1 Rt2]].
    destruct (arr_items_static item m (off + hdr) sh order isz) as [items|] eqn:Ei; [|discriminate]. inversion H; subst v s. clear H.
    assert (Ci : csize item = Some isz). { unfold st, is_static in Est. unfold isz. destruct (csize item); [reflexivity|discriminate]. }
    destruct (DL_items_static item isz m (off + hdr) shape sh order items HD Hr Ci Gs Gp Ei) as [Hisz Hloc].
    assert (Hin : 0 <= isz * n) by (destruct (Z_lt_dec 0 n); [specialize (Hisz ltac:(unfold n in *; lia)); nia|assert (n = 0) by lia; nia]).
    pose proof (slot_spec (hdr + isz * n)) as [[TA TB] TM]. fold total in TA, TB, TM.
    split; [lia|]. split.
    + intros cs Ec. cbn [csize] in Ec. rewrite Ci in Ec. destruct (all_some shape) as [sh0|] eqn:Ea; [|discriminate]. inversion Ec; subst cs.
      destruct (all_some_shape_ok shape sh0 sh Ea Gs) as [E1 E2]. subst sh0. fold nd in E2.
      unfold total, hdr, arr_header. fold nd. rewrite E2. cbn. reflexivity.
    + intros m' Hl Ha. rewrite dec_array_eq. cbv zeta. fold st. rewrite Est. fold nd hdr.
      rewrite Gp, (in_rangeb_mono m m' _ _ Gh Hl). change (true && true) with true. cbn [guard]. fold o1.
      destruct (Hhead m' Hl ltac:(eapply agree_sub; [exact Ha|lia|lia])) as [Esh Estr]. rewrite Esh, Gs. cbn [guard]. fold isz. rewrite Estr. cbn [guard]. fold n total.
      assert (G4' : ((nd =? 0) || (rd64 m' off =? total)) && in_rangeb m' off total = true).
      { apply andb_true_intro. split; [|exact (in_rangeb_mono m m' _ _ Gt Hl)].
        destruct (nd =? 0) eqn:E0; [reflexivity|]. cbn [orb] in G4 |- *. apply Z.eqb_neq in E0.
        specialize (HW1 eq_refl).
        rewrite (rd64_agree m m' off); [exact G4|apply in_rangeb_true; lia|exact Hl|eapply agree_sub; [exact Ha|lia|lia]]. }
      rewrite G4'. cbn [guard]. unfold arr_items_static. rewrite (Hloc m' off total Hl Ha ltac:(lia) ltac:(fold n; lia)). reflexivity.
  - (* dynamically sized items *)
    set (total := rd64 m off) in *.
    destruct ((hdr + 8 * n <=? total) && in_rangeb m off total) eqn:G4; cbn [guard] in H; [|discriminate].
    apply andb_prop in G4. destruct G4 as [G4 Gt]. apply Z.leb_le in G4. pose proof (proj1 (in_rangeb_true _ _ _) Gt) as [Rt0 [Rt1 Rt2]].
    destruct (arr_items_dyn item m off hdr sh order) as [ivs|] eqn:Ei; [|discriminate].
    destruct (chain_ok (hdr + 8 * n) _) as [fin|] eqn:Ech; [|discriminate].
    destruct ((fin <=? total) && (total mod 8 =? 0)) eqn:G5; cbn [guard] in H; [|discriminate]. inversion H; subst v s. clear H.
    apply andb_prop in G5. destruct G5 as [G5 G6]. apply Z.leb_le in G5.
    assert (E00 : false && (nd =? 0) = false) by reflexivity. specialize (HW1 E00).
    split; [lia|]. split.
    + intros cs Ec. cbn [csize] in Ec. unfold st, is_static in Est. destruct (csize item); discriminate.
    + intros m' Hl Ha. rewrite dec_array_eq. cbv zeta. fold st. rewrite Est. fold nd hdr.
      rewrite Gp, (in_rangeb_mono m m' _ _ Gh Hl). change (true && true) with true. cbn [guard]. fold o1.
      destruct (Hhead m' Hl ltac:(eapply agree_sub; [exact Ha|lia|lia])) as [Esh Estr]. rewrite Esh, Gs. cbn [guard]. fold isz. rewrite Estr. cbn [guard]. fold n.
      assert (E64 : rd64 m' off = total) by (apply rd64_agree; [apply in_rangeb_true; lia|exact Hl|eapply agree_sub; [exact Ha|lia|lia]]).
      rewrite E64. assert (G4' : (hdr + 8 * n <=? total) && in_rangeb m' off total = true) by (apply andb_true_intro; split; [apply Z.leb_le; exact G4|exact (in_rangeb_mono m m' _ _ Gt Hl)]).
      rewrite G4'. cbn [guard]. unfold arr_items_dyn in *.
      rewrite (DL_items_dyn item m off hdr total shape sh order ivs fin HD Hr Gs Gp Hh0 Gt G4 Ei Ech G5 m' Hl Ha).
      rewrite (rd_words_agree m m' (off + hdr) n); [|apply in_rangeb_true; lia|exact Hl|eapply agree_sub; [exact Ha|lia|lia]].
      fold n in Ech. rewrite Ech.
      assert (G5' : (fin <=? total) && (total mod 8 =? 0) = true) by (apply andb_true_intro; split; [apply Z.leb_le; exact G5|exact G6]).
      rewrite G5'. reflexivity.
Qed.

Theorem DL_all : forall t, DL t.
Proof.
  apply ty_ind'.
  - exact DL_scalar.
  - exact DL_string.
  - exact DL_struct.
  - exact DL_array.
  - intros t _ Hr. cbn in Hr. discriminate.
  - intros ms _ Hr. cbn in Hr. discriminate.
Qed.

(* THE THEOREM.  Whatever bytes the strict decoder accepts as an object of a reference-free type -- a fresh
   image or the bytes left by any history of assignments -- value and size are a function of the bytes of the
   object's own extent [off, off+size): any buffer that agrees with this one there (other objects rewritten,
   freed, re-used, the buffer grown, ...) decodes to the same value with the same size. *)
Theorem dec_local t m off v s m' : has_refs t = false -> dec t m off = Some (v, s) ->
  len m <= len m' -> agree_on m m' off s -> dec t m' off = Some (v, s).
Proof. intros Hr H Hl Ha. destruct (DL_all t Hr m off v s H) as [_ [_ L]]. exact (L m' Hl Ha). Qed.

(* the size the decoder reports is never negative, and for a statically sized type it is the class size *)
Theorem dec_size t m off v s : has_refs t = false -> dec t m off = Some (v, s) ->
  0 <= s /\ forall cs, csize t = Some cs -> s = cs.
Proof. intros Hr H. destruct (DL_all t Hr m off v s H) as [A [B _]]. split; assumption. Qed.

(* non-vacuity: bytes that are NOT a fresh image (slack behind the first string of a struct, as a field-wise copy
   leaves it) are accepted, and rewriting bytes outside the object keeps value and size *)
Example dec_local_nonvacuous :
  let t := TStruct [TString; TString] in
  let obj := [56;0;0;0;0;0;0;0;  40;0;0;0;0;0;0;0;   16;0;0;0;0;0;0;0; 97;0;0;0;0;0;0;0;  9;9;9;9;9;9;9;9;
              16;0;0;0;0;0;0;0; 98;0;0;0;0;0;0;0] in
  let m := [7;7;7;7;7;7;7;7] ++ obj ++ [1;2;3] in
  let m' := [0;0;0;0;0;0;0;0] ++ obj ++ [5;5;5;5;5] in
  dec t m 8 = Some (VStruct [VStr [97] 16; VStr [98] 16], 56) /\ dec t m' 8 = dec t m 8.
Proof. cbv zeta. split; vm_compute; reflexivity. Qed.
