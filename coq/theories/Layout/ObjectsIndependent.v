(* Objects living side by side: a store inside the extent of one object leaves every other object (whose extent is
   disjoint from it) reading exactly what it read before -- for ANY accepted bytes, not only fresh images. *)
From Coq Require Import ZArith List Bool Lia.
Import ListNotations.
From XO Require Import ListAux Slots Strides Perm BufOps BufOpsProofs Types Format Check LayoutProofs RoundTrip CopyBytes DecLocal.
Open Scope Z_scope.

Theorem write_leaves_disjoint_objects t m off v s woff bs : has_refs t = false ->
  dec t m off = Some (v, s) -> 0 <= off -> off + s <= len m ->
  BufOps.in_range m woff (Z.of_nat (length bs)) ->
  (off + s <= woff \/ woff + len bs <= off) ->
  dec t (wr m woff bs) off = Some (v, s).
Proof.
  intros Hr H H0 H1 Hir Hd.
  destruct (BufOpsProofs.write_frame m woff bs Hir) as [WL _].
  apply (dec_local t m off v s (wr m woff bs) Hr H); [unfold len; rewrite WL; lia|].
  apply wr_agree; assumption.
Qed.

(* a whole heap: objects (type, offset) that decode, pairwise irrelevant here -- whichever object j a store goes
   into (anywhere inside its extent), every object whose extent is disjoint from the stored range is unchanged *)
Definition obj := (ty * Z)%type.
Definition reads (m : mem) (o : obj) (v : val) (s : Z) : Prop :=
  has_refs (fst o) = false /\ dec (fst o) m (snd o) = Some (v, s) /\ 0 <= snd o /\ snd o + s <= len m.

Theorem store_into_one_object_leaves_the_others m (objs : list (obj * val * Z)) woff bs :
  BufOps.in_range m woff (Z.of_nat (length bs)) ->
  Forall (fun x => let '(o, v, s) := x in reads m o v s /\ (snd o + s <= woff \/ woff + len bs <= snd o)) objs ->
  Forall (fun x => let '(o, v, s) := x in reads (wr m woff bs) o v s) objs.
Proof.
  intros Hir HF. destruct (BufOpsProofs.write_frame m woff bs Hir) as [WL _].
  induction HF as [|[[o v] s] tl [[Hr [Hd [H0 H1]]] Hdis] _ IH]; constructor; [|exact IH].
  split; [exact Hr|]. split; [eapply write_leaves_disjoint_objects; eassumption|]. split; [exact H0|]. unfold len in *. rewrite WL. exact H1.
Qed.
