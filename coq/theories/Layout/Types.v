(* Types and logical values of xobjects, and the byte codecs of header words.
   Definitions only. *)
From Coq Require Import ZArith List Bool Lia.
Import ListNotations.
From XO Require Import Slots Strides BufOps.
Open Scope Z_scope.

Inductive skind := F64 | F32 | I64 | U64 | I32 | U32 | I16 | U16 | I8 | U8.
Definition ssize (k : skind) : Z :=
  match k with F64 | I64 | U64 => 8 | F32 | I32 | U32 => 4 | I16 | U16 => 2 | I8 | U8 => 1 end.

(* field names do not influence the layout; axis [order]: memory axis k holds logical
   axis (nth k order); C order = [0;1;..;n-1] *)
Inductive ty :=
| TScalar (k : skind)
| TString
| TStruct (fields : list ty)
| TArray (item : ty) (shape : list (option Z)) (order : list nat)
| TRef (target : ty)
| TUnion (members : list ty).

(* logical values. Numbers are bit patterns (little-endian bytes of the dtype);
   a string carries the total size recorded for it at creation (capacity + 8);
   array items are listed in logical C (row-major) order *)
Inductive val :=
| VNum (bytes : list Z)
| VStr (bytes : list Z) (size : Z)
| VStruct (fs : list val)
| VArr (shape : list Z) (items : list val)
| VNull
| VRef (v : val)
| VMember (i : nat) (v : val).

Definition NULLVALUE : Z := - 2^63.

(* ---- little-endian two's-complement int64 ---- *)
Fixpoint le_bytes (n : nat) (x : Z) : list Z :=
  match n with O => [] | S n' => (x mod 256) :: le_bytes n' (x / 256) end.
Definition enc64 (x : Z) : list Z := le_bytes 8 (x mod 2^64).
Fixpoint le_val (bs : list Z) : Z := match bs with [] => 0 | b :: tl => b + 256 * le_val tl end.
Definition dec64 (bs : list Z) : Z := let u := le_val bs in if u <? 2^63 then u else u - 2^64.

Definition len {A} (l : list A) : Z := Z.of_nat (length l).
Definition rd64 (m : mem) (off : Z) : Z := dec64 (rd m off 8).

(* ---- class-level (static) size: None = dynamically sized ---- *)
Fixpoint all_some (l : list (option Z)) : option (list Z) :=
  match l with
  | [] => Some []
  | Some x :: tl => match all_some tl with Some r => Some (x :: r) | None => None end
  | None :: _ => None
  end.
Fixpoint csize (t : ty) : option Z :=
  match t with
  | TScalar k => Some (ssize k)
  | TString => None
  | TStruct fs =>
      (fix go (fs : list ty) : option Z :=
         match fs with
         | [] => Some 0
         | f :: tl => match csize f, go tl with Some a, Some b => Some (slot a + b) | _, _ => None end
         end) fs
  | TArray item shape order =>
      match csize item, all_some shape with
      | Some isz, Some sh => Some (slot (isz * prod sh))
      | _, _ => None
      end
  | TRef _ => Some 8
  | TUnion _ => Some 16
  end.
Definition is_static (t : ty) : bool := match csize t with Some _ => true | None => false end.

Fixpoint has_refs (t : ty) : bool :=
  match t with
  | TScalar _ | TString => false
  | TStruct fs => existsb has_refs fs
  | TArray item _ _ => has_refs item
  | TRef _ | TUnion _ => true
  end.

(* the shape of a concrete array: dynamic dimensions filled in *)
Fixpoint ndyn (shape : list (option Z)) : Z :=
  match shape with [] => 0 | None :: tl => 1 + ndyn tl | Some _ :: tl => ndyn tl end.
Fixpoint shape_ok (shape : list (option Z)) (sh : list Z) : bool :=
  match shape, sh with
  | [], [] => true
  | Some d :: tl, x :: r => (d =? x) && (0 <=? x) && shape_ok tl r
  | None :: tl, x :: r => (0 <=? x) && shape_ok tl r
  | _, _ => false
  end.
Fixpoint dyn_dims (shape : list (option Z)) (sh : list Z) : list Z :=
  match shape, sh with
  | None :: tl, x :: r => x :: dyn_dims tl r
  | Some _ :: tl, _ :: r => dyn_dims tl r
  | _, _ => []
  end.
Definition perm_ok (order : list nat) (n : nat) : bool :=
  Nat.eqb (length order) n && forallb (fun i => existsb (Nat.eqb i) order) (seq 0 n).

(* header length of an array object (everything before the item-offset table / data):
   [size] unless static/static, dynamic dims, strides when dynamic shape and >1 axes *)
Definition arr_header (item_static : bool) (shape : list (option Z)) : Z :=
  let nd := ndyn shape in
  (if item_static && (nd =? 0) then 0 else 8) + 8 * nd + (if (0 <? nd) && (1 <? len shape) then 8 * len shape else 0).
