(* Allocator and layout composed (C03 + C04 + C05): an object is constructed by asking the allocator for a region and
   storing its bytes there.  Whatever the allocator does within its safety contract (safe_step: hand out free or new
   bytes, possibly after growing the buffer), every object that lives inside a live region keeps decoding to the same
   value with the same size -- any accepted bytes, any reference-free type, any history before. *)
From Coq Require Import ZArith List Bool Lia.
Import ListNotations.
From XO Require Import ListAux Slots Chunks ChunksProofs AllocSpec AllocProofs BufOps BufOpsProofs Types Format Check LayoutProofs RoundTrip CopyBytes DecLocal ObjectsIndependent.
Open Scope Z_scope.

Lemma wr_nil m o : wr m o [] = m.
Proof. unfold wr. cbn [length app]. rewrite Nat.add_0_r. apply firstn_skipn. Qed.

Theorem construction_keeps_live_objects s s' size al o m m1 bs t off v sz r :
  SInv s -> safe_step s (OAlloc size al) (RetOff o) s' ->
  len m = s_cap s -> len m1 = s_cap s' -> agree_on m m1 0 (len m) ->      (* the buffer, possibly grown: old bytes kept *)
  len bs = size ->                                                      (* the new object's bytes, stored at o *)
  In r (s_live s) -> r_off r <= off -> off + sz <= r_off r + r_size r ->  (* an object inside a live region *)
  has_refs t = false -> dec t m off = Some (v, sz) ->
  dec t (wr m1 o bs) off = Some (v, sz).
Proof.
  intros HI Hst Lm Lm1 Hag Lbs Hr Ho1 Ho2 Hrf Hd.
  pose proof (safe_step_SInv s _ _ s' HI Hst) as HI'.
  inversion Hst as [s0 s0' size0 al0 off0 Hs0 Hal Hcap Hmod Hoff0 Hoffs Hfree Hfree' Hlive| | |]; subst.
  destruct (dec_size t m off v sz Hrf Hd) as [Hsz0 _].
  pose proof (si_ok s HI) as Hok. rewrite Forall_forall in Hok. destruct (Hok r Hr) as [R0 [R1 [R2 _]]].
  (* first the growth *)
  assert (Hd1 : dec t m1 off = Some (v, sz)).
  { apply (dec_local t m off v sz m1 Hrf Hd); [lia|]. eapply agree_sub; [exact Hag|lia|lia]. }
  (* then the store *)
  destruct bs as [|b0 bs0] eqn:Ebs; [rewrite wr_nil; exact Hd1|]. rewrite <- Ebs in *.
  assert (Lpos : 0 < len bs) by (rewrite Ebs; unfold len; cbn; lia).
  destruct (Z.eq_dec sz 0) as [->|Hnz].
  { apply (dec_local t m1 off v 0 (wr m1 o bs) Hrf Hd1).
    - assert (Hir : BufOps.in_range m1 o (Z.of_nat (length bs))) by (unfold BufOps.in_range, len in *; lia).
      unfold len. rewrite (proj1 (BufOpsProofs.write_frame m1 o bs Hir)). lia.
    - intros i Hi. lia. }
  pose proof (si_disj s' HI') as Hdj. rewrite Hlive in Hdj. cbn [pairwise_disjoint] in Hdj. destruct Hdj as [Hdj _].
  rewrite Forall_forall in Hdj. specialize (Hdj r Hr). unfold regions_disjoint in Hdj. cbn [r_off r_size] in Hdj.
  apply write_leaves_disjoint_objects; try assumption; try (unfold BufOps.in_range, len in *; lia).
Qed.

(* and the new object itself reads as what was stored, if the stored bytes are a documented image *)
Theorem constructed_object_reads_back t v img bs m1 o : has_refs t = false -> enc t v = Some img -> img = bytes bs -> len img < 2^62 ->
  BufOps.in_range m1 o (Z.of_nat (length bs)) -> dec t (wr m1 o bs) o = Some (v, len img).
Proof.
  intros Hrf He Ei Hl Hir. apply (RT_ref_free t v img (wr m1 o bs) o Hrf He); [|exact Hl]. subst img.
  destruct (BufOpsProofs.write_frame m1 o bs Hir) as [WL [_ WI]]. destruct Hir as [I0 [I1 I2]].
  split; [lia|]. split; [rewrite len_bytes; unfold len; rewrite WL; lia|].
  intros i b Hi. unfold bytes in Hi. rewrite nth_error_map in Hi. destruct (nth_error bs i) as [y|] eqn:Ey; [|discriminate]. cbn in Hi. inversion Hi; subst b.
  assert (Hil : (i < length bs)%nat) by (apply nth_error_Some; rewrite Ey; discriminate).
  pose proof (WI (o + Z.of_nat i) ltac:(lia)) as Hb. unfold BufOpsProofs.byte in Hb.
  replace (Z.to_nat (o + Z.of_nat i)) with (Z.to_nat o + i)%nat in Hb by lia. replace (Z.to_nat (o + Z.of_nat i - o)) with i in Hb by lia.
  rewrite (nth_error_nth _ _ 0 Ey) in Hb.
  assert (Hlt : (Z.to_nat o + i < length (wr m1 o bs))%nat) by (rewrite WL; lia).
  rewrite (nth_error_nth' _ 0 Hlt). f_equal. exact Hb.
Qed.
