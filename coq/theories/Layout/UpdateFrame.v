(* Byte-level frame of an assignment: the image of the object after an honoured assignment is the
   image before with the sub-image of the assigned element replaced in place, nothing else moved
   or changed (headers, offset tables, sizes, sibling elements, padding). *)
From Coq Require Import ZArith List Bool Lia.
Import ListNotations.
From XO Require Import ListAux Slots Strides Perm BufOps BufOpsProofs Types Format Check LayoutProofs RoundTrip Update UpdateProofs UpdateSize.
Open Scope Z_scope.

Definition Splice (a b img img' : list cell) : Prop := exists pre post, img = pre ++ a ++ post /\ img' = pre ++ b ++ post.

Lemma splice_here a b : Splice a b a b.
Proof. exists [], []. rewrite !app_nil_r. split; reflexivity. Qed.
Lemma splice_ctx a b x y p q : Splice a b x y -> Splice a b (p ++ x ++ q) (p ++ y ++ q).
Proof. intros [pre [post [E1 E2]]]. exists (p ++ pre), (post ++ q). subst. rewrite <- !app_assoc. split; reflexivity. Qed.
Lemma splice_left a b x y q : Splice a b x y -> Splice a b (x ++ q) (y ++ q).
Proof. intros H. apply (splice_ctx a b x y [] q H). Qed.
Lemma splice_right a b x y p : Splice a b x y -> Splice a b (p ++ x) (p ++ y).
Proof. intros H. pose proof (splice_ctx a b x y p [] H) as H'. rewrite !app_nil_r in H'. exact H'. Qed.
Lemma splice_nest a b x y img img' : Splice a b x y -> Splice x y img img' -> Splice a b img img'.
Proof. intros H [pre [post [E1 E2]]]. subst. apply splice_ctx. exact H. Qed.

Lemma padslot_splice e e' : len e = len e' -> Splice e e' (padslot e) (padslot e').
Proof. intros H. unfold padslot. rewrite H. apply splice_left. apply splice_here. Qed.

(* one element of a list replaced: concatenations *)
Lemma concat_set_splice : forall (l : list (list cell)) i x x' l', set_nth_opt l i x' = Some l' -> nth_error l i = Some x ->
  Splice x x' (concat l) (concat l').
Proof.
  induction l as [|y l IH]; intros i x x' l' Hs Hn; [destruct i; discriminate|]. destruct i as [|i]; cbn in Hs, Hn.
  - inversion Hs; inversion Hn; subst. cbn [concat]. apply splice_left. apply splice_here.
  - destruct (set_nth_opt l i x') as [r|] eqn:E; [|discriminate]. inversion Hs; subst. cbn [concat]. apply splice_right. eapply IH; eassumption.
Qed.
Lemma concat_padslot_set_splice : forall (l : list (list cell)) i x x' l', set_nth_opt l i x' = Some l' -> nth_error l i = Some x -> len x = len x' ->
  Splice x x' (concat (map padslot l)) (concat (map padslot l')).
Proof.
  induction l as [|y l IH]; intros i x x' l' Hs Hn Hl; [destruct i; discriminate|]. destruct i as [|i]; cbn in Hs, Hn.
  - inversion Hs; inversion Hn; subst. cbn [map concat]. apply splice_left. apply padslot_splice. exact Hl.
  - destruct (set_nth_opt l i x') as [r|] eqn:E; [|discriminate]. inversion Hs; subst. cbn [map concat]. apply splice_right. eapply IH; eassumption.
Qed.

(* ---- structs ---- *)
Lemma pimg_struct_splice : forall fs es i f e e' es', nth_error fs i = Some f -> set_nth_opt es i e' = Some es' -> nth_error es i = Some e -> len e = len e' ->
  if is_static f
  then Splice e e' (pimg (spairs fs es)) (pimg (spairs fs es')) /\ pimg (dpairs fs es) = pimg (dpairs fs es')
  else pimg (spairs fs es) = pimg (spairs fs es') /\ Splice e e' (pimg (dpairs fs es)) (pimg (dpairs fs es')).
Proof.
  induction fs as [|f0 fs IH]; intros es i f e e' es' Hf Hs Hn Hl; [destruct i; discriminate|].
  destruct es as [|e0 es]; [destruct i; discriminate|]. destruct i as [|i]; cbn in Hf, Hs, Hn.
  - inversion Hf; inversion Hs; inversion Hn; subst. destruct (is_static f) eqn:Es.
    + rewrite !(spairs_cons_static f _ fs _ Es), !(dpairs_cons_static f _ fs _ Es), !pimg_cons. split; [|reflexivity].
      apply splice_left. apply padslot_splice. exact Hl.
    + rewrite !(spairs_cons_dyn f _ fs _ Es), !(dpairs_cons_dyn f _ fs _ Es), !pimg_cons. split; [reflexivity|].
      apply splice_left. apply padslot_splice. exact Hl.
  - destruct (set_nth_opt es i e') as [r|] eqn:E; [|discriminate]. inversion Hs; subst es'.
    pose proof (IH es i f e e' r Hf E Hn Hl) as H. destruct (is_static f); destruct H as [A B]; destruct (is_static f0) eqn:E0;
      rewrite ?(spairs_cons_static f0 _ fs _ E0), ?(dpairs_cons_static f0 _ fs _ E0), ?(spairs_cons_dyn f0 _ fs _ E0), ?(dpairs_cons_dyn f0 _ fs _ E0), ?pimg_cons;
      (split; [first [apply splice_right; exact A | rewrite A; reflexivity | exact A] | first [apply splice_right; exact B | rewrite B; reflexivity | exact B]]).
Qed.

Definition assemble (S D : list (ty * list cell)) : list cell :=
  match D with
  | [] => pimg S
  | _ :: _ =>
    let hdr := 8 + len (pimg S) + 8 * (len D - 1) in
    bytes (enc64 (hdr + sumz (psz D))) ++ pimg S ++ words (tl (offsets_from hdr (psz D))) ++ pimg D
  end.
Lemma enc_struct_assemble fs es : enc_struct fs es = assemble (spairs fs es) (dpairs fs es).
Proof.
  unfold assemble. destruct (dpairs fs es) as [|p ps] eqn:Ed.
  - unfold enc_struct. fold (dpairs fs es). rewrite Ed.
    assert (Hs : spairs fs es = combine fs es).
    { unfold spairs, dpairs in *. revert Ed. generalize (combine fs es). induction l as [|x l IH]; [reflexivity|].
      cbn [filter]. destruct (is_static (fst x)); cbn [negb]; [|discriminate]. intros H. f_equal. apply IH. exact H. }
    rewrite Hs. reflexivity.
  - rewrite (enc_struct_dyn_eq fs es p ps Ed). cbv zeta. rewrite Ed. reflexivity.
Qed.

Lemma assemble_splice S S' D D' e e' : psz S = psz S' -> psz D = psz D' ->
  (Splice e e' (pimg S) (pimg S') /\ pimg D = pimg D') \/ (pimg S = pimg S' /\ Splice e e' (pimg D) (pimg D')) ->
  Splice e e' (assemble S D) (assemble S' D').
Proof.
  intros PA PB H.
  assert (Ld : len D = len D').
  { assert (E : length (psz D) = length (psz D')) by (rewrite PB; reflexivity). unfold psz in E. rewrite !map_length in E. unfold len. lia. }
  unfold assemble. destruct D as [|p ps]; destruct D' as [|p' ps']; try (unfold len in Ld; cbn in Ld; lia).
  - destruct H as [[A _]|[A B]]; [exact A|].
    destruct B as [pre [post [B1 B2]]]. change (pimg []) with (@nil cell) in B1, B2.
    symmetry in B1. apply app_eq_nil in B1. destruct B1 as [Bp B1]. apply app_eq_nil in B1. destruct B1 as [Be Bq]. subst pre e post.
    symmetry in B2. cbn [app] in B2. apply app_eq_nil in B2. destruct B2 as [Be' _]. subst e'.
    rewrite A. exists [], (pimg S'). split; reflexivity.
  - cbv zeta. rewrite !len_pimg, PA, PB, Ld. destruct H as [[A B]|[A B]].
    + rewrite B. apply splice_right. apply splice_left. exact A.
    + rewrite A. apply splice_right. apply splice_right. apply splice_right. exact B.
Qed.

Lemma enc_struct_splice fs es i f e e' es' : nth_error fs i = Some f -> set_nth_opt es i e' = Some es' -> nth_error es i = Some e -> len e = len e' ->
  Splice e e' (enc_struct fs es) (enc_struct fs es').
Proof.
  intros Hf Hs Hn Hl. pose proof (same_lens_set es i e e' es' Hs Hn Hl) as Hsl.
  destruct (spairs_psz_cong fs es es' Hsl) as [PA PB].
  pose proof (pimg_struct_splice fs es i f e e' es' Hf Hs Hn Hl) as H.
  rewrite !enc_struct_assemble. apply assemble_splice; [exact PA|exact PB|].
  destruct (is_static f); [left|right]; exact H.
Qed.

(* ---- arrays ---- *)
Lemma set_nth_opt_nth {A} (d : A) : forall (l : list A) i x l', set_nth_opt l i x = Some l' ->
  forall k, nth k l' d = if Nat.eqb k i then x else nth k l d.
Proof.
  induction l as [|a l IH]; intros i x l' H k; [destruct i; discriminate|]. destruct i as [|i]; cbn in H.
  - inversion H; subst. destruct k; reflexivity.
  - destruct (set_nth_opt l i x) as [r|] eqn:E; [|discriminate]. inversion H; subst. destruct k as [|k]; [reflexivity|]. cbn [nth]. rewrite (IH i x r E k). reflexivity.
Qed.
Lemma set_nth_opt_exists {A} : forall (l : list A) i x, (i < length l)%nat -> exists l', set_nth_opt l i x = Some l'.
Proof.
  induction l as [|a l IH]; intros i x H; [cbn in H; lia|]. destruct i as [|i]; [eexists; reflexivity|].
  destruct (IH i x ltac:(cbn in H; lia)) as [r E]. exists (a :: r). cbn. rewrite E. reflexivity.
Qed.
Lemma list_ext_nth_gen {A} (d : A) : forall (a b : list A), length a = length b -> (forall k, (k < length a)%nat -> nth k a d = nth k b d) -> a = b.
Proof.
  induction a as [|x a IH]; intros [|y b] L H; cbn in L; try discriminate; [reflexivity|].
  f_equal; [apply (H O); cbn; lia|]. apply IH; [lia|]. intros k Hk. apply (H (S k)). cbn. lia.
Qed.
Lemma set_nth_opt_char {A} (d : A) (l l' : list A) i x : (i < length l)%nat -> length l' = length l ->
  (forall k, (k < length l)%nat -> nth k l' d = if Nat.eqb k i then x else nth k l d) -> set_nth_opt l i x = Some l'.
Proof.
  intros Hi Hl H. destruct (set_nth_opt_exists l i x Hi) as [r E]. rewrite E. f_equal.
  apply (list_ext_nth_gen d); [rewrite (set_nth_opt_length _ _ _ _ E); congruence|].
  intros k Hk. rewrite (set_nth_opt_nth d l i x r E k). symmetry. apply H. rewrite <- (set_nth_opt_length _ _ _ _ E). exact Hk.
Qed.


Lemma lom_injective_at shape sh order c k : shape_ok shape sh = true -> perm_ok order (length shape) = true ->
  0 <= c < prod sh -> 0 <= k < prod sh -> logical_of_mem sh order k = c -> k = Perm.mem_pos sh order (unpos sh c).
Proof.
  intros Gs Gp Hc Hk E. destruct (perm_ok_is_perm _ _ Gp) as [P1 P2]. pose proof (shape_ok_length _ _ Gs) as Hl.
  pose proof (pos_shape_of_prod sh (shape_ok_nonneg _ _ Gs) ltac:(lia)) as Hps.
  destruct (Perm.mem_pos_logical sh order k P1 ltac:(lia) Hps Hk) as [A B].
  rewrite logical_of_mem_eq in E. rewrite <- E. rewrite (unpos_pos sh _ Hps A). symmetry. exact B.
Qed.

Lemma es_mem_set shape sh order es es' c e e' : shape_ok shape sh = true -> perm_ok order (length shape) = true ->
  length es = Z.to_nat (prod sh) -> set_nth_opt es c e' = Some es' -> nth_error es c = Some e ->
  exists p0, set_nth_opt (es_mem_of sh order es) p0 e' = Some (es_mem_of sh order es') /\ nth_error (es_mem_of sh order es) p0 = Some e.
Proof.
  intros Gs Gp Hlen Hs Hn.
  assert (Hc : (c < length es)%nat) by (apply nth_error_Some; rewrite Hn; discriminate).
  pose proof (prod_nonneg sh (shape_ok_nonneg _ _ Gs)) as Hpn.
  destruct (lom_of_idx shape sh order (Z.of_nat c) Gs Gp ltac:(lia)) as [Hmp [Hlom _]]. cbv zeta in Hmp, Hlom.
  set (mp := Perm.mem_pos sh order (unpos sh (Z.of_nat c))) in *.
  assert (Lm : forall X, length (es_mem_of sh order X) = Z.to_nat (prod sh)) by (intros X; unfold es_mem_of, mem_positions; rewrite !map_length, seq_length; reflexivity).
  assert (Nm : forall X k, (k < Z.to_nat (prod sh))%nat -> nth k (es_mem_of sh order X) [] = nth (Z.to_nat (logical_of_mem sh order (Z.of_nat k))) X []).
  { intros X k Hk. unfold es_mem_of. rewrite (map_nth_in _ _ _ [] 0) by (unfold mem_positions; rewrite map_length, seq_length; exact Hk).
    rewrite nth_mem_positions by exact Hk. reflexivity. }
  exists (Z.to_nat mp). split.
  - apply (set_nth_opt_char []); [rewrite Lm; lia|rewrite !Lm; reflexivity|].
    intros k Hk. rewrite Lm in Hk. rewrite !Nm by exact Hk. rewrite (set_nth_opt_nth [] es c e' es' Hs).
    destruct (Nat.eqb (Z.to_nat (logical_of_mem sh order (Z.of_nat k))) c) eqn:E1; destruct (Nat.eqb k (Z.to_nat mp)) eqn:E2; try reflexivity.
    + apply Nat.eqb_eq in E1. apply Nat.eqb_neq in E2. exfalso. apply E2.
      pose proof (lom_range shape sh order (Z.of_nat k) Gs Gp ltac:(lia)) as Hr.
      assert (Ek : Z.of_nat k = mp) by (apply (lom_injective_at shape sh order (Z.of_nat c) (Z.of_nat k) Gs Gp); lia). lia.
    + apply Nat.eqb_eq in E2. apply Nat.eqb_neq in E1. exfalso. apply E1. subst k. rewrite Z2Nat.id by lia. rewrite Hlom. lia.
  - rewrite (nth_error_nth' _ []) by (rewrite Lm; lia). rewrite Nm by lia. rewrite Z2Nat.id by lia. rewrite Hlom, Nat2Z.id.
    f_equal. apply nth_error_nth. exact Hn.
Qed.

Lemma padto_splice a b x y k : len x = len y -> Splice a b x y -> Splice a b (padto x k) (padto y k).
Proof. intros Hl H. unfold padto. rewrite Hl. apply splice_left. exact H. Qed.

Lemma enc_array_splice item shape order sh es es' c e e' : shape_ok shape sh = true -> perm_ok order (length shape) = true ->
  length es = Z.to_nat (prod sh) -> set_nth_opt es c e' = Some es' -> nth_error es c = Some e -> len e = len e' ->
  Splice e e' (enc_array item shape order sh es) (enc_array item shape order sh es').
Proof.
  intros Gs Gp Hlen Hs Hn Hl.
  destruct (es_mem_set shape sh order es es' c e e' Gs Gp Hlen Hs Hn) as [p0 [Hset Hnth]].
  pose proof (same_lens_set _ _ _ _ _ Hset Hnth Hl) as Hsl.
  unfold enc_array. fold (es_mem_of sh order es). fold (es_mem_of sh order es').
  set (em := es_mem_of sh order es) in *. set (em' := es_mem_of sh order es') in *.
  destruct (is_static item).
  - rewrite (same_lens_concat em em' Hsl). apply splice_right. apply padto_splice; [apply same_lens_concat; exact Hsl|].
    eapply concat_set_splice; eassumption.
  - fold (szs em). fold (szs em'). rewrite (same_lens_szs em em' Hsl).
    apply splice_right. apply splice_right. apply splice_right. apply splice_right.
    apply padto_splice; [rewrite !len_concat_padslot, (same_lens_szs em em' Hsl); reflexivity|].
    eapply concat_padslot_set_splice; eassumption.
Qed.

(* ---- along an access path ---- *)
Lemma seqopt_length {A} : forall (l : list (option A)) r, seqopt l = Some r -> length r = length l.
Proof.
  induction l as [|[a|] l IH]; intros r H; cbn in H; try discriminate; [inversion H; reflexivity|].
  destruct (seqopt l) as [r'|]; [|discriminate]. inversion H; subst. cbn. rewrite (IH r' eq_refl). reflexivity.
Qed.

Lemma vset_frame : forall p t v old x' v' st b img,
  vget v p = Some old -> sub_ty t p = Some st -> enc st x' = Some b ->
  (forall a, enc st old = Some a -> len a = len b) ->
  vset v p x' = Some v' -> enc t v = Some img ->
  exists a img', enc st old = Some a /\ enc t v' = Some img' /\ Splice a b img img'.
Proof.
  induction p as [|s r IH]; intros t v old x' v' st b img Hg Ht Hb Hlen Hs He.
  - cbn in Hg, Ht, Hs. inversion Hg; inversion Ht; inversion Hs; subst. exists img, b. split; [exact He|]. split; [exact Hb|apply splice_here].
  - cbn [vget vset] in Hg, Hs. destruct (children v s) as [cs|] eqn:Ec; [|discriminate].
    destruct (nth_error cs (step_idx s)) as [oldc|] eqn:En; [|discriminate].
    destruct (vset oldc r x') as [newc|] eqn:Ev; [|discriminate].
    destruct (set_nth_opt cs (step_idx s) newc) as [cs'|] eqn:Esn; [|discriminate]. inversion Hs; subst v'. clear Hs.
    destruct s as [i|c]; cbn [sub_ty] in Ht.
    + destruct t as [| |fs| | |]; try discriminate. destruct (nth_error fs i) as [f|] eqn:Ef; [|discriminate].
      destruct v as [| |vs| | | |]; try discriminate. cbn in Ec. inversion Ec; subst cs. cbn [step_idx rebuild] in *.
      rewrite enc_struct_eq in He. destruct (enc_list fs vs) as [es|] eqn:Eel; [|discriminate]. inversion He; subst img. clear He.
      destruct (enc_list_nth fs vs es i f oldc Eel Ef En) as [ec [Hec Eoc]].
      destruct (IH f oldc old x' newc st b ec Hg Ht Hb Hlen Ev Eoc) as [a [ec' [Ea [Enc Hsp]]]].
      destruct (enc_list_set fs vs es i f newc cs' ec' Eel Ef Esn Enc) as [es' [Ees' Hset]].
      assert (Hl : len ec = len ec').
      { destruct Hsp as [pre [post [E1 E2]]]. subst. rewrite !len_app. rewrite (Hlen a Ea). reflexivity. }
      exists a, (enc_struct fs es'). split; [exact Ea|]. split; [rewrite enc_struct_eq, Ees'; reflexivity|].
      eapply splice_nest; [exact Hsp|]. eapply enc_struct_splice; eassumption.
    + destruct t as [| | |item shape order| |]; try discriminate.
      destruct v as [| | |sh vs| | |]; try discriminate. cbn in Ec. inversion Ec; subst cs. cbn [step_idx rebuild] in *.
      cbn [enc] in He |- *.
      destruct (shape_ok shape sh && perm_ok order (length shape) && (len vs =? prod sh) && words_fit item shape order sh) eqn:G; [|discriminate].
      destruct (seqopt (map (enc item) vs)) as [es|] eqn:Eel; [|discriminate]. inversion He; subst img. clear He.
      destruct (seqopt_enc_nth item vs es c oldc Eel En) as [ec [Hec Eoc]].
      destruct (IH item oldc old x' newc st b ec Hg Ht Hb Hlen Ev Eoc) as [a [ec' [Ea [Enc Hsp]]]].
      destruct (seqopt_enc_set item vs es c newc cs' ec' Eel Esn Enc) as [es' [Ees' Hset]].
      assert (Hl : len ec = len ec').
      { destruct Hsp as [pre [post [E1 E2]]]. subst. rewrite !len_app. rewrite (Hlen a Ea). reflexivity. }
      assert (Hlv : len cs' = len vs) by (unfold len; rewrite (set_nth_opt_length _ _ _ _ Esn); reflexivity).
      exists a, (enc_array item shape order sh es'). split; [exact Ea|]. split; [rewrite Hlv, G, Ees'; reflexivity|].
      eapply splice_nest; [exact Hsp|].
      apply andb_prop in G. destruct G as [G _]. apply andb_prop in G. destruct G as [G Gn]. apply andb_prop in G. destruct G as [Gs Gp]. apply Z.eqb_eq in Gn.
      eapply enc_array_splice; try eassumption.
      pose proof (seqopt_length _ _ Eel) as L. rewrite map_length in L. unfold len in Gn. lia.
Qed.

(* THE THEOREM (byte-level frame of an assignment): an assignment the model honours changes the
   documented image of the object only inside the sub-image of the assigned element: the image after
   is the image before with that sub-image (of unchanged length) replaced; every header word, offset
   table, size, padding cell and every other element stays exactly where and what it was. *)
Theorem assign_frame t v p x v' img :
  assign t v p x = Some v' -> enc t v = Some img ->
  exists st old x' a b img', vget v p = Some old /\ sub_ty t p = Some st /\ retag old x = Some x' /\
    enc st old = Some a /\ enc st x' = Some b /\ len a = len b /\ enc t v' = Some img' /\ Splice a b img img'.
Proof.
  unfold assign. intros Ha He. destruct (vget v p) as [old|] eqn:Eg; [|discriminate]. destruct (sub_ty t p) as [st|] eqn:Et; [|discriminate].
  destruct (retag old x) as [x'|] eqn:Er; [|discriminate]. destruct (enc st x') as [b|] eqn:Eb; [|discriminate].
  destruct (vset_frame p t v old x' v' st b img Eg Et Eb) as [a [img' [Ea [Ei Hsp]]]]; try assumption.
  { intros a Ea. exact (keeps_len_all st old x x' a b Er Ea Eb). }
  exists st, old, x', a, b, img'. repeat split; try assumption. exact (keeps_len_all st old x x' a b Er Ea Eb).
Qed.

(* the same for the exact copy of an object-valued new value *)
Theorem assign_exact_frame t v p x v' img :
  assign_exact t v p x = Some v' -> enc t v = Some img ->
  exists st old a b img', vget v p = Some old /\ sub_ty t p = Some st /\
    enc st old = Some a /\ enc st x = Some b /\ len a = len b /\ enc t v' = Some img' /\ Splice a b img img'.
Proof.
  unfold assign_exact. intros Ha He. destruct (vget v p) as [old|] eqn:Eg; [|discriminate]. destruct (sub_ty t p) as [st|] eqn:Et; [|discriminate].
  destruct (retag old x) as [x'|] eqn:Er; [|discriminate]. destruct (enc st old) as [a|] eqn:Ea; [|discriminate]. destruct (enc st x) as [b|] eqn:Eb; [|discriminate].
  destruct (len a =? len b) eqn:El; [|discriminate]. apply Z.eqb_eq in El.
  destruct (vset_frame p t v old x v' st b img Eg Et Eb) as [a0 [img' [Ea0 [Ei Hsp]]]]; try assumption.
  { intros a1 Ea1. congruence. }
  assert (a0 = a) by congruence. subst a0.
  exists st, old, a, b, img'. repeat split; assumption.
Qed.
Corollary splice_same_length a b img img' : len a = len b -> Splice a b img img' -> len img = len img'.
Proof. intros H [pre [post [E1 E2]]]. subst. rewrite !len_app, H. reflexivity. Qed.
