(* The undo logic of Struct._update / Array._update (xobjects/struct.py, xobjects/array.py), the code path that
   assigns a compound value part by part:

       backup = self._buffer.to_bytearray(self._offset, self._size)
       try:
           for part in parts: part <- value[part]        # each one writes inside the object or raises
       except Exception:
           self._buffer.update_from_buffer(self._offset, backup)
           raise

   modelled on byte lists with a refusal possible at EVERY position of the part list ("crash point").
   Theorem: whatever was written before the refusal, the buffer ends exactly as it was (every byte, inside and
   outside the object); without a refusal it is the result of all writes, and bytes outside the object are
   untouched in either case. *)
From Coq Require Import ZArith List Bool Lia.
Import ListNotations.
From XO Require Import BufOps BufOpsProofs.
Open Scope Z_scope.

Inductive part_write := PW (off : Z) (bs : list Z) | PRefuse.

Fixpoint run_parts (m : mem) (ws : list part_write) : mem * bool :=
  match ws with
  | [] => (m, true)
  | PW o bs :: tl => run_parts (wr m o bs) tl
  | PRefuse :: _ => (m, false)
  end.

Definition update_with_rollback (m : mem) (off size : Z) (ws : list part_write) : mem * bool :=
  let backup := rd m off size in
  let r := run_parts m ws in
  if snd r then (fst r, true) else (wr (fst r) off backup, false).

(* every part writes inside the object *)
Definition inside (off size : Z) (w : part_write) : Prop :=
  match w with PW o bs => off <= o /\ o + Z.of_nat (length bs) <= off + size | PRefuse => True end.

Definition same_outside (m m' : mem) (off size : Z) : Prop :=
  length m' = length m /\ forall i, 0 <= i -> (i < off \/ off + size <= i) -> byte m' i = byte m i.

Lemma run_parts_outside : forall ws m off size, in_range m off size -> Forall (inside off size) ws ->
  same_outside m (fst (run_parts m ws)) off size.
Proof.
  induction ws as [|w ws IH]; intros m off size Hr Hf; cbn [run_parts].
  - split; [reflexivity|]. intros; reflexivity.
  - inversion Hf as [|? ? Hw Hws]; subst. destruct w as [o bs|]; cbn [fst].
    + cbn in Hw. destruct Hw as [W0 W1].
      assert (Hir : in_range m o (Z.of_nat (length bs))) by (unfold in_range in *; lia).
      destruct (write_frame m o bs Hir) as [WL [WO _]].
      assert (Hr' : in_range (wr m o bs) off size) by (unfold in_range in *; rewrite WL; lia).
      destruct (IH (wr m o bs) off size Hr' Hws) as [L A]. split; [congruence|].
      intros i Hi Hout. rewrite (A i Hi Hout). apply WO; [exact Hi|lia].
    + split; [reflexivity|]. intros; reflexivity.
Qed.

Lemma nth_ext0 (a b : list Z) : length a = length b -> (forall i, 0 <= i < Z.of_nat (length a) -> byte a i = byte b i) -> a = b.
Proof.
  intros Hl H. apply (nth_ext a b 0 0 Hl). intros n Hn. specialize (H (Z.of_nat n) ltac:(lia)). unfold byte in H. rewrite Nat2Z.id in H. exact H.
Qed.

(* putting the saved bytes back restores the buffer, provided only the object's extent was touched *)
Lemma restore_backup m m1 off size : in_range m off size -> same_outside m m1 off size -> wr m1 off (rd m off size) = m.
Proof.
  intros Hr [L A].
  assert (Hbl : length (rd m off size) = Z.to_nat size) by (apply rd_length; exact Hr).
  assert (Hir : in_range m1 off (Z.of_nat (length (rd m off size)))) by (unfold in_range in *; rewrite Hbl, L; lia).
  destruct (write_frame m1 off (rd m off size) Hir) as [WL [WO WI]].
  apply nth_ext0; [congruence|]. intros i Hi. rewrite WL, L in Hi.
  destruct (Z_lt_dec i off) as [H1|H1]; [rewrite WO by lia; apply A; lia|].
  destruct (Z_le_dec (off + size) i) as [H2|H2]; [rewrite WO by (rewrite ?Hbl; lia); apply A; lia|].
  rewrite WI by (rewrite Hbl; lia). rewrite byte_rd by (try exact Hr; lia). f_equal. lia.
Qed.

(* ALL OR NOTHING, for every list of parts and a refusal at any position *)
Theorem rollback_all_or_nothing m off size ws : in_range m off size -> Forall (inside off size) ws ->
  let r := update_with_rollback m off size ws in
  same_outside m (fst r) off size /\
  (snd r = false -> fst r = m) /\
  (snd r = true -> fst r = fst (run_parts m ws) /\ ~ In PRefuse ws).
Proof.
  intros Hr Hf. unfold update_with_rollback. pose proof (run_parts_outside ws m off size Hr Hf) as Ho.
  destruct (snd (run_parts m ws)) eqn:Ok; cbn [fst snd].
  - split; [exact Ho|]. split; [discriminate|]. intros _. split; [reflexivity|].
    clear Ho Hr Hf. revert m Ok. induction ws as [|w ws IH]; intros m Ok; [intros []|].
    destruct w as [o bs|]; cbn [run_parts] in Ok; [|discriminate]. intros [E|E]; [discriminate|]. exact (IH _ Ok E).
  - rewrite (restore_backup m _ off size Hr Ho). split; [|split; [reflexivity|discriminate]].
    split; [reflexivity|]. intros; reflexivity.
Qed.

(* a refusal really is reachable at every position: for any prefix of honoured parts followed by a refusal the
   update reports failure (so the theorem above is about every "crash point", not an empty set) *)
Lemma refusal_at_any_position m off size pre post : Forall (fun w => w <> PRefuse) pre ->
  snd (update_with_rollback m off size (pre ++ PRefuse :: post)) = false.
Proof.
  intros Hp. unfold update_with_rollback.
  assert (H : snd (run_parts m (pre ++ PRefuse :: post)) = false).
  { revert m. induction pre as [|w pre IH]; intros m; [reflexivity|]. inversion Hp; subst. destruct w as [o bs|]; [|congruence]. cbn [app run_parts]. apply IH. assumption. }
  rewrite H. reflexivity.
Qed.

Example rollback_nonvacuous :
  let m := [1;2;3;4;5;6;7;8;9;10] in
  update_with_rollback m 2 6 [PW 2 [20;21]; PW 5 [30]; PRefuse; PW 6 [40]] = (m, false) /\
  update_with_rollback m 2 6 [PW 2 [20;21]; PW 5 [30]; PW 6 [40]] = ([1;2;20;21;5;30;40;8;9;10], true).
Proof. split; vm_compute; reflexivity. Qed.
