(* Assignment keeps the extent: replacing an element by a value that takes over the capacities
   fixed at creation (retag) never changes the length of the object's documented image. *)
From Coq Require Import ZArith List Bool Lia.
Import ListNotations.
From XO Require Import ListAux Slots Strides Perm BufOps BufOpsProofs Types Format Check LayoutProofs RoundTrip Update UpdateProofs.
Open Scope Z_scope.

Definition same_lens (es es' : list (list cell)) : Prop := Forall2 (fun e e' => len e = len e') es es'.

Lemma same_lens_length es es' : same_lens es es' -> length es = length es'.
Proof. induction 1; cbn; congruence. Qed.
Lemma same_lens_nth es es' : same_lens es es' -> forall k, len (nth k es []) = len (nth k es' []).
Proof. induction 1 as [|e e' es es' He Hes IH]; intros [|k]; cbn [nth]; auto. Qed.

Lemma spairs_psz_cong : forall fs es es', same_lens es es' -> psz (spairs fs es) = psz (spairs fs es') /\ psz (dpairs fs es) = psz (dpairs fs es').
Proof.
  induction fs as [|f fs IH]; intros es es' H; [split; reflexivity|].
  destruct H as [|e e' es es' He Hes]; [split; reflexivity|].
  destruct (IH es es' Hes) as [A B]. destruct (is_static f) eqn:Es.
  - rewrite !(spairs_cons_static f _ fs _ Es), !(dpairs_cons_static f _ fs _ Es), !psz_cons, He, A. split; [reflexivity|exact B].
  - rewrite !(spairs_cons_dyn f _ fs _ Es), !(dpairs_cons_dyn f _ fs _ Es), !psz_cons, He, B. split; [exact A|reflexivity].
Qed.

Lemma len_enc_struct fs es :
  len (enc_struct fs es) =
  match dpairs fs es with
  | [] => sumz (psz (spairs fs es))
  | _ :: _ => 8 + sumz (psz (spairs fs es)) + 8 * (len (dpairs fs es) - 1) + sumz (psz (dpairs fs es))
  end.
Proof.
  destruct (dpairs fs es) as [|p ps] eqn:Ed.
  - unfold enc_struct. fold (dpairs fs es). rewrite Ed.
    assert (Hs : spairs fs es = combine fs es).
    { unfold spairs, dpairs in *. revert Ed. generalize (combine fs es). induction l as [|x l IH]; [reflexivity|].
      cbn [filter]. destruct (is_static (fst x)); cbn [negb]; [|discriminate]. intros H. f_equal. apply IH. exact H. }
    rewrite <- Hs. apply (len_pimg (spairs fs es)).
  - rewrite (enc_struct_dyn_eq fs es p ps Ed). cbv zeta. rewrite <- Ed.
    rewrite !len_app, len_bytes, !len_pimg, len_words.
    assert (L8 : forall x, len (enc64 x) = 8) by (intros x; unfold len; rewrite enc64_length; reflexivity). rewrite L8.
    assert (Lo : len (tl (offsets_from (8 + sumz (psz (spairs fs es)) + 8 * (len (dpairs fs es) - 1)) (psz (dpairs fs es)))) = len (dpairs fs es) - 1).
    { generalize (8 + sumz (psz (spairs fs es)) + 8 * (len (dpairs fs es) - 1)). intros h.
      assert (E : length (offsets_from h (psz (dpairs fs es))) = length (dpairs fs es)) by (rewrite offsets_from_length; unfold psz; apply map_length).
      rewrite Ed in *. unfold len. revert E. generalize (offsets_from h (psz (p :: ps))). intros [|o os] E; cbn [tl length] in E |- *; lia. }
    rewrite Lo. lia.
Qed.

Lemma len_enc_struct_cong fs es es' : same_lens es es' -> len (enc_struct fs es) = len (enc_struct fs es').
Proof.
  intros H. rewrite !len_enc_struct. destruct (spairs_psz_cong fs es es' H) as [A B].
  assert (Ld : len (dpairs fs es) = len (dpairs fs es')).
  { assert (E : length (psz (dpairs fs es)) = length (psz (dpairs fs es'))) by (rewrite B; reflexivity). unfold psz in E. rewrite !map_length in E. unfold len. lia. }
  destruct (dpairs fs es) as [|p ps] eqn:E1; destruct (dpairs fs es') as [|p' ps'] eqn:E2; try (cbn in Ld; unfold len in Ld; cbn in Ld; lia).
  - rewrite A. reflexivity.
  - rewrite A, B, Ld. reflexivity.
Qed.

Lemma len_padto (l : list cell) k : len (padto l k) = Z.max (len l) k.
Proof.
  unfold padto, pad. rewrite len_app. pose proof (len_nonneg l).
  destruct (Z_le_gt_dec (len l) k) as [Hle|Hgt].
  - rewrite len_repeat by lia. lia.
  - replace (Z.to_nat (k - len l)) with O by lia. cbn [repeat]. unfold len at 2. cbn [length]. lia.
Qed.

Lemma es_mem_same_lens sh order es es' : same_lens es es' ->
  same_lens (map (fun p => nth (Z.to_nat (logical_of_mem sh order p)) es []) (mem_positions sh))
            (map (fun p => nth (Z.to_nat (logical_of_mem sh order p)) es' []) (mem_positions sh)).
Proof.
  intros H. unfold same_lens. induction (mem_positions sh) as [|p l IH]; [constructor|].
  cbn [map]. constructor; [apply same_lens_nth; exact H|exact IH].
Qed.
Lemma same_lens_concat es es' : same_lens es es' -> len (concat es) = len (concat es').
Proof. induction 1 as [|e e' es es' He Hes IH]; [reflexivity|]. cbn [concat]. rewrite !len_app, He, IH. reflexivity. Qed.
Lemma same_lens_szs es es' : same_lens es es' -> szs es = szs es'.
Proof. induction 1 as [|e e' es es' He Hes IH]; [reflexivity|]. rewrite !szs_cons, He, IH. reflexivity. Qed.

Lemma len_enc_array_cong item shape order sh es es' : same_lens es es' ->
  len (enc_array item shape order sh es) = len (enc_array item shape order sh es').
Proof.
  intros H. pose proof (es_mem_same_lens sh order es es' H) as Hm.
  assert (L8 : forall x, len (bytes (enc64 x)) = 8) by (intros x; rewrite len_bytes; unfold len; rewrite enc64_length; reflexivity).
  unfold enc_array.
  set (em := map (fun p => nth (Z.to_nat (logical_of_mem sh order p)) es []) (mem_positions sh)) in *.
  set (em' := map (fun p => nth (Z.to_nat (logical_of_mem sh order p)) es' []) (mem_positions sh)) in *.
  destruct (is_static item).
  - rewrite !len_app, !len_padto, (same_lens_concat em em' Hm).
    destruct (ndyn shape =? 0); [reflexivity|]. rewrite !len_app, !L8. reflexivity.
  - fold (szs em). fold (szs em'). rewrite (same_lens_szs em em' Hm).
    rewrite !len_app, !L8, !len_padto, !len_concat_padslot, (same_lens_szs em em' Hm). reflexivity.
Qed.

Definition retag_list : list val -> list val -> option (list val) :=
  fix go (os ns : list val) : option (list val) :=
    match os, ns with
    | [], [] => Some []
    | o :: os', n :: ns' => match retag o n, go os' ns' with Some x, Some r => Some (x :: r) | _, _ => None end
    | _, _ => None
    end.
Lemma retag_struct_eq os ns : retag (VStruct os) (VStruct ns) = match retag_list os ns with Some r => Some (VStruct r) | None => None end.
Proof. reflexivity. Qed.
Lemma retag_array_eq sh os sh' ns : retag (VArr sh os) (VArr sh' ns) =
  if list_eqbZ sh sh' then match retag_list os ns with Some r => Some (VArr sh r) | None => None end else None.
Proof. reflexivity. Qed.

Definition KeepsLen (t : ty) : Prop := forall old x x' a b,
  retag old x = Some x' -> enc t old = Some a -> enc t x' = Some b -> len a = len b.

Lemma keeps_len_fields : forall fs, Forall KeepsLen fs -> forall os ns r ea eb,
  retag_list os ns = Some r -> enc_list fs os = Some ea -> enc_list fs r = Some eb -> same_lens ea eb.
Proof.
  induction fs as [|f fs IH]; intros HF os ns r ea eb Hr Ha Hb.
  - destruct os; cbn in Ha; [|discriminate]. destruct r; cbn in Hb; [|discriminate]. inversion Ha; inversion Hb; subst. constructor.
  - destruct os as [|o os]; cbn in Ha; [discriminate|]. destruct r as [|x' r]; cbn in Hb; [discriminate|].
    destruct ns as [|n ns]; cbn in Hr; [discriminate|].
    destruct (retag o n) as [y|] eqn:Ry; [|discriminate]. destruct (retag_list os ns) as [r0|] eqn:Rl; [|discriminate]. inversion Hr; subst y r0. clear Hr.
    destruct (enc f o) as [a|] eqn:Ea; [|discriminate]. destruct (enc_list fs os) as [ea'|] eqn:Ela; [|discriminate]. inversion Ha; subst ea. clear Ha.
    destruct (enc f x') as [b|] eqn:Eb; [|discriminate]. destruct (enc_list fs r) as [eb'|] eqn:Elb; [|discriminate]. inversion Hb; subst eb. clear Hb.
    inversion HF as [|? ? Hf HFt]; subst. constructor; [eapply Hf; eassumption|]. eapply IH; eassumption.
Qed.
Lemma keeps_len_items item : KeepsLen item -> forall os ns r ea eb,
  retag_list os ns = Some r -> seqopt (map (enc item) os) = Some ea -> seqopt (map (enc item) r) = Some eb -> same_lens ea eb.
Proof.
  intros Hk. induction os as [|o os IH]; intros ns r ea eb Hr Ha Hb.
  - destruct ns; cbn in Hr; [|discriminate]. inversion Hr; subst r. cbn in Ha, Hb. inversion Ha; inversion Hb; subst. constructor.
  - destruct ns as [|n ns]; cbn in Hr; [discriminate|].
    destruct (retag o n) as [y|] eqn:Ry; [|discriminate]. destruct (retag_list os ns) as [r0|] eqn:Rl; [|discriminate]. inversion Hr; subst r. clear Hr.
    cbn [map seqopt] in Ha, Hb.
    destruct (enc item o) as [a|] eqn:Ea; [|discriminate]. destruct (seqopt (map (enc item) os)) as [ea'|] eqn:Ela; [|discriminate]. inversion Ha; subst ea. clear Ha.
    destruct (enc item y) as [b|] eqn:Eb; [|discriminate]. destruct (seqopt (map (enc item) r0)) as [eb'|] eqn:Elb; [|discriminate]. inversion Hb; subst eb. clear Hb.
    constructor; [eapply Hk; eassumption|]. eapply IH; [exact Rl|reflexivity|exact Elb].
Qed.

Lemma list_eqbZ_eq : forall a b, list_eqbZ a b = true -> a = b.
Proof. induction a as [|x a IH]; intros [|y b] H; cbn in H; try discriminate; [reflexivity|]. apply andb_prop in H. destruct H as [A B]. apply Z.eqb_eq in A. subst. f_equal. apply IH. exact B. Qed.

Theorem keeps_len_all : forall t, KeepsLen t.
Proof.
  apply ty_ind'.
  - intros k old x x' a b Hr Ha Hb. destruct old; try discriminate. destruct x'; try discriminate. cbn in Ha, Hb.
    destruct (len bytes =? ssize k) eqn:E1; [|discriminate]. destruct (len bytes0 =? ssize k) eqn:E2; [|discriminate].
    inversion Ha; inversion Hb; subst. rewrite !len_bytes. lia.
  - intros old x x' a b Hr Ha Hb. destruct old as [|bs sz| | | | |]; try discriminate. destruct x as [|bs' sz'| | | | |]; try discriminate.
    cbn in Hr. inversion Hr; subst x'. clear Hr. cbn [enc] in Ha, Hb.
    destruct ((8 + len bs + 1 <=? sz) && _) eqn:E1; [|discriminate]. destruct ((8 + len bs' + 1 <=? sz) && _) eqn:E2; [|discriminate].
    apply andb_prop in E1. destruct E1 as [E1 _]. apply andb_prop in E2. destruct E2 as [E2 _]. apply Z.leb_le in E1. apply Z.leb_le in E2.
    assert (Ea : a = bytes (enc64 sz) ++ bytes bs ++ bytes (repeat 0 (Z.to_nat (sz - 8 - len bs)))) by congruence.
    assert (Eb : b = bytes (enc64 sz) ++ bytes bs' ++ bytes (repeat 0 (Z.to_nat (sz - 8 - len bs')))) by congruence.
    subst a b. clear Ha Hb. rewrite !len_app, !len_bytes.
    assert (L8 : len (enc64 sz) = 8) by (unfold len; rewrite enc64_length; reflexivity). rewrite L8.
    pose proof (len_nonneg bs). pose proof (len_nonneg bs'). rewrite !len_repeat by lia. lia.
  - intros fs HF old x x' a b Hr Ha Hb. destruct old as [| |os| | | |]; try discriminate. destruct x as [| |ns| | | |]; try discriminate.
    rewrite retag_struct_eq in Hr. destruct (retag_list os ns) as [r|] eqn:Rl; [|discriminate]. inversion Hr; subst x'. clear Hr.
    rewrite enc_struct_eq in Ha, Hb. destruct (enc_list fs os) as [ea|] eqn:Ea; [|discriminate]. destruct (enc_list fs r) as [eb|] eqn:Eb; [|discriminate].
    inversion Ha; inversion Hb; subst. apply len_enc_struct_cong. eapply keeps_len_fields; eassumption.
  - intros item shape order Hk old x x' a b Hr Ha Hb. destruct old as [| | |sh os| | |]; try discriminate. destruct x as [| | |sh' ns| | |]; try discriminate.
    rewrite retag_array_eq in Hr. destruct (list_eqbZ sh sh') eqn:Es; [|discriminate].
    destruct (retag_list os ns) as [r|] eqn:Rl; [|discriminate]. inversion Hr; subst x'. clear Hr.
    cbn [enc] in Ha, Hb.
    destruct (shape_ok shape sh && perm_ok order (length shape) && (len os =? prod sh) && words_fit item shape order sh); [|discriminate].
    destruct (shape_ok shape sh && perm_ok order (length shape) && (len r =? prod sh) && words_fit item shape order sh); [|discriminate].
    destruct (seqopt (map (enc item) os)) as [ea|] eqn:Ea; [|discriminate]. destruct (seqopt (map (enc item) r)) as [eb|] eqn:Eb; [|discriminate].
    inversion Ha; inversion Hb; subst. apply len_enc_array_cong. eapply keeps_len_items; eassumption.
  - intros t _ old x x' a b Hr Ha. destruct old; discriminate.
  - intros ms _ old x x' a b Hr Ha. destruct old; discriminate.
Qed.

(* ---- replacing one element of a list of encodable values ---- *)
Lemma enc_list_nth : forall fs vs es i f vc, enc_list fs vs = Some es -> nth_error fs i = Some f -> nth_error vs i = Some vc ->
  exists ec, nth_error es i = Some ec /\ enc f vc = Some ec.
Proof.
  induction fs as [|f0 fs IH]; intros vs es i f vc He Hf Hv; [destruct i; discriminate|].
  destruct vs as [|v0 vs]; cbn in He; [discriminate|].
  destruct (enc f0 v0) as [e0|] eqn:E0; [|discriminate]. destruct (enc_list fs vs) as [r|] eqn:Er; [|discriminate]. inversion He; subst es.
  destruct i as [|i]; cbn in Hf, Hv |- *.
  - inversion Hf; inversion Hv; subst. exists e0. split; [reflexivity|exact E0].
  - eapply IH; eassumption.
Qed.
Lemma enc_list_set : forall fs vs es i f nv vs' ec', enc_list fs vs = Some es -> nth_error fs i = Some f ->
  set_nth_opt vs i nv = Some vs' -> enc f nv = Some ec' ->
  exists es', enc_list fs vs' = Some es' /\ set_nth_opt es i ec' = Some es'.
Proof.
  induction fs as [|f0 fs IH]; intros vs es i f nv vs' ec' He Hf Hs Hn; [destruct i; discriminate|].
  destruct vs as [|v0 vs]; cbn in He; [discriminate|].
  destruct (enc f0 v0) as [e0|] eqn:E0; [|discriminate]. destruct (enc_list fs vs) as [r|] eqn:Er; [|discriminate]. inversion He; subst es.
  destruct i as [|i]; cbn in Hf, Hs.
  - inversion Hf; inversion Hs; subst. exists (ec' :: r). cbn. rewrite Hn, Er. split; reflexivity.
  - destruct (set_nth_opt vs i nv) as [r'|] eqn:Es; [|discriminate]. inversion Hs; subst vs'.
    destruct (IH vs r i f nv r' ec' Er Hf Es Hn) as [es' [A B]]. exists (e0 :: es'). cbn. rewrite E0, A, B. split; reflexivity.
Qed.
Lemma seqopt_enc_nth item : forall vs es i vc, seqopt (map (enc item) vs) = Some es -> nth_error vs i = Some vc ->
  exists ec, nth_error es i = Some ec /\ enc item vc = Some ec.
Proof.
  induction vs as [|v0 vs IH]; intros es i vc He Hv; [destruct i; discriminate|]. cbn [map seqopt] in He.
  destruct (enc item v0) as [e0|] eqn:E0; [|discriminate]. destruct (seqopt (map (enc item) vs)) as [r|] eqn:Er; [|discriminate]. inversion He; subst es.
  destruct i as [|i]; cbn in Hv |- *.
  - inversion Hv; subst. exists e0. split; [reflexivity|exact E0].
  - eapply IH; [reflexivity|exact Hv].
Qed.
Lemma seqopt_enc_set item : forall vs es i nv vs' ec', seqopt (map (enc item) vs) = Some es ->
  set_nth_opt vs i nv = Some vs' -> enc item nv = Some ec' ->
  exists es', seqopt (map (enc item) vs') = Some es' /\ set_nth_opt es i ec' = Some es'.
Proof.
  induction vs as [|v0 vs IH]; intros es i nv vs' ec' He Hs Hn; [destruct i; discriminate|]. cbn [map seqopt] in He.
  destruct (enc item v0) as [e0|] eqn:E0; [|discriminate]. destruct (seqopt (map (enc item) vs)) as [r|] eqn:Er; [|discriminate]. inversion He; subst es.
  destruct i as [|i]; cbn in Hs.
  - inversion Hs; subst. exists (ec' :: r). cbn [map seqopt set_nth_opt]. rewrite Hn, Er. split; reflexivity.
  - destruct (set_nth_opt vs i nv) as [r'|] eqn:Es; [|discriminate]. inversion Hs; subst vs'.
    destruct (IH r i nv r' ec' eq_refl Es Hn) as [es' [A B]]. exists (e0 :: es'). cbn [map seqopt set_nth_opt]. rewrite E0, A, B. split; reflexivity.
Qed.
Lemma same_lens_refl es : same_lens es es.
Proof. induction es; constructor; auto. Qed.
Lemma same_lens_set : forall es i e e' es', set_nth_opt es i e' = Some es' -> nth_error es i = Some e -> len e = len e' -> same_lens es es'.
Proof.
  induction es as [|e0 es IH]; intros i e e' es' Hs Hn Hl; [destruct i; discriminate|]. destruct i as [|i]; cbn in Hs, Hn.
  - inversion Hs; inversion Hn; subst. constructor; [exact Hl|apply same_lens_refl].
  - destruct (set_nth_opt es i e') as [r|] eqn:E; [|discriminate]. inversion Hs; subst. constructor; [reflexivity|]. eapply IH; eassumption.
Qed.

Lemma vset_keeps : forall p t v old x x' v' st b img,
  vget v p = Some old -> sub_ty t p = Some st -> retag old x = Some x' -> enc st x' = Some b ->
  vset v p x' = Some v' -> enc t v = Some img -> exists img', enc t v' = Some img' /\ len img' = len img.
Proof.
  induction p as [|s r IH]; intros t v old x x' v' st b img Hg Ht Hr Hb Hs He.
  - cbn in Hg, Ht, Hs. inversion Hg; inversion Ht; inversion Hs; subst. exists b. split; [exact Hb|].
    symmetry. exact (keeps_len_all st old x v' img b Hr He Hb).
  - cbn [vget vset] in Hg, Hs. destruct (children v s) as [cs|] eqn:Ec; [|discriminate].
    destruct (nth_error cs (step_idx s)) as [oldc|] eqn:En; [|discriminate].
    destruct (vset oldc r x') as [newc|] eqn:Ev; [|discriminate].
    destruct (set_nth_opt cs (step_idx s) newc) as [cs'|] eqn:Esn; [|discriminate]. inversion Hs; subst v'. clear Hs.
    destruct s as [i|c]; cbn [sub_ty] in Ht.
    + destruct t as [| |fs| | |]; try discriminate. destruct (nth_error fs i) as [f|] eqn:Ef; [|discriminate].
      destruct v as [| |vs| | | |]; try discriminate. cbn in Ec. inversion Ec; subst cs. cbn [step_idx rebuild] in *.
      rewrite enc_struct_eq in He. destruct (enc_list fs vs) as [es|] eqn:Eel; [|discriminate]. inversion He; subst img. clear He.
      destruct (enc_list_nth fs vs es i f oldc Eel Ef En) as [ec [Hec Eoc]].
      destruct (IH f oldc old x x' newc st b ec Hg Ht Hr Hb Ev Eoc) as [ec' [Enc Hl]].
      destruct (enc_list_set fs vs es i f newc cs' ec' Eel Ef Esn Enc) as [es' [Ees' Hset]].
      exists (enc_struct fs es'). rewrite enc_struct_eq, Ees'. split; [reflexivity|].
      symmetry. apply len_enc_struct_cong. eapply same_lens_set; [exact Hset|exact Hec|]. symmetry. exact Hl.
    + destruct t as [| | |item shape order| |]; try discriminate.
      destruct v as [| | |sh vs| | |]; try discriminate. cbn in Ec. inversion Ec; subst cs. cbn [step_idx rebuild] in *.
      cbn [enc] in He |- *.
      destruct (shape_ok shape sh && perm_ok order (length shape) && (len vs =? prod sh) && words_fit item shape order sh) eqn:G; [|discriminate].
      destruct (seqopt (map (enc item) vs)) as [es|] eqn:Eel; [|discriminate]. inversion He; subst img. clear He.
      destruct (seqopt_enc_nth item vs es c oldc Eel En) as [ec [Hec Eoc]].
      destruct (IH item oldc old x x' newc st b ec Hg Ht Hr Hb Ev Eoc) as [ec' [Enc Hl]].
      destruct (seqopt_enc_set item vs es c newc cs' ec' Eel Esn Enc) as [es' [Ees' Hset]].
      exists (enc_array item shape order sh es').
      assert (Hlen : len cs' = len vs) by (unfold len; rewrite (set_nth_opt_length _ _ _ _ Esn); reflexivity).
      rewrite Hlen, G, Ees'. split; [reflexivity|].
      symmetry. apply len_enc_array_cong. eapply same_lens_set; [exact Hset|exact Hec|]. symmetry. exact Hl.
Qed.

(* THE THEOREM: an assignment the model honours leaves the object with a documented image of
   exactly the same length (the extent fixed at creation), whatever the type, depth and value *)
Theorem assign_keeps_extent t v p x v' img :
  assign t v p x = Some v' -> enc t v = Some img -> exists img', enc t v' = Some img' /\ len img' = len img.
Proof.
  unfold assign. intros Ha He. destruct (vget v p) as [old|] eqn:Eg; [|discriminate]. destruct (sub_ty t p) as [st|] eqn:Et; [|discriminate].
  destruct (retag old x) as [x'|] eqn:Er; [|discriminate]. destruct (enc st x') as [b|] eqn:Eb; [|discriminate].
  eapply vset_keeps; eassumption.
Qed.
