From Coq Require Import ZArith List Bool Lia.
Import ListNotations.
From XO Require Import Types RefOps.
Open Scope Z_scope.

Lemma set_nth_tree_same : forall l k x l', set_nth_tree l k x = Some l' -> nth_error l' k = Some x.
Proof.
  induction l as [|a l IH]; intros [|k] x l' H; cbn in H; try discriminate.
  - inversion H; reflexivity.
  - destruct (set_nth_tree l k x) as [r|] eqn:E; [|discriminate]. inversion H; subst. cbn. eapply IH; exact E.
Qed.
Lemma set_nth_tree_other : forall l k x l' j, set_nth_tree l k x = Some l' -> j <> k -> nth_error l' j = nth_error l j.
Proof.
  induction l as [|a l IH]; intros [|k] x l' j H Hj; cbn in H; try discriminate.
  - inversion H; subst. destruct j; [congruence|reflexivity].
  - destruct (set_nth_tree l k x) as [r|] eqn:E; [|discriminate]. inversion H; subst.
    destruct j; [reflexivity|]. cbn. eapply IH; [exact E|congruence].
Qed.
Lemma set_nth_tree_length : forall l k x l', set_nth_tree l k x = Some l' -> length l' = length l.
Proof.
  induction l as [|a l IH]; intros [|k] x l' H; cbn in H; try discriminate.
  - inversion H; reflexivity.
  - destruct (set_nth_tree l k x) as [r|] eqn:E; [|discriminate]. inversion H; subst. cbn. f_equal. eapply IH; exact E.
Qed.

Lemma tget_tset_same : forall p t x t', tset t p x = Some t' -> tget t' p = Some x.
Proof.
  induction p as [|i r IH]; intros t x t' H; cbn in H.
  - inversion H; reflexivity.
  - destruct t as [v|cs|rr m]; try discriminate.
    destruct (nth_error cs i) as [c|] eqn:En; [|discriminate].
    destruct (tset c r x) as [c'|] eqn:Es; [|discriminate].
    destruct (set_nth_tree cs i c') as [cs'|] eqn:Et; [|discriminate].
    inversion H; subst. cbn. rewrite (set_nth_tree_same _ _ _ _ Et). eapply IH; exact Es.
Qed.

(* a write to object o at p is read back at (o,p); every other object of the store is untouched *)
Theorem read_write_same st o p x st' : write_at st o p x = Some st' -> read_at st' o p = Some x.
Proof.
  unfold write_at, read_at. destruct (nth_error st o) as [t|] eqn:E; [|discriminate].
  destruct (tset t p x) as [t'|] eqn:Es; [|discriminate]. intros H.
  rewrite (set_nth_tree_same _ _ _ _ H). eapply tget_tset_same; exact Es.
Qed.
Theorem write_other_object st o p x st' k : write_at st o p x = Some st' -> k <> o -> nth_error st' k = nth_error st k.
Proof.
  unfold write_at. destruct (nth_error st o) as [t|] eqn:E; [|discriminate].
  destruct (tset t p x) as [t'|] eqn:Es; [|discriminate]. intros H Hk. eapply set_nth_tree_other; eassumption.
Qed.

(* binding to an existing object makes the reference denote that very object: whatever is later
   written to the object (through any name) is what is read through the reference *)
Theorem bind_existing_aliases st o p target m st1 :
  bind_existing st o p target m = Some st1 -> deref st1 o p = Some target.
Proof. unfold bind_existing, deref. intros H. rewrite (read_write_same _ _ _ _ _ H). reflexivity. Qed.

Theorem alias_sees_writes st o p target m st1 q x st2 :
  bind_existing st o p target m = Some st1 -> target <> o ->
  write_at st1 target q x = Some st2 ->
  deref st2 o p = Some target /\ read_at st2 target q = Some x.
Proof.
  intros Hb Hne Hw. split.
  - unfold deref, read_at. rewrite (write_other_object _ _ _ _ _ _ Hw) by congruence.
    pose proof (bind_existing_aliases _ _ _ _ _ _ Hb) as Hd. unfold deref, read_at in Hd. exact Hd.
  - eapply read_write_same; exact Hw.
Qed.

(* null reads as nothing *)
Theorem bind_null_reads_none st o p st1 : bind_null st o p = Some st1 -> deref st1 o p = None /\ read_at st1 o p = Some (HSlot None 0).
Proof. unfold bind_null, deref. intros H. rewrite (read_write_same _ _ _ _ _ H). split; reflexivity. Qed.

(* binding plain data creates a NEW object: its identity is not one of the existing ones, and
   every existing object other than the holder keeps its tree *)
Lemma nth_error_new (st : store) (t : htree) k : (k < length st)%nat -> nth_error (st ++ [t]) k = nth_error st k.
Proof. intros. apply nth_error_app1. exact H. Qed.
Theorem bind_value_fresh st o p v m st2 id :
  bind_value st o p v m = Some (st2, id) ->
  id = length st /\ deref st2 o p = Some id /\
  (forall k, (k < length st)%nat -> k <> o -> nth_error st2 k = nth_error st k) /\
  (o <> id -> nth_error st2 id = Some v).
Proof.
  unfold bind_value, new_obj. destruct (write_at (st ++ [v]) o p (HSlot (Some (length st)) m)) as [s2|] eqn:E; [|discriminate].
  intros H. inversion H; subst. split; [reflexivity|]. split.
  - unfold deref. rewrite (read_write_same _ _ _ _ _ E). reflexivity.
  - split.
    + intros k Hk Hne. rewrite (write_other_object _ _ _ _ _ _ E) by exact Hne. apply nth_error_new. exact Hk.
    + intros Hne. rewrite (write_other_object _ _ _ _ _ _ E) by congruence.
      rewrite nth_error_app2 by lia. rewrite Nat.sub_diag. reflexivity.
Qed.

(* the deep value of a tree only depends on the objects it can reach *)
Fixpoint agree_on (fuel : nat) (st st' : store) (t : htree) : Prop :=
  match fuel with
  | O => True
  | S f =>
    match t with
    | HLeaf _ => True
    | HNode cs => Forall (agree_on f st st') cs
    | HSlot None _ => True
    | HSlot (Some r) _ => nth_error st r = nth_error st' r /\ match nth_error st r with Some tr => agree_on f st st' tr | None => True end
    end
  end.
Theorem deep_agree : forall fuel st st' t, agree_on fuel st st' t -> deep fuel st t = deep fuel st' t.
Proof.
  induction fuel as [|f IH]; intros st st' t H; [reflexivity|].
  destruct t as [v|cs|[r|] m]; cbn [deep]; try reflexivity.
  - cbn [agree_on] in H.
    assert (E : map (deep f st) cs = map (deep f st') cs).
    { apply map_ext_in. intros c Hc. apply IH. rewrite Forall_forall in H. apply H. exact Hc. }
    rewrite E. reflexivity.
  - cbn [agree_on] in H. destruct H as [He Hr]. rewrite <- He.
    destruct (nth_error st r) as [tr|]; [|reflexivity]. rewrite (IH _ _ _ Hr). reflexivity.
Qed.

(* hence: a write to an object that a tree cannot reach does not change the tree's deep value
   (copies whose referents were duplicated are independent of the original) *)
Theorem unreachable_write_invisible fuel st o p x st' t :
  write_at st o p x = Some st' ->
  agree_on fuel st st' t -> deep fuel st' t = deep fuel st t.
Proof. intros _ H. symmetry. apply deep_agree. exact H. Qed.
