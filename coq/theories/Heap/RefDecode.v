(* Byte-level reading of references (C08/C09).  The general statement is RoundTrip.RT_all: an object whose
   reference slots satisfy [targets_ok] -- null word, or an offset relative to the slot at which the
   referent's image sits, recursively, to any depth, through structs, arrays and unions -- decodes to its
   value with all references followed.  Here: the one-slot corollaries, and growth (the new storage holds
   the old bytes at the same offsets followed by more bytes): [targets_ok] is preserved, hence every
   object decodes exactly as before. *)
From Coq Require Import ZArith List Bool Lia ZifyBool.
Import ListNotations.
From XO Require Import ListAux Slots Strides BufOps BufOpsProofs Types Format Check LayoutProofs RoundTrip.
Open Scope Z_scope.

Lemma sits_in_range8 x m off : sits (bytes (enc64 x)) m off -> in_rangeb m off 8 = true.
Proof.
  intros H. apply sits_in_range in H. rewrite len_bytes in H. unfold len in H. rewrite enc64_length in H. exact H.
Qed.

Theorem dec_ref_resolves t v img rel m off :
  - 2^63 < rel < 2^63 -> sits (bytes (enc64 rel)) m off ->
  enc t v = Some img -> sits img m (off + rel) -> len img < 2^62 -> targets_ok t v m (off + rel) ->
  dec (TRef t) m off = Some (VRef v, 8).
Proof.
  intros Hr Hs He Ht Hl Htok. cbn [dec]. rewrite (sits_in_range8 rel m off Hs). cbn [guard].
  rewrite (sits_rd64 rel m off ltac:(lia) Hs).
  replace (rel =? NULLVALUE) with false by (symmetry; apply Z.eqb_neq; unfold NULLVALUE; lia).
  rewrite (RT_all t v img m (off + rel) He Ht Hl Htok). reflexivity.
Qed.
Theorem dec_ref_null t m off : sits (bytes (enc64 NULLVALUE)) m off -> dec (TRef t) m off = Some (VNull, 8).
Proof.
  intros Hs. cbn [dec]. rewrite (sits_in_range8 _ m off Hs). cbn [guard].
  rewrite (sits_rd64 NULLVALUE m off ltac:(unfold NULLVALUE; lia) Hs), Z.eqb_refl. reflexivity.
Qed.

(* ---- growth ---- *)
Lemma sits_grow img m off extra : sits img m off -> sits img (m ++ extra) off.
Proof.
  intros [A [B C]]. split; [exact A|]. split.
  - rewrite len_app. pose proof (len_nonneg extra). lia.
  - intros i b Hi. rewrite nth_error_app1; [apply C; exact Hi|].
    specialize (C i b Hi). apply nth_error_Some. rewrite C. discriminate.
Qed.
Lemma in_rangeb_grow m extra off n : in_rangeb m off n = true -> in_rangeb (m ++ extra) off n = true.
Proof. unfold in_rangeb. rewrite app_length. intros H. lia. Qed.
Lemma rd_grow m extra off n : in_rangeb m off n = true -> rd (m ++ extra) off n = rd m off n.
Proof.
  unfold in_rangeb, rd. intros H. rewrite skipn_app. rewrite firstn_app.
  replace (Z.to_nat n - length (skipn (Z.to_nat off) m))%nat with O by (rewrite skipn_length; lia).
  cbn [firstn]. rewrite app_nil_r. reflexivity.
Qed.
Lemma rd64_grow m extra off : in_rangeb m off 8 = true -> rd64 (m ++ extra) off = rd64 m off.
Proof. intros H. unfold rd64. rewrite rd_grow by exact H. reflexivity. Qed.
Lemma in_rangeb_sub m off n k : in_rangeb m off n = true -> 0 <= k -> k + 8 <= n -> in_rangeb m (off + k) 8 = true.
Proof. unfold in_rangeb. intros H. lia. Qed.

Definition GROW (t : ty) : Prop := forall v m off extra, targets_ok t v m off -> targets_ok t v (m ++ extra) off.

Lemma tok_static_list_grow m extra : forall fs, Forall GROW fs -> forall vs o, tok_static_list m fs vs o -> tok_static_list (m ++ extra) fs vs o.
Proof.
  induction fs as [|f fs IH]; intros HF vs o H; destruct vs as [|v vs]; cbn [tok_static_list] in *; try exact H.
  inversion HF as [|? ? Hf HFt]; subst. destruct H as [H1 H2]. split; [apply Hf; exact H1|]. destruct (enc f v); [apply IH; assumption|exact H2].
Qed.
Lemma tok_dyn_list_grow m extra off : forall fs, Forall GROW fs -> forall vs so dnext, tok_dyn_list m off fs vs so dnext -> tok_dyn_list (m ++ extra) off fs vs so dnext.
Proof.
  induction fs as [|f fs IH]; intros HF vs so dnext H; destruct vs as [|v vs]; cbn [tok_dyn_list] in *; try exact H.
  inversion HF as [|? ? Hf HFt]; subst. destruct (enc f v); [|exact H].
  destruct (is_static f); destruct H as [H1 H2]; (split; [apply Hf; exact H1|apply IH; assumption]).
Qed.
Lemma tok_pick_grow m extra base w : forall ms, Forall GROW ms -> forall k, tok_pick m base w ms k -> tok_pick (m ++ extra) base w ms k.
Proof.
  induction ms as [|mt ms IH]; intros HF k H; [destruct k; exact H|]. inversion HF as [|? ? Hm HFt]; subst.
  destruct k as [|k]; cbn [tok_pick] in *.
  - destruct H as [timg [E [S [L T]]]]. exists timg. split; [exact E|]. split; [apply sits_grow; exact S|]. split; [exact L|apply Hm; exact T].
  - apply IH; assumption.
Qed.

Theorem targets_ok_grow : forall t, GROW t.
Proof.
  apply ty_ind'.
  - intros k v m off extra _. destruct v; exact I.
  - intros v m off extra _. destruct v; exact I.
  - intros fs HF v m off extra H. destruct v as [| |vs| | | |]; try exact I. rewrite targets_ok_struct_eq in *.
    destruct (forallb is_static fs); [apply tok_static_list_grow|apply tok_dyn_list_grow]; assumption.
  - intros item shape order HI v m off extra H. destruct v as [| | |sh items| | |]; try exact I. rewrite targets_ok_array_eq in *.
    destruct (seqopt (map (enc item) items)); [|exact H]. intros c Hc. apply HI. apply H. exact Hc.
  - intros t HT v m off extra H. destruct v as [| | | | |w|]; try exact I; cbn [targets_ok] in *.
    + destruct H as [Hr Hn]. split; [apply in_rangeb_grow; exact Hr|]. rewrite rd64_grow by exact Hr. exact Hn.
    + destruct H as [Hr [Hn [timg [E [S [L T]]]]]]. rewrite rd64_grow by exact Hr.
      split; [apply in_rangeb_grow; exact Hr|]. split; [exact Hn|]. exists timg. split; [exact E|]. split; [apply sits_grow; exact S|]. split; [exact L|apply HT; exact T].
  - intros ms HF v m off extra H. destruct v as [| | | | | |k w]; try exact I.
    + cbn [targets_ok] in *. destruct H as [Hr [Hn Hm1]].
      split; [apply in_rangeb_grow; exact Hr|].
      pose proof (in_rangeb_sub m off 16 0 Hr ltac:(lia) ltac:(lia)) as R0. replace (off + 0) with off in R0 by lia.
      pose proof (in_rangeb_sub m off 16 8 Hr ltac:(lia) ltac:(lia)) as R8.
      rewrite (rd64_grow m extra off R0), (rd64_grow m extra (off + 8) R8). split; assumption.
    + change (targets_ok (TUnion ms) (VMember k w) m off) with
        (in_rangeb m off 16 = true /\ rd64 m off <> NULLVALUE /\ rd64 m (off + 8) = Z.of_nat k /\ tok_pick m (off + rd64 m off) w ms k) in H.
      change (targets_ok (TUnion ms) (VMember k w) (m ++ extra) off) with
        (in_rangeb (m ++ extra) off 16 = true /\ rd64 (m ++ extra) off <> NULLVALUE /\ rd64 (m ++ extra) (off + 8) = Z.of_nat k /\ tok_pick (m ++ extra) (off + rd64 (m ++ extra) off) w ms k).
      destruct H as [Hr [Hn [Hk Hp]]].
      pose proof (in_rangeb_sub m off 16 0 Hr ltac:(lia) ltac:(lia)) as R0. replace (off + 0) with off in R0 by lia.
      pose proof (in_rangeb_sub m off 16 8 Hr ltac:(lia) ltac:(lia)) as R8.
      rewrite (rd64_grow m extra off R0), (rd64_grow m extra (off + 8) R8).
      split; [apply in_rangeb_grow; exact Hr|]. split; [exact Hn|]. split; [exact Hk|]. apply tok_pick_grow; assumption.
Qed.

(* every object -- reference-free or holding references to any depth -- decodes exactly as before the growth *)
Theorem dec_survives_growth t v img m off extra :
  enc t v = Some img -> sits img m off -> len img < 2^62 -> targets_ok t v m off ->
  dec t (m ++ extra) off = Some (v, len img) /\ dec t m off = Some (v, len img).
Proof.
  intros He Hs Hl Ht. split; [|exact (RT_all t v img m off He Hs Hl Ht)].
  apply (RT_all t v img (m ++ extra) off He); [apply sits_grow; exact Hs|exact Hl|apply targets_ok_grow; exact Ht].
Qed.
