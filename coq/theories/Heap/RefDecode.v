(* Byte-level reading of references: a reference slot resolves to whatever is represented at
   slot + stored offset; null is one reserved word; union references add the member index.
   Together with RoundTrip.RT_all: a reference to a reference-free object decodes to that object,
   wherever the buffer places it and however much the buffer has grown since. *)
From Coq Require Import ZArith List Bool Lia.
Import ListNotations.
From XO Require Import ListAux Slots Strides BufOps BufOpsProofs Types Format Check LayoutProofs RoundTrip.
Open Scope Z_scope.

Lemma sits_in_range8 x m off : sits (bytes (enc64 x)) m off -> in_rangeb m off 8 = true.
Proof.
  intros H. apply sits_in_range in H. rewrite len_bytes in H. unfold len in H. rewrite enc64_length in H. exact H.
Qed.

Theorem dec_ref_resolves t v img rel m off :
  - 2^63 < rel < 2^63 -> sits (bytes (enc64 rel)) m off ->
  enc t v = Some img -> sits img m (off + rel) -> len img < 2^62 ->
  dec (TRef t) m off = Some (VRef v, 8).
Proof.
  intros Hr Hs He Ht Hl. cbn [dec]. rewrite (sits_in_range8 rel m off Hs). cbn [guard].
  rewrite (sits_rd64 rel m off ltac:(lia) Hs).
  replace (rel =? NULLVALUE) with false by (symmetry; apply Z.eqb_neq; unfold NULLVALUE; lia).
  rewrite (RT_all t v img m (off + rel) He Ht Hl). reflexivity.
Qed.
Theorem dec_ref_null t m off : sits (bytes (enc64 NULLVALUE)) m off -> dec (TRef t) m off = Some (VNull, 8).
Proof.
  intros Hs. cbn [dec]. rewrite (sits_in_range8 _ m off Hs). cbn [guard].
  rewrite (sits_rd64 NULLVALUE m off ltac:(unfold NULLVALUE; lia) Hs), Z.eqb_refl. reflexivity.
Qed.

Definition pick_member (m : mem) (base : Z) : list ty -> nat -> option (val * Z) :=
  fix pick (ms : list ty) (k : nat) : option (val * Z) :=
    match ms, k with
    | mt :: _, O => dec mt m base
    | _ :: tl, S k' => pick tl k'
    | [], _ => None
    end.
Lemma pick_member_nth m base : forall ms k mt, nth_error ms k = Some mt -> pick_member m base ms k = dec mt m base.
Proof. induction ms as [|x ms IH]; intros [|k] mt H; cbn in H; try discriminate; [inversion H; reflexivity|]. cbn. apply IH. exact H. Qed.

Theorem dec_union_resolves ms k mt v img rel m off :
  - 2^63 < rel < 2^63 -> sits (bytes (enc64 rel) ++ bytes (enc64 (Z.of_nat k))) m off -> Z.of_nat k < 2^63 ->
  nth_error ms k = Some mt -> enc mt v = Some img -> sits img m (off + rel) -> len img < 2^62 ->
  dec (TUnion ms) m off = Some (VMember k v, 16).
Proof.
  intros Hr Hs Hk Hn He Ht Hl.
  assert (L8 : forall x, len (bytes (enc64 x)) = 8) by (intros x; rewrite len_bytes; unfold len; rewrite enc64_length; reflexivity).
  pose proof Hs as Hs0. apply sits_in_range in Hs0. rewrite len_app, !L8 in Hs0.
  apply sits_app in Hs. destruct Hs as [S1 S2]. rewrite L8 in S2.
  cbn [dec]. change (8 + 8) with 16 in Hs0. rewrite Hs0. cbn [guard].
  rewrite (sits_rd64 rel m off ltac:(lia) S1), (sits_rd64 (Z.of_nat k) m (off + 8) ltac:(lia) S2).
  replace (rel =? NULLVALUE) with false by (symmetry; apply Z.eqb_neq; unfold NULLVALUE; lia).
  replace (0 <=? Z.of_nat k) with true by (symmetry; apply Z.leb_le; lia). cbn [guard].
  rewrite Nat2Z.id. change (pick_member m (off + rel) ms k) with (pick_member m (off + rel) ms k).
  fold (pick_member m (off + rel)). rewrite (pick_member_nth m (off + rel) ms k mt Hn).
  rewrite (RT_all mt v img m (off + rel) He Ht Hl). reflexivity.
Qed.
Theorem dec_union_null ms m off : sits (bytes (enc64 NULLVALUE) ++ bytes (enc64 (-1))) m off -> dec (TUnion ms) m off = Some (VNull, 16).
Proof.
  intros Hs.
  assert (L8 : forall x, len (bytes (enc64 x)) = 8) by (intros x; rewrite len_bytes; unfold len; rewrite enc64_length; reflexivity).
  pose proof Hs as Hs0. apply sits_in_range in Hs0. rewrite len_app, !L8 in Hs0.
  apply sits_app in Hs. destruct Hs as [S1 S2]. rewrite L8 in S2.
  cbn [dec]. change (8 + 8) with 16 in Hs0. rewrite Hs0. cbn [guard].
  rewrite (sits_rd64 NULLVALUE m off ltac:(unfold NULLVALUE; lia) S1), (sits_rd64 (-1) m (off + 8) ltac:(lia) S2). reflexivity.
Qed.

(* growth: new storage holds the old bytes at the same offsets followed by more bytes; every image
   still sits where it sat, so everything the theorems above decode is decoded unchanged *)
Lemma sits_grow img m off extra : sits img m off -> sits img (m ++ extra) off.
Proof.
  intros [A [B C]]. split; [exact A|]. split.
  - rewrite len_app. pose proof (len_nonneg extra). lia.
  - intros i b Hi. rewrite nth_error_app1; [apply C; exact Hi|].
    specialize (C i b Hi). apply nth_error_Some. rewrite C. discriminate.
Qed.
Theorem dec_survives_growth t v img m off extra :
  enc t v = Some img -> sits img m off -> len img < 2^62 ->
  dec t (m ++ extra) off = dec t m off.
Proof.
  intros He Hs Hl. rewrite (RT_all t v img m off He Hs Hl). apply (RT_all t v img (m ++ extra) off He); [apply sits_grow; exact Hs|exact Hl].
Qed.
Theorem ref_survives_growth t v img rel m off extra :
  - 2^63 < rel < 2^63 -> sits (bytes (enc64 rel)) m off ->
  enc t v = Some img -> sits img m (off + rel) -> len img < 2^62 ->
  dec (TRef t) (m ++ extra) off = Some (VRef v, 8).
Proof.
  intros Hr Hs He Ht Hl. apply (dec_ref_resolves t v img rel); try assumption; apply sits_grow; assumption.
Qed.
