(* An abstract store of objects with identity: the semantics of Ref / UnionRef binding, of
   writes through references, and of copy construction (C08, C09).  Definitions only.
   The harness mirrors this store to predict what the real library must read back. *)
From Coq Require Import ZArith List Bool Lia.
Import ListNotations.
From XO Require Import Types.
Open Scope Z_scope.

(* the tree of one object: reference-free leaves, compound nodes, reference slots holding the
   identity of another object (and the member index for unions) *)
Inductive htree :=
| HLeaf (v : val)
| HNode (cs : list htree)
| HSlot (r : option nat) (m : nat).
Definition store := list htree.        (* object identity = position *)

Definition new_obj (st : store) (t : htree) : store * nat := (st ++ [t], length st).

Fixpoint set_nth_tree (l : list htree) (k : nat) (x : htree) : option (list htree) :=
  match l, k with
  | [], _ => None
  | _ :: tl, O => Some (x :: tl)
  | a :: tl, S k' => match set_nth_tree tl k' x with Some r => Some (a :: r) | None => None end
  end.

(* navigation inside ONE object (paths do not cross references) *)
Fixpoint tget (t : htree) (p : list nat) : option htree :=
  match p with
  | [] => Some t
  | i :: r => match t with HNode cs => match nth_error cs i with Some c => tget c r | None => None end | _ => None end
  end.
Fixpoint tset (t : htree) (p : list nat) (x : htree) : option htree :=
  match p with
  | [] => Some x
  | i :: r => match t with
              | HNode cs => match nth_error cs i with
                            | Some c => match tset c r x with
                                        | Some c' => match set_nth_tree cs i c' with Some cs' => Some (HNode cs') | None => None end
                                        | None => None end
                            | None => None end
              | _ => None end
  end.

(* operations on the store *)
Definition read_at (st : store) (o : nat) (p : list nat) : option htree :=
  match nth_error st o with Some t => tget t p | None => None end.
Definition write_at (st : store) (o : nat) (p : list nat) (x : htree) : option store :=
  match nth_error st o with
  | Some t => match tset t p x with Some t' => set_nth_tree st o t' | None => None end
  | None => None
  end.
(* bind the slot at (o,p): to an existing object, to nothing, or to a freshly created object *)
Definition bind_existing (st : store) (o : nat) (p : list nat) (target m : nat) : option store :=
  write_at st o p (HSlot (Some target) m).
Definition bind_null (st : store) (o : nat) (p : list nat) : option store :=
  write_at st o p (HSlot None 0).
Definition bind_value (st : store) (o : nat) (p : list nat) (v : htree) (m : nat) : option (store * nat) :=
  let '(st1, id) := new_obj st v in
  match write_at st1 o p (HSlot (Some id) m) with Some st2 => Some (st2, id) | None => None end.

(* reading through a reference: the referent's own tree *)
Definition deref (st : store) (o : nat) (p : list nat) : option nat :=
  match read_at st o p with Some (HSlot (Some r) _) => Some r | _ => None end.

Fixpoint seq_opt {A} (l : list (option A)) : option (list A) :=
  match l with
  | [] => Some []
  | Some x :: tl => match seq_opt tl with Some r => Some (x :: r) | None => None end
  | None :: _ => None
  end.

(* deep value (references followed), with fuel for the untyped store *)
Fixpoint deep (fuel : nat) (st : store) (t : htree) : option htree :=
  match fuel with
  | O => None
  | S f =>
    match t with
    | HLeaf v => Some (HLeaf v)
    | HNode cs => match seq_opt (map (deep f st) cs) with Some r => Some (HNode r) | None => None end
    | HSlot None m => Some (HSlot None m)
    | HSlot (Some r) m => match nth_error st r with
                          | Some tr => match deep f st tr with Some d => Some (HNode [HSlot (Some 0%nat) m; d]) | None => None end
                          | None => None end
    end
  end.

(* the objects a tree refers to directly *)
Fixpoint refs_of (t : htree) : list nat :=
  match t with
  | HLeaf _ => []
  | HNode cs => flat_map refs_of cs
  | HSlot (Some r) _ => [r]
  | HSlot None _ => []
  end.
