(* Free lists as lists of half-open byte ranges [start,end).
   Definitions only (executable); lemmas are in ChunksProofs.v. *)
From Coq Require Import ZArith List Bool Lia.
Import ListNotations.
From XO Require Import Slots.
Open Scope Z_scope.

Definition chunk := (Z * Z)%type.

(* byte-set reading of a chunk list: representation independent *)
Definition inb (x : Z) (c : chunk) : Prop := fst c <= x < snd c.
Definition freeB (cs : list chunk) (x : Z) : Prop := exists c, In c cs /\ inb x c.

(* canonical form: non-empty chunks, sorted, strictly separated (so every
   chunk is a MAXIMAL run of free bytes) *)
Fixpoint nsep (cs : list chunk) : Prop :=
  match cs with
  | [] => True
  | c :: tl => fst c < snd c /\ (match tl with [] => True | d :: _ => snd c < fst d end) /\ nsep tl
  end.
Fixpoint nsepb (cs : list chunk) : bool :=
  match cs with
  | [] => true
  | c :: tl => (fst c <? snd c) && (match tl with [] => true | d :: _ => snd c <? fst d end) && nsepb tl
  end.
Fixpoint sorted (cs : list chunk) : Prop :=
  match cs with
  | [] => True
  | c :: tl => (match tl with [] => True | d :: _ => fst c <= fst d end) /\ sorted tl
  end.
Definition wf (cs : list chunk) := Forall (fun c => fst c < snd c) cs.

(* XBuffer.free: sorted insert ... *)
Fixpoint insert_sorted (cs : list chunk) (o e : Z) : list chunk :=
  match cs with
  | [] => [(o,e)]
  | (s,e')::tl => if o <=? s then (o,e)::(s,e')::tl else (s,e') :: insert_sorted tl o e
  end.
(* ... then one merging pass (Chunk.overlaps uses >= / <=, so touching chunks merge) *)
Fixpoint merge (p : chunk) (cs : list chunk) : list chunk :=
  match cs with
  | [] => [p]
  | (s,e)::tl =>
    let '(ps,pe) := p in
    if (e >=? ps) && (s <=? pe) then merge (Z.min ps s, Z.max pe e) tl
    else p :: merge (s,e) tl
  end.
Definition insert_merge (cs : list chunk) (o e : Z) : list chunk :=
  match insert_sorted cs o e with [] => [] | c::tl => merge c tl end.
(* add the bytes [o,e) to a canonical list (empty ranges add nothing) *)
Definition add_chunk (cs : list chunk) (c : chunk) : list chunk :=
  if fst c <? snd c then insert_merge cs (fst c) (snd c) else cs.
(* canonical form of an arbitrary chunk list (any order, empties, overlaps) *)
Definition norm (cs : list chunk) : list chunk := fold_left add_chunk cs [].

Definition total (cs : list chunk) : Z := fold_right (fun c acc => (snd c - fst c) + acc) 0 cs.

(* first chunk that can hold [size] bytes at alignment [a]:
   returns (start of the chosen chunk, offset handed out, remaining list).
   Mirrors the for-loop of XBuffer.allocate: fit test `chunk.end >= newend`,
   chunk.start = newend, removal of an emptied chunk. *)
Fixpoint scan (cs : list chunk) (size a : Z) : option (Z * Z * list chunk) :=
  match cs with
  | [] => None
  | (s,e)::tl =>
    let off := align_up s a in
    let ne := off + size in
    if e >=? ne then Some (s, off, if e - ne =? 0 then tl else (ne,e)::tl)
    else match scan tl size a with Some (s', o, tl') => Some (s', o, (s,e)::tl') | None => None end
  end.

(* XBuffer.grow on the free list: extend the trailing chunk if it ends at the
   old capacity, else append a new chunk *)
Fixpoint grow_rec (cs : list chunk) (cap g : Z) : list chunk :=
  match cs with
  | [] => [(cap, cap + g)]
  | (s,e) :: tl =>
    match tl with
    | [] => if e =? cap then [(s, cap + g)] else [(s,e); (cap, cap + g)]
    | _ :: _ => (s,e) :: grow_rec tl cap g
    end
  end.
Definition grow_chunks (cs : list chunk) (cap g : Z) : list chunk :=
  if g <=? 0 then cs else grow_rec cs cap g.

(* decision procedures used by the conformance checkers *)
Definition chunk_eqb (c d : chunk) : bool := (fst c =? fst d) && (snd c =? snd d).
Fixpoint chunks_eqb (a b : list chunk) : bool :=
  match a, b with
  | [], [] => true
  | c::a', d::b' => chunk_eqb c d && chunks_eqb a' b'
  | _, _ => false
  end.
(* [o,e) inside one chunk of cs *)
Definition insideb (cs : list chunk) (o e : Z) : bool :=
  existsb (fun c => (fst c <=? o) && (e <=? snd c)) cs.
(* every (non-empty) chunk of a lies inside one chunk of b *)
Definition subsetb (a b : list chunk) : bool :=
  forallb (fun c => (snd c <=? fst c) || insideb b (fst c) (snd c)) a.
(* no chunk of cs meets [o,e) *)
Definition disjointb (cs : list chunk) (o e : Z) : bool :=
  forallb (fun c => (snd c <=? fst c) || (e <=? o) || (snd c <=? o) || (e <=? fst c)) cs.
Definition boundedb (cs : list chunk) (cap : Z) : bool :=
  forallb (fun c => (0 <=? fst c) && (snd c <=? cap)) cs.
Definition bounded (cs : list chunk) (cap : Z) : Prop :=
  Forall (fun c => 0 <= fst c /\ snd c <= cap) cs.
