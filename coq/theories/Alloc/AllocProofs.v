From Coq Require Import ZArith List Bool Lia.
Import ListNotations.
From XO Require Import Slots Chunks ChunksProofs AllocSpec.
Open Scope Z_scope.

(* ---------- grow ---------- *)
Lemma freeB_nil_iff x : freeB [] x <-> False.
Proof. split; [apply freeB_nil|tauto]. Qed.

Lemma grow_rec_cons2 (c d : chunk) (tl : list chunk) cap g : grow_rec (c::d::tl) cap g = c :: grow_rec (d::tl) cap g.
Proof. destruct c. reflexivity. Qed.

Lemma grow_rec_bytes : forall cs cap g x, 0 < g -> wf cs ->
  (freeB (grow_rec cs cap g) x <-> freeB cs x \/ cap <= x < cap + g).
Proof.
  induction cs as [|[s e] tl IH]; intros cap g x Hg Hwf.
  - cbn [grow_rec]. rewrite freeB_cons, !freeB_nil_iff. unfold inb; cbn [fst snd]. intuition lia.
  - inversion Hwf as [|? ? Hse Htl]; subst. cbn [fst snd] in Hse. destruct tl as [|d tl'].
    + cbn [grow_rec]. destruct (e =? cap) eqn:E.
      * apply Z.eqb_eq in E. subst e. rewrite !freeB_cons, !freeB_nil_iff. unfold inb; cbn [fst snd]. intuition lia.
      * rewrite !freeB_cons, !freeB_nil_iff. unfold inb; cbn [fst snd]. intuition lia.
    + rewrite grow_rec_cons2. rewrite (freeB_cons (s,e) (grow_rec (d::tl') cap g)), (freeB_cons (s,e) (d::tl')), IH by assumption. tauto.
Qed.

Lemma grow_rec_head : forall cs cap g c,
  match grow_rec (c :: cs) cap g with [] => False | d :: _ => fst d = fst c end.
Proof.
  intros cs cap g [s e]. destruct cs as [|d tl]; cbn [grow_rec]; [destruct (e =? cap)|]; reflexivity.
Qed.

Lemma grow_rec_nsep : forall cs cap g, 0 < g -> nsep cs -> bounded cs cap -> nsep (grow_rec cs cap g).
Proof.
  induction cs as [|[s e] tl IH]; intros cap g Hg Hs Hb.
  - cbn; lia.
  - inversion Hb as [|? ? Hc Hbt]; subst. cbn [fst snd] in Hc. cbn [nsep fst snd] in Hs. destruct Hs as [Hse [Hn Hst]].
    destruct tl as [|d tl'].
    + cbn [grow_rec]. destruct (e =? cap) eqn:E.
      * cbn [nsep fst snd]. lia.
      * apply Z.eqb_neq in E. cbn [nsep fst snd]. lia.
    + rewrite grow_rec_cons2. specialize (IH cap g Hg Hst Hbt).
      pose proof (grow_rec_head tl' cap g d) as Hh.
      remember (grow_rec (d :: tl') cap g) as G eqn:EG. clear EG.
      destruct G as [|d2 l2]; [destruct Hh|].
      split; [exact Hse|]. split; [|exact IH].
      cbn [fst snd]. rewrite Hh. exact Hn.
Qed.

Lemma grow_rec_bounded : forall cs cap g, 0 < g -> 0 <= cap -> bounded cs cap -> bounded (grow_rec cs cap g) (cap + g).
Proof.
  induction cs as [|[s e] tl IH]; intros cap g Hg Hc Hb.
  - constructor; [cbn; lia|constructor].
  - inversion Hb as [|? ? Hce Hbt]; subst. cbn [fst snd] in Hce. destruct tl as [|d tl'].
    + cbn [grow_rec]. destruct (e =? cap); repeat constructor; cbn [fst snd]; lia.
    + rewrite grow_rec_cons2. constructor; [cbn [fst snd]; lia|]. apply IH; assumption.
Qed.

Lemma total_cons c l : total (c :: l) = (snd c - fst c) + total l.
Proof. reflexivity. Qed.
Lemma total_app l1 l2 : total (l1 ++ l2) = total l1 + total l2.
Proof. induction l1 as [|c l1 IH]; [reflexivity|]. change ((c :: l1) ++ l2) with (c :: (l1 ++ l2)). rewrite !total_cons, IH. lia. Qed.

Lemma grow_rec_total : forall cs cap g, total (grow_rec cs cap g) = total cs + g.
Proof.
  induction cs as [|[s e] tl IH]; intros cap g.
  - cbn [grow_rec]. rewrite total_cons. cbn. lia.
  - destruct tl as [|d tl'].
    + cbn [grow_rec]. destruct (e =? cap) eqn:E; rewrite !total_cons; cbn [fst snd total fold_right]; [apply Z.eqb_eq in E|]; lia.
    + rewrite grow_rec_cons2. rewrite total_cons, IH, (total_cons (s,e)). lia.
Qed.

Lemma bounded_weaken cs c c' : c <= c' -> bounded cs c -> bounded cs c'.
Proof. intros H Hb. eapply Forall_impl; [|exact Hb]. cbn. intros; lia. Qed.

Lemma grow_chunks_props cs cap g : 0 <= g -> 0 <= cap -> nsep cs -> bounded cs cap ->
  nsep (grow_chunks cs cap g) /\ bounded (grow_chunks cs cap g) (cap + g) /\
  total (grow_chunks cs cap g) = total cs + g /\
  forall x, freeB (grow_chunks cs cap g) x <-> freeB cs x \/ cap <= x < cap + g.
Proof.
  intros Hg Hc Hs Hb. unfold grow_chunks. destruct (g <=? 0) eqn:E.
  - assert (g = 0) by lia. subst g. repeat split; try assumption.
    + eapply bounded_weaken; [|exact Hb]; lia.
    + lia.
    + auto.
    + intros [H|H]; [exact H|lia].
  - assert (0 < g) by lia. repeat split.
    + apply grow_rec_nsep; assumption.
    + apply grow_rec_bounded; assumption.
    + apply grow_rec_total.
    + apply grow_rec_bytes; [assumption|apply nsep_wf; assumption].
    + apply grow_rec_bytes; [assumption|apply nsep_wf; assumption].
Qed.

(* ---------- totals ---------- *)
Lemma scan_total cs size a s off cs' :
  scan cs size a = Some (s, off, cs') -> total cs' = total cs - (off + size - s).
Proof.
  intros H. destruct (scan_some _ _ _ _ _ _ H) as [pre [e [suf [-> [_ [_ [Hfit ->]]]]]]].
  rewrite !total_app. destruct (e - (off + size) =? 0) eqn:E; rewrite !total_cons; cbn [fst snd]; lia.
Qed.

(* non-overlapping sorted lists: consecutive chunks may touch but not overlap *)
Fixpoint nover (cs : list chunk) : Prop :=
  match cs with
  | [] => True
  | c :: tl => fst c < snd c /\ (match tl with [] => True | d :: _ => snd c <= fst d end) /\ nover tl
  end.
Lemma nsep_nover cs : nsep cs -> nover cs.
Proof. induction cs as [|c tl IH]; cbn; [auto|]. intros [H1 [H2 H3]]. split; [exact H1|]. split; [|apply IH; exact H3]. destruct tl; [exact I|lia]. Qed.

Lemma merge_total : forall cs p, nover (p :: cs) -> total (merge p cs) = total (p :: cs).
Proof.
  induction cs as [|[s e] tl IH]; intros [ps pe] Hn; cbn [merge]; [reflexivity|].
  cbn [nover fst snd] in Hn. destruct Hn as [Hp [Hps [Hse [Hnx Hno]]]].
  destruct ((e >=? ps) && (s <=? pe)) eqn:Hc.
  - apply andb_prop in Hc. destruct Hc as [_ H2]. assert (pe = s) by lia. subst s.
    replace (Z.min ps pe) with ps by lia. replace (Z.max pe e) with e by lia.
    rewrite IH.
    + rewrite !total_cons. cbn [fst snd]. lia.
    + cbn [nover fst snd]. split; [lia|]. split; [exact Hnx|exact Hno].
  - rewrite total_cons. rewrite IH by (cbn [nover fst snd]; auto). rewrite !total_cons. reflexivity.
Qed.

Lemma insert_sorted_head cs o e :
  match insert_sorted cs o e with
  | [] => False
  | d :: _ => d = (o,e) \/ (match cs with [] => False | c :: _ => d = c /\ fst c < o end)
  end.
Proof.
  destruct cs as [|[s e'] tl]; cbn [insert_sorted]; [left; reflexivity|].
  destruct (o <=? s) eqn:E; [left; reflexivity|right; split; [reflexivity|cbn; lia]].
Qed.

Lemma insert_sorted_nover : forall cs o e, o < e -> nsep cs ->
  (forall x, o <= x < e -> ~ freeB cs x) -> nover (insert_sorted cs o e).
Proof.
  induction cs as [|[s e'] tl IH]; intros o e Hoe Hs Hd; cbn [insert_sorted].
  - cbn; lia.
  - cbn [nsep fst snd] in Hs. destruct Hs as [Hse [Hn Hst]].
    destruct (o <=? s) eqn:E.
    + cbn [nover fst snd]. split; [exact Hoe|]. split.
      * destruct (Z_le_gt_dec e s); [assumption|]. exfalso. apply (Hd s); [lia|].
        apply freeB_cons. left. unfold inb; cbn; lia.
      * split; [exact Hse|]. split; [destruct tl; [exact I|lia]|apply nsep_nover; exact Hst].
    + assert (Ho : e' <= o).
      { destruct (Z_le_gt_dec e' o); [assumption|]. exfalso. apply (Hd o); [lia|].
        apply freeB_cons. left. unfold inb; cbn; lia. }
      cbn [nover fst snd]. split; [exact Hse|]. split.
      * pose proof (insert_sorted_head tl o e) as Hh.
        destruct (insert_sorted tl o e) as [|d l]; [exact I|].
        destruct Hh as [->|Hh]; [cbn; lia|]. destruct tl as [|c tl']; [destruct Hh|]. destruct Hh as [-> _]. lia.
      * apply IH; try assumption. intros x Hx Hf. apply (Hd x Hx). apply freeB_cons. right. exact Hf.
Qed.

Lemma insert_sorted_total : forall cs o e, total (insert_sorted cs o e) = total cs + (e - o).
Proof.
  induction cs as [|[s e'] tl IH]; intros o e; cbn [insert_sorted].
  - rewrite total_cons. cbn. lia.
  - destruct (o <=? s); rewrite !total_cons; [cbn [fst snd]; lia|].
    rewrite IH. cbn [fst snd]. lia.
Qed.

Lemma insert_merge_total cs o e : o < e -> nsep cs ->
  (forall x, o <= x < e -> ~ freeB cs x) -> total (insert_merge cs o e) = total cs + (e - o).
Proof.
  intros Hoe Hs Hd. unfold insert_merge.
  pose proof (insert_sorted_nover cs o e Hoe Hs Hd) as Hn.
  pose proof (insert_sorted_total cs o e) as Ht.
  destruct (insert_sorted cs o e) as [|c tl]; [cbn in Ht; cbn; lia|].
  rewrite merge_total by exact Hn. exact Ht.
Qed.

Lemma add_chunk_total cs c : nsep cs -> (forall x, inb x c -> ~ freeB cs x) ->
  total (add_chunk cs c) = total cs + Z.max 0 (snd c - fst c).
Proof.
  intros Hs Hd. unfold add_chunk. destruct (fst c <? snd c) eqn:E.
  - rewrite insert_merge_total; try assumption; try lia.
  - lia.
Qed.

(* bounded is preserved by add_chunk of an in-bounds range *)
Lemma insert_sorted_bounded : forall cs o e cap, 0 <= o -> e <= cap -> bounded cs cap -> bounded (insert_sorted cs o e) cap.
Proof.
  induction cs as [|[s e'] tl IH]; intros o e cap Ho He Hb; cbn [insert_sorted].
  - constructor; [cbn; lia|constructor].
  - inversion Hb; subst. destruct (o <=? s).
    + constructor; [cbn; lia|exact Hb].
    + constructor; [assumption|apply IH; assumption].
Qed.
Lemma merge_bounded : forall cs p cap, 0 <= fst p -> snd p <= cap -> bounded cs cap -> bounded (merge p cs) cap.
Proof.
  induction cs as [|[s e] tl IH]; intros [ps pe] cap Hp1 Hp2 Hb; cbn [merge].
  - constructor; [cbn [fst snd] in *; lia|constructor].
  - inversion Hb as [|? ? Hc Hbt]; subst. cbn [fst snd] in *.
    destruct ((e >=? ps) && (s <=? pe)).
    + apply IH; cbn [fst snd]; try assumption; lia.
    + constructor; [cbn; lia|]. apply IH; cbn [fst snd]; try assumption; lia.
Qed.
Lemma add_chunk_bounded cs c cap : 0 <= fst c -> snd c <= cap -> bounded cs cap -> bounded (add_chunk cs c) cap.
Proof.
  intros H1 H2 Hb. unfold add_chunk. destruct (fst c <? snd c); [|exact Hb].
  unfold insert_merge. pose proof (insert_sorted_bounded cs (fst c) (snd c) cap H1 H2 Hb) as Hi.
  destruct (insert_sorted cs (fst c) (snd c)) as [|d tl]; [constructor|].
  inversion Hi; subst. apply merge_bounded; tauto.
Qed.

(* ---------- first fit, at the byte level ---------- *)
Definition fitsAt (P : Z -> Prop) (al size o : Z) : Prop :=
  o mod al = 0 /\ forall x, o <= x < o + size -> P x.

Theorem scan_lowest cs size k s off cs' :
  0 <= k -> 0 < size -> nsep cs -> scan cs size (2^k) = Some (s, off, cs') ->
  fitsAt (freeB cs) (2^k) size off /\
  forall o', fitsAt (freeB cs) (2^k) size o' -> off <= o'.
Proof.
  intros Hk Hsz Hs H.
  destruct (scan_bytes cs size k s off cs' 0 Hk ltac:(lia) Hs H) as [Hso [Hoff [Hin _]]].
  split.
  { split; [rewrite Hoff; apply align_up_spec; exact Hk|]. intros x Hx. apply Hin. lia. }
  intros o' [Hmod Hall].
  destruct (interval_in_chunk cs o' (o' + size) Hs ltac:(lia) Hall) as [c [Hc [Hc1 Hc2]]].
  destruct (scan_some _ _ _ _ _ _ H) as [pre [e [suf [Hcs [Hpre [_ [Hfit _]]]]]]].
  assert (Hfc : fits c size (2^k)).
  { unfold fits. pose proof (align_up_least k (fst c) o' Hk Hc1 Hmod). lia. }
  subst cs. apply in_app_or in Hc. destruct Hc as [Hc|[Hc|Hc]].
  - rewrite Forall_forall in Hpre. destruct (Hpre _ Hc Hfc).
  - subst c. cbn [fst] in Hc1. rewrite Hoff. apply align_up_least; assumption.
  - destruct (nsep_app_inv _ _ _ Hs) as [_ [H2 _]].
    assert (Hb : freeB suf (fst c)).
    { exists c. split; [exact Hc|]. unfold inb. unfold fits in Hfc.
      pose proof (align_up_spec k (fst c) Hk). lia. }
    pose proof (nsep_tail_gt _ _ H2 _ Hb) as Hgt. cbn [snd] in Hgt. lia.
Qed.

Theorem scan_none_nofit cs size k :
  0 <= k -> 0 < size -> nsep cs -> scan cs size (2^k) = None ->
  forall o', ~ fitsAt (freeB cs) (2^k) size o'.
Proof.
  intros Hk Hsz Hs H o' [Hmod Hall].
  destruct (interval_in_chunk cs o' (o' + size) Hs ltac:(lia) Hall) as [c [Hc [Hc1 Hc2]]].
  pose proof (scan_none _ _ _ H) as Hn. rewrite Forall_forall in Hn. apply (Hn _ Hc).
  unfold fits. pose proof (align_up_least k (fst c) o' Hk Hc1 Hmod). lia.
Qed.

(* ================= regions ================= *)
Lemma region_eqb_eq a b : region_eqb a b = true <-> a = b.
Proof.
  unfold region_eqb. rewrite !andb_true_iff, !Z.eqb_eq. destruct a, b; cbn. split.
  - intros [[-> ->] ->]. reflexivity.
  - intros H; inversion H; auto.
Qed.
Lemma liveB_cons r l x : liveB (r::l) x <-> in_region r x \/ liveB l x.
Proof. unfold liveB; split.
  - intros [d [[->|H] Hx]]; [left; exact Hx| right; eauto].
  - intros [H|[d [H Hx]]]; [exists r; split; [left; reflexivity|exact H] | exists d; split; [right; exact H|exact Hx]].
Qed.
Lemma remove_region_In r l r' : In r' (remove_region r l) -> In r' l.
Proof.
  induction l as [|x tl IH]; cbn [remove_region]; [auto|].
  destruct (region_eqb r x); [intros H; right; exact H|]. intros [->|H]; [left; reflexivity|right; apply IH; exact H].
Qed.
Lemma remove_region_liveB r l x : liveB (remove_region r l) x -> liveB l x.
Proof. intros [d [H Hx]]. exists d. split; [eapply remove_region_In; exact H|exact Hx]. Qed.
Lemma regions_disjoint_sym a b : regions_disjoint a b -> regions_disjoint b a.
Proof. unfold regions_disjoint. tauto. Qed.
Lemma remove_region_disjoint : forall l r, pairwise_disjoint l -> In r l -> Forall (regions_disjoint r) (remove_region r l).
Proof.
  induction l as [|x tl IH]; intros r Hp Hin; [destruct Hin|].
  cbn [pairwise_disjoint] in Hp. destruct Hp as [Hx Hp]. cbn [remove_region].
  destruct (region_eqb r x) eqn:E.
  - apply region_eqb_eq in E. subst x. exact Hx.
  - destruct Hin as [->|Hin]; [rewrite (proj2 (region_eqb_eq r r) eq_refl) in E; discriminate|].
    constructor; [|apply IH; assumption].
    rewrite Forall_forall in Hx. apply regions_disjoint_sym. apply Hx. exact Hin.
Qed.
Lemma remove_region_pairwise : forall l r, pairwise_disjoint l -> pairwise_disjoint (remove_region r l).
Proof.
  induction l as [|x tl IH]; intros r Hp; [exact I|].
  cbn [pairwise_disjoint] in Hp. destruct Hp as [Hx Hp]. cbn [remove_region].
  destruct (region_eqb r x); [exact Hp|]. cbn [pairwise_disjoint]. split; [|apply IH; exact Hp].
  rewrite Forall_forall in *. intros y Hy. apply Hx. eapply remove_region_In; exact Hy.
Qed.
Lemma remove_region_Forall (P : region -> Prop) l r : Forall P l -> Forall P (remove_region r l).
Proof. rewrite !Forall_forall. intros H y Hy. apply H. eapply remove_region_In; exact Hy. Qed.
Lemma live_total_cons r l : live_total (r :: l) = r_size r + live_total l.
Proof. reflexivity. Qed.
Lemma remove_region_total : forall l r, In r l -> live_total (remove_region r l) = live_total l - r_size r.
Proof.
  induction l as [|x tl IH]; intros r Hin; [destruct Hin|]. cbn [remove_region].
  destruct (region_eqb r x) eqn:E.
  - apply region_eqb_eq in E. subst x. rewrite live_total_cons. lia.
  - destruct Hin as [->|Hin]; [rewrite (proj2 (region_eqb_eq r r) eq_refl) in E; discriminate|].
    rewrite !live_total_cons, IH by exact Hin. lia.
Qed.
Lemma find_region_spec : forall l off size x, find_region off size l = Some x -> In x l /\ r_off x = off /\ r_size x = size.
Proof.
  induction l as [|y tl IH]; intros off size x H; cbn [find_region] in H; [discriminate|].
  destruct ((r_off y =? off) && (r_size y =? size)) eqn:E.
  - inversion H; subst. apply andb_prop in E. destruct E as [E1 E2]. split; [left; reflexivity|lia].
  - destruct (IH _ _ _ H) as [H1 H2]. split; [right; exact H1|exact H2].
Qed.
Lemma disjoint_bytes a b x : regions_disjoint a b -> in_region a x -> in_region b x -> False.
Proof. unfold regions_disjoint, in_region. lia. Qed.
Lemma bytes_disjoint a b : 0 <= r_size a -> 0 <= r_size b ->
  (forall x, in_region a x -> ~ in_region b x) -> regions_disjoint a b.
Proof.
  intros Ha Hb H. unfold regions_disjoint.
  destruct (Z_le_gt_dec (r_off a + r_size a) (r_off b)); [tauto|].
  destruct (Z_le_gt_dec (r_off b + r_size b) (r_off a)); [tauto|].
  destruct (Z.eq_dec (r_size a) 0); [tauto|]. destruct (Z.eq_dec (r_size b) 0); [tauto|].
  exfalso. apply (H (Z.max (r_off a) (r_off b))); unfold in_region; lia.
Qed.
Lemma region_ok_weaken c c' r : c <= c' -> region_ok c r -> region_ok c' r.
Proof. unfold region_ok. intros; intuition lia. Qed.

(* ================= C04: the safety invariant is preserved ================= *)
Theorem safe_step_SInv s o ob s' : SInv s -> safe_step s o ob s' -> SInv s'.
Proof.
  intros [Hd Hok Hfl Hfb Hcap] Hst. destruct Hst.
  - (* alloc *)
    match goal with H : s_live s' = _ |- _ => rename H into Hl end.
    assert (Hnew : region_ok (s_cap s') (mkR off size al)) by (unfold region_ok; cbn; lia).
    assert (Hold : forall x, freeB (s_free s) x \/ grown s s' x -> ~ liveB (s_live s) x).
    { intros x [Hx|Hx]; [apply Hfl; exact Hx|]. intros [q [Hq Hxq]]. rewrite Forall_forall in Hok.
      specialize (Hok _ Hq). unfold region_ok in Hok. unfold in_region in Hxq. unfold grown in Hx. lia. }
    constructor; rewrite ?Hl.
    + cbn [pairwise_disjoint]. split; [|exact Hd]. rewrite Forall_forall. intros q Hq.
      rewrite Forall_forall in Hok. pose proof (Hok _ Hq) as Hq'. unfold region_ok in Hq'.
      apply bytes_disjoint; cbn [r_size]; try lia.
      intros x Hx Hxq. unfold in_region in Hx; cbn in Hx.
      apply (Hold x); [auto|]. exists q. split; assumption.
    + constructor; [exact Hnew|]. eapply Forall_impl; [|exact Hok]. intros q. apply region_ok_weaken. assumption.
    + intros x Hx. match goal with H : forall x, freeB (s_free s') x -> _ |- _ => destruct (H x Hx) as [Hx1 Hx2] end.
      rewrite liveB_cons. intros [Hin|Hin]; [unfold in_region in Hin; cbn in Hin; lia|]. exact (Hold x Hx1 Hin).
    + intros x Hx. match goal with H : forall x, freeB (s_free s') x -> _ |- _ => destruct (H x Hx) as [[Hx1|Hx1] _] end.
      * specialize (Hfb x Hx1). lia.
      * unfold grown in Hx1. lia.
    + lia.
  - (* free *)
    match goal with H : s_live s' = _ |- _ => rename H into Hl end.
    match goal with H : s_cap s' = _ |- _ => rename H into Hc end.
    match goal with H : In r _ |- _ => rename H into Hin end.
    constructor; rewrite ?Hl, ?Hc.
    + apply remove_region_pairwise; exact Hd.
    + apply remove_region_Forall; exact Hok.
    + intros x Hx Hlive. match goal with H : forall x, freeB (s_free s') x -> _ |- _ => destruct (H x Hx) as [Hx1|Hx1] end.
      * apply (Hfl x Hx1). eapply remove_region_liveB; exact Hlive.
      * destruct Hlive as [q [Hq Hxq]].
        pose proof (remove_region_disjoint _ _ Hd Hin) as Hdis. rewrite Forall_forall in Hdis.
        exact (disjoint_bytes _ _ _ (Hdis _ Hq) Hx1 Hxq).
    + intros x Hx. match goal with H : forall x, freeB (s_free s') x -> _ |- _ => destruct (H x Hx) as [Hx1|Hx1] end.
      * exact (Hfb x Hx1).
      * rewrite Forall_forall in Hok. specialize (Hok _ Hin). unfold region_ok in Hok. unfold in_region in Hx1. lia.
    + exact Hcap.
  - (* grow *)
    match goal with H : s_live s' = _ |- _ => rename H into Hl end.
    match goal with H : s_cap s' = _ |- _ => rename H into Hc end.
    constructor; rewrite ?Hl.
    + exact Hd.
    + eapply Forall_impl; [|exact Hok]. intros q. apply region_ok_weaken. lia.
    + intros x Hx Hlive. match goal with H : forall x, freeB (s_free s') x -> _ |- _ => destruct (H x Hx) as [Hx1|Hx1] end.
      * exact (Hfl x Hx1 Hlive).
      * destruct Hlive as [q [Hq Hxq]]. rewrite Forall_forall in Hok. specialize (Hok _ Hq).
        unfold region_ok in Hok. unfold in_region in Hxq. unfold grown in Hx1. lia.
    + intros x Hx. match goal with H : forall x, freeB (s_free s') x -> _ |- _ => destruct (H x Hx) as [Hx1|Hx1] end.
      * specialize (Hfb x Hx1). lia.
      * unfold grown in Hx1. lia.
    + lia.
  - (* error *)
    match goal with H : s_live s' = _ |- _ => rename H into Hl end.
    constructor; rewrite ?Hl.
    + exact Hd.
    + eapply Forall_impl; [|exact Hok]. intros q. apply region_ok_weaken. lia.
    + intros x Hx Hlive. match goal with H : forall x, freeB (s_free s') x -> _ |- _ => destruct (H x Hx) as [Hx1|Hx1] end.
      * exact (Hfl x Hx1 Hlive).
      * destruct Hlive as [q [Hq Hxq]]. rewrite Forall_forall in Hok. specialize (Hok _ Hq).
        unfold region_ok in Hok. unfold in_region in Hxq. unfold grown in Hx1. lia.
    + intros x Hx. match goal with H : forall x, freeB (s_free s') x -> _ |- _ => destruct (H x Hx) as [Hx1|Hx1] end.
      * specialize (Hfb x Hx1). lia.
      * unfold grown in Hx1. lia.
    + lia.
Qed.

Theorem safe_trace_SInv s tr s' : SInv s -> safe_trace s tr s' -> SInv s'.
Proof. intros Hi Ht. induction Ht as [|s o r s1 tr s2 Hst _ IH]; [exact Hi|]. apply IH. eapply safe_step_SInv; eassumption. Qed.

(* ================= C12: the first-fit spec ================= *)
Lemma scan_in_bounds cs size a s off cs' cap :
  bounded cs cap -> scan cs size a = Some (s, off, cs') ->
  0 <= s /\ off + size <= cap /\ (0 <= size -> s <= off -> bounded cs' cap).
Proof.
  intros Hb H. destruct (scan_some _ _ _ _ _ _ H) as [pre [e [suf [-> [_ [_ [Hfit ->]]]]]]].
  unfold bounded in *. rewrite Forall_app in Hb. destruct Hb as [Hb1 Hb2]. inversion Hb2 as [|? ? Hc Hb3]; subst.
  cbn [fst snd] in Hc. split; [lia|]. split; [lia|]. intros Hsz Hso.
  rewrite Forall_app. split; [exact Hb1|]. destruct (e - (off + size) =? 0); [exact Hb3|].
  constructor; [cbn [fst snd]; lia|exact Hb3].
Qed.

Lemma is_pow2_pos al : is_pow2 al -> 0 < al.
Proof. intros [k [Hk ->]]. apply Z.pow_pos_nonneg; lia. Qed.

Lemma FInv_free_bound s : FInv s -> forall x, freeB (s_free s) x -> 0 <= x < s_cap s.
Proof.
  intros Hi x [c [Hc Hx]]. pose proof (fi_bounded _ Hi) as Hb. unfold bounded in Hb. rewrite Forall_forall in Hb.
  specialize (Hb _ Hc). unfold inb in Hx. lia.
Qed.

Lemma FInv_SInv s : FInv s -> SInv s.
Proof.
  intros Hi. constructor.
  - apply Hi. - apply Hi. - apply Hi. - apply FInv_free_bound; exact Hi. - apply Hi.
Qed.

Lemma live_not_grown s x g : FInv s -> s_cap s <= x < s_cap s + g -> ~ liveB (s_live s) x.
Proof.
  intros Hi Hx [q [Hq Hxq]]. pose proof (fi_live_ok _ Hi) as Hok. rewrite Forall_forall in Hok.
  specialize (Hok _ Hq). unfold region_ok in Hok. unfold in_region in Hxq. lia.
Qed.

Theorem ff_step_FInv s o ob s' : FInv s -> ff_step s o ob s' -> FInv s'.
Proof.
  intros Hi Hst. destruct Hst as [s size al g s0 off F' Hsz Hal Hg Hgrow Hscan | s al off Hal Hmod Hoff | s r Hin | s n Hn].
  - (* alloc *)
    destruct Hal as [k [Hk ->]].
    destruct (grow_chunks_props (s_free s) (s_cap s) g Hg (fi_cap _ Hi) (fi_nsep _ Hi) (fi_bounded _ Hi)) as [G1 [G2 [G3 G4]]].
    destruct (scan_in_bounds _ _ _ _ _ _ _ G2 Hscan) as [B1 [B2 B3]].
    assert (Hsz0 : 0 <= size) by lia.
    pose proof (fun x => scan_bytes _ _ k _ _ _ x Hk Hsz0 G1 Hscan) as Hsb.
    destruct (Hsb 0) as [S1 [S2 [S3 _]]].
    pose proof (align_up_spec k s0 Hk) as [_ Hmod]. rewrite <- S2 in Hmod.
    assert (Hp : 0 < 2^k) by (apply Z.pow_pos_nonneg; lia).
    assert (Hold : forall x, freeB (grow_chunks (s_free s) (s_cap s) g) x -> ~ liveB (s_live s) x).
    { intros x Hx. apply G4 in Hx. destruct Hx as [Hx|Hx]; [apply (fi_free_live _ Hi); exact Hx|eapply live_not_grown; eassumption]. }
    constructor; cbn [s_cap s_free s_live s_lost].
    + eapply scan_nsep; [exact Hk| |exact G1|exact Hscan]. lia.
    + apply B3; lia.
    + pose proof (fi_cap _ Hi). lia.
    + pose proof (fi_lost _ Hi). lia.
    + constructor; [unfold region_ok; cbn; lia|].
      eapply Forall_impl; [|exact (fi_live_ok _ Hi)]. intros q. apply region_ok_weaken. lia.
    + cbn [pairwise_disjoint]. split; [|exact (fi_disj _ Hi)]. rewrite Forall_forall. intros q Hq.
      pose proof (fi_live_ok _ Hi) as Hok. rewrite Forall_forall in Hok. pose proof (Hok _ Hq) as Hq'. unfold region_ok in Hq'.
      apply bytes_disjoint; cbn [r_size]; try lia.
      intros x Hx Hxq. unfold in_region in Hx; cbn in Hx.
      apply (Hold x); [apply S3; lia|]. exists q. split; assumption.
    + intros x Hx. destruct (Hsb x) as [_ [_ [_ Hiff]]]. apply Hiff in Hx. destruct Hx as [Hx1 Hx2].
      rewrite liveB_cons. intros [Hin|Hin]; [unfold in_region in Hin; cbn in Hin; lia|]. exact (Hold x Hx1 Hin).
    + rewrite (scan_total _ _ _ _ _ _ Hscan), G3, live_total_cons. cbn [r_size]. pose proof (fi_account _ Hi). lia.
  - (* zero-size alloc *)
    constructor; cbn [s_cap s_free s_live s_lost]; try apply Hi.
    + constructor; [unfold region_ok; cbn; pose proof (is_pow2_pos _ Hal); lia|apply Hi].
    + cbn [pairwise_disjoint]. split; [|apply Hi]. rewrite Forall_forall. intros q _. unfold regions_disjoint. cbn. lia.
    + intros x Hx. rewrite liveB_cons. intros [Hin|Hin]; [unfold in_region in Hin; cbn in Hin; lia|].
      exact (fi_free_live _ Hi x Hx Hin).
  - (* free *)
    pose proof (fi_live_ok _ Hi) as Hok. rewrite Forall_forall in Hok. pose proof (Hok _ Hin) as Hr. unfold region_ok in Hr.
    assert (Hdisj : forall x, inb x (r_off r, r_off r + r_size r) -> ~ freeB (s_free s) x).
    { intros x Hx Hf. apply (fi_free_live _ Hi x Hf). exists r. split; [exact Hin|]. unfold inb in Hx. cbn in Hx. exact Hx. }
    constructor; cbn [s_cap s_free s_live s_lost]; try apply Hi.
    + apply add_chunk_nsep; apply Hi.
    + apply add_chunk_bounded; cbn [fst snd]; try lia. apply Hi.
    + apply remove_region_Forall; apply Hi.
    + apply remove_region_pairwise; apply Hi.
    + intros x Hx Hlive. apply add_chunk_bytes in Hx; [|apply Hi]. destruct Hx as [Hx|Hx].
      * destruct Hlive as [q [Hq Hxq]].
        pose proof (remove_region_disjoint _ _ (fi_disj _ Hi) Hin) as Hdis. rewrite Forall_forall in Hdis.
        unfold inb in Hx; cbn in Hx. exact (disjoint_bytes _ _ _ (Hdis _ Hq) Hx Hxq).
      * apply (fi_free_live _ Hi x Hx). eapply remove_region_liveB; exact Hlive.
    + rewrite add_chunk_total by (try apply Hi; exact Hdisj). cbn [fst snd].
      rewrite remove_region_total by exact Hin. pose proof (fi_account _ Hi). lia.
  - (* grow *)
    destruct (grow_chunks_props (s_free s) (s_cap s) n Hn (fi_cap _ Hi) (fi_nsep _ Hi) (fi_bounded _ Hi)) as [G1 [G2 [G3 G4]]].
    constructor; cbn [s_cap s_free s_live s_lost]; try apply Hi; try assumption.
    + pose proof (fi_cap _ Hi). lia.
    + eapply Forall_impl; [|exact (fi_live_ok _ Hi)]. intros q. apply region_ok_weaken. lia.
    + intros x Hx. apply G4 in Hx. destruct Hx as [Hx|Hx]; [apply (fi_free_live _ Hi); exact Hx|eapply live_not_grown; eassumption].
    + rewrite G3. pose proof (fi_account _ Hi). lia.
Qed.

Theorem ff_trace_FInv s tr s' : FInv s -> ff_trace s tr s' -> FInv s'.
Proof. intros Hi Ht. induction Ht as [|s o r s1 tr s2 Hst _ IH]; [exact Hi|]. apply IH. eapply ff_step_FInv; eassumption. Qed.

Lemma init_FInv cap : 0 <= cap -> FInv (init_state cap).
Proof.
  intros Hc. unfold init_state. constructor; cbn [s_cap s_free s_live s_lost].
  - apply add_chunk_nsep. exact I.
  - apply add_chunk_bounded; cbn; try lia. constructor.
  - exact Hc. - lia. - constructor. - exact I.
  - intros x _ [q [[] _]].
  - rewrite add_chunk_total; [cbn; lia|exact I|]. intros x _ H. exact (freeB_nil _ H).
Qed.

(* every first-fit step is a safe step: the C12 spec refines the C04 spec *)
Theorem ff_step_safe s o ob s' : FInv s -> ff_step s o ob s' -> safe_step s o ob s'.
Proof.
  intros Hi Hst. pose proof (ff_step_FInv _ _ _ _ Hi Hst) as Hi'.
  destruct Hst as [s size al g s0 off F' Hsz Hal Hg Hgrow Hscan | s al off Hal Hmod Hoff | s r Hin | s n Hn].
  - pose proof Hal as [k [Hk ->]].
    destruct (grow_chunks_props (s_free s) (s_cap s) g Hg (fi_cap _ Hi) (fi_nsep _ Hi) (fi_bounded _ Hi)) as [G1 [G2 [G3 G4]]].
    destruct (scan_in_bounds _ _ _ _ _ _ _ G2 Hscan) as [B1 [B2 B3]].
    assert (Hsz0 : 0 <= size) by lia.
    pose proof (fun x => scan_bytes _ _ k _ _ _ x Hk Hsz0 G1 Hscan) as Hsb.
    destruct (Hsb 0) as [S1 [S2 [S3 _]]].
    pose proof (align_up_spec k s0 Hk) as [_ Hmod]. rewrite <- S2 in Hmod.
    assert (Hp : 0 < 2^k) by (apply Z.pow_pos_nonneg; lia).
    apply Safe_alloc; cbn [s_cap s_free s_live s_lost]; try lia; try reflexivity.
    + intros x Hx. assert (Hf : freeB (grow_chunks (s_free s) (s_cap s) g) x) by (apply S3; lia).
      apply G4 in Hf. unfold grown; cbn [s_cap]. exact Hf.
    + intros x Hx. destruct (Hsb x) as [_ [_ [_ Hiff]]]. apply Hiff in Hx. destruct Hx as [Hx1 Hx2].
      apply G4 in Hx1. unfold grown; cbn [s_cap]. split; [exact Hx1|lia].
  - apply Safe_alloc; cbn [s_cap s_free s_live s_lost]; try lia; try reflexivity; try assumption.
    + apply is_pow2_pos; exact Hal.
    + intros x Hx. split; [left; exact Hx|lia].
  - apply Safe_free; cbn [s_cap s_free s_live s_lost]; try reflexivity; try assumption.
    intros x Hx. apply add_chunk_bytes in Hx; [|apply Hi]. unfold inb, in_region in *. cbn [fst snd] in Hx. tauto.
  - destruct (grow_chunks_props (s_free s) (s_cap s) n Hn (fi_cap _ Hi) (fi_nsep _ Hi) (fi_bounded _ Hi)) as [G1 [G2 [G3 G4]]].
    apply Safe_grow; cbn [s_cap s_free s_live s_lost]; try reflexivity; try assumption.
    intros x Hx. apply G4 in Hx. unfold grown; cbn [s_cap]. exact Hx.
Qed.

(* ---- the clauses of C12, for every step of every trace ---- *)
Definition free_or_new (s s' : sst) (x : Z) : Prop := freeB (s_free s) x \/ grown s s' x.

Theorem ff_lowest_fit s size al off s' :
  FInv s -> 0 < size -> ff_step s (OAlloc size al) (RetOff off) s' ->
  fitsAt (free_or_new s s') al size off /\
  (forall o', fitsAt (free_or_new s s') al size o' -> off <= o') /\
  (s_cap s < s_cap s' -> forall o', ~ fitsAt (freeB (s_free s)) al size o') /\
  s_cap s <= s_cap s'.
Proof.
  intros Hi Hsz Hst. inversion Hst as [s1 size1 al1 g s0 off1 F' Hsz1 Hal Hg Hgrow Hscan | | |]; subst; [|lia].
  destruct Hal as [k [Hk ->]].
  destruct (grow_chunks_props (s_free s) (s_cap s) g Hg (fi_cap _ Hi) (fi_nsep _ Hi) (fi_bounded _ Hi)) as [G1 [G2 [G3 G4]]].
  destruct (scan_lowest _ _ k _ _ _ Hk Hsz G1 Hscan) as [L1 L2].
  assert (Heq : forall o', fitsAt (free_or_new s (mkS (s_cap s + g) F' (mkR off size (2^k) :: s_live s) (s_lost s + (off - s0)))) (2^k) size o' <->
                          fitsAt (freeB (grow_chunks (s_free s) (s_cap s) g)) (2^k) size o').
  { intros o'. unfold fitsAt, free_or_new, grown; cbn [s_cap]. split; intros [A B]; (split; [exact A|]); intros x Hx; apply G4; apply B; exact Hx. }
  split; [apply Heq; exact L1|]. split; [intros o' Ho'; apply L2; apply Heq; exact Ho'|]. cbn [s_cap]. split; [|lia].
  intros Hlt. apply (scan_none_nofit _ _ k Hk Hsz (fi_nsep _ Hi)). apply Hgrow. lia.
Qed.

Theorem ff_free_exact s off size ob s' :
  FInv s -> ff_step s (OFree off size) ob s' ->
  ob = RetUnit /\ s_cap s' = s_cap s /\
  forall x, freeB (s_free s') x <-> freeB (s_free s) x \/ off <= x < off + size.
Proof.
  intros Hi Hst. inversion Hst; subst. split; [reflexivity|]. split; [reflexivity|]. cbn [s_free].
  intros x. rewrite add_chunk_bytes by apply Hi. unfold inb; cbn [fst snd]. tauto.
Qed.

Theorem ff_never_errs s o s' : ~ ff_step s o RetErr s'.
Proof. intros H; inversion H. Qed.

Theorem ff_free_enabled s r : In r (s_live s) -> exists s', ff_step s (OFree (r_off r) (r_size r)) RetUnit s'.
Proof. intros H. eexists. apply FF_free. exact H. Qed.

(* coalescing: two adjacent live regions, freed in either order, serve one request
   spanning both without growth and not above the lower one *)
Theorem ff_coalesce s a b c s1 s2 off s3 ob1 ob2 :
  FInv s -> a < b -> b < c ->
  ff_step s (OFree a (b - a)) ob1 s1 -> ff_step s1 (OFree b (c - b)) ob2 s2 ->
  ff_step s2 (OAlloc (c - a) 1) (RetOff off) s3 ->
  off <= a /\ s_cap s3 = s_cap s.
Proof.
  intros Hi Hab Hbc H1 H2 H3.
  pose proof (ff_step_FInv _ _ _ _ Hi H1) as Hi1. pose proof (ff_step_FInv _ _ _ _ Hi1 H2) as Hi2.
  destruct (ff_free_exact _ _ _ _ _ Hi H1) as [_ [C1 E1]]. destruct (ff_free_exact _ _ _ _ _ Hi1 H2) as [_ [C2 E2]].
  assert (Hfit : fitsAt (freeB (s_free s2)) 1 (c - a) a).
  { split; [apply Z.mod_1_r|]. intros x Hx. apply E2. destruct (Z_lt_ge_dec x b); [left; apply E1; right; lia|right; lia]. }
  assert (Hca : 0 < c - a) by lia.
  destruct (ff_lowest_fit _ _ _ _ _ Hi2 Hca H3) as [_ [L2 [L3 L4]]].
  split.
  - apply L2. destruct Hfit as [A B]. split; [exact A|]. intros x Hx. left. apply B. exact Hx.
  - destruct (Z_lt_ge_dec (s_cap s2) (s_cap s3)) as [Hlt|Hge]; [destruct (L3 Hlt a Hfit)|].
    inversion H3; subst; cbn [s_cap] in *; lia.
Qed.

(* a request can always be served (spec-level progress) *)
Lemma grow_rec_last : forall cs cap g, 0 < g -> wf cs -> bounded cs cap -> 0 <= cap ->
  exists sl, 0 <= sl <= cap /\ In (sl, cap + g) (grow_rec cs cap g).
Proof.
  induction cs as [|[s e] tl IH]; intros cap g Hg Hwf Hb Hc.
  - exists cap. split; [lia|]. cbn. auto.
  - inversion Hb as [|? ? Hce Hbt]; subst. cbn [fst snd] in Hce.
    inversion Hwf as [|? ? Hse Hwt]; subst. cbn [fst snd] in Hse. destruct tl as [|d tl'].
    + cbn [grow_rec]. destruct (e =? cap) eqn:E.
      * exists s. split; [|left; reflexivity]. apply Z.eqb_eq in E. lia.
      * exists cap. split; [lia|]. right; left; reflexivity.
    + rewrite grow_rec_cons2. destruct (IH cap g Hg Hwt Hbt Hc) as [sl [H1 H2]]. exists sl. split; [exact H1|right; exact H2].
Qed.

Theorem ff_alloc_enabled s size al : FInv s -> 0 < size -> is_pow2 al ->
  exists off s', ff_step s (OAlloc size al) (RetOff off) s'.
Proof.
  intros Hi Hsz Hal. pose proof Hal as [k [Hk Hek]].
  destruct (scan (s_free s) size al) as [[[s0 off] F']|] eqn:E.
  - exists off. eexists. apply (FF_alloc s size al 0 s0 off F'); try assumption; try lia.
  - set (g := size + al).
    assert (Hg : 0 < g) by (pose proof (is_pow2_pos _ Hal); lia).
    destruct (grow_rec_last (s_free s) (s_cap s) g Hg (nsep_wf _ (fi_nsep _ Hi)) (fi_bounded _ Hi) (fi_cap _ Hi)) as [sl [Hsl Hin]].
    destruct (scan (grow_chunks (s_free s) (s_cap s) g) size al) as [[[s0 off] F']|] eqn:E2.
    + exists off. eexists. apply (FF_alloc s size al g s0 off F'); try assumption; try lia. intros _. exact E.
    + exfalso. pose proof (scan_none _ _ _ E2) as Hn. rewrite Forall_forall in Hn.
      unfold grow_chunks in Hn. replace (g <=? 0) with false in Hn by lia.
      apply (Hn _ Hin). unfold fits. cbn [fst snd]. subst al. pose proof (align_up_spec k sl Hk). lia.
Qed.

(* ================= soundness of the conformance checkers ================= *)
Lemma chunks_eqb_eq : forall a b, chunks_eqb a b = true -> a = b.
Proof.
  induction a as [|[s e] a IH]; intros [|[s' e'] b] H; cbn [chunks_eqb] in H; try discriminate; [reflexivity|].
  apply andb_prop in H. destruct H as [H1 H2]. unfold chunk_eqb in H1. cbn [fst snd] in H1.
  apply andb_prop in H1. destruct H1 as [A B]. apply Z.eqb_eq in A, B. subst. f_equal. apply IH; exact H2.
Qed.
Lemma insideb_sound cs o e : insideb cs o e = true -> forall x, o <= x < e -> freeB cs x.
Proof.
  unfold insideb. rewrite existsb_exists. intros [c [Hc H]] x Hx. apply andb_prop in H. destruct H as [A B].
  exists c. split; [exact Hc|]. unfold inb. lia.
Qed.
Lemma subsetb_sound a b : subsetb a b = true -> forall x, freeB a x -> freeB b x.
Proof.
  unfold subsetb. rewrite forallb_forall. intros H x [c [Hc Hx]]. specialize (H _ Hc).
  apply orb_prop in H. destruct H as [H|H]; [unfold inb in Hx; lia|].
  apply (insideb_sound _ _ _ H). exact Hx.
Qed.
Lemma disjointb_sound cs o e : disjointb cs o e = true -> forall x, freeB cs x -> ~ (o <= x < e).
Proof.
  unfold disjointb. rewrite forallb_forall. intros H x [c [Hc Hx]] Hoe. specialize (H _ Hc).
  unfold inb in Hx. repeat (apply orb_prop in H; destruct H as [H|H]); lia.
Qed.
Lemma pow2b_sound a : pow2b a = true -> is_pow2 a.
Proof.
  unfold pow2b. intros H. apply andb_prop in H. destruct H as [A B]. exists (Z.log2 a).
  split; [apply Z.log2_nonneg|lia].
Qed.

Theorem safe_stepb_sound pre live o ob post lost lost' :
  safe_stepb pre live o ob post = true ->
  safe_step (abs pre live lost) o ob (abs post (live_after live o ob) lost').
Proof.
  destruct pre as [cap raw], post as [cap' raw']. unfold safe_stepb, abs. cbn [fst snd].
  pose proof (norm_nsep raw) as HnF.
  assert (HF1 : forall x, freeB (add_chunk (norm raw) (cap, cap')) x <-> (cap <= x < cap') \/ freeB (norm raw) x).
  { intros x. rewrite add_chunk_bytes by exact HnF. unfold inb; cbn [fst snd]. tauto. }
  destruct o as [size al|off size|n]; destruct ob as [off'| |]; try discriminate.
  - (* alloc *)
    intros H. repeat (apply andb_prop in H; destruct H as [H ?]).
    repeat match goal with H : (_ <=? _) = true |- _ => apply Z.leb_le in H | H : (_ <? _) = true |- _ => apply Z.ltb_lt in H | H : (_ =? _) = true |- _ => apply Z.eqb_eq in H end.
    apply Safe_alloc; cbn [s_cap s_free s_live live_after]; try assumption; try reflexivity.
    + intros x Hx. match goal with H : (_ || insideb _ _ _) = true |- _ => apply orb_prop in H; destruct H as [Hz|Hins] end.
      * apply Z.eqb_eq in Hz. lia.
      * pose proof (insideb_sound _ _ _ Hins x Hx) as Hf. apply HF1 in Hf. unfold grown; cbn [s_cap]. tauto.
    + intros x Hx. split.
      * match goal with H : subsetb _ _ = true |- _ => pose proof (subsetb_sound _ _ H x Hx) as Hf end.
        apply HF1 in Hf. unfold grown; cbn [s_cap]. tauto.
      * match goal with H : disjointb _ _ _ = true |- _ => exact (disjointb_sound _ _ _ H x Hx) end.
  - (* alloc, error *)
    intros H. apply andb_prop in H. destruct H as [A B]. apply Z.leb_le in A.
    apply Safe_err; cbn [s_cap s_free s_live live_after]; try assumption; try reflexivity.
    intros x Hx. pose proof (subsetb_sound _ _ B x Hx) as Hf. apply HF1 in Hf. unfold grown; cbn [s_cap]. tauto.
  - (* free *)
    cbn [live_after]. destruct (find_region off size live) as [q|] eqn:E; [|discriminate].
    destruct (find_region_spec _ _ _ _ E) as [Hin [Ho Hs]]. subst off size.
    intros H. apply andb_prop in H. destruct H as [A B]. apply Z.eqb_eq in A.
    apply Safe_free; cbn [s_cap s_free s_live]; try assumption; try reflexivity.
    intros x Hx. pose proof (subsetb_sound _ _ B x Hx) as Hf. apply add_chunk_bytes in Hf; [|exact HnF].
    unfold inb, in_region in *. cbn [fst snd] in Hf. tauto.
  - (* free, error *)
    intros H. apply andb_prop in H. destruct H as [A B]. apply Z.leb_le in A.
    apply Safe_err; cbn [s_cap s_free s_live live_after]; try assumption; try reflexivity.
    intros x Hx. pose proof (subsetb_sound _ _ B x Hx) as Hf. apply HF1 in Hf. unfold grown; cbn [s_cap]. tauto.
  - (* grow *)
    intros H. apply andb_prop in H. destruct H as [H B]. apply andb_prop in H. destruct H as [A1 A2].
    apply Z.leb_le in A1. apply Z.eqb_eq in A2.
    apply Safe_grow; cbn [s_cap s_free s_live live_after]; try assumption; try reflexivity.
    intros x Hx. pose proof (subsetb_sound _ _ B x Hx) as Hf. apply HF1 in Hf. unfold grown; cbn [s_cap]. tauto.
  - (* grow, error *)
    intros H. apply andb_prop in H. destruct H as [A B]. apply Z.leb_le in A.
    apply Safe_err; cbn [s_cap s_free s_live live_after]; try assumption; try reflexivity.
    intros x Hx. pose proof (subsetb_sound _ _ B x Hx) as Hf. apply HF1 in Hf. unfold grown; cbn [s_cap]. tauto.
Qed.

Theorem ff_stepb_sound pre live o ob post lost :
  ff_stepb pre live o ob post = true ->
  ff_step (abs pre live lost) o ob (abs post (live_after live o ob) (lost_after pre lost o ob post)).
Proof.
  destruct pre as [cap raw], post as [cap' raw']. unfold ff_stepb, abs, lost_after, alloc_general, alloc_zero. cbn [fst snd].
  destruct o as [size al|off size|n]; destruct ob as [off'| |]; try discriminate.
  - (* alloc *)
    intros H. apply andb_prop in H. destruct H as [Hp H]. apply pow2b_sound in Hp.
    destruct ((0 <=? size) && (cap <=? cap') && ((cap' =? cap) || match scan (norm raw) size al with None => true | Some _ => false end)) eqn:Eg.
    + destruct (scan (grow_chunks (norm raw) cap (cap' - cap)) size al) as [[[s0 o'] G]|] eqn:Es.
      * destruct ((off' =? o') && chunks_eqb (norm raw') G) eqn:Ec.
        -- apply andb_prop in Ec. destruct Ec as [Ho He]. apply Z.eqb_eq in Ho. subst o'. apply chunks_eqb_eq in He. rewrite He.
           apply andb_prop in Eg. destruct Eg as [Eg Eo]. apply andb_prop in Eg. destruct Eg as [E1 E2].
           apply Z.leb_le in E1, E2. cbn [live_after].
           replace cap' with (cap + (cap' - cap)) at 1 by lia.
           apply (FF_alloc (mkS cap (norm raw) live lost) size al (cap' - cap) s0 off' G); cbn [s_cap s_free]; try assumption; try lia.
           intros Hg. apply orb_prop in Eo. destruct Eo as [Hz|Hsc].
           ++ apply Z.eqb_eq in Hz. lia.
           ++ destruct (scan (norm raw) size al); [discriminate|reflexivity].
        -- repeat (apply andb_prop in H; destruct H as [H ?]).
           repeat match goal with H : (_ <=? _) = true |- _ => apply Z.leb_le in H | H : (_ =? _) = true |- _ => apply Z.eqb_eq in H end.
           match goal with H : chunks_eqb _ _ = true |- _ => apply chunks_eqb_eq in H; rewrite H end.
           subst size cap'. cbn [live_after].
           apply (FF_alloc0 (mkS cap (norm raw) live lost) al off'); cbn [s_cap]; try assumption; lia.
      * repeat (apply andb_prop in H; destruct H as [H ?]).
        repeat match goal with H : (_ <=? _) = true |- _ => apply Z.leb_le in H | H : (_ =? _) = true |- _ => apply Z.eqb_eq in H end.
        match goal with H : chunks_eqb _ _ = true |- _ => apply chunks_eqb_eq in H; rewrite H end.
        subst size cap'. cbn [live_after].
        apply (FF_alloc0 (mkS cap (norm raw) live lost) al off'); cbn [s_cap]; try assumption; lia.
    + repeat (apply andb_prop in H; destruct H as [H ?]).
      repeat match goal with H : (_ <=? _) = true |- _ => apply Z.leb_le in H | H : (_ =? _) = true |- _ => apply Z.eqb_eq in H end.
      match goal with H : chunks_eqb _ _ = true |- _ => apply chunks_eqb_eq in H; rewrite H end.
      subst size cap'. cbn [live_after].
      apply (FF_alloc0 (mkS cap (norm raw) live lost) al off'); cbn [s_cap]; try assumption; lia.
  - (* free *)
    cbn [live_after]. destruct (find_region off size live) as [q|] eqn:E; [|discriminate].
    destruct (find_region_spec _ _ _ _ E) as [Hin [Ho Hs]]. subst off size.
    intros H. apply andb_prop in H. destruct H as [A B]. apply Z.eqb_eq in A. apply chunks_eqb_eq in B.
    rewrite A, B. apply (FF_free (mkS cap (norm raw) live lost) q). exact Hin.
  - (* grow *)
    intros H. apply andb_prop in H. destruct H as [H B]. apply andb_prop in H. destruct H as [A1 A2].
    apply Z.leb_le in A1. apply Z.eqb_eq in A2. apply chunks_eqb_eq in B. rewrite A2, B. cbn [live_after].
    apply (FF_grow (mkS cap (norm raw) live lost) n). exact A1.
Qed.

(* ================= whole observed walks ================= *)
Definition ops_of (steps : list ostep) : list (op * obs) := map (fun st => (o_op st, o_obs st)) steps.

Lemma check_walk_ff : forall steps pre live lost n,
  check_walk ff_stepb pre live n steps = None ->
  exists post live' lost', ff_trace (abs pre live lost) (ops_of steps) (abs post live' lost').
Proof.
  induction steps as [|st tl IH]; intros pre live lost n H; cbn [check_walk] in H.
  - exists pre, live, lost. constructor.
  - destruct (ff_stepb pre live (o_op st) (o_obs st) (o_post st)) eqn:E; [|discriminate].
    destruct (IH _ _ (lost_after pre lost (o_op st) (o_obs st) (o_post st)) _ H) as [post [live' [lost' Ht]]].
    exists post, live', lost'. cbn [ops_of map]. econstructor; [|exact Ht].
    apply ff_stepb_sound. exact E.
Qed.
Lemma check_walk_safe : forall steps pre live lost n,
  check_walk safe_stepb pre live n steps = None ->
  exists post live', safe_trace (abs pre live lost) (ops_of steps) (abs post live' lost).
Proof.
  induction steps as [|st tl IH]; intros pre live lost n H; cbn [check_walk] in H.
  - exists pre, live. constructor.
  - destruct (safe_stepb pre live (o_op st) (o_obs st) (o_post st)) eqn:E; [|discriminate].
    destruct (IH _ _ lost _ H) as [post [live' Ht]].
    exists post, live'. cbn [ops_of map]. econstructor; [|exact Ht].
    apply safe_stepb_sound. exact E.
Qed.

Lemma init_okb_sound i : init_okb i = true -> abs i [] 0 = init_state (fst i) /\ 0 <= fst i.
Proof.
  unfold init_okb. intros H. apply andb_prop in H. destruct H as [A B]. apply Z.leb_le in A. apply chunks_eqb_eq in B.
  split; [|exact A]. unfold abs, init_state. rewrite B. reflexivity.
Qed.

(* An accepted walk is a trace of the first-fit spec from a fresh buffer, so every
   state along it satisfies the C12 invariant and every step the C12 clauses. *)
Theorem walk_ff_sound w : walk_ff w = None ->
  exists s', ff_trace (init_state (fst (w_init w))) (ops_of (w_steps w)) s' /\ FInv s'.
Proof.
  unfold walk_ff. destruct (init_okb (w_init w)) eqn:E; [|discriminate]. intros H.
  destruct (init_okb_sound _ E) as [Hi Hc].
  destruct (check_walk_ff _ _ _ 0 _ H) as [post [live' [lost' Ht]]]. rewrite Hi in Ht.
  eexists. split; [exact Ht|]. eapply ff_trace_FInv; [|exact Ht]. apply init_FInv. exact Hc.
Qed.
Theorem walk_safe_sound w : walk_safe w = None ->
  exists s', safe_trace (init_state (fst (w_init w))) (ops_of (w_steps w)) s' /\ SInv s'.
Proof.
  unfold walk_safe. destruct (init_okb (w_init w)) eqn:E; [|discriminate]. intros H.
  destruct (init_okb_sound _ E) as [Hi Hc].
  destruct (check_walk_safe _ _ _ 0 _ H) as [post [live' Ht]]. rewrite Hi in Ht.
  eexists. split; [exact Ht|]. eapply safe_trace_SInv; [|exact Ht]. apply FInv_SInv. apply init_FInv. exact Hc.
Qed.

(* ================= completeness of the first-fit judgement =================
   Every transition the specification allows is accepted: the check raises no alarm on an allocator that
   conforms to first fit (whatever its internal representation: only the canonical free list is compared). *)
Lemma chunk_eqb_refl c : chunk_eqb c c = true.
Proof. unfold chunk_eqb. destruct c as [a b]. cbn. rewrite !Z.eqb_refl. reflexivity. Qed.
Lemma chunks_eqb_refl : forall a, chunks_eqb a a = true.
Proof. induction a as [|c a IH]; [reflexivity|]. cbn. rewrite chunk_eqb_refl, IH. reflexivity. Qed.
Lemma pow2b_complete a : is_pow2 a -> pow2b a = true.
Proof.
  intros [k [Hk E]]. subst a. unfold pow2b. pose proof (Z.pow_pos_nonneg 2 k ltac:(lia) Hk) as Hp.
  rewrite Z.log2_pow2 by exact Hk. rewrite Z.eqb_refl. apply andb_true_intro. split; [apply Z.ltb_lt; exact Hp|reflexivity].
Qed.
Lemma find_region_complete : forall live r, In r live -> exists x, find_region (r_off r) (r_size r) live = Some x.
Proof.
  induction live as [|y live IH]; intros r H; [destruct H|]. cbn [find_region].
  destruct ((r_off y =? r_off r) && (r_size y =? r_size r)) eqn:E; [exists y; reflexivity|].
  destruct H as [H|H]; [subst y; rewrite !Z.eqb_refl in E; discriminate|]. apply IH. exact H.
Qed.

Theorem ff_stepb_complete pre live lost o ob post live' lost' :
  ff_step (abs pre live lost) o ob (abs post live' lost') -> ff_stepb pre live o ob post = true.
Proof.
  destruct pre as [cap raw], post as [cap' raw']. unfold abs. cbn [fst snd]. intros H.
  inversion H; subst; cbn [s_cap s_free s_live s_lost] in *; unfold ff_stepb; cbn [fst snd].
  - (* general allocation *)
    match goal with Hal : is_pow2 al |- _ => rewrite (pow2b_complete al Hal) end. cbn [andb].
    unfold alloc_general. cbn [fst snd]. replace (cap + g - cap) with g by lia.
    assert (E1 : (0 <=? size) && (cap <=? cap + g) && ((cap + g =? cap) || match scan (norm raw) size al with None => true | Some _ => false end) = true).
    { apply andb_true_intro. split; [apply andb_true_intro; split; apply Z.leb_le; lia|].
      destruct (Z.eq_dec g 0) as [G0|G0]; [subst g; replace (cap + 0 =? cap) with true by (symmetry; apply Z.eqb_eq; lia); reflexivity|].
      match goal with Hg : 0 < g -> scan _ _ _ = None |- _ => rewrite (Hg ltac:(lia)) end. apply orb_true_r. }
    rewrite E1. match goal with Hs : scan (grow_chunks _ _ _) _ _ = Some _ |- _ => rewrite Hs end. rewrite Z.eqb_refl, chunks_eqb_refl. reflexivity.
  - (* zero-size allocation anywhere *)
    match goal with Hal : is_pow2 al |- _ => rewrite (pow2b_complete al Hal) end. cbn [andb].
    destruct (alloc_general _ _ 0 al off); [reflexivity|].
    unfold alloc_zero. cbn [fst snd].
    match goal with Hn : norm raw = norm raw' |- _ => rewrite <- Hn | Hn : norm raw' = norm raw |- _ => rewrite Hn end.
    rewrite chunks_eqb_refl, !Z.eqb_refl.
    match goal with Hm : off mod al = 0 |- _ => rewrite Hm end. cbn [Z.eqb].
    replace (0 <=? off) with true by (symmetry; apply Z.leb_le; lia). replace (off <=? cap') with true by (symmetry; apply Z.leb_le; lia). reflexivity.
  - (* free *)
    match goal with Hin : In ?r live |- _ => destruct (find_region_complete live r Hin) as [x Hx]; rewrite Hx end.
    rewrite Z.eqb_refl. match goal with Hn : norm raw' = _ |- _ => rewrite Hn | Hn : _ = norm raw' |- _ => rewrite <- Hn end. rewrite chunks_eqb_refl. reflexivity.
  - (* grow *)
    replace (0 <=? n) with true by (symmetry; apply Z.leb_le; lia). rewrite Z.eqb_refl.
    match goal with Hn : norm raw' = _ |- _ => rewrite Hn | Hn : _ = norm raw' |- _ => rewrite <- Hn end. rewrite chunks_eqb_refl. reflexivity.
Qed.

(* ================= completeness of the safety judgement ================= *)
Lemma insideb_complete cs o e : nsep cs -> o < e -> (forall x, o <= x < e -> freeB cs x) -> insideb cs o e = true.
Proof.
  intros Hs Hoe H. destruct (interval_in_chunk cs o e Hs Hoe H) as [c [Hc [A B]]].
  unfold insideb. apply existsb_exists. exists c. split; [exact Hc|]. apply andb_true_intro. split; apply Z.leb_le; assumption.
Qed.
Lemma subsetb_complete a b : nsep b -> (forall x, freeB a x -> freeB b x) -> subsetb a b = true.
Proof.
  intros Hs H. unfold subsetb. apply forallb_forall. intros c Hc.
  destruct (Z_le_gt_dec (snd c) (fst c)) as [Hle|Hgt]; [apply orb_true_intro; left; apply Z.leb_le; exact Hle|].
  apply orb_true_intro. right. apply insideb_complete; [exact Hs|lia|].
  intros x Hx. apply H. exists c. split; [exact Hc|unfold inb; lia].
Qed.
Lemma disjointb_complete cs o e : (forall x, freeB cs x -> ~ (o <= x < e)) -> disjointb cs o e = true.
Proof.
  intros H. unfold disjointb. apply forallb_forall. intros c Hc.
  destruct (Z_le_gt_dec (snd c) (fst c)) as [A|A]; [rewrite (proj2 (Z.leb_le _ _) A); reflexivity|].
  destruct (Z_le_gt_dec e o) as [B|B]; [rewrite (proj2 (Z.leb_le _ _) B); rewrite orb_true_r; reflexivity|].
  destruct (Z_le_gt_dec (snd c) o) as [C|C]; [rewrite (proj2 (Z.leb_le _ _) C); rewrite !orb_true_r; reflexivity|].
  destruct (Z_le_gt_dec e (fst c)) as [D|D]; [rewrite (proj2 (Z.leb_le _ _) D); rewrite !orb_true_r; reflexivity|].
  exfalso. apply (H (Z.max (fst c) o)); [exists c; split; [exact Hc|unfold inb; lia]|lia].
Qed.

Theorem safe_stepb_complete pre live lost o ob post live' lost' :
  safe_step (abs pre live lost) o ob (abs post live' lost') -> safe_stepb pre live o ob post = true.
Proof.
  destruct pre as [cap raw], post as [cap' raw']. unfold abs. cbn [fst snd]. intros H.
  pose proof (norm_nsep raw) as NF. pose proof (add_chunk_nsep (norm raw) (cap, cap') NF) as NF1.
  assert (F1 : forall x, freeB (add_chunk (norm raw) (cap, cap')) x <-> (cap <= x < cap') \/ freeB (norm raw) x).
  { intros x. rewrite (add_chunk_bytes _ _ x NF). unfold inb. cbn [fst snd]. reflexivity. }
  inversion H; subst; cbn [s_cap s_free s_live s_lost] in *; unfold safe_stepb; cbn [fst snd].
  - (* alloc *)
    repeat match goal with
           | Hx : ?a <= ?b |- context [?a <=? ?b] => rewrite (proj2 (Z.leb_le a b) Hx)
           | Hx : ?a < ?b |- context [?a <? ?b] => rewrite (proj2 (Z.ltb_lt a b) Hx)
           | Hx : ?a = ?b |- context [?a =? ?b] => rewrite (proj2 (Z.eqb_eq a b) Hx)
           end. cbn [andb].
    assert (Hin : (size =? 0) || insideb (add_chunk (norm raw) (cap, cap')) off (off + size) = true).
    { destruct (Z.eq_dec size 0) as [Z0|NZ]; [subst; reflexivity|]. apply orb_true_intro. right. apply insideb_complete; [exact NF1|lia|].
      intros x Hx. apply F1. match goal with Hf : forall x, off <= x < off + size -> _ |- _ => destruct (Hf x Hx) as [A|A] end; [right; exact A|left; unfold grown in A; cbn [s_cap] in A; exact A]. }
    rewrite Hin. cbn [andb].
    assert (Hsub : subsetb (norm raw') (add_chunk (norm raw) (cap, cap')) = true).
    { apply subsetb_complete; [exact NF1|]. intros x Hx. apply F1.
      match goal with Hf : forall x, freeB (norm raw') x -> _ |- _ => destruct (Hf x Hx) as [[A|A] _] end; [right; exact A|left; unfold grown in A; cbn [s_cap] in A; exact A]. }
    rewrite Hsub. cbn [andb]. apply disjointb_complete. intros x Hx.
    match goal with Hf : forall x, freeB (norm raw') x -> _ |- _ => destruct (Hf x Hx) as [_ A] end. exact A.
  - (* free *)
    match goal with Hin : In ?r live |- _ => destruct (find_region_complete live r Hin) as [x Hx]; rewrite Hx end.
    match goal with He : cap' = cap |- _ => rewrite (proj2 (Z.eqb_eq _ _) He) end. cbn [andb]. apply subsetb_complete; [apply add_chunk_nsep; exact NF|].
    intros y Hy. apply (add_chunk_bytes _ _ y NF). unfold inb. cbn [fst snd].
    match goal with Hf : forall x, freeB (norm raw') x -> _ |- _ => destruct (Hf y Hy) as [A|A] end; [right; exact A|left; unfold in_region in A; exact A].
  - (* grow *)
    match goal with Hn : 0 <= ?n |- _ => rewrite (proj2 (Z.leb_le 0 n) Hn) end. match goal with He : cap' = cap + _ |- _ => rewrite (proj2 (Z.eqb_eq _ _) He) end. cbn [andb].
    apply subsetb_complete; [exact NF1|]. intros x Hx. apply F1.
    match goal with Hf : forall x, freeB (norm raw') x -> _ |- _ => destruct (Hf x Hx) as [A|A] end; [right; exact A|left; unfold grown in A; cbn [s_cap] in A; lia].
  - (* a refused request *)
    assert (Hsub : subsetb (norm raw') (add_chunk (norm raw) (cap, cap')) = true).
    { apply subsetb_complete; [exact NF1|]. intros x Hx. apply F1.
      match goal with Hf : forall x, freeB (norm raw') x -> _ |- _ => destruct (Hf x Hx) as [A|A] end; [right; exact A|left; unfold grown in A; cbn [s_cap] in A; exact A]. }
    match goal with Hc : cap <= cap' |- _ => rewrite (proj2 (Z.leb_le _ _) Hc) end.
    destruct o; rewrite Hsub; reflexivity.
Qed.
