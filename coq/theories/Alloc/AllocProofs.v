From Coq Require Import ZArith List Bool Lia.
Import ListNotations.
From XO Require Import Slots Chunks ChunksProofs AllocSpec.
Open Scope Z_scope.

(* ---------- grow ---------- *)
Lemma freeB_nil_iff x : freeB [] x <-> False.
Proof. split; [apply freeB_nil|tauto]. Qed.

Lemma grow_rec_cons2 (c d : chunk) (tl : list chunk) cap g : grow_rec (c::d::tl) cap g = c :: grow_rec (d::tl) cap g.
Proof. destruct c. reflexivity. Qed.

Lemma grow_rec_bytes : forall cs cap g x, 0 < g -> wf cs ->
  (freeB (grow_rec cs cap g) x <-> freeB cs x \/ cap <= x < cap + g).
Proof.
  induction cs as [|[s e] tl IH]; intros cap g x Hg Hwf.
  - cbn [grow_rec]. rewrite freeB_cons, !freeB_nil_iff. unfold inb; cbn [fst snd]. intuition lia.
  - inversion Hwf as [|? ? Hse Htl]; subst. cbn [fst snd] in Hse. destruct tl as [|d tl'].
    + cbn [grow_rec]. destruct (e =? cap) eqn:E.
      * apply Z.eqb_eq in E. subst e. rewrite !freeB_cons, !freeB_nil_iff. unfold inb; cbn [fst snd]. intuition lia.
      * rewrite !freeB_cons, !freeB_nil_iff. unfold inb; cbn [fst snd]. intuition lia.
    + rewrite grow_rec_cons2. rewrite (freeB_cons (s,e) (grow_rec (d::tl') cap g)), (freeB_cons (s,e) (d::tl')), IH by assumption. tauto.
Qed.

Lemma grow_rec_head : forall cs cap g c,
  match grow_rec (c :: cs) cap g with [] => False | d :: _ => fst d = fst c end.
Proof.
  intros cs cap g [s e]. destruct cs as [|d tl]; cbn [grow_rec]; [destruct (e =? cap)|]; reflexivity.
Qed.

Lemma grow_rec_nsep : forall cs cap g, 0 < g -> nsep cs -> bounded cs cap -> nsep (grow_rec cs cap g).
Proof.
  induction cs as [|[s e] tl IH]; intros cap g Hg Hs Hb.
  - cbn; lia.
  - inversion Hb as [|? ? Hc Hbt]; subst. cbn [fst snd] in Hc. cbn [nsep fst snd] in Hs. destruct Hs as [Hse [Hn Hst]].
    destruct tl as [|d tl'].
    + cbn [grow_rec]. destruct (e =? cap) eqn:E.
      * cbn [nsep fst snd]. lia.
      * apply Z.eqb_neq in E. cbn [nsep fst snd]. lia.
    + rewrite grow_rec_cons2. specialize (IH cap g Hg Hst Hbt).
      pose proof (grow_rec_head tl' cap g d) as Hh.
      remember (grow_rec (d :: tl') cap g) as G eqn:EG. clear EG.
      destruct G as [|d2 l2]; [destruct Hh|].
      split; [exact Hse|]. split; [|exact IH].
      cbn [fst snd]. rewrite Hh. exact Hn.
Qed.

Lemma grow_rec_bounded : forall cs cap g, 0 < g -> 0 <= cap -> bounded cs cap -> bounded (grow_rec cs cap g) (cap + g).
Proof.
  induction cs as [|[s e] tl IH]; intros cap g Hg Hc Hb.
  - constructor; [cbn; lia|constructor].
  - inversion Hb as [|? ? Hce Hbt]; subst. cbn [fst snd] in Hce. destruct tl as [|d tl'].
    + cbn [grow_rec]. destruct (e =? cap); repeat constructor; cbn [fst snd]; lia.
    + rewrite grow_rec_cons2. constructor; [cbn [fst snd]; lia|]. apply IH; assumption.
Qed.

Lemma total_cons c l : total (c :: l) = (snd c - fst c) + total l.
Proof. reflexivity. Qed.
Lemma total_app l1 l2 : total (l1 ++ l2) = total l1 + total l2.
Proof. induction l1 as [|c l1 IH]; [reflexivity|]. change ((c :: l1) ++ l2) with (c :: (l1 ++ l2)). rewrite !total_cons, IH. lia. Qed.

Lemma grow_rec_total : forall cs cap g, total (grow_rec cs cap g) = total cs + g.
Proof.
  induction cs as [|[s e] tl IH]; intros cap g.
  - cbn [grow_rec]. rewrite total_cons. cbn. lia.
  - destruct tl as [|d tl'].
    + cbn [grow_rec]. destruct (e =? cap) eqn:E; rewrite !total_cons; cbn [fst snd total fold_right]; [apply Z.eqb_eq in E|]; lia.
    + rewrite grow_rec_cons2. rewrite total_cons, IH, (total_cons (s,e)). lia.
Qed.

Lemma bounded_weaken cs c c' : c <= c' -> bounded cs c -> bounded cs c'.
Proof. intros H Hb. eapply Forall_impl; [|exact Hb]. cbn. intros; lia. Qed.

Lemma grow_chunks_props cs cap g : 0 <= g -> 0 <= cap -> nsep cs -> bounded cs cap ->
  nsep (grow_chunks cs cap g) /\ bounded (grow_chunks cs cap g) (cap + g) /\
  total (grow_chunks cs cap g) = total cs + g /\
  forall x, freeB (grow_chunks cs cap g) x <-> freeB cs x \/ cap <= x < cap + g.
Proof.
  intros Hg Hc Hs Hb. unfold grow_chunks. destruct (g <=? 0) eqn:E.
  - assert (g = 0) by lia. subst g. repeat split; try assumption.
    + eapply bounded_weaken; [|exact Hb]; lia.
    + lia.
    + auto.
    + intros [H|H]; [exact H|lia].
  - assert (0 < g) by lia. repeat split.
    + apply grow_rec_nsep; assumption.
    + apply grow_rec_bounded; assumption.
    + apply grow_rec_total.
    + apply grow_rec_bytes; [assumption|apply nsep_wf; assumption].
    + apply grow_rec_bytes; [assumption|apply nsep_wf; assumption].
Qed.

(* ---------- totals ---------- *)
Lemma scan_total cs size a s off cs' :
  scan cs size a = Some (s, off, cs') -> total cs' = total cs - (off + size - s).
Proof.
  intros H. destruct (scan_some _ _ _ _ _ _ H) as [pre [e [suf [-> [_ [_ [Hfit ->]]]]]]].
  rewrite !total_app. destruct (e - (off + size) =? 0) eqn:E; rewrite !total_cons; cbn [fst snd]; lia.
Qed.

(* non-overlapping sorted lists: consecutive chunks may touch but not overlap *)
Fixpoint nover (cs : list chunk) : Prop :=
  match cs with
  | [] => True
  | c :: tl => fst c < snd c /\ (match tl with [] => True | d :: _ => snd c <= fst d end) /\ nover tl
  end.
Lemma nsep_nover cs : nsep cs -> nover cs.
Proof. induction cs as [|c tl IH]; cbn; [auto|]. intros [H1 [H2 H3]]. split; [exact H1|]. split; [|apply IH; exact H3]. destruct tl; [exact I|lia]. Qed.

Lemma merge_total : forall cs p, nover (p :: cs) -> total (merge p cs) = total (p :: cs).
Proof.
  induction cs as [|[s e] tl IH]; intros [ps pe] Hn; cbn [merge]; [reflexivity|].
  cbn [nover fst snd] in Hn. destruct Hn as [Hp [Hps [Hse [Hnx Hno]]]].
  destruct ((e >=? ps) && (s <=? pe)) eqn:Hc.
  - apply andb_prop in Hc. destruct Hc as [_ H2]. assert (pe = s) by lia. subst s.
    replace (Z.min ps pe) with ps by lia. replace (Z.max pe e) with e by lia.
    rewrite IH.
    + rewrite !total_cons. cbn [fst snd]. lia.
    + cbn [nover fst snd]. split; [lia|]. split; [exact Hnx|exact Hno].
  - rewrite total_cons. rewrite IH by (cbn [nover fst snd]; auto). rewrite !total_cons. reflexivity.
Qed.

Lemma insert_sorted_head cs o e :
  match insert_sorted cs o e with
  | [] => False
  | d :: _ => d = (o,e) \/ (match cs with [] => False | c :: _ => d = c /\ fst c < o end)
  end.
Proof.
  destruct cs as [|[s e'] tl]; cbn [insert_sorted]; [left; reflexivity|].
  destruct (o <=? s) eqn:E; [left; reflexivity|right; split; [reflexivity|cbn; lia]].
Qed.

Lemma insert_sorted_nover : forall cs o e, o < e -> nsep cs ->
  (forall x, o <= x < e -> ~ freeB cs x) -> nover (insert_sorted cs o e).
Proof.
  induction cs as [|[s e'] tl IH]; intros o e Hoe Hs Hd; cbn [insert_sorted].
  - cbn; lia.
  - cbn [nsep fst snd] in Hs. destruct Hs as [Hse [Hn Hst]].
    destruct (o <=? s) eqn:E.
    + cbn [nover fst snd]. split; [exact Hoe|]. split.
      * destruct (Z_le_gt_dec e s); [assumption|]. exfalso. apply (Hd s); [lia|].
        apply freeB_cons. left. unfold inb; cbn; lia.
      * split; [exact Hse|]. split; [destruct tl; [exact I|lia]|apply nsep_nover; exact Hst].
    + assert (Ho : e' <= o).
      { destruct (Z_le_gt_dec e' o); [assumption|]. exfalso. apply (Hd o); [lia|].
        apply freeB_cons. left. unfold inb; cbn; lia. }
      cbn [nover fst snd]. split; [exact Hse|]. split.
      * pose proof (insert_sorted_head tl o e) as Hh.
        destruct (insert_sorted tl o e) as [|d l]; [exact I|].
        destruct Hh as [->|Hh]; [cbn; lia|]. destruct tl as [|c tl']; [destruct Hh|]. destruct Hh as [-> _]. lia.
      * apply IH; try assumption. intros x Hx Hf. apply (Hd x Hx). apply freeB_cons. right. exact Hf.
Qed.

Lemma insert_sorted_total : forall cs o e, total (insert_sorted cs o e) = total cs + (e - o).
Proof.
  induction cs as [|[s e'] tl IH]; intros o e; cbn [insert_sorted].
  - rewrite total_cons. cbn. lia.
  - destruct (o <=? s); rewrite !total_cons; [cbn [fst snd]; lia|].
    rewrite IH. cbn [fst snd]. lia.
Qed.

Lemma insert_merge_total cs o e : o < e -> nsep cs ->
  (forall x, o <= x < e -> ~ freeB cs x) -> total (insert_merge cs o e) = total cs + (e - o).
Proof.
  intros Hoe Hs Hd. unfold insert_merge.
  pose proof (insert_sorted_nover cs o e Hoe Hs Hd) as Hn.
  pose proof (insert_sorted_total cs o e) as Ht.
  destruct (insert_sorted cs o e) as [|c tl]; [cbn in Ht; cbn; lia|].
  rewrite merge_total by exact Hn. exact Ht.
Qed.

Lemma add_chunk_total cs c : nsep cs -> (forall x, inb x c -> ~ freeB cs x) ->
  total (add_chunk cs c) = total cs + Z.max 0 (snd c - fst c).
Proof.
  intros Hs Hd. unfold add_chunk. destruct (fst c <? snd c) eqn:E.
  - rewrite insert_merge_total; try assumption; try lia.
  - lia.
Qed.

(* bounded is preserved by add_chunk of an in-bounds range *)
Lemma insert_sorted_bounded : forall cs o e cap, 0 <= o -> e <= cap -> bounded cs cap -> bounded (insert_sorted cs o e) cap.
Proof.
  induction cs as [|[s e'] tl IH]; intros o e cap Ho He Hb; cbn [insert_sorted].
  - constructor; [cbn; lia|constructor].
  - inversion Hb; subst. destruct (o <=? s).
    + constructor; [cbn; lia|exact Hb].
    + constructor; [assumption|apply IH; assumption].
Qed.
Lemma merge_bounded : forall cs p cap, 0 <= fst p -> snd p <= cap -> bounded cs cap -> bounded (merge p cs) cap.
Proof.
  induction cs as [|[s e] tl IH]; intros [ps pe] cap Hp1 Hp2 Hb; cbn [merge].
  - constructor; [cbn [fst snd] in *; lia|constructor].
  - inversion Hb as [|? ? Hc Hbt]; subst. cbn [fst snd] in *.
    destruct ((e >=? ps) && (s <=? pe)).
    + apply IH; cbn [fst snd]; try assumption; lia.
    + constructor; [cbn; lia|]. apply IH; cbn [fst snd]; try assumption; lia.
Qed.
Lemma add_chunk_bounded cs c cap : 0 <= fst c -> snd c <= cap -> bounded cs cap -> bounded (add_chunk cs c) cap.
Proof.
  intros H1 H2 Hb. unfold add_chunk. destruct (fst c <? snd c); [|exact Hb].
  unfold insert_merge. pose proof (insert_sorted_bounded cs (fst c) (snd c) cap H1 H2 Hb) as Hi.
  destruct (insert_sorted cs (fst c) (snd c)) as [|d tl]; [constructor|].
  inversion Hi; subst. apply merge_bounded; tauto.
Qed.

(* ---------- first fit, at the byte level ---------- *)
Definition fitsAt (P : Z -> Prop) (al size o : Z) : Prop :=
  o mod al = 0 /\ forall x, o <= x < o + size -> P x.

Theorem scan_lowest cs size k s off cs' :
  0 <= k -> 0 < size -> nsep cs -> scan cs size (2^k) = Some (s, off, cs') ->
  fitsAt (freeB cs) (2^k) size off /\
  forall o', fitsAt (freeB cs) (2^k) size o' -> off <= o'.
Proof.
  intros Hk Hsz Hs H.
  destruct (scan_bytes cs size k s off cs' 0 Hk ltac:(lia) Hs H) as [Hso [Hoff [Hin _]]].
  split.
  { split; [rewrite Hoff; apply align_up_spec; exact Hk|]. intros x Hx. apply Hin. lia. }
  intros o' [Hmod Hall].
  destruct (interval_in_chunk cs o' (o' + size) Hs ltac:(lia) Hall) as [c [Hc [Hc1 Hc2]]].
  destruct (scan_some _ _ _ _ _ _ H) as [pre [e [suf [Hcs [Hpre [_ [Hfit _]]]]]]].
  assert (Hfc : fits c size (2^k)).
  { unfold fits. pose proof (align_up_least k (fst c) o' Hk Hc1 Hmod). lia. }
  subst cs. apply in_app_or in Hc. destruct Hc as [Hc|[Hc|Hc]].
  - rewrite Forall_forall in Hpre. destruct (Hpre _ Hc Hfc).
  - subst c. cbn [fst] in Hc1. rewrite Hoff. apply align_up_least; assumption.
  - destruct (nsep_app_inv _ _ _ Hs) as [_ [H2 _]].
    assert (Hb : freeB suf (fst c)).
    { exists c. split; [exact Hc|]. unfold inb. unfold fits in Hfc.
      pose proof (align_up_spec k (fst c) Hk). lia. }
    pose proof (nsep_tail_gt _ _ H2 _ Hb) as Hgt. cbn [snd] in Hgt. lia.
Qed.

Theorem scan_none_nofit cs size k :
  0 <= k -> 0 < size -> nsep cs -> scan cs size (2^k) = None ->
  forall o', ~ fitsAt (freeB cs) (2^k) size o'.
Proof.
  intros Hk Hsz Hs H o' [Hmod Hall].
  destruct (interval_in_chunk cs o' (o' + size) Hs ltac:(lia) Hall) as [c [Hc [Hc1 Hc2]]].
  pose proof (scan_none _ _ _ H) as Hn. rewrite Forall_forall in Hn. apply (Hn _ Hc).
  unfold fits. pose proof (align_up_least k (fst c) o' Hk Hc1 Hmod). lia.
Qed.
