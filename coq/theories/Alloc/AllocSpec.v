(* Relational specifications of the buffer allocator (XBuffer.allocate/free/grow).
   Definitions only; theorems in AllocProofs.v.

   Two specs:
   - [safe_step]  (C04): byte-level safety relation, policy independent.
   - [ff_step]    (C12): first fit over the canonical free list (= maximal runs of
                  free bytes); nondeterministic only in the amount of growth.
   and the boolean checkers that judge an OBSERVED implementation transition. *)
From Coq Require Import ZArith List Bool Lia.
Import ListNotations.
From XO Require Import Slots Chunks.
Open Scope Z_scope.

Record region := mkR { r_off : Z; r_size : Z; r_al : Z }.
Record sst := mkS { s_cap : Z; s_free : list chunk; s_live : list region; s_lost : Z }.

Inductive op := OAlloc (size al : Z) | OFree (off size : Z) | OGrow (n : Z).
Inductive obs := RetOff (off : Z) | RetUnit | RetErr.

Definition in_region (r : region) (x : Z) : Prop := r_off r <= x < r_off r + r_size r.
Definition liveB (l : list region) (x : Z) : Prop := exists r, In r l /\ in_region r x.

Definition region_eqb (a b : region) : bool :=
  (r_off a =? r_off b) && (r_size a =? r_size b) && (r_al a =? r_al b).
Fixpoint remove_region (r : region) (l : list region) : list region :=
  match l with
  | [] => []
  | x :: tl => if region_eqb r x then tl else x :: remove_region r tl
  end.
Fixpoint find_region (off size : Z) (l : list region) : option region :=
  match l with
  | [] => None
  | x :: tl => if (r_off x =? off) && (r_size x =? size) then Some x else find_region off size tl
  end.
Definition live_total (l : list region) : Z := fold_right (fun r acc => r_size r + acc) 0 l.

Definition pow2b (a : Z) : bool := (0 <? a) && (a =? 2 ^ (Z.log2 a)).
Definition is_pow2 (a : Z) : Prop := exists k, 0 <= k /\ a = 2^k.

(* ------------------------------------------------------------------ *)
(* C04: safety relation on (capacity, free byte set, live regions)     *)
(* ------------------------------------------------------------------ *)
Definition grown (s s' : sst) (x : Z) : Prop := s_cap s <= x < s_cap s'.

Inductive safe_step : sst -> op -> obs -> sst -> Prop :=
| Safe_alloc s s' size al off :
    0 <= size -> 0 < al ->
    s_cap s <= s_cap s' ->
    off mod al = 0 -> 0 <= off -> off + size <= s_cap s' ->
    (* the bytes handed out were free, or are new *)
    (forall x, off <= x < off + size -> freeB (s_free s) x \/ grown s s' x) ->
    (* what is free afterwards was free before or is new, and is not what was handed out *)
    (forall x, freeB (s_free s') x -> (freeB (s_free s) x \/ grown s s' x) /\ ~ (off <= x < off + size)) ->
    s_live s' = mkR off size al :: s_live s ->
    safe_step s (OAlloc size al) (RetOff off) s'
| Safe_free s s' r :
    In r (s_live s) ->
    s_cap s' = s_cap s ->
    (forall x, freeB (s_free s') x -> freeB (s_free s) x \/ in_region r x) ->
    s_live s' = remove_region r (s_live s) ->
    safe_step s (OFree (r_off r) (r_size r)) RetUnit s'
| Safe_grow s s' n :
    0 <= n -> s_cap s' = s_cap s + n ->
    (forall x, freeB (s_free s') x -> freeB (s_free s) x \/ grown s s' x) ->
    s_live s' = s_live s ->
    safe_step s (OGrow n) RetUnit s'
| Safe_err s s' o :
    (* a failed request hands nothing out *)
    s_cap s <= s_cap s' ->
    (forall x, freeB (s_free s') x -> freeB (s_free s) x \/ grown s s' x) ->
    s_live s' = s_live s ->
    safe_step s o RetErr s'.

Definition regions_disjoint (a b : region) : Prop :=
  r_off a + r_size a <= r_off b \/ r_off b + r_size b <= r_off a \/ r_size a = 0 \/ r_size b = 0.
Fixpoint pairwise_disjoint (l : list region) : Prop :=
  match l with
  | [] => True
  | r :: tl => Forall (regions_disjoint r) tl /\ pairwise_disjoint tl
  end.
Definition region_ok (cap : Z) (r : region) : Prop :=
  0 <= r_off r /\ 0 <= r_size r /\ r_off r + r_size r <= cap /\ 0 < r_al r /\ r_off r mod r_al r = 0.

(* the C04 invariant *)
Record SInv (s : sst) : Prop := {
  si_disj  : pairwise_disjoint (s_live s);
  si_ok    : Forall (region_ok (s_cap s)) (s_live s);
  si_free_live : forall x, freeB (s_free s) x -> ~ liveB (s_live s) x;
  si_free_bound : forall x, freeB (s_free s) x -> 0 <= x < s_cap s;
  si_cap : 0 <= s_cap s
}.

Inductive safe_trace : sst -> list (op * obs) -> sst -> Prop :=
| ST_nil s : safe_trace s [] s
| ST_cons s o r s' tr s'' : safe_step s o r s' -> safe_trace s' tr s'' -> safe_trace s ((o,r)::tr) s''.

(* ------------------------------------------------------------------ *)
(* C12: first fit over the canonical free list                          *)
(* ------------------------------------------------------------------ *)
Inductive ff_step : sst -> op -> obs -> sst -> Prop :=
| FF_alloc s size al g s0 off F' :
    0 <= size -> is_pow2 al -> 0 <= g ->
    (* growth only when no maximal free run can hold the request *)
    (0 < g -> scan (s_free s) size al = None) ->
    (* first fit in the (possibly enlarged) free list *)
    scan (grow_chunks (s_free s) (s_cap s) g) size al = Some (s0, off, F') ->
    ff_step s (OAlloc size al) (RetOff off)
      (mkS (s_cap s + g) F' (mkR off size al :: s_live s) (s_lost s + (off - s0)))
| FF_alloc0 s al off :
    (* zero-size requests may also be served at any aligned in-bounds position
       without changing anything (the property only constrains where BYTES go) *)
    is_pow2 al -> off mod al = 0 -> 0 <= off <= s_cap s ->
    ff_step s (OAlloc 0 al) (RetOff off)
      (mkS (s_cap s) (s_free s) (mkR off 0 al :: s_live s) (s_lost s))
| FF_free s r :
    In r (s_live s) ->
    (* never fails; exactly the region's bytes become free; coalesced *)
    ff_step s (OFree (r_off r) (r_size r)) RetUnit
      (mkS (s_cap s) (add_chunk (s_free s) (r_off r, r_off r + r_size r)) (remove_region r (s_live s)) (s_lost s))
| FF_grow s n :
    0 <= n ->
    ff_step s (OGrow n) RetUnit
      (mkS (s_cap s + n) (grow_chunks (s_free s) (s_cap s) n) (s_live s) (s_lost s)).

Inductive ff_trace : sst -> list (op * obs) -> sst -> Prop :=
| FT_nil s : ff_trace s [] s
| FT_cons s o r s' tr s'' : ff_step s o r s' -> ff_trace s' tr s'' -> ff_trace s ((o,r)::tr) s''.

Definition init_state (cap : Z) : sst := mkS cap (add_chunk [] (0, cap)) [] 0.

(* the C12 invariant (includes accounting) *)
Record FInv (s : sst) : Prop := {
  fi_nsep : nsep (s_free s);
  fi_bounded : bounded (s_free s) (s_cap s);
  fi_cap : 0 <= s_cap s;
  fi_lost : 0 <= s_lost s;
  fi_live_ok : Forall (region_ok (s_cap s)) (s_live s);
  fi_disj : pairwise_disjoint (s_live s);
  fi_free_live : forall x, freeB (s_free s) x -> ~ liveB (s_live s) x;
  fi_account : total (s_free s) + live_total (s_live s) + s_lost s = s_cap s
}.

(* ------------------------------------------------------------------ *)
(* Checkers applied to observed implementation transitions              *)
(* an observation of the implementation: capacity and the raw chunk list *)
(* ------------------------------------------------------------------ *)
Definition istate := (Z * list chunk)%type.
Definition abs (i : istate) (live : list region) (lost : Z) : sst :=
  mkS (fst i) (norm (snd i)) live lost.

Definition live_after (live : list region) (o : op) (r : obs) : list region :=
  match o, r with
  | OAlloc size al, RetOff off => mkR off size al :: live
  | OFree off size, RetUnit =>
      match find_region off size live with Some x => remove_region x live | None => live end
  | _, _ => live
  end.

Definition safe_stepb (pre : istate) (live : list region) (o : op) (r : obs) (post : istate) : bool :=
  let F := norm (snd pre) in
  let F' := norm (snd post) in
  let cap := fst pre in let cap' := fst post in
  let F1 := add_chunk F (cap, cap') in
  match o, r with
  | OAlloc size al, RetOff off =>
      (0 <=? size) && (0 <? al) && (cap <=? cap') && (off mod al =? 0) && (0 <=? off) && (off + size <=? cap')
      && ((size =? 0) || insideb F1 off (off + size))
      && subsetb F' F1 && disjointb F' off (off + size)
  | OFree off size, RetUnit =>
      match find_region off size live with
      | Some x => (cap' =? cap) && subsetb F' (add_chunk F (off, off + size))
      | None => false
      end
  | OGrow n, RetUnit => (0 <=? n) && (cap' =? cap + n) && subsetb F' F1
  | _, RetErr => (cap <=? cap') && subsetb F' F1
  | _, _ => false
  end.

(* the general first-fit clause; returns the padding lost by this allocation *)
Definition alloc_general (pre post : istate) (size al off : Z) : option Z :=
  let F := norm (snd pre) in
  let F' := norm (snd post) in
  let cap := fst pre in let cap' := fst post in
  if (0 <=? size) && (cap <=? cap') &&
     ((cap' =? cap) || match scan F size al with None => true | Some _ => false end)
  then match scan (grow_chunks F cap (cap' - cap)) size al with
       | Some (s0, o', G) => if (off =? o') && chunks_eqb F' G then Some (o' - s0) else None
       | None => None
       end
  else None.
Definition alloc_zero (pre post : istate) (size al off : Z) : bool :=
  (size =? 0) && (off mod al =? 0) && (0 <=? off) && (off <=? fst pre) && (fst post =? fst pre)
  && chunks_eqb (norm (snd post)) (norm (snd pre)).

Definition ff_stepb (pre : istate) (live : list region) (o : op) (r : obs) (post : istate) : bool :=
  let F := norm (snd pre) in
  let F' := norm (snd post) in
  let cap := fst pre in let cap' := fst post in
  match o, r with
  | OAlloc size al, RetOff off =>
      pow2b al &&
      match alloc_general pre post size al off with
      | Some _ => true
      | None => alloc_zero pre post size al off
      end
  | OFree off size, RetUnit =>
      match find_region off size live with
      | Some x => (cap' =? cap) && chunks_eqb F' (add_chunk F (off, off + size))
      | None => false
      end
  | OGrow n, RetUnit => (0 <=? n) && (cap' =? cap + n) && chunks_eqb F' (grow_chunks F cap n)
  | _, _ => false
  end.

(* ghost padding counter, as the spec computes it *)
Definition lost_after (pre : istate) (lost : Z) (o : op) (r : obs) (post : istate) : Z :=
  match o, r with
  | OAlloc size al, RetOff off =>
      match alloc_general pre post size al off with Some d => lost + d | None => lost end
  | _, _ => lost
  end.

(* observed accounting: get_free() must be the measure of the free byte set,
   and every chunk must be inside the buffer *)
Definition account_okb (i : istate) (get_free : Z) : bool :=
  (get_free =? total (norm (snd i))) && boundedb (snd i) (fst i).

(* ------------------------------------------------------------------ *)
(* Judging a whole observed walk (what the harness evaluates)           *)
(* ------------------------------------------------------------------ *)
Record ostep := mkO { o_op : op; o_obs : obs; o_post : istate; o_gf : Z }.

Fixpoint check_walk (chk : istate -> list region -> op -> obs -> istate -> bool)
   (pre : istate) (live : list region) (n : nat) (steps : list ostep) : option nat :=
  match steps with
  | [] => None
  | st :: tl =>
     if chk pre live (o_op st) (o_obs st) (o_post st)
     then check_walk chk (o_post st) (live_after live (o_op st) (o_obs st)) (S n) tl
     else Some n
  end.
Fixpoint check_account (n : nat) (steps : list ostep) : option nat :=
  match steps with
  | [] => None
  | st :: tl => if account_okb (o_post st) (o_gf st) then check_account (S n) tl else Some n
  end.
(* a freshly created buffer of capacity cap: one free chunk [0,cap) *)
Definition init_okb (i : istate) : bool :=
  (0 <=? fst i) && chunks_eqb (norm (snd i)) (add_chunk [] (0, fst i)).

Record walk := mkW { w_init : istate; w_steps : list ostep }.
Definition walk_ff (w : walk) : option nat :=
  if init_okb (w_init w) then check_walk ff_stepb (w_init w) [] 0 (w_steps w) else Some 0%nat.
Definition walk_safe (w : walk) : option nat :=
  if init_okb (w_init w) then check_walk safe_stepb (w_init w) [] 0 (w_steps w) else Some 0%nat.
Definition walk_account (w : walk) : option nat := check_account 0 (w_steps w).

(* indices (walk, step) of the first non-conforming step of each walk *)
Fixpoint failing {A} (f : A -> option nat) (k : nat) (ws : list A) : list (nat * nat) :=
  match ws with
  | [] => []
  | w :: tl => match f w with Some n => (k, n) :: failing f (S k) tl | None => failing f (S k) tl end
  end.
