From Coq Require Import ZArith List Bool Lia.
Import ListNotations.
From XO Require Import Slots Chunks.
Open Scope Z_scope.

Lemma freeB_cons c cs x : freeB (c::cs) x <-> inb x c \/ freeB cs x.
Proof. unfold freeB; split.
  - intros [d [[->|H] Hx]]; [left; exact Hx| right; eauto].
  - intros [H|[d [H Hx]]]; [exists c; split; [left; reflexivity|exact H] | exists d; split; [right; exact H|exact Hx]].
Qed.
Lemma freeB_nil x : ~ freeB [] x.
Proof. intros [c [[] _]]. Qed.
Lemma freeB_app l1 l2 x : freeB (l1 ++ l2) x <-> freeB l1 x \/ freeB l2 x.
Proof.
  induction l1 as [|c l1 IH]; cbn [app].
  - split; [auto|intros [H|H]; [destruct (freeB_nil _ H)|exact H]].
  - rewrite !freeB_cons, IH. tauto.
Qed.

Lemma nsepb_spec cs : nsepb cs = true <-> nsep cs.
Proof.
  induction cs as [|c tl IH]; cbn [nsepb nsep]; [tauto|].
  rewrite !andb_true_iff, IH, Z.ltb_lt. destruct tl as [|d tl']; [tauto|]. rewrite Z.ltb_lt. tauto.
Qed.

Lemma nsep_sorted cs : nsep cs -> sorted cs.
Proof.
  induction cs as [|c tl IH]; cbn; [auto|]. intros [H1 [H2 H3]]. split; [|apply IH; exact H3].
  destruct tl as [|d tl']; [exact I|]. cbn in H3. lia.
Qed.
Lemma nsep_wf cs : nsep cs -> wf cs.
Proof. induction cs as [|c tl IH]; cbn; intros H; constructor; tauto. Qed.
Lemma nsep_tl c cs : nsep (c :: cs) -> nsep cs.
Proof. cbn. tauto. Qed.

(* ---- merge ---- *)
Lemma merge_bytes : forall cs p x, fst p < snd p -> wf cs ->
  (freeB (merge p cs) x <-> freeB (p :: cs) x).
Proof.
  induction cs as [|[s e] tl IH]; intros [ps pe] x Hp Hwf; cbn [merge].
  - reflexivity.
  - inversion Hwf as [|? ? Hse Htl]; subst. cbn [fst snd] in *.
    destruct ((e >=? ps) && (s <=? pe)) eqn:Hc.
    + apply andb_prop in Hc. destruct Hc as [H1 H2].
      rewrite IH by (cbn [fst snd]; try assumption; lia).
      rewrite !freeB_cons. unfold inb; cbn [fst snd]. intuition lia.
    + rewrite freeB_cons. rewrite IH by (cbn [fst snd]; assumption).
      rewrite !freeB_cons. tauto.
Qed.

Lemma merge_head_eq : forall cs p, fst p < snd p -> wf cs -> sorted (p::cs) ->
  match merge p cs with [] => False | d :: _ => fst d = fst p end.
Proof.
  induction cs as [|[s e] tl IH]; intros [ps pe] Hp Hwf Hs; cbn [merge].
  - reflexivity.
  - inversion Hwf as [|? ? Hse Htl]; subst. cbn [fst snd sorted] in *.
    destruct Hs as [Hps Hs].
    destruct ((e >=? ps) && (s <=? pe)) eqn:Hc.
    + specialize (IH (Z.min ps s, Z.max pe e)). cbn [fst snd] in IH.
      replace (Z.min ps s) with ps in * by lia.
      apply IH; try assumption; try lia.
      cbn [sorted]. destruct Hs as [Hs1 Hs2]. split; [|exact Hs2].
      destruct tl as [|[s2 e2] tl2]; [exact I| cbn [fst] in *; lia].
    + reflexivity.
Qed.

Lemma merge_nsep : forall cs p, fst p < snd p -> wf cs -> sorted (p::cs) -> nsep (merge p cs).
Proof.
  induction cs as [|[s e] tl IH]; intros [ps pe] Hp Hwf Hs; cbn [merge].
  - cbn; auto.
  - inversion Hwf as [|? ? Hse Htl]; subst. cbn [fst snd] in *.
    cbn [sorted] in Hs. destruct Hs as [Hps [Hs1 Hs2]]. cbn [fst] in Hps.
    destruct ((e >=? ps) && (s <=? pe)) eqn:Hc.
    + apply IH; cbn [fst snd]; try assumption; try lia.
      cbn [sorted]. split; [|exact Hs2].
      destruct tl as [|[s2 e2] tl2]; [exact I| cbn [fst] in *; lia].
    + assert (Hsep : nsep (merge (s,e) tl)).
      { apply IH; cbn [fst snd]; try assumption. cbn [sorted]. split; assumption. }
      pose proof (merge_head_eq tl (s,e) Hse Htl) as Hh.
      cbn [sorted] in Hh. specialize (Hh (conj Hs1 Hs2)).
      cbn [nsep fst snd]. split; [exact Hp|]. split; [|exact Hsep].
      destruct (merge (s,e) tl) as [|d tl'] eqn:E; [exact I|].
      cbn [fst] in Hh. rewrite Hh.
      apply andb_false_iff in Hc. destruct Hc as [Hc|Hc]; lia.
Qed.

(* ---- insert_sorted ---- *)
Lemma insert_sorted_sorted : forall cs o e, sorted cs -> sorted (insert_sorted cs o e).
Proof.
  induction cs as [|[s e'] tl IH]; intros o e Hs; cbn [insert_sorted].
  - cbn; auto.
  - destruct (o <=? s) eqn:Ho.
    + cbn [sorted fst]. split; [lia|exact Hs].
    + cbn [sorted] in Hs. destruct Hs as [H1 H2].
      cbn [sorted]. split; [|apply IH; exact H2].
      destruct tl as [|[s2 e2] tl2]; cbn [insert_sorted fst].
      * lia.
      * destruct (o <=? s2); cbn [fst] in *; lia.
Qed.
Lemma insert_sorted_bytes : forall cs o e x,
  freeB (insert_sorted cs o e) x <-> inb x (o,e) \/ freeB cs x.
Proof.
  induction cs as [|[s e'] tl IH]; intros o e x; cbn [insert_sorted].
  - rewrite freeB_cons. reflexivity.
  - destruct (o <=? s).
    + rewrite !freeB_cons. tauto.
    + rewrite !freeB_cons, IH. tauto.
Qed.
Lemma insert_sorted_wf : forall cs o e, o < e -> wf cs -> wf (insert_sorted cs o e).
Proof.
  induction cs as [|[s e'] tl IH]; intros o e Hoe Hwf; cbn [insert_sorted].
  - constructor; [exact Hoe|constructor].
  - inversion Hwf; subst. destruct (o <=? s).
    + constructor; [exact Hoe|exact Hwf].
    + constructor; [assumption|apply IH; assumption].
Qed.

(* ---- XBuffer.free on a canonical list: exact bytes, stays canonical (coalescing) ---- *)
Theorem insert_merge_bytes cs o e x : o < e -> nsep cs ->
  (freeB (insert_merge cs o e) x <-> (o <= x < e) \/ freeB cs x).
Proof.
  intros Hsz Hsep. unfold insert_merge.
  pose proof (insert_sorted_bytes cs o e x) as Hb.
  pose proof (insert_sorted_wf cs o e Hsz (nsep_wf _ Hsep)) as Hwf.
  destruct (insert_sorted cs o e) as [|c tl] eqn:E.
  - rewrite <- Hb. reflexivity.
  - inversion Hwf; subst. rewrite merge_bytes by assumption. rewrite Hb. unfold inb; cbn. reflexivity.
Qed.
Theorem insert_merge_nsep cs o e : o < e -> nsep cs -> nsep (insert_merge cs o e).
Proof.
  intros Hsz Hsep. unfold insert_merge.
  pose proof (insert_sorted_sorted cs o e (nsep_sorted _ Hsep)) as Hs.
  pose proof (insert_sorted_wf cs o e Hsz (nsep_wf _ Hsep)) as Hwf.
  destruct (insert_sorted cs o e) as [|c tl] eqn:E; [exact I|].
  inversion Hwf; subst. apply merge_nsep; assumption.
Qed.

Lemma add_chunk_bytes cs c x : nsep cs ->
  (freeB (add_chunk cs c) x <-> inb x c \/ freeB cs x).
Proof.
  intros Hs. unfold add_chunk. destruct (fst c <? snd c) eqn:E.
  - rewrite insert_merge_bytes by (try assumption; lia). reflexivity.
  - unfold inb. split; [tauto|intros [H|H]; [lia|exact H]].
Qed.
Lemma add_chunk_nsep cs c : nsep cs -> nsep (add_chunk cs c).
Proof.
  intros Hs. unfold add_chunk. destruct (fst c <? snd c) eqn:E; [|exact Hs].
  apply insert_merge_nsep; [lia|exact Hs].
Qed.

Lemma norm_gen : forall cs acc, nsep acc ->
  nsep (fold_left add_chunk cs acc) /\
  forall x, freeB (fold_left add_chunk cs acc) x <-> freeB cs x \/ freeB acc x.
Proof.
  induction cs as [|c tl IH]; intros acc Ha; cbn [fold_left].
  - split; [exact Ha|]. intros x. split; [auto|intros [H|H]; [destruct (freeB_nil _ H)|exact H]].
  - destruct (IH (add_chunk acc c) (add_chunk_nsep _ _ Ha)) as [H1 H2]. split; [exact H1|].
    intros x. rewrite H2, add_chunk_bytes by exact Ha. rewrite freeB_cons. tauto.
Qed.
Theorem norm_nsep cs : nsep (norm cs).
Proof. apply (norm_gen cs []). exact I. Qed.
Theorem norm_bytes cs x : freeB (norm cs) x <-> freeB cs x.
Proof.
  unfold norm. destruct (norm_gen cs [] I) as [_ H]. rewrite H.
  split; [intros [A|A]; [exact A|destruct (freeB_nil _ A)]|auto].
Qed.

(* ---- structure of canonical lists ---- *)
Lemma nsep_app_inv l1 c l2 : nsep (l1 ++ c :: l2) ->
  nsep l1 /\ nsep (c :: l2) /\ Forall (fun d => snd d < fst c) l1.
Proof.
  induction l1 as [|d l1 IH]; cbn [app].
  - intros H. split; [exact I|]. split; [exact H|constructor].
  - intros H. cbn [nsep] in H. destruct H as [Hd [Hn Hs]].
    destruct (IH Hs) as [H1 [H2 H3]]. split; [|split; [exact H2|]].
    + cbn [nsep]. split; [exact Hd|]. split; [|exact H1].
      destruct l1 as [|d2 l1']; [exact I|exact Hn].
    + constructor; [|exact H3].
      destruct l1 as [|d2 l1']; cbn [app] in Hn; [exact Hn|].
      inversion H3; subst. cbn [nsep] in H1. lia.
Qed.
Lemma nsep_app_intro : forall l1 l2,
  nsep l1 -> nsep l2 ->
  (match l2 with [] => True | c :: _ => Forall (fun d => snd d < fst c) l1 end) ->
  nsep (l1 ++ l2).
Proof.
  induction l1 as [|d l1 IH]; intros l2 H1 H2 H3; cbn [app]; [exact H2|].
  cbn [nsep] in H1. destruct H1 as [Hd [Hn Hs]].
  cbn [nsep]. split; [exact Hd|]. split.
  - destruct l1 as [|d2 l1']; cbn [app].
    + destruct l2 as [|c l2']; [exact I|]. inversion H3; subst. assumption.
    + exact Hn.
  - apply IH; try assumption. destruct l2 as [|c l2']; [exact I|]. inversion H3; subst; assumption.
Qed.
Lemma nsep_tail_gt : forall c l, nsep (c :: l) -> forall y, freeB l y -> snd c < y.
Proof.
  intros c l; revert c. induction l as [|d l IH]; intros c Hs y Hy; [destruct (freeB_nil _ Hy)|].
  cbn [nsep] in Hs. destruct Hs as [Hc [Hn Hs]]. apply freeB_cons in Hy. destruct Hy as [Hy|Hy].
  - unfold inb in Hy. lia.
  - specialize (IH d Hs y Hy). cbn [nsep] in Hs. lia.
Qed.

(* a run of free bytes of a canonical list lies inside ONE chunk: chunks are maximal runs *)
Lemma interval_in_chunk : forall cs a b, nsep cs -> a < b ->
  (forall x, a <= x < b -> freeB cs x) ->
  exists c, In c cs /\ fst c <= a /\ b <= snd c.
Proof.
  induction cs as [|c tl IH]; intros a b Hs Hab Hall.
  - destruct (freeB_nil a). apply Hall. lia.
  - assert (Ha : freeB (c :: tl) a) by (apply Hall; lia).
    apply freeB_cons in Ha. destruct Ha as [Ha|Ha].
    + (* a in c: then b <= snd c, otherwise byte (snd c) would be free but it is a gap *)
      destruct (Z_le_gt_dec b (snd c)) as [Hb|Hb].
      * exists c. split; [left; reflexivity|]. unfold inb in Ha. lia.
      * exfalso. unfold inb in Ha.
        assert (Hx : freeB (c :: tl) (snd c)) by (apply Hall; lia).
        apply freeB_cons in Hx. destruct Hx as [Hx|Hx]; [unfold inb in Hx; lia|].
        pose proof (nsep_tail_gt c tl Hs _ Hx). lia.
    + (* a in tl: everything of [a,b) is > snd c, so in tl *)
      pose proof (nsep_tail_gt c tl Hs _ Ha) as Hgt.
      destruct (IH a b (nsep_tl _ _ Hs) Hab) as [d [Hd Hin]].
      { intros x Hx. specialize (Hall x Hx). apply freeB_cons in Hall.
        destruct Hall as [H|H]; [unfold inb in H; lia|exact H]. }
      exists d. split; [right; exact Hd|exact Hin].
Qed.

(* ---- scan: first fit ---- *)
Definition fits (c : chunk) (size a : Z) : Prop := align_up (fst c) a + size <= snd c.

Lemma scan_some : forall cs size a s off cs',
  scan cs size a = Some (s, off, cs') ->
  exists pre e suf,
    cs = pre ++ (s,e) :: suf /\
    Forall (fun c => ~ fits c size a) pre /\
    off = align_up s a /\ off + size <= e /\
    cs' = pre ++ (if e - (off + size) =? 0 then suf else (off + size, e) :: suf).
Proof.
  induction cs as [|[s0 e] tl IH]; intros size a s off cs' H; cbn [scan] in H; [discriminate|].
  destruct (e >=? align_up s0 a + size) eqn:Hfit.
  - inversion H; subst. exists [], e, tl. cbn. repeat split; try constructor; try lia.
  - destruct (scan tl size a) as [[[s1 o] tl']|] eqn:E; [|discriminate].
    inversion H; subst. destruct (IH _ _ _ _ _ E) as [pre [e' [suf [H1 [H2 [H3 [H4 H5]]]]]]].
    subst tl. exists ((s0,e)::pre), e', suf. cbn [app]. repeat split; try assumption.
    + constructor; [|exact H2]. unfold fits; cbn [fst snd]. lia.
    + rewrite H5. reflexivity.
Qed.
Lemma scan_none : forall cs size a, scan cs size a = None -> Forall (fun c => ~ fits c size a) cs.
Proof.
  induction cs as [|[s e] tl IH]; intros size a H; cbn [scan] in H; [constructor|].
  destruct (e >=? align_up s a + size) eqn:Hfit; [discriminate|].
  destruct (scan tl size a) as [[[s1 o] tl']|] eqn:E; [discriminate|].
  constructor; [unfold fits; cbn [fst snd]; lia | apply IH; exact E].
Qed.

Theorem scan_nsep cs size k s off cs' :
  0 <= k -> 0 <= size -> nsep cs -> scan cs size (2^k) = Some (s, off, cs') -> nsep cs'.
Proof.
  intros Hk Hsz Hsep H. destruct (scan_some _ _ _ _ _ _ H) as [pre [e [suf [-> [Hpre [Hoff [Hfit ->]]]]]]].
  destruct (nsep_app_inv _ _ _ Hsep) as [H1 [H2 H3]]. cbn [nsep fst snd] in H2. destruct H2 as [Hse [Hn Hsuf]].
  pose proof (align_up_spec k s Hk) as [Hal _]. rewrite <- Hoff in Hal.
  destruct (e - (off + size) =? 0) eqn:Hz.
  - apply nsep_app_intro; try assumption.
    destruct suf as [|c suf']; [exact I|]. eapply Forall_impl; [|exact H3]. cbn. intros d Hd. lia.
  - apply nsep_app_intro; try assumption.
    + cbn [nsep fst snd]. repeat split; try lia; assumption.
    + eapply Forall_impl; [|exact H3]. cbn [fst]. intros d Hd. lia.
Qed.

Theorem scan_bytes cs size k s off cs' x :
  0 <= k -> 0 <= size -> nsep cs -> scan cs size (2^k) = Some (s, off, cs') ->
  s <= off /\ off = align_up s (2^k) /\
  (forall y, s <= y < off + size -> freeB cs y) /\
  (freeB cs' x <-> freeB cs x /\ ~ (s <= x < off + size)).
Proof.
  intros Hk Hsz Hsep H. destruct (scan_some _ _ _ _ _ _ H) as [pre [e [suf [-> [Hpre [Hoff [Hfit ->]]]]]]].
  destruct (nsep_app_inv _ _ _ Hsep) as [H1 [H2 H3]]. cbn [nsep fst snd] in H2. destruct H2 as [Hse [Hn Hsuf]].
  pose proof (align_up_spec k s Hk) as [Hal _]. rewrite <- Hoff in Hal.
  split; [lia|]. split; [exact Hoff|].
  split.
  { intros y Hy. apply freeB_app. right. apply freeB_cons. left. unfold inb; cbn [fst snd]. lia. }
  assert (Hpre_lt : forall y, freeB pre y -> y < s).
  { intros y [d [Hd Hy]]. rewrite Forall_forall in H3. specialize (H3 _ Hd). unfold inb in Hy. cbn [fst snd] in *. lia. }
  assert (Hsuf_gt : forall y, freeB suf y -> e < y).
  { intros y Hy. apply (nsep_tail_gt (s,e) suf); [cbn [nsep fst snd]; auto|exact Hy]. }
  destruct (e - (off + size) =? 0) eqn:Hz.
  - rewrite !freeB_app, !freeB_cons. unfold inb; cbn [fst snd].
    split.
    + intros [Hp|Hs]; [specialize (Hpre_lt _ Hp)|specialize (Hsuf_gt _ Hs)]; split; tauto || lia.
    + intros [[Hp|[Hx|Hs]] Hn']; [left; exact Hp| exfalso; lia | right; exact Hs].
  - rewrite !freeB_app, !freeB_cons. unfold inb; cbn [fst snd].
    split.
    + intros [Hp|[Hx|Hs]]; [specialize (Hpre_lt _ Hp)| |specialize (Hsuf_gt _ Hs)]; split; tauto || lia.
    + intros [[Hp|[Hx|Hs]] Hn']; [left; exact Hp| right; left; lia | right; right; exact Hs].
Qed.
