(* C18 — Hybrid objects mirror their buffer data; copy/move keep value and ownership. Statements only. *)
From Coq Require Import ZArith List Bool Lia.
Import ListNotations.
From XO Require Import Types RefOps RefOpsProofs Hybrid HybridProofs.
Open Scope Z_scope.

Theorem C18_set_then_get : forall st d i x st', setattr st d i x = Some st' -> getattr st' d i = Some x.
Proof. exact getattr_setattr. Qed.
Theorem C18_nested_part_is_field_view : forall st d i j, getattr st (child_nested d i) j = read_at st (d_obj d) ((d_path d ++ [i]) ++ [j]).
Proof. exact nested_child_is_field_view. Qed.
Theorem C18_assign_copy_stores_value : forall st d i src st' t, tree_of st src = Some t -> assign_copy st d i src = Some st' -> getattr st' d i = Some t.
Proof. exact assign_copy_stores_value. Qed.
Theorem C18_assign_copy_independent : forall st d i src st' q x st'', assign_copy st d i src = Some st' ->
  d_obj src <> d_obj d -> write_at st' (d_obj src) q x = Some st'' -> getattr st'' d i = getattr st' d i.
Proof. exact assign_copy_independent. Qed.
Theorem C18_assign_ref_shares : forall st buf_of d i src st', assign_ref st buf_of d i src = Done st' ->
  child_ref st' d i = Some (mkD (d_obj src) [] false).
Proof. exact assign_ref_shares. Qed.
Theorem C18_assign_ref_cross_buffer_refused : forall st buf_of d i src, buf_of (d_obj d) <> buf_of (d_obj src) ->
  assign_ref st buf_of d i src = Refused.
Proof. exact assign_ref_cross_buffer_refused. Qed.
Theorem C18_copy_independent : forall fuel st o p x st' t, write_at st o p x = Some st' -> agree_on fuel st st' t -> deep fuel st' t = deep fuel st t.
Proof. exact unreachable_write_invisible. Qed.
Theorem C18_move_relocates : forall st d st' d', move st d = Some (st', d') ->
  exists t, nth_error st (d_obj d) = Some t /\ nth_error st' (d_obj d') = Some t /\ d_obj d' = length st /\ d_path d' = [].
Proof. exact move_relocates. Qed.
Theorem C18_move_refused_nested : forall st d i p, d_path d = i :: p -> move st d = None.
Proof. exact move_refused_nested. Qed.
Theorem C18_move_refused_unmovable : forall st d, d_movable d = false -> move st d = None.
Proof. exact move_refused_unmovable. Qed.
Theorem C18_move_refused_with_refs : forall st d t, nth_error st (d_obj d) = Some t -> ref_free t = false -> move st d = None.
Proof. exact move_refused_with_refs. Qed.

Print Assumptions C18_set_then_get.
Print Assumptions C18_nested_part_is_field_view.
Print Assumptions C18_assign_copy_stores_value.
Print Assumptions C18_assign_copy_independent.
Print Assumptions C18_assign_ref_shares.
Print Assumptions C18_assign_ref_cross_buffer_refused.
Print Assumptions C18_copy_independent.
Print Assumptions C18_move_relocates.
Print Assumptions C18_move_refused_nested.
Print Assumptions C18_move_refused_unmovable.
Print Assumptions C18_move_refused_with_refs.
