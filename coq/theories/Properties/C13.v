(* C13 — CPU buffer copy primitives move exactly the requested bytes.
   Only statements; proofs are `exact <lemma of BufOpsProofs>`. *)
From Coq Require Import ZArith List Bool Lia.
Import ListNotations.
From XO Require Import BufOps BufOpsProofs BufOpsComplete.
Open Scope Z_scope.

(* every updating primitive (update_from_native / _buffer / _nplike / _xbuffer, writes
   through a typed view): exactly [off, off+len) becomes the source bytes, every other
   byte and the capacity are unchanged, extracted copies are untouched *)
Theorem C13_update_moves_exactly : forall s o off bs, op_ok s o = true -> written o s = Some (off, bs) ->
  let m' := b_mem (fst (exec s o)) in
  in_range (b_mem s) off (Z.of_nat (length bs)) /\
  length m' = length (b_mem s) /\
  rd m' off (Z.of_nat (length bs)) = bs /\
  (forall i, 0 <= i -> (i < off \/ off + Z.of_nat (length bs) <= i) -> byte m' i = byte (b_mem s) i) /\
  b_copies (fst (exec s o)) = b_copies s.
Proof. exact update_moves_exactly. Qed.

Theorem C13_extract_exact : forall s off n, in_range (b_mem s) off n ->
  let '(s1, r1) := exec s (BToNative off n) in
  let '(s2, r2) := exec s (BToBytearray off n) in
  r1 = rd (b_mem s) off n /\ r2 = r1 /\ b_mem s1 = b_mem s /\ b_mem s2 = b_mem s /\
  length r1 = Z.to_nat n /\ forall i, 0 <= i < n -> byte r1 i = byte (b_mem s) (off + i).
Proof. exact extract_exact. Qed.

Theorem C13_copy_to_native_exact : forall s dest doff soff n, in_range (b_mem s) soff n -> in_range dest doff n ->
  let '(s', d') := exec s (BCopyToNative dest doff soff n) in
  s' = s /\ length d' = length dest /\ rd d' doff n = rd (b_mem s) soff n /\
  forall i, 0 <= i -> (i < doff \/ doff + n <= i) -> byte d' i = byte dest i.
Proof. exact copy_to_native_exact. Qed.

Theorem C13_views_alias : forall s off bs, in_range (b_mem s) off (Z.of_nat (length bs)) ->
  forall o, written o s = Some (off, bs) -> op_ok s o = true ->
  snd (exec (fst (exec s o)) (BReadView off (Z.of_nat (length bs)))) = bs.
Proof. exact views_alias. Qed.

Theorem C13_copies_independent : forall s o j, (j < length (b_copies s))%nat ->
  (forall k off bs, o = BWriteCopy k off bs -> k <> j) ->
  nth j (b_copies (fst (exec s o))) [] = nth j (b_copies s) [] /\
  (forall k off bs, o = BWriteCopy k off bs -> b_mem (fst (exec s o)) = b_mem s).
Proof. exact copies_independent. Qed.

(* growth relocates the storage and keeps every old byte (C04's data clause) *)
Theorem C13_grow_preserves : forall m n, 0 <= n ->
  let m' := b_mem (fst (exec (mkB m []) (BGrow n))) in
  Z.of_nat (length m') = Z.of_nat (length m) + n /\ rd m' 0 (Z.of_nat (length m)) = m /\
  forall i, Z.of_nat (length m) <= i -> byte m' i = 0.
Proof. exact grow_preserves. Qed.

Theorem C13_checker_sound : forall h s n, check_hist s n h = None -> conforms s h.
Proof. exact check_hist_sound. Qed.

Example C13_hist_example :
  hist_ok (mkBH [1;2;3;4;5;6]
    [ mkBO (BUpdBuffer 1 [9;8]) [] [1;9;8;4;5;6];
      mkBO (BToNative 0 3) [1;9;8] [1;9;8;4;5;6];
      mkBO (BUpdNative 4 [7;7;7] 1 2) [] [1;9;8;4;7;7];
      mkBO (BReadCopy 0) [1;9;8] [1;9;8;4;7;7];
      mkBO (BWriteCopy 0 0 [0]) [] [1;9;8;4;7;7];
      mkBO (BGrow 2) [] [1;9;8;4;7;7;0;0];
      mkBO (BCopyToNative [5;5;5] 1 6 2) [5;0;0] [1;9;8;4;7;7;0;0] ]) = None.
Proof. vm_compute. reflexivity. Qed.

Print Assumptions C13_update_moves_exactly.
Print Assumptions C13_extract_exact.
Print Assumptions C13_copy_to_native_exact.
Print Assumptions C13_views_alias.
Print Assumptions C13_copies_independent.
Print Assumptions C13_grow_preserves.
Print Assumptions C13_checker_sound.

(* the judgement of an observed history is exact -- accepted if and only if the model reproduces every step --
   and a rejection names the FIRST step that is not reproduced: everything before it conforms, and the step
   itself does not, in the state the model reached (so the replay the check writes is a real first failure) *)
Theorem C13_checker_exact : forall h s n, check_hist s n h = None <-> conforms s h.
Proof. exact check_hist_exact. Qed.
Theorem C13_rejection_names_first_failing_step : forall h s n k, check_hist s n h = Some k ->
  exists pre st post, h = pre ++ st :: post /\ k = (n + length pre)%nat /\ conforms s pre /\ ~ conforms (after s pre) [st].
Proof. exact check_hist_first_failure. Qed.
Print Assumptions C13_checker_exact.
Print Assumptions C13_rejection_names_first_failing_step.
