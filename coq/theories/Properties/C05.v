(* C05 — Object bytes follow the documented binary layout.
   The documented format is Format.enc (encoder) and Format.dec (strict decoder written from
   the documentation only).  Statements only; proofs are `exact <lemma of LayoutProofs>`. *)
From Coq Require Import ZArith List Bool Lia.
Import ListNotations.
From XO Require Import Slots Strides Perm BufOps Types Format Check LayoutProofs RoundTrip Complete UpdateAt Address.
From XO Require Import Update UpdateAt Alignment.
From XO Require CopyBytes DecLocal.
Open Scope Z_scope.

(* header words: 8-byte little-endian two's complement, exact on the whole int64 range *)
Theorem C05_word_roundtrip : forall x, - 2^63 <= x < 2^63 -> dec64 (enc64 x) = x.
Proof. exact dec64_enc64. Qed.

(* slots: every size is rounded up to the next multiple of 8 *)
Theorem C05_slot : forall n, n <= slot n < n + 8 /\ slot n mod 8 = 0.
Proof. exact slot_spec. Qed.

(* an image found anywhere in any buffer (padding cells arbitrary) is decoded back to the
   value, and the decoder reports the image's length as the object's size: leaves *)
Theorem C05_decode_scalar : forall k bs img m off,
  enc (TScalar k) (VNum bs) = Some img -> sits img m off -> dec (TScalar k) m off = Some (VNum bs, len img).
Proof. exact dec_enc_scalar. Qed.
Theorem C05_decode_string : forall bs size img m off, size < 2^63 ->
  enc TString (VStr bs size) = Some img -> sits img m off -> dec TString m off = Some (VStr bs size, len img).
Proof. exact dec_enc_string. Qed.

(* bytes that match an image cell-by-cell carry the image wherever they are embedded *)
Theorem C05_match_sits : forall img bs pre post,
  cells_match img bs = true -> sits img (pre ++ bs ++ post) (len pre).
Proof. exact cells_match_sits. Qed.

(* an observation accepted by the checker: the implementation's bytes are the documented image
   of the value (size included) and the independent decoder recovers the value from them *)
Theorem C05_checker_sound : forall c, layout_ok c = None ->
  exists img, enc (lc_ty c) (lc_val c) = Some img /\ len img = lc_size c /\
    cells_match img (lc_bytes c) = true /\
    exists v, dec (lc_ty c) (lc_bytes c) 0 = Some (v, lc_size c) /\ val_eqb v (lc_val c) = true.
Proof. exact layout_ok_sound. Qed.

(* THE GENERAL ROUND TRIP, for every type of the grammar and every value, by induction over the
   type (nested structs, dynamic offset tables, N-D arrays of static or dynamically sized items
   under every axis order): wherever in a buffer the documented image of a value sits (padding
   bytes arbitrary), the strict decoder -- written from the documentation only, checking every
   redundant header word -- returns exactly that value and the image length as the size.
   Reference slots are open cells of the image; what they must hold is [targets_ok] (below).
   [len img < 2^62]: header words are int64. *)
Theorem C05_decode_encode : forall t v img m off,
  enc t v = Some img -> sits img m off -> len img < 2^62 -> targets_ok t v m off -> dec t m off = Some (v, len img).
Proof. exact RT_all. Qed.
(* [targets_ok]: what the reference slots of a value with Ref / UnionRef parts must hold (the null word,
   or an offset relative to the slot such that the referent's image sits there, recursively; plus the
   member index for union references).  It is trivially true of reference-free types: *)
Theorem C05_decode_encode_reference_free : forall t v img m off, has_refs t = false ->
  enc t v = Some img -> sits img m off -> len img < 2^62 -> dec t m off = Some (v, len img).
Proof. exact RT_ref_free. Qed.
Theorem C05_decode_encode_in_buffer : forall t v img pre bs post, has_refs t = false ->
  enc t v = Some img -> cells_match img bs = true -> len img < 2^62 ->
  dec t (pre ++ bs ++ post) (len pre) = Some (v, len img).
Proof. exact dec_enc_buffer. Qed.
(* the image of a value of a statically sized type has the class size *)
Theorem C05_static_size : forall t v img s, enc t v = Some img -> csize t = Some s -> len img = s.
Proof. exact enc_static_size. Qed.
(* memory position <-> logical index under an axis order, and the address computed from the strides *)
Theorem C05_strides_address : forall sh order isz idx, Perm.is_perm order -> length sh = length order -> Strides.in_range sh idx ->
  dot idx (get_strides sh order isz) = isz * Perm.mem_pos sh order idx.
Proof. exact Perm.strides_address. Qed.

(* ... and complete: bytes that carry the documented image of the value are never rejected *)
Theorem C05_checker_complete : forall c img, has_refs (lc_ty c) = false ->
  enc (lc_ty c) (lc_val c) = Some img -> len img = lc_size c -> lc_size c < 2^62 ->
  cells_match img (lc_bytes c) = true -> layout_ok c = None.
Proof. exact layout_ok_complete. Qed.

(* the judgement used for freshly built objects that hold references (whole buffer): sound and complete *)
Theorem C05_reference_holders_checker_sound : forall c, heap_img_ok c = None ->
  exists img, enc (hc_ty c) (hc_val c) = Some img /\ len img = hc_size c /\ sits img (hc_mem c) (hc_off c) /\
    exists v, dec (hc_ty c) (hc_mem c) (hc_off c) = Some (v, hc_size c) /\ val_eqb v (hc_val c) = true.
Proof. exact heap_img_ok_sound. Qed.
Theorem C05_reference_holders_checker_complete : forall c img,
  enc (hc_ty c) (hc_val c) = Some img -> len img = hc_size c -> hc_size c < 2^62 ->
  sits img (hc_mem c) (hc_off c) -> targets_ok (hc_ty c) (hc_val c) (hc_mem c) (hc_off c) -> heap_img_ok c = None.
Proof. exact heap_img_ok_complete. Qed.

(* every field, the data area of every array and every dynamically sized item start on a slot boundary
   relative to the object they belong to (positions as computed from the image, CApi/Address.v) *)
Theorem C05_fields_slot_aligned : forall fs es i, UpdateAt.field_off fs es i mod 8 = 0.
Proof. exact Address.field_off_aligned. Qed.
Theorem C05_array_data_slot_aligned : forall st shape, arr_header st shape mod 8 = 0.
Proof. exact Address.arr_header_aligned. Qed.
Theorem C05_dynamic_items_slot_aligned : forall item shape order sh es c, csize item = None -> item_pos item shape order sh es c mod 8 = 0.
Proof. exact Address.item_pos_aligned_dyn. Qed.

(* compound types: decode∘encode on a struct holding a scalar, a string, a dynamic F-ordered
   2-D array of int32 and an F-ordered 2x2 array of strings, embedded at offset 3
   (evaluation of the executable definitions: an instance of C05_decode_encode, kept as non-vacuity witness) *)
Definition ex_t := TStruct [TScalar I16; TString; TArray (TScalar I32) [None; Some 3] [1%nat;0%nat]; TArray TString [Some 2; Some 2] [1%nat;0%nat]].
Definition ex_v := VStruct [VNum [1;2]; VStr [65;66] 16;
   VArr [2;3] [VNum [1;0;0;0]; VNum [2;0;0;0]; VNum [3;0;0;0]; VNum [4;0;0;0]; VNum [5;0;0;0]; VNum [6;0;0;0]];
   VArr [2;2] [VStr [97] 16; VStr [98] 16; VStr [99] 16; VStr [100;100;100;100;100;100;100;100] 24]].
Example C05_example_roundtrip :
  match enc ex_t ex_v with
  | Some img => let bs := map (fun c => match c with Some b => b | None => 165 end) img in
      match dec ex_t ([7;7;7] ++ bs ++ [9]) 3 with Some (v, s) => val_eqb v ex_v && (s =? 216) && (len img =? 216) | None => false end
  | None => false end = true.
Proof. vm_compute. reflexivity. Qed.

(* ANY ACCEPTED BYTES: whatever the strict decoder accepts as an object of a reference-free type (a fresh image,
   or the bytes left by any history of assignments, slack included), the value and the size it returns are a
   function of the bytes of [off, off+size) alone; the size is never negative and a statically sized type always
   reports its class size *)
Theorem C05_decoder_reads_own_extent_only : forall t m off v s m', has_refs t = false -> dec t m off = Some (v, s) ->
  len m <= len m' -> CopyBytes.agree_on m m' off s -> dec t m' off = Some (v, s).
Proof. exact DecLocal.dec_local. Qed.
Theorem C05_decoded_size : forall t m off v s, has_refs t = false -> dec t m off = Some (v, s) ->
  0 <= s /\ forall cs, csize t = Some cs -> s = cs.
Proof. exact DecLocal.dec_size. Qed.
(* ALIGNMENT relative to the object start: the offset of the element any field / index path denotes is a multiple of
   8 for structs, arrays and strings and a multiple of the number's own size for numbers -- for every type, value,
   depth and axis order; hence a typed access at (object start + offset) is as aligned as the object start *)
Theorem C05_element_aligned_relative_to_the_object_start : forall p t v d st, path_off t v p = Some d -> sub_ty t p = Some st -> d mod al st = 0.
Proof. exact path_off_aligned. Qed.
Print Assumptions C05_word_roundtrip.
Print Assumptions C05_slot.
Print Assumptions C05_decode_scalar.
Print Assumptions C05_decode_string.
Print Assumptions C05_match_sits.
Print Assumptions C05_checker_sound.
Print Assumptions C05_decode_encode.
Print Assumptions C05_decode_encode_reference_free.
Print Assumptions C05_decode_encode_in_buffer.
Print Assumptions C05_static_size.
Print Assumptions C05_strides_address.
Print Assumptions C05_checker_complete.
Print Assumptions C05_fields_slot_aligned.
Print Assumptions C05_array_data_slot_aligned.
Print Assumptions C05_dynamic_items_slot_aligned.
Print Assumptions C05_reference_holders_checker_sound.
Print Assumptions C05_reference_holders_checker_complete.
Print Assumptions C05_decoder_reads_own_extent_only.
Print Assumptions C05_decoded_size.
Print Assumptions C05_element_aligned_relative_to_the_object_start.
