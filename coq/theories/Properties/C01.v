(* C01 — see DESIGN.md §7. Statements only. The layout properties C01/C03/C05/C06 share the
   documented-format model (Format.enc / Format.dec) and the certified judgement layout_ok. *)
From Coq Require Import ZArith List Bool Lia.
Import ListNotations.
From XO Require Import Slots Strides BufOps Types Format Check LayoutProofs RoundTrip.
Open Scope Z_scope.

(* what is written is read back: the reader of the documented format returns exactly the
   value whose image sits in the buffer, at any offset of any buffer: leaves *)
Theorem C01_read_back_scalar : forall k bs img m off,
  enc (TScalar k) (VNum bs) = Some img -> sits img m off -> dec (TScalar k) m off = Some (VNum bs, len img).
Proof. exact dec_enc_scalar. Qed.
Theorem C01_read_back_string : forall bs size img m off, size < 2^63 ->
  enc TString (VStr bs size) = Some img -> sits img m off -> dec TString m off = Some (VStr bs size, len img).
Proof. exact dec_enc_string. Qed.
(* the general statement: every type of the grammar, every value (nested structs, N-D arrays in any
   axis order, arrays of strings ...): the reader returns exactly the value whose image was written *)
Theorem C01_read_back : forall t v img m off,
  enc t v = Some img -> sits img m off -> len img < 2^62 -> targets_ok t v m off -> dec t m off = Some (v, len img).
Proof. exact RT_all. Qed.
Theorem C01_read_back_reference_free : forall t v img m off, has_refs t = false ->
  enc t v = Some img -> sits img m off -> len img < 2^62 -> dec t m off = Some (v, len img).
Proof. exact RT_ref_free. Qed.
(* a string created from a capacity is the empty string *)
Theorem C01_capacity_reads_empty : forall cap img m off, 1 <= cap -> cap + 8 < 2^63 ->
  enc TString (VStr [] (cap + 8)) = Some img -> sits img m off -> dec TString m off = Some (VStr [] (cap + 8), len img).
Proof. intros cap img m off _ H. exact (dec_enc_string [] (cap + 8) img m off H). Qed.
(* N-D arrays, any axis order: the address computed from strides is the row-major position
   in the permuted (memory) index space *)
Theorem C01_strides_address : forall shape order isz idx,
  let n := length order in
  Permutation.Permutation order (seq 0 n) -> length shape = n -> length idx = n ->
  dot idx (get_strides shape order isz) = dot (gather 0 idx order) (c_strides (gather 0 shape order) isz).
Proof. exact strides_permute. Qed.
Theorem C01_position_bijection : forall sh n, pos_shape sh -> 0 <= n < prod sh -> pos sh (unpos sh n) = n.
Proof. exact pos_unpos. Qed.
Theorem C01_checker_sound : forall c, layout_ok c = None ->
  exists img, enc (lc_ty c) (lc_val c) = Some img /\ len img = lc_size c /\
    cells_match img (lc_bytes c) = true /\
    exists v, dec (lc_ty c) (lc_bytes c) 0 = Some (v, lc_size c) /\ val_eqb v (lc_val c) = true.
Proof. exact layout_ok_sound. Qed.
Print Assumptions C01_read_back_scalar.
Print Assumptions C01_read_back_string.
Print Assumptions C01_capacity_reads_empty.
Print Assumptions C01_strides_address.
Print Assumptions C01_position_bijection.
Print Assumptions C01_checker_sound.
Print Assumptions C01_read_back.
Print Assumptions C01_read_back_reference_free.
