(* C07 — C setters change exactly one element and accessors stay in bounds. Statements only.
   (the sanitizer clause is a supporting runtime test, see DESIGN §7: partial) *)
From Coq Require Import ZArith List Bool Lia.
Import ListNotations.
From XO Require Import Slots Strides BufOps BufOpsProofs Types Format LayoutProofs RoundTrip Update UpdateAt CExpr CExprProofs CSpec CSpecProofs Address Setter.
From XO Require Import Update UpdateAt Alignment.
Open Scope Z_scope.

(* a validated setter stores at exactly the layout's address of the element, for all in-range (and
   in fact all) indices and all header contents *)
Theorem C07_setter_address : forall f, cfun_ok f = None ->
  exists spec, spec_expr (cf_ty f) (cf_path f) (cf_action f) = Some spec /\
  forall ld ix, crun ld ix (cf_body f) (cf_final f) = seval ld ix spec.
Proof. exact cfun_ok_sound. Qed.
(* storing the n bytes of a value at an address changes exactly those n bytes: every other
   element, every header word and every neighbour keeps its bytes; reading back gives the value *)
(* IN BOUNDS (and at the right element), end to end: an accessor accepted by the validator, run with in-range indices on ANY buffer that holds
   the documented image of ANY value of its type at ANY offset, computes the address at which the
   documented image of the addressed element sits, and that lies inside the object.  (nav: the element
   a path denotes under the index arguments, reference steps going to the referent; targets_ok: the reference
   slots hold slot-relative offsets to where the referents' images sit -- trivially true without references; crun: C semantics of the emitted body and return
   expression; loads read the buffer relative to the object start.)  With C05's tie (the bytes of
   every object ARE the documented image) this is "C and Python address the same bytes". *)
Theorem C07_accessor_addresses_element : forall f v img m o ix lt lv ic',
  cfun_ok f = None -> (cf_action f = AGetp \/ ((cf_action f = AGet \/ cf_action f = ASet) /\ exists k, lt = TScalar k)) ->
  nav ix (cf_ty f) v (cf_path f) 0 lt lv ic' ->
  enc (cf_ty f) v = Some img -> sits img m o -> len img < 2^62 -> targets_ok (cf_ty f) v m o ->
  let addr := o + crun (ld m o) ix (cf_body f) (cf_final f) in
  exists e, enc lt lv = Some e /\ sits e m addr /\ (~ In PRef (cf_path f) -> o <= addr /\ addr + len e <= o + len img).
Proof. exact accessor_addresses_element. Qed.
(* THE SETTER, END TO END.  An accepted setter is run with in-range indices on a buffer m holding the
   documented image of a value v of its type at offset o; the store it performs writes the new scalar bs'
   at the address it computed.  Then (1) the Python-level assignment of bs' to the element the path denotes
   is honoured by the model and the element reads back as bs', (2) the buffer afterwards holds the
   documented image of the value after that assignment, of the same size, at the same offset, and (3) no
   byte outside the element changed.  (upath_of: the assignment path the accessor path denotes under the
   index arguments; crun: C semantics of the emitted address arithmetic; wr: the store.) *)
Theorem C07_setter_is_assignment : forall f v img m o ix k bs bs' ic' up,
  cfun_ok f = None -> cf_action f = ASet ->
  nav ix (cf_ty f) v (cf_path f) 0 (TScalar k) (VNum bs) ic' -> upath_of ix (cf_ty f) v (cf_path f) 0 up ->
  enc (cf_ty f) v = Some img -> sits img m o -> len img < 2^62 -> len bs' = ssize k ->
  let addr := o + crun (ld m o) ix (cf_body f) (cf_final f) in
  exists v' img', assign (cf_ty f) v up (VNum bs') = Some v' /\ vget v' up = Some (VNum bs') /\
    enc (cf_ty f) v' = Some img' /\ len img' = len img /\ sits img' (wr m addr bs') o /\
    (forall i, 0 <= i -> (i < addr \/ addr + ssize k <= i) -> BufOpsProofs.byte (wr m addr bs') i = BufOpsProofs.byte m i).
Proof. exact setter_is_assignment. Qed.
Theorem C07_store_changes_exactly_the_element : forall m off bs, in_range m off (Z.of_nat (length bs)) ->
  length (wr m off bs) = length m /\
  (forall i, 0 <= i -> (i < off \/ off + Z.of_nat (length bs) <= i) -> byte (wr m off bs) i = byte m i) /\
  (forall i, off <= i < off + Z.of_nat (length bs) -> byte (wr m off bs) i = byte bs (i - off)).
Proof. exact write_frame. Qed.
Theorem C07_value_read_back : forall m off bs, in_range m off (Z.of_nat (length bs)) -> rd (wr m off bs) off (Z.of_nat (length bs)) = bs.
Proof. exact rd_wr_same. Qed.
(* header loads are 8-byte words at multiples of 8 from the start of their object: every part of
   the documented layout starts on a slot boundary *)
Theorem C07_slots_aligned : forall n, n <= slot n < n + 8 /\ slot n mod 8 = 0.
Proof. exact slot_spec. Qed.

(* ALIGNMENT relative to the object start: the offset of the element any field / index path denotes is a multiple of
   8 for structs, arrays and strings and a multiple of the number's own size for numbers -- for every type, value,
   depth and axis order; hence a typed access at (object start + offset) is as aligned as the object start *)
Theorem C07_element_aligned_relative_to_the_object_start : forall p t v d st, path_off t v p = Some d -> sub_ty t p = Some st -> d mod al st = 0.
Proof. exact path_off_aligned. Qed.
Print Assumptions C07_setter_address.
Print Assumptions C07_store_changes_exactly_the_element.
Print Assumptions C07_value_read_back.
Print Assumptions C07_slots_aligned.
Print Assumptions C07_accessor_addresses_element.
Print Assumptions C07_setter_is_assignment.
Print Assumptions C07_element_aligned_relative_to_the_object_start.
