(* C02 — Generated C accessors address the same bytes as the Python view. Statements only. *)
From Coq Require Import ZArith List Bool Lia.
Import ListNotations.
From XO Require Import Slots Strides BufOps Types Format LayoutProofs RoundTrip CExpr CExprProofs CSpec CSpecProofs Address.
Open Scope Z_scope.

(* the normaliser preserves the value of an address expression for every index vector and every
   memory content; hence equal normal forms mean equal addresses *)
Theorem C02_normaliser_sound : forall ld ix e, seval ld ix (norm e) = seval ld ix e.
Proof. exact norm_sound. Qed.
Theorem C02_equivalence_sound : forall ld ix a b, sym_equiv a b = true -> seval ld ix a = seval ld ix b.
Proof. exact sym_equiv_sound. Qed.
(* symbolic execution of the emitted statements is their concrete execution *)
Theorem C02_symbolic_execution_sound : forall ld ix p soff senv,
  cexec ld ix (seval ld ix soff) (map (fun p => (fst p, seval ld ix (snd p))) senv) p = seval ld ix (symexec soff senv p).
Proof. exact symexec_sound. Qed.
(* the certified validator: "the symbolic form of the claim quantifies over all indices and all
   header words at once" *)
Theorem C02_validator_sound : forall prog spec, validate prog spec = true ->
  forall ld ix, cexec ld ix 0 [] prog = seval ld ix spec.
Proof. exact validate_sound. Qed.
Theorem C02_accessor_sound : forall f, cfun_ok f = None ->
  exists spec, spec_expr (cf_ty f) (cf_path f) (cf_action f) = Some spec /\
  forall ld ix, crun ld ix (cf_body f) (cf_final f) = seval ld ix spec.
Proof. exact cfun_ok_sound. Qed.
(* N-D arrays: the stride formula used by the specification is the row-major position in the
   permuted index space, for every rank and every axis order *)
(* END TO END: an accessor accepted by the validator, run with in-range indices on ANY buffer that holds
   the documented image of ANY value of its type at ANY offset, computes the address at which the
   documented image of the addressed element sits, and that lies inside the object.  (nav: the element
   a path denotes under the index arguments, reference steps going to the referent; targets_ok: the reference
   slots hold slot-relative offsets to where the referents' images sit -- trivially true without references; crun: C semantics of the emitted body and return
   expression; loads read the buffer relative to the object start.)  With C05's tie (the bytes of
   every object ARE the documented image) this is "C and Python address the same bytes". *)
Theorem C02_accessor_addresses_element : forall f v img m o ix lt lv ic',
  cfun_ok f = None -> (cf_action f = AGetp \/ ((cf_action f = AGet \/ cf_action f = ASet) /\ exists k, lt = TScalar k)) ->
  nav ix (cf_ty f) v (cf_path f) 0 lt lv ic' ->
  enc (cf_ty f) v = Some img -> sits img m o -> len img < 2^62 -> targets_ok (cf_ty f) v m o ->
  let addr := o + crun (ld m o) ix (cf_body f) (cf_final f) in
  exists e, enc lt lv = Some e /\ sits e m addr /\ (~ In PRef (cf_path f) -> o <= addr /\ addr + len e <= o + len img).
Proof. exact accessor_addresses_element. Qed.
Theorem C02_getter_reads_the_element : forall f v img m o ix k bs ic',
  cfun_ok f = None -> cf_action f = AGet ->
  nav ix (cf_ty f) v (cf_path f) 0 (TScalar k) (VNum bs) ic' ->
  enc (cf_ty f) v = Some img -> sits img m o -> len img < 2^62 -> targets_ok (cf_ty f) v m o ->
  let addr := o + crun (ld m o) ix (cf_body f) (cf_final f) in
  rd m addr (ssize k) = bs /\ (~ In PRef (cf_path f) -> o <= addr /\ addr + ssize k <= o + len img).
Proof. exact getter_reads_the_element. Qed.
(* lengths: an accepted *_len accessor returns the number of items of the addressed array *)
Theorem C02_len_accessor : forall f v img m o ix item shape order sh items ic',
  cfun_ok f = None -> cf_action f = ALen ->
  nav ix (cf_ty f) v (cf_path f) 0 (TArray item shape order) (VArr sh items) ic' ->
  enc (cf_ty f) v = Some img -> sits img m o -> len img < 2^62 -> targets_ok (cf_ty f) v m o ->
  crun (ld m o) ix (cf_body f) (cf_final f) = prod sh /\ prod sh = len items.
Proof. exact len_accessor_returns_item_count. Qed.
(* union references: member index and member address *)
Theorem C02_typeid_accessor : forall f v img m o ix ms lv ic',
  cfun_ok f = None -> cf_action f = ATypeid ->
  nav ix (cf_ty f) v (cf_path f) 0 (TUnion ms) lv ic' ->
  enc (cf_ty f) v = Some img -> sits img m o -> len img < 2^62 -> targets_ok (cf_ty f) v m o ->
  crun (ld m o) ix (cf_body f) (cf_final f) = match lv with VMember k _ => Z.of_nat k | _ => -1 end.
Proof. exact typeid_accessor_returns_member_index. Qed.
Theorem C02_member_accessor : forall f v img m o ix ms k w ic',
  cfun_ok f = None -> cf_action f = AMember ->
  nav ix (cf_ty f) v (cf_path f) 0 (TUnion ms) (VMember k w) ic' ->
  enc (cf_ty f) v = Some img -> sits img m o -> len img < 2^62 -> targets_ok (cf_ty f) v m o ->
  exists mt timg, nth_error ms k = Some mt /\ enc mt w = Some timg /\ sits timg m (o + crun (ld m o) ix (cf_body f) (cf_final f)).
Proof. exact member_accessor_addresses_member. Qed.
Theorem C02_strides : forall shape order isz idx,
  let n := length order in
  Permutation.Permutation order (seq 0 n) -> length shape = n -> length idx = n ->
  dot idx (get_strides shape order isz) = dot (gather 0 idx order) (c_strides (gather 0 shape order) isz).
Proof. exact strides_permute. Qed.

(* non-vacuity: the accessor the library emits for  S{k:Int64; a:String[:]} . a[i0]  after the fix,
   and the pre-fix text (offset= instead of offset+=), which the validator rejects *)
Definition ex_ty := TStruct [TScalar I64; TArray TString [None] [0%nat]].
Example C02_example_accepts :
  cfun_ok (mkCF ex_ty [PField 1%nat; PIndex] AGetp
     [CAddTo (EConst 16); CAddTo (ELoad (EAdd (EAdd EOff (EConst 16)) (EMul (EIdx 0) (EConst 8))))] EOff) = None.
Proof. vm_compute. reflexivity. Qed.
Example C02_example_rejects :
  cfun_ok (mkCF ex_ty [PField 1%nat; PIndex] AGetp
     [CAddTo (EConst 16); CSet (ELoad (EAdd (EAdd EOff (EConst 16)) (EMul (EIdx 0) (EConst 8))))] EOff) = Some 2%nat.
Proof. vm_compute. reflexivity. Qed.

Print Assumptions C02_normaliser_sound.
Print Assumptions C02_equivalence_sound.
Print Assumptions C02_symbolic_execution_sound.
Print Assumptions C02_validator_sound.
Print Assumptions C02_accessor_sound.
Print Assumptions C02_strides.
Print Assumptions C02_accessor_addresses_element.
Print Assumptions C02_getter_reads_the_element.
Print Assumptions C02_len_accessor.
Print Assumptions C02_typeid_accessor.
Print Assumptions C02_member_accessor.
