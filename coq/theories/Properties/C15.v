(* C15 — OpenCL and CUDA accessor source computes the same addresses as CPU. Statements only. *)
From Coq Require Import ZArith List Bool Lia.
Import ListNotations.
From XO Require Import Slots Strides BufOps Types Format CExpr CExprProofs CSpec CSpecProofs.
Open Scope Z_scope.

(* two specialisations of one accessor, translated separately from the text each target
   receives, that pass the certified comparison compute the same address / value for all indices
   and all memory contents *)
Theorem C15_specialisations_agree : forall p, cpair_ok p = None ->
  forall ld ix, crun ld ix (cp_body1 p) (cp_final1 p) = crun ld ix (cp_body2 p) (cp_final2 p).
Proof. exact cpair_ok_sound. Qed.
Theorem C15_equivalence_sound : forall ld ix a b, sym_equiv a b = true -> seval ld ix a = seval ld ix b.
Proof. exact sym_equiv_sound. Qed.
(* so whatever C02 establishes for the CPU text holds for every target *)
Theorem C15_transfers_C02 : forall f, cfun_ok f = None ->
  exists spec, spec_expr (cf_ty f) (cf_path f) (cf_action f) = Some spec /\
  forall ld ix, crun ld ix (cf_body f) (cf_final f) = seval ld ix spec.
Proof. exact cfun_ok_sound. Qed.

Print Assumptions C15_specialisations_agree.
Print Assumptions C15_equivalence_sound.
Print Assumptions C15_transfers_C02.
