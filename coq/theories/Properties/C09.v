(* C09 — Copy-construction yields an equal, storage-disjoint object. Statements only. *)
From Coq Require Import ZArith List Bool Lia.
Import ListNotations.
From XO Require Import Slots Strides BufOps Types Format Check LayoutProofs RoundTrip RefOps RefOpsProofs.
From XO Require CopyBytes.
Open Scope Z_scope.

(* the deep value of an object depends only on the objects it can reach *)
Theorem C09_deep_depends_on_reachable : forall fuel st st' t, agree_on fuel st st' t -> deep fuel st t = deep fuel st' t.
Proof. exact deep_agree. Qed.
(* so a later write to an object the copy cannot reach never shows through the copy (and vice versa) *)
Theorem C09_copy_independent : forall fuel st o p x st' t,
  write_at st o p x = Some st' -> agree_on fuel st st' t -> deep fuel st' t = deep fuel st t.
Proof. exact unreachable_write_invisible. Qed.
(* a write changes exactly one object of the store *)
Theorem C09_write_touches_one_object : forall st o p x st' k,
  write_at st o p x = Some st' -> k <> o -> nth_error st' k = nth_error st k.
Proof. exact write_other_object. Qed.
(* byte level: the copy has its own extent — writing one image leaves every byte outside it alone *)
Theorem C09_disjoint_storage : forall m off bs, in_range m off (Z.of_nat (length bs)) ->
  length (wr m off bs) = length m /\
  (forall i, 0 <= i -> (i < off \/ off + Z.of_nat (length bs) <= i) -> BufOpsProofs.byte (wr m off bs) i = BufOpsProofs.byte m i) /\
  (forall i, off <= i < off + Z.of_nat (length bs) -> BufOpsProofs.byte (wr m off bs) i = BufOpsProofs.byte bs (i - off)).
Proof. exact BufOpsProofs.write_frame. Qed.

(* BYTE LEVEL (reference-free types, every value): a copy is the same documented image in storage of its own.
   What it reads depends on the bytes of its own extent only: whatever happens outside (any writes to the
   original or to other objects, growth) it still reads the copied value *)
Theorem C09_copy_reads_its_own_bytes : forall t v img m m' coff, has_refs t = false ->
  enc t v = Some img -> len img < 2^62 -> sits img m coff ->
  len m <= len m' -> CopyBytes.agree_on m m' coff (len img) ->
  dec t m' coff = Some (v, len img).
Proof. exact CopyBytes.copy_reads_its_own_bytes. Qed.
(* original and copy at two disjoint places of one buffer: equal in value; a write anywhere inside the
   original leaves the copy reading the copied value, and vice versa *)
Theorem C09_copy_and_original_independent : forall t v img m off coff woff bs, has_refs t = false ->
  enc t v = Some img -> len img < 2^62 -> sits img m off -> sits img m coff ->
  (coff + len img <= off \/ off + len img <= coff) ->
  dec t m coff = dec t m off /\
  (off <= woff -> woff + len bs <= off + len img -> dec t (wr m woff bs) coff = Some (v, len img)) /\
  (coff <= woff -> woff + len bs <= coff + len img -> dec t (wr m woff bs) off = Some (v, len img)).
Proof. exact CopyBytes.copy_and_original_independent. Qed.
(* a copy in another buffer / context reads the value of the original *)
Theorem C09_copy_in_other_buffer_equal : forall t v img m off m2 coff, has_refs t = false ->
  enc t v = Some img -> len img < 2^62 -> sits img m off -> sits img m2 coff -> dec t m2 coff = dec t m off.
Proof. exact CopyBytes.copy_in_other_buffer_equal. Qed.
(* with references: equal as soon as the reference slots of each denote images of the same referents (the
   same objects when the buffer is shared -- the stored slot-relative offsets then differ -- duplicates otherwise) *)
Theorem C09_copy_with_references_equal : forall t v img m off m2 coff,
  enc t v = Some img -> len img < 2^62 ->
  sits img m off -> targets_ok t v m off -> sits img m2 coff -> targets_ok t v m2 coff ->
  dec t m2 coff = dec t m off /\ dec t m off = Some (v, len img).
Proof. exact CopyBytes.copy_with_references_equal. Qed.

Print Assumptions C09_deep_depends_on_reachable.
Print Assumptions C09_copy_independent.
Print Assumptions C09_write_touches_one_object.
Print Assumptions C09_disjoint_storage.
Print Assumptions C09_copy_reads_its_own_bytes.
Print Assumptions C09_copy_and_original_independent.
Print Assumptions C09_copy_in_other_buffer_equal.
Print Assumptions C09_copy_with_references_equal.
