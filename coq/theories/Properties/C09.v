(* C09 — Copy-construction yields an equal, storage-disjoint object. Statements only. *)
From Coq Require Import ZArith List Bool Lia.
Import ListNotations.
From XO Require Import Slots Strides BufOps Types Format Check LayoutProofs RefOps RefOpsProofs.
Open Scope Z_scope.

(* the deep value of an object depends only on the objects it can reach *)
Theorem C09_deep_depends_on_reachable : forall fuel st st' t, agree_on fuel st st' t -> deep fuel st t = deep fuel st' t.
Proof. exact deep_agree. Qed.
(* so a later write to an object the copy cannot reach never shows through the copy (and vice versa) *)
Theorem C09_copy_independent : forall fuel st o p x st' t,
  write_at st o p x = Some st' -> agree_on fuel st st' t -> deep fuel st' t = deep fuel st t.
Proof. exact unreachable_write_invisible. Qed.
(* a write changes exactly one object of the store *)
Theorem C09_write_touches_one_object : forall st o p x st' k,
  write_at st o p x = Some st' -> k <> o -> nth_error st' k = nth_error st k.
Proof. exact write_other_object. Qed.
(* byte level: the copy has its own extent — writing one image leaves every byte outside it alone *)
Theorem C09_disjoint_storage : forall m off bs, in_range m off (Z.of_nat (length bs)) ->
  length (wr m off bs) = length m /\
  (forall i, 0 <= i -> (i < off \/ off + Z.of_nat (length bs) <= i) -> BufOpsProofs.byte (wr m off bs) i = BufOpsProofs.byte m i) /\
  (forall i, off <= i < off + Z.of_nat (length bs) -> BufOpsProofs.byte (wr m off bs) i = BufOpsProofs.byte bs (i - off)).
Proof. exact BufOpsProofs.write_frame. Qed.

Print Assumptions C09_deep_depends_on_reachable.
Print Assumptions C09_copy_independent.
Print Assumptions C09_write_touches_one_object.
Print Assumptions C09_disjoint_storage.
