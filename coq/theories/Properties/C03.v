(* C03 — see DESIGN.md §7. Statements only. The layout properties C01/C03/C05/C06 share the
   documented-format model (Format.enc / Format.dec) and the certified judgement layout_ok. *)
From Coq Require Import ZArith List Bool Lia.
Import ListNotations.
From XO Require Import Slots Strides BufOps Types Format Check LayoutProofs RoundTrip Update UpdateSize UpdateFrame UpdateAt PartExtent.
From XO Require Import Update PartExtent PartExtentExact.
From XO Require Import AllocSpec BufOps Types Format.
From XO Require CopyBytes HeapCompose.
From XO Require CopyBytes DecLocal.
Open Scope Z_scope.

(* an image occupies exactly [off, off+len img): placing it changes no other byte *)
Theorem C03_write_frame : forall m off bs, in_range m off (Z.of_nat (length bs)) ->
  length (wr m off bs) = length m /\
  (forall i, 0 <= i -> (i < off \/ off + Z.of_nat (length bs) <= i) -> BufOpsProofs.byte (wr m off bs) i = BufOpsProofs.byte m i) /\
  (forall i, off <= i < off + Z.of_nat (length bs) -> BufOpsProofs.byte (wr m off bs) i = BufOpsProofs.byte bs (i - off)).
Proof. exact BufOpsProofs.write_frame. Qed.
(* sub-images are nested in their parent and consecutive parts are disjoint: an image that is a
   concatenation sits in memory iff each part sits at its own, consecutive, offset *)
Theorem C03_parts_nested_disjoint : forall a b m off, sits (a ++ b) m off <-> sits a m off /\ sits b m (off + len a).
Proof. exact sits_app. Qed.
(* the reported size is the extent: an accepted observation has size = length of the image *)
Theorem C03_size_is_extent : forall c, layout_ok c = None ->
  exists img, enc (lc_ty c) (lc_val c) = Some img /\ len img = lc_size c /\
    cells_match img (lc_bytes c) = true /\
    exists v, dec (lc_ty c) (lc_bytes c) 0 = Some (v, lc_size c) /\ val_eqb v (lc_val c) = true.
Proof. exact layout_ok_sound. Qed.
(* the size the decoder reports for the image of a value is the extent of that image, for every type and value *)
Theorem C03_reported_size_is_extent_general : forall t v img m off, has_refs t = false ->
  enc t v = Some img -> sits img m off -> len img < 2^62 -> exists v', dec t m off = Some (v', len img).
Proof. exact dec_enc_size. Qed.
Theorem C03_static_size : forall t v img s, enc t v = Some img -> csize t = Some s -> len img = s.
Proof. exact enc_static_size. Qed.
(* an assignment the model honours -- any type, any depth, any value that takes over the capacities
   fixed at creation -- leaves an object whose documented image has exactly the same length: the
   extent reserved at creation never changes, so a fitting assignment has nowhere to write but inside it *)
Theorem C03_assignment_keeps_extent : forall t v p x v' img,
  assign t v p x = Some v' -> enc t v = Some img -> exists img', enc t v' = Some img' /\ len img' = len img.
Proof. exact assign_keeps_extent. Qed.
(* byte level: the image after an honoured assignment is the image before with the sub-image of the
   assigned element (same length) replaced in place; header words, offset tables, sizes, padding and
   every other element are untouched -- every type, every depth, every axis order *)
Theorem C03_assignment_writes_inside_the_element : forall t v p x v' img,
  assign t v p x = Some v' -> enc t v = Some img ->
  exists st old x' a b img', vget v p = Some old /\ sub_ty t p = Some st /\ retag old x = Some x' /\
    enc st old = Some a /\ enc st x' = Some b /\ len a = len b /\ enc t v' = Some img' /\
    exists pre post, img = pre ++ a ++ post /\ img' = pre ++ b ++ post.
Proof. exact assign_frame. Qed.
(* NOTHING MOVES: after an honoured assignment EVERY part of the object (every path q: inside the assigned
   element, above it, or anywhere else) lies at the offset it had and its own image has the length it had --
   the extent a nested struct / array reports never changes; part_extent is meaningful: the part's image sits
   at that offset of the object's image, inside it *)
Theorem C03_assignment_moves_no_part : forall t v p x v' img, assign t v p x = Some v' -> enc t v = Some img ->
  forall q, part_extent t v' q = part_extent t v q.
Proof. exact assign_moves_no_part. Qed.
Theorem C03_part_extent_is_where_the_part_sits : forall t v q img o l m off, enc t v = Some img -> part_extent t v q = Some (o, l) -> sits img m off ->
  exists st w e, sub_ty t q = Some st /\ vget v q = Some w /\ enc st w = Some e /\ len e = l /\ sits e m (off + o) /\
    off <= off + o /\ off + o + l <= off + len img.
Proof. exact part_sits_in_buffer. Qed.
(* what is read through ANY handle or view of an object depends on the bytes of the object's own extent only:
   two buffers (or one buffer at two times) that agree on [off, off+size) give the same value -- whatever else
   was written, freed, re-used or appended elsewhere *)
Theorem C03_bytes_outside_the_extent_are_irrelevant : forall t v img m m' off, has_refs t = false ->
  enc t v = Some img -> len img < 2^62 -> sits img m off ->
  len m <= len m' -> CopyBytes.agree_on m m' off (len img) ->
  dec t m' off = Some (v, len img).
Proof. exact CopyBytes.copy_reads_its_own_bytes. Qed.
(* ANY ACCEPTED BYTES: whatever the strict decoder accepts as an object of a reference-free type (a fresh image,
   or the bytes left by any history of assignments, slack included), the value and the size it returns are a
   function of the bytes of [off, off+size) alone; the size is never negative and a statically sized type always
   reports its class size *)
Theorem C03_decoder_reads_own_extent_only : forall t m off v s m', has_refs t = false -> dec t m off = Some (v, s) ->
  len m <= len m' -> CopyBytes.agree_on m m' off s -> dec t m' off = Some (v, s).
Proof. exact DecLocal.dec_local. Qed.
Theorem C03_decoded_size : forall t m off v s, has_refs t = false -> dec t m off = Some (v, s) ->
  0 <= s /\ forall cs, csize t = Some cs -> s = cs.
Proof. exact DecLocal.dec_size. Qed.
(* ALLOCATOR AND LAYOUT COMPOSED: whatever the allocator does within its safety contract when a new object is
   constructed (hand out free or new bytes, after growing the buffer or not), every object lying inside a live
   region keeps decoding to the same value with the same size (any accepted bytes, reference-free types) *)
Theorem C03_construction_keeps_live_objects : forall s s' size al o m m1 bs t off v sz r,
  SInv s -> safe_step s (OAlloc size al) (RetOff o) s' ->
  len m = s_cap s -> len m1 = s_cap s' -> CopyBytes.agree_on m m1 0 (len m) ->
  len bs = size ->
  In r (s_live s) -> r_off r <= off -> off + sz <= r_off r + r_size r ->
  has_refs t = false -> dec t m off = Some (v, sz) ->
  dec t (wr m1 o bs) off = Some (v, sz).
Proof. exact HeapCompose.construction_keeps_live_objects. Qed.
(* EXACT COPIES (an object of the element's class and of exactly its size is copied as it is): every part that is not
   strictly inside the assigned element -- the element itself, everything above and beside it -- keeps its position
   and the length of its image; only the parts inside take the source's layout *)
Theorem C03_exact_copy_moves_only_what_is_inside : forall t v p x v' img, assign_exact t v p x = Some v' -> enc t v = Some img ->
  forall q, ~ (exists r, r <> [] /\ q = p ++ r) -> part_extent t v' q = part_extent t v q.
Proof. exact assign_exact_moves_only_inside. Qed.
Theorem C03_slot_rounding : forall n, n <= slot n < n + 8 /\ slot n mod 8 = 0.
Proof. exact slot_spec. Qed.
Print Assumptions C03_write_frame.
Print Assumptions C03_parts_nested_disjoint.
Print Assumptions C03_size_is_extent.
Print Assumptions C03_slot_rounding.
Print Assumptions C03_reported_size_is_extent_general.
Print Assumptions C03_static_size.
Print Assumptions C03_assignment_keeps_extent.
Print Assumptions C03_assignment_writes_inside_the_element.
Print Assumptions C03_assignment_moves_no_part.
Print Assumptions C03_part_extent_is_where_the_part_sits.
Print Assumptions C03_bytes_outside_the_extent_are_irrelevant.
Print Assumptions C03_decoder_reads_own_extent_only.
Print Assumptions C03_decoded_size.
Print Assumptions C03_construction_keeps_live_objects.
Print Assumptions C03_exact_copy_moves_only_what_is_inside.
