(* C03 — see DESIGN.md §7. Statements only. The layout properties C01/C03/C05/C06 share the
   documented-format model (Format.enc / Format.dec) and the certified judgement layout_ok. *)
From Coq Require Import ZArith List Bool Lia.
Import ListNotations.
From XO Require Import Slots Strides BufOps Types Format Check LayoutProofs RoundTrip Update UpdateSize UpdateFrame.
Open Scope Z_scope.

(* an image occupies exactly [off, off+len img): placing it changes no other byte *)
Theorem C03_write_frame : forall m off bs, in_range m off (Z.of_nat (length bs)) ->
  length (wr m off bs) = length m /\
  (forall i, 0 <= i -> (i < off \/ off + Z.of_nat (length bs) <= i) -> BufOpsProofs.byte (wr m off bs) i = BufOpsProofs.byte m i) /\
  (forall i, off <= i < off + Z.of_nat (length bs) -> BufOpsProofs.byte (wr m off bs) i = BufOpsProofs.byte bs (i - off)).
Proof. exact BufOpsProofs.write_frame. Qed.
(* sub-images are nested in their parent and consecutive parts are disjoint: an image that is a
   concatenation sits in memory iff each part sits at its own, consecutive, offset *)
Theorem C03_parts_nested_disjoint : forall a b m off, sits (a ++ b) m off <-> sits a m off /\ sits b m (off + len a).
Proof. exact sits_app. Qed.
(* the reported size is the extent: an accepted observation has size = length of the image *)
Theorem C03_size_is_extent : forall c, layout_ok c = None ->
  exists img, enc (lc_ty c) (lc_val c) = Some img /\ len img = lc_size c /\
    cells_match img (lc_bytes c) = true /\
    exists v, dec (lc_ty c) (lc_bytes c) 0 = Some (v, lc_size c) /\ val_eqb v (lc_val c) = true.
Proof. exact layout_ok_sound. Qed.
(* the size the decoder reports for the image of a value is the extent of that image, for every type and value *)
Theorem C03_reported_size_is_extent_general : forall t v img m off, has_refs t = false ->
  enc t v = Some img -> sits img m off -> len img < 2^62 -> exists v', dec t m off = Some (v', len img).
Proof. exact dec_enc_size. Qed.
Theorem C03_static_size : forall t v img s, enc t v = Some img -> csize t = Some s -> len img = s.
Proof. exact enc_static_size. Qed.
(* an assignment the model honours -- any type, any depth, any value that takes over the capacities
   fixed at creation -- leaves an object whose documented image has exactly the same length: the
   extent reserved at creation never changes, so a fitting assignment has nowhere to write but inside it *)
Theorem C03_assignment_keeps_extent : forall t v p x v' img,
  assign t v p x = Some v' -> enc t v = Some img -> exists img', enc t v' = Some img' /\ len img' = len img.
Proof. exact assign_keeps_extent. Qed.
(* byte level: the image after an honoured assignment is the image before with the sub-image of the
   assigned element (same length) replaced in place; header words, offset tables, sizes, padding and
   every other element are untouched -- every type, every depth, every axis order *)
Theorem C03_assignment_writes_inside_the_element : forall t v p x v' img,
  assign t v p x = Some v' -> enc t v = Some img ->
  exists st old x' a b img', vget v p = Some old /\ sub_ty t p = Some st /\ retag old x = Some x' /\
    enc st old = Some a /\ enc st x' = Some b /\ len a = len b /\ enc t v' = Some img' /\
    exists pre post, img = pre ++ a ++ post /\ img' = pre ++ b ++ post.
Proof. exact assign_frame. Qed.
Theorem C03_slot_rounding : forall n, n <= slot n < n + 8 /\ slot n mod 8 = 0.
Proof. exact slot_spec. Qed.
Print Assumptions C03_write_frame.
Print Assumptions C03_parts_nested_disjoint.
Print Assumptions C03_size_is_extent.
Print Assumptions C03_slot_rounding.
Print Assumptions C03_reported_size_is_extent_general.
Print Assumptions C03_static_size.
Print Assumptions C03_assignment_keeps_extent.
Print Assumptions C03_assignment_writes_inside_the_element.
