(* C12 — Allocator is first-fit, leak-free, coalescing, and free never fails.
   Only statements; every proof is `exact <lemma of AllocProofs>`. *)
From Coq Require Import ZArith List Bool Lia.
Import ListNotations.
From XO Require Import Slots Chunks ChunksProofs AllocSpec AllocProofs.
Open Scope Z_scope.

(* the invariant (canonical free list = maximal runs, bounds, disjointness,
   accounting |free| + sum(live) + lost = capacity) holds in every state of
   every history from a fresh buffer *)
Theorem C12_invariant_all_histories : forall cap tr s,
  0 <= cap -> ff_trace (init_state cap) tr s -> FInv s.
Proof. intros cap tr s Hc Ht. exact (ff_trace_FInv _ _ _ (init_FInv cap Hc) Ht). Qed.

(* a request is served from the lowest-addressed aligned position where [size]
   free (or newly added) bytes start; the buffer grows only when no free space
   can hold the request; capacity never shrinks *)
Theorem C12_first_fit : forall s size al off s',
  FInv s -> 0 < size -> ff_step s (OAlloc size al) (RetOff off) s' ->
  fitsAt (free_or_new s s') al size off /\
  (forall o', fitsAt (free_or_new s s') al size o' -> off <= o') /\
  (s_cap s < s_cap s' -> forall o', ~ fitsAt (freeB (s_free s)) al size o') /\
  s_cap s <= s_cap s'.
Proof. exact ff_lowest_fit. Qed.

(* free never fails and makes exactly the region's bytes reusable *)
Theorem C12_free_exact : forall s off size ob s',
  FInv s -> ff_step s (OFree off size) ob s' ->
  ob = RetUnit /\ s_cap s' = s_cap s /\
  forall x, freeB (s_free s') x <-> freeB (s_free s) x \/ off <= x < off + size.
Proof. exact ff_free_exact. Qed.
Theorem C12_no_step_errs : forall s o s', ~ ff_step s o RetErr s'.
Proof. exact ff_never_errs. Qed.
Theorem C12_free_always_enabled : forall s r, In r (s_live s) ->
  exists s', ff_step s (OFree (r_off r) (r_size r)) RetUnit s'.
Proof. exact ff_free_enabled. Qed.

(* neighbouring freed regions serve one larger request *)
Theorem C12_coalesce : forall s a b c s1 s2 off s3 ob1 ob2,
  FInv s -> a < b -> b < c ->
  ff_step s (OFree a (b - a)) ob1 s1 -> ff_step s1 (OFree b (c - b)) ob2 s2 ->
  ff_step s2 (OAlloc (c - a) 1) (RetOff off) s3 ->
  off <= a /\ s_cap s3 = s_cap s.
Proof. exact ff_coalesce. Qed.

(* a request always has a result *)
Theorem C12_alloc_always_enabled : forall s size al, FInv s -> 0 < size -> is_pow2 al ->
  exists off s', ff_step s (OAlloc size al) (RetOff off) s'.
Proof. exact ff_alloc_enabled. Qed.

(* accounting *)
Theorem C12_accounting : forall cap tr s,
  0 <= cap -> ff_trace (init_state cap) tr s ->
  total (s_free s) + live_total (s_live s) + s_lost s = s_cap s /\ 0 <= s_lost s.
Proof.
  intros cap tr s Hc Ht. pose proof (ff_trace_FInv _ _ _ (init_FInv cap Hc) Ht) as Hi.
  exact (conj (fi_account _ Hi) (fi_lost _ Hi)).
Qed.

(* the checker applied to observed implementation transitions is sound *)
Theorem C12_checker_sound : forall pre live o ob post lost,
  ff_stepb pre live o ob post = true ->
  ff_step (abs pre live lost) o ob (abs post (live_after live o ob) (lost_after pre lost o ob post)).
Proof. exact ff_stepb_sound. Qed.
Theorem C12_walk_sound : forall w, walk_ff w = None ->
  exists s', ff_trace (init_state (fst (w_init w))) (ops_of (w_steps w)) s' /\ FInv s'.
Proof. exact walk_ff_sound. Qed.

(* non-vacuity: a concrete 7-step history accepted by the checker *)
Example C12_walk_example :
  walk_ff (mkW (64, [(0,64)])
    [ mkO (OAlloc 10 8) (RetOff 0) (64, [(10,64)]) 54;
      mkO (OAlloc 10 8) (RetOff 16) (64, [(26,64)]) 38;
      mkO (OAlloc 38 1) (RetOff 26) (64, []) 0;
      mkO (OFree 0 10) RetUnit (64, [(0,10)]) 10;
      mkO (OFree 16 10) RetUnit (64, [(0,10);(16,26)]) 20;
      mkO (OAlloc 12 1) (RetOff 64) (128, [(0,10);(16,26);(76,128)]) 72;
      mkO (OGrow 8) RetUnit (136, [(0,10);(16,26);(76,136)]) 80 ]) = None.
Proof. vm_compute. reflexivity. Qed.

(* ... and complete: every transition first fit allows is accepted by the judgement (no alarm on a
   conforming allocator, whatever its internal representation of the free list) *)
Theorem C12_checker_complete : forall pre live lost o ob post live' lost',
  ff_step (abs pre live lost) o ob (abs post live' lost') -> ff_stepb pre live o ob post = true.
Proof. exact ff_stepb_complete. Qed.
Print Assumptions C12_invariant_all_histories.
Print Assumptions C12_first_fit.
Print Assumptions C12_free_exact.
Print Assumptions C12_no_step_errs.
Print Assumptions C12_free_always_enabled.
Print Assumptions C12_coalesce.
Print Assumptions C12_alloc_always_enabled.
Print Assumptions C12_accounting.
Print Assumptions C12_checker_sound.
Print Assumptions C12_walk_sound.
Print Assumptions C12_checker_complete.
