(* C10 — Assigning one element changes that element and nothing else. Statements only. *)
From Coq Require Import ZArith List Bool Lia.
Import ListNotations.
From XO Require Import Slots Strides BufOps Types Format Check LayoutProofs Update UpdateProofs UpdateSize UpdateFrame UpdateAt PartExtent.
From XO Require Import Update PartExtent PartExtentExact.
From XO Require ObjectsIndependent.
Open Scope Z_scope.

(* on the value tree: the assigned element becomes the (capacity-preserving) new value, every
   element on a diverging path keeps its value; holds for paths of any depth *)
Theorem C10_assigned_element : forall p v x v', vset v p x = Some v' -> vget v' p = Some x.
Proof. exact vget_vset_same. Qed.
Theorem C10_other_elements : forall p v x v' q, vset v p x = Some v' -> diverge p q -> vget v' q = vget v q.
Proof. exact vget_vset_other. Qed.
Theorem C10_assign_local : forall t v p x v', assign t v p x = Some v' ->
  exists old x', vget v p = Some old /\ retag old x = Some x' /\ vget v' p = Some x' /\
    forall q, diverge p q -> vget v' q = vget v q.
Proof. exact assign_local. Qed.
Theorem C10_string_keeps_size : forall bs sz bs' sz' x, retag (VStr bs sz) (VStr bs' sz') = Some x -> x = VStr bs' sz.
Proof. exact retag_string_keeps_size. Qed.
(* every accepted history: after each step the object's bytes are the documented image of the
   model's updated value, with the size fixed at creation *)
(* an assignment the model honours -- any type, any depth, any value that takes over the capacities
   fixed at creation -- leaves an object whose documented image has exactly the same length: the
   extent reserved at creation never changes, so a fitting assignment has nowhere to write but inside it *)
Theorem C10_extent_kept : forall t v p x v' img,
  assign t v p x = Some v' -> enc t v = Some img -> exists img', enc t v' = Some img' /\ len img' = len img.
Proof. exact assign_keeps_extent. Qed.
(* byte level: the image after an honoured assignment is the image before with the sub-image of the
   assigned element (same length) replaced in place; header words, offset tables, sizes, padding and
   every other element are untouched -- every type, every depth, every axis order *)
Theorem C10_frame_of_assignment : forall t v p x v' img,
  assign t v p x = Some v' -> enc t v = Some img ->
  exists st old x' a b img', vget v p = Some old /\ sub_ty t p = Some st /\ retag old x = Some x' /\
    enc st old = Some a /\ enc st x' = Some b /\ len a = len b /\ enc t v' = Some img' /\
    exists pre post, img = pre ++ a ++ post /\ img' = pre ++ b ++ post.
Proof. exact assign_frame. Qed.
(* ... and WHERE: the replaced sub-image lies at the offset obtained by summing, along the path, the
   offsets of the fields / items inside their parents (pure arithmetic on image lengths) *)
Theorem C10_frame_of_assignment_positioned : forall t v p x v' img,
  assign t v p x = Some v' -> enc t v = Some img ->
  exists st old x' a b img' d, vget v p = Some old /\ sub_ty t p = Some st /\ retag old x = Some x' /\
    enc st old = Some a /\ enc st x' = Some b /\ len a = len b /\ enc t v' = Some img' /\ path_off t v p = Some d /\
    exists pre post, img = pre ++ a ++ post /\ img' = pre ++ b ++ post /\ len pre = d.
Proof. exact assign_frame_at. Qed.
(* NOTHING MOVES: after an honoured assignment EVERY part of the object (every path q: inside the assigned
   element, above it, or anywhere else) lies at the offset it had and its own image has the length it had --
   the extent a nested struct / array reports never changes; part_extent is meaningful: the part's image sits
   at that offset of the object's image, inside it *)
Theorem C10_assignment_moves_no_part : forall t v p x v' img, assign t v p x = Some v' -> enc t v = Some img ->
  forall q, part_extent t v' q = part_extent t v q.
Proof. exact assign_moves_no_part. Qed.
(* OTHER OBJECTS: a store anywhere inside one object's extent leaves every object whose extent is disjoint from the
   stored range reading exactly what it read before (any accepted bytes, reference-free types) *)
Theorem C10_store_into_one_object_leaves_the_others : forall m (objs : list (ObjectsIndependent.obj * val * Z)) woff bs,
  BufOps.in_range m woff (Z.of_nat (length bs)) ->
  Forall (fun x => let '(o, v, s) := x in ObjectsIndependent.reads m o v s /\ (snd o + s <= woff \/ woff + len bs <= snd o)) objs ->
  Forall (fun x => let '(o, v, s) := x in ObjectsIndependent.reads (wr m woff bs) o v s) objs.
Proof. exact ObjectsIndependent.store_into_one_object_leaves_the_others. Qed.
(* EXACT COPIES (an object of the element's class and of exactly its size is copied as it is): every part that is not
   strictly inside the assigned element -- the element itself, everything above and beside it -- keeps its position
   and the length of its image; only the parts inside take the source's layout *)
Theorem C10_exact_copy_moves_only_what_is_inside : forall t v p x v' img, assign_exact t v p x = Some v' -> enc t v = Some img ->
  forall q, ~ (exists r, r <> [] /\ q = p ++ r) -> part_extent t v' q = part_extent t v q.
Proof. exact assign_exact_moves_only_inside. Qed.
Theorem C10_history_sound : forall steps t v size n, check_updates t v size n steps = None -> conforms t v size steps.
Proof. exact check_updates_sound. Qed.

Example C10_example :
  let t := TStruct [TScalar I16; TString; TArray (TScalar I8) [Some 2; Some 2] [1%nat; 0%nat]] in
  let v := VStruct [VNum [1;0]; VStr [97;98] 24; VArr [2;2] [VNum [1]; VNum [2]; VNum [3]; VNum [4]]] in
  (assign t v [PF 1%nat] (VStr [120;121;122] 16), assign t v [PF 2%nat; PI 3%nat] (VNum [9]),
   assign t v [PF 1%nat] (VStr (repeat 65 16) 24)) =
  (Some (VStruct [VNum [1;0]; VStr [120;121;122] 24; VArr [2;2] [VNum [1]; VNum [2]; VNum [3]; VNum [4]]]),
   Some (VStruct [VNum [1;0]; VStr [97;98] 24; VArr [2;2] [VNum [1]; VNum [2]; VNum [3]; VNum [9]]]),
   None).
Proof. vm_compute. reflexivity. Qed.

Print Assumptions C10_assigned_element.
Print Assumptions C10_other_elements.
Print Assumptions C10_assign_local.
Print Assumptions C10_string_keeps_size.
Print Assumptions C10_history_sound.
Print Assumptions C10_extent_kept.
Print Assumptions C10_frame_of_assignment.
Print Assumptions C10_frame_of_assignment_positioned.
Print Assumptions C10_assignment_moves_no_part.
Print Assumptions C10_store_into_one_object_leaves_the_others.
Print Assumptions C10_exact_copy_moves_only_what_is_inside.
