(* C16 — Vectorised kernel blocks run once per index on every target. Statements only. *)
From Coq Require Import ZArith List Bool Lia.
Import ListNotations.
From XO Require Import SpecSem SpecProofs.
Open Scope Z_scope.

(* for every n >= 0 and every CUDA block size B > 0: the body of a vectorised block is executed at
   exactly the indices 0,1,..,n-1, once each (in this order; nothing for n = 0):
   - cpu: the C loop `for (int v=0; v<n; v++)`
   - opencl: global size (n,), v = get_global_id(0)
   - cuda: ceil(n/B) blocks of B threads, v = blockDim.x*blockIdx.x+threadIdx.x, guarded by v<n *)
Theorem C16_once_per_index : forall t n B, 0 <= n -> 0 < B -> block_runs t n B = zseq n.
Proof. exact block_runs_once_per_index. Qed.
Theorem C16_zseq_is_each_index_once : forall n, 0 <= n -> NoDup (zseq n) /\ forall i, In i (zseq n) <-> 0 <= i < n.
Proof. exact zseq_is_each_index_once. Qed.
(* hence all targets execute the same multiset of (block, index) pairs *)
Theorem C16_targets_agree : forall t1 t2 n B1 B2, 0 <= n -> 0 < B1 -> 0 < B2 -> block_runs t1 n B1 = block_runs t2 n B2.
Proof. intros. rewrite !block_runs_once_per_index by assumption. reflexivity. Qed.

Theorem C16_plain_text_unchanged : forall t files src, all_plain src = true ->
  specialize t files src = Some (map (fun it => match it with Plain l => XLine l | _ => XLine 0%nat end) src).
Proof. exact plain_text_unchanged. Qed.
Theorem C16_only_for_context : forall t inside l ctxs tl r, pass2 t inside tl = Some r ->
  pass2 t inside (OnlyFor l ctxs :: tl) = Some ((if memt t ctxs then XLine l else XCommented l) :: r).
Proof. exact only_for_context_spec. Qed.
Theorem C16_include : forall t files f ctxs tl r, splice t files tl = Some r ->
  splice t files (Include f ctxs :: tl) =
  if memt t ctxs then match files f with Some body => Some (body ++ r) | None => None end else Some r.
Proof. exact include_spec. Qed.

Example C16_example :
  specialize Cuda (fun f => if Nat.eqb f 7 then Some [Plain 70%nat; Plain 71%nat] else None)
    [Plain 1%nat; Include 7%nat [Cuda; Opencl]; VecOpen 2%nat 3%nat; OnlyFor 4%nat [CpuSerial]; Plain 5%nat; VecClose; Plain 6%nat]
  = Some [XLine 1%nat; XLine 70%nat; XLine 71%nat; XCudaGuard 2%nat 3%nat; XCommented 4%nat; XLine 5%nat; XEndCuda; XLine 6%nat].
Proof. vm_compute. reflexivity. Qed.
Example C16_example_runs : (block_runs Cuda 10 4, block_runs Opencl 0 4, block_runs CpuSerial 3 1) = ([0;1;2;3;4;5;6;7;8;9], [], [0;1;2]).
Proof. vm_compute. reflexivity. Qed.

Print Assumptions C16_once_per_index.
Print Assumptions C16_zseq_is_each_index_once.
Print Assumptions C16_targets_agree.
Print Assumptions C16_plain_text_unchanged.
Print Assumptions C16_only_for_context.
Print Assumptions C16_include.
