(* C11 — Operations that cannot be honoured fail without side effects. Statements only. *)
From Coq Require Import ZArith List Bool Lia.
Import ListNotations.
From XO Require Import Slots Strides BufOps Types Format Check LayoutProofs Update UpdateProofs UpdateSize.
From XO Require Import Rollback.
Open Scope Z_scope.

(* the model decides which assignments can be honoured: the element must exist, the new value
   must have the shape of the old one, and every string must fit the size fixed at creation *)
Theorem C11_too_large_string_refused : forall sz (bs' : list Z), sz < 8 + len bs' + 1 ->
  enc TString (VStr bs' sz) = None.
Proof.
  intros sz bs' H. cbn [enc]. replace (8 + len bs' + 1 <=? sz) with false by lia. reflexivity.
Qed.
Theorem C11_missing_element_refused : forall t v p x, vget v p = None -> assign t v p x = None.
Proof. intros t v p x H. unfold assign. rewrite H. reflexivity. Qed.
Theorem C11_other_shape_refused : forall sh items sh' items', list_eqbZ sh sh' = false ->
  retag (VArr sh items) (VArr sh' items') = None.
Proof. intros sh items sh' items' H. cbn [retag]. rewrite H. reflexivity. Qed.
(* in an accepted history every refused operation left the object's bytes the image of the
   unchanged value, and no operation ever changed the size *)
(* an assignment the model honours -- any type, any depth, any value that takes over the capacities
   fixed at creation -- leaves an object whose documented image has exactly the same length: the
   extent reserved at creation never changes, so a fitting assignment has nowhere to write but inside it *)
Theorem C11_extent_never_changes : forall t v p x v' img,
  assign t v p x = Some v' -> enc t v = Some img -> exists img', enc t v' = Some img' /\ len img' = len img.
Proof. exact assign_keeps_extent. Qed.
Theorem C11_history_sound : forall steps t v size n, check_updates t v size n steps = None -> conforms t v size steps.
Proof. exact check_updates_sound. Qed.
Theorem C11_size_never_changes : forall bs sz bs' sz' x, retag (VStr bs sz) (VStr bs' sz') = Some x -> x = VStr bs' sz.
Proof. exact retag_string_keeps_size. Qed.

(* THE UNDO LOGIC of Struct._update / Array._update (backup; parts one by one; on any exception put the backup
   back and re-raise), modelled with a refusal possible at EVERY position of the part list: a refused update
   leaves the whole buffer exactly as it was, an honoured one is the result of all part writes, bytes outside
   the object are untouched either way *)
Theorem C11_rollback_all_or_nothing : forall m off size ws, in_range m off size -> Forall (inside off size) ws ->
  let r := update_with_rollback m off size ws in
  same_outside m (fst r) off size /\
  (snd r = false -> fst r = m) /\
  (snd r = true -> fst r = fst (run_parts m ws) /\ ~ In PRefuse ws).
Proof. exact rollback_all_or_nothing. Qed.
Theorem C11_refusal_at_any_position : forall m off size pre post, Forall (fun w => w <> PRefuse) pre ->
  snd (update_with_rollback m off size (pre ++ PRefuse :: post)) = false.
Proof. exact refusal_at_any_position. Qed.
Print Assumptions C11_too_large_string_refused.
Print Assumptions C11_missing_element_refused.
Print Assumptions C11_other_shape_refused.
Print Assumptions C11_history_sound.
Print Assumptions C11_size_never_changes.
Print Assumptions C11_extent_never_changes.
Print Assumptions C11_rollback_all_or_nothing.
Print Assumptions C11_refusal_at_any_position.
