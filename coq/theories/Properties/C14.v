(* C14 — Every class API is emitted once, after all of its dependencies.
   Only statements; proofs are `exact <lemma of TopoProofs>`. *)
From Coq Require Import ZArith List Bool Lia.
Import ListNotations.
From XO Require Import Topo TopoProofs TopoComplete TopoTotal.
Open Scope Z_scope.

(* the closure computed by the checker is exactly the set of classes reachable from the
   roots through fields, items, reference targets, union members and declared dependencies *)
Theorem C14_closure_correct : forall g roots Cl, closure g roots = Some Cl -> forall x, In x Cl <-> reach g roots x.
Proof. exact closure_correct. Qed.

(* an accepted order is duplicate-free, consists of exactly the reachable classes that have an
   API, and lists every class after every API it uses *)
Theorem C14_checker_sound : forall g roots out, valid_emissionb g roots out = true -> valid_emission g roots out.
Proof. exact valid_emissionb_sound. Qed.

(* a valid order exists only for acyclic dependencies; an accepted cycle error comes with a real cycle *)
Theorem C14_valid_emission_acyclic : forall g roots out, valid_emission g roots out ->
  (forall c, deps g c <> [] -> api g c = true) -> ~ has_cycle g roots.
Proof. exact valid_emission_acyclic. Qed.
Theorem C14_cycle_certificate : forall g roots Cl cyc, closure g roots = Some Cl -> cycleb g Cl cyc = true -> has_cycle g roots.
Proof. exact cycleb_sound. Qed.
Theorem C14_rank_certificate : forall g roots Cl ranks, closure g roots = Some Cl -> rankb g Cl ranks = true -> ~ has_cycle g roots.
Proof. exact rankb_sound. Qed.

(* the judgement applied to each observed (graph, roots, outcome) *)
Theorem C14_case_sound : forall t, topo_okb t = true ->
  match t_obs t with
  | TOrder out => valid_emission (t_g t) (t_roots t) out /\ ~ has_cycle (t_g t) (t_roots t)
  | TCycleError => has_cycle (t_g t) (t_roots t)
  | TOtherError => False
  end.
Proof. exact topo_okb_sound. Qed.

(* non-vacuity: a 5-class DAG (3 uses 1 and 2, 4 uses 3 and a scalar 0, 5 declared dependency on 1) *)
Example C14_example_order :
  topo_okb (mkT [mkN 0 [] false; mkN 1 [0] true; mkN 2 [] true; mkN 3 [1;2] true; mkN 4 [3;0] true; mkN 5 [1] true]
                [4;5] (TOrder [2;1;3;5;4]) [] [(0,0);(1,1);(2,1);(3,2);(4,3);(5,2)]) = true.
Proof. vm_compute. reflexivity. Qed.
Example C14_example_dup_rejected :
  topo_okb (mkT [mkN 1 [] true; mkN 2 [1] true] [2] (TOrder [1;1;2]) [] [(1,0);(2,1)]) = false.
Proof. vm_compute. reflexivity. Qed.
Example C14_example_cycle :
  topo_okb (mkT [mkN 1 [2] true; mkN 2 [3] true; mkN 3 [1] true] [1] TCycleError [2;3;1] []) = true.
Proof. vm_compute. reflexivity. Qed.

Print Assumptions C14_closure_correct.
Print Assumptions C14_checker_sound.
Print Assumptions C14_valid_emission_acyclic.
Print Assumptions C14_cycle_certificate.
Print Assumptions C14_rank_certificate.
Print Assumptions C14_case_sound.

(* the judgement is total and exact: the set of needed classes is computed for EVERY graph and list of roots
   (length g + 1 rounds suffice: classes outside the graph, duplicate nodes and cycles included), and an
   order is accepted if and only if it is a valid emission -- so the judgement itself can neither miss an
   invalid order nor raise an alarm on a valid one *)
Theorem C14_closure_total : forall g roots, exists Cl, closure g roots = Some Cl.
Proof. exact closure_total. Qed.
Theorem C14_checker_exact : forall g roots out, valid_emissionb g roots out = true <-> valid_emission g roots out.
Proof. exact valid_emissionb_iff. Qed.
(* two valid emissions for the same classes may differ in order only: the same classes, as many *)
Theorem C14_valid_emissions_same_classes : forall g roots o1 o2,
  valid_emission g roots o1 -> valid_emission g roots o2 -> forall c, In c o1 <-> In c o2.
Proof. exact valid_emissions_same_classes. Qed.
Theorem C14_valid_emissions_same_length : forall g roots o1 o2,
  valid_emission g roots o1 -> valid_emission g roots o2 -> length o1 = length o2.
Proof. exact valid_emissions_same_length. Qed.
Print Assumptions C14_closure_total.
Print Assumptions C14_checker_exact.
Print Assumptions C14_valid_emissions_same_classes.
Print Assumptions C14_valid_emissions_same_length.
