(* C06 — see DESIGN.md §7. Statements only. The layout properties C01/C03/C05/C06 share the
   documented-format model (Format.enc / Format.dec) and the certified judgement layout_ok. *)
From Coq Require Import ZArith List Bool Lia.
Import ListNotations.
From XO Require Import Slots Strides BufOps Types Format Check LayoutProofs RoundTrip.
From XO Require CopyBytes DecLocal.
Open Scope Z_scope.

(* a view is rebuilt from (buffer, offset) only: the decoder is a function of the bytes, so any
   two handles on the same bytes agree; and it does not depend on where the object lies *)
Theorem C06_view_from_bytes_scalar : forall k bs img m off m' off',
  enc (TScalar k) (VNum bs) = Some img -> sits img m off -> sits img m' off' ->
  dec (TScalar k) m off = dec (TScalar k) m' off'.
Proof. intros. rewrite (dec_enc_scalar k bs img m off), (dec_enc_scalar k bs img m' off'); auto. Qed.
Theorem C06_view_from_bytes_string : forall bs size img m off m' off', size < 2^63 ->
  enc TString (VStr bs size) = Some img -> sits img m off -> sits img m' off' ->
  dec TString m off = dec TString m' off'.
Proof. intros. rewrite (dec_enc_string bs size img m off), (dec_enc_string bs size img m' off'); auto. Qed.
(* the general statement, every type and value: two handles on bytes carrying the same image --
   the same buffer and offset, or a copy placed anywhere else -- decode to the same (value, size) *)
Theorem C06_view_from_bytes : forall t v img m off m' off', has_refs t = false ->
  enc t v = Some img -> len img < 2^62 -> sits img m off -> sits img m' off' -> dec t m off = dec t m' off'.
Proof. exact placement_independent. Qed.
(* strides of a view (read from the header or recomputed) are those of the constructor *)
Theorem C06_strides_address : forall shape order isz idx,
  let n := length order in
  Permutation.Permutation order (seq 0 n) -> length shape = n -> length idx = n ->
  dot idx (get_strides shape order isz) = dot (gather 0 idx order) (c_strides (gather 0 shape order) isz).
Proof. exact strides_permute. Qed.
Theorem C06_checker_sound : forall c, layout_ok c = None ->
  exists img, enc (lc_ty c) (lc_val c) = Some img /\ len img = lc_size c /\
    cells_match img (lc_bytes c) = true /\
    exists v, dec (lc_ty c) (lc_bytes c) 0 = Some (v, lc_size c) /\ val_eqb v (lc_val c) = true.
Proof. exact layout_ok_sound. Qed.
(* what is read through ANY handle or view of an object depends on the bytes of the object's own extent only:
   two buffers (or one buffer at two times) that agree on [off, off+size) give the same value -- whatever else
   was written, freed, re-used or appended elsewhere *)
Theorem C06_value_depends_on_own_extent_only : forall t v img m m' off, has_refs t = false ->
  enc t v = Some img -> len img < 2^62 -> sits img m off ->
  len m <= len m' -> CopyBytes.agree_on m m' off (len img) ->
  dec t m' off = Some (v, len img).
Proof. exact CopyBytes.copy_reads_its_own_bytes. Qed.
(* ANY ACCEPTED BYTES: whatever the strict decoder accepts as an object of a reference-free type (a fresh image,
   or the bytes left by any history of assignments, slack included), the value and the size it returns are a
   function of the bytes of [off, off+size) alone; the size is never negative and a statically sized type always
   reports its class size *)
Theorem C06_decoder_reads_own_extent_only : forall t m off v s m', has_refs t = false -> dec t m off = Some (v, s) ->
  len m <= len m' -> CopyBytes.agree_on m m' off s -> dec t m' off = Some (v, s).
Proof. exact DecLocal.dec_local. Qed.
Theorem C06_decoded_size : forall t m off v s, has_refs t = false -> dec t m off = Some (v, s) ->
  0 <= s /\ forall cs, csize t = Some cs -> s = cs.
Proof. exact DecLocal.dec_size. Qed.
Print Assumptions C06_view_from_bytes_scalar.
Print Assumptions C06_view_from_bytes_string.
Print Assumptions C06_strides_address.
Print Assumptions C06_checker_sound.
Print Assumptions C06_view_from_bytes.
Print Assumptions C06_value_depends_on_own_extent_only.
Print Assumptions C06_decoder_reads_own_extent_only.
Print Assumptions C06_decoded_size.
