(* C04 — Live allocations never overlap, stay in bounds, stay aligned.
   Only statements; proofs are `exact <lemma of AllocProofs>`.
   (the "keep their data" clause is C04_data_* in BufOps, see C04b below) *)
From Coq Require Import ZArith List Bool Lia.
Import ListNotations.
From XO Require Import Slots Chunks ChunksProofs AllocSpec AllocProofs BufOps BufOpsProofs.
From XO Require Import AllocSpec BufOps Types Format.
From XO Require CopyBytes HeapCompose.
Open Scope Z_scope.

(* SInv s: live regions pairwise disjoint, inside [0,cap), each start a multiple
   of its requested alignment, free bytes and live bytes disjoint.
   It is preserved by every step the safety relation allows, hence holds after
   every finite history. *)
Theorem C04_step : forall s o ob s', SInv s -> safe_step s o ob s' -> SInv s'.
Proof. exact safe_step_SInv. Qed.
Theorem C04_all_histories : forall s tr s', SInv s -> safe_trace s tr s' -> SInv s'.
Proof. exact safe_trace_SInv. Qed.
Theorem C04_fresh_buffer : forall cap, 0 <= cap -> SInv (init_state cap).
Proof. intros cap H. exact (FInv_SInv _ (init_FInv cap H)). Qed.

(* the first-fit policy of C12 is one instance of the safety relation *)
Theorem C04_first_fit_is_safe : forall s o ob s', FInv s -> ff_step s o ob s' -> safe_step s o ob s'.
Proof. exact ff_step_safe. Qed.

(* the checker applied to observed implementation transitions is sound *)
Theorem C04_checker_sound : forall pre live o ob post lost lost',
  safe_stepb pre live o ob post = true ->
  safe_step (abs pre live lost) o ob (abs post (live_after live o ob) lost').
Proof. exact safe_stepb_sound. Qed.
Theorem C04_walk_sound : forall w, walk_safe w = None ->
  exists s', safe_trace (init_state (fst (w_init w))) (ops_of (w_steps w)) s' /\ SInv s'.
Proof. exact walk_safe_sound. Qed.

(* "keep their data": allocate and free do not touch buffer memory at all (they only
   edit the free list); grow moves the bytes to new storage at the same offsets *)
Theorem C04_data_preserved_by_grow : forall m n, 0 <= n ->
  let m' := b_mem (fst (exec (mkB m []) (BGrow n))) in
  Z.of_nat (length m') = Z.of_nat (length m) + n /\ rd m' 0 (Z.of_nat (length m)) = m /\
  forall i, Z.of_nat (length m) <= i -> byte m' i = 0.
Proof. exact grow_preserves. Qed.

Example C04_walk_example :
  walk_safe (mkW (64, [(0,64)])
    [ mkO (OAlloc 10 8) (RetOff 0) (64, [(10,64)]) 54;
      mkO (OAlloc 10 8) (RetOff 16) (64, [(26,64)]) 38;
      mkO (OFree 0 10) RetUnit (64, [(0,10);(26,64)]) 48;
      mkO (OAlloc 70 1) (RetOff 26) (128, [(0,10);(96,128)]) 42;
      mkO (OAlloc 5 4) RetErr (128, [(0,10);(96,128)]) 42 ]) = None.
Proof. vm_compute. reflexivity. Qed.

(* ... and complete: every transition the safety relation allows is accepted by the judgement *)
Theorem C04_checker_complete : forall pre live lost o ob post live' lost',
  safe_step (abs pre live lost) o ob (abs post live' lost') -> safe_stepb pre live o ob post = true.
Proof. exact safe_stepb_complete. Qed.
(* ALLOCATOR AND LAYOUT COMPOSED: whatever the allocator does within its safety contract when a new object is
   constructed (hand out free or new bytes, after growing the buffer or not), every object lying inside a live
   region keeps decoding to the same value with the same size (any accepted bytes, reference-free types) *)
Theorem C04_construction_keeps_live_objects : forall s s' size al o m m1 bs t off v sz r,
  SInv s -> safe_step s (OAlloc size al) (RetOff o) s' ->
  len m = s_cap s -> len m1 = s_cap s' -> CopyBytes.agree_on m m1 0 (len m) ->
  len bs = size ->
  In r (s_live s) -> r_off r <= off -> off + sz <= r_off r + r_size r ->
  has_refs t = false -> dec t m off = Some (v, sz) ->
  dec t (wr m1 o bs) off = Some (v, sz).
Proof. exact HeapCompose.construction_keeps_live_objects. Qed.
Print Assumptions C04_step.
Print Assumptions C04_all_histories.
Print Assumptions C04_fresh_buffer.
Print Assumptions C04_first_fit_is_safe.
Print Assumptions C04_checker_sound.
Print Assumptions C04_walk_sound.
Print Assumptions C04_data_preserved_by_grow.
Print Assumptions C04_checker_complete.
Print Assumptions C04_construction_keeps_live_objects.
