(* C17 — Kernel calls deliver every argument and the return value faithfully. Statements only.
   PARTIAL: the theorems are about the decision table; the FFI conversion is cffi's and numpy's and is
   exercised by echo kernels (K-KARG), not proved. *)
From Coq Require Import ZArith List Bool Lia.
Import ListNotations.
From XO Require Import Types KArg KArgProofs.
From XO Require Import PtrArith.
Open Scope Z_scope.

Theorem C17_obj_at_current_location : forall cs cls buf off c,
  convert cs (Obj cls) (PXoObj cls buf off) = Some c -> c = CPtr (cs buf) off.
Proof. exact obj_delivered_at_current_location. Qed.
Theorem C17_obj_of_other_class_refused : forall cs cls cls' buf off, cls <> cls' -> convert cs (Obj cls) (PXoObj cls' buf off) = None.
Proof. exact obj_of_other_class_refused. Qed.
Theorem C17_ndarray_first_element : forall cs k st first c, convert cs (PtrScalar k) (PNdarray k st first) = Some c -> c = CPtr st first.
Proof. exact ndarray_first_element. Qed.
Theorem C17_xoarray_first_element : forall cs k buf off doff c, convert cs (PtrScalar k) (PXoArray k buf off doff) = Some c -> c = CPtr (cs buf) (off + doff).
Proof. exact xoarray_first_element. Qed.
Theorem C17_array_of_other_element_type_refused : forall cs k k' st first, k <> k' -> convert cs (PtrScalar k) (PNdarray k' st first) = None.
Proof. exact array_of_other_element_type_refused. Qed.
Theorem C17_scalar_bits_unchanged : forall cs k bits c, convert cs (ByValue k) (PNum bits) = Some c -> c = CNum bits /\ Z.of_nat (length bits) = ssize k.
Proof. exact scalar_bits_unchanged. Qed.
Theorem C17_positional_refused : forall cs spec p ps kw, call cs spec (p :: ps) kw = None.
Proof. exact positional_refused. Qed.
Theorem C17_wrong_number_refused : forall cs spec kw, length kw <> length spec -> call cs spec [] kw = None.
Proof. exact wrong_number_refused. Qed.
Theorem C17_missing_argument_refused : forall cs n a tl kw, lookup_arg n kw = None -> convert_all cs ((n, a) :: tl) kw = None.
Proof. exact missing_argument_refused. Qed.

(* the delivered pointer is a BYTE address: typed pointer arithmetic with a floor division reaches the element only
   at offsets that are multiples of the item size, and CPU buffers pack objects at any offset *)
Theorem C17_typed_pointer_exact_iff : forall base isz off, 0 < isz ->
  (typed_ptr_add base isz (off / isz) = base + off <-> off mod isz = 0).
Proof. exact typed_pointer_exact_iff. Qed.
Theorem C17_byte_pointer_exact : forall base off, typed_ptr_add base 1 off = base + off.
Proof. exact byte_pointer_exact. Qed.
Print Assumptions C17_obj_at_current_location.
Print Assumptions C17_obj_of_other_class_refused.
Print Assumptions C17_ndarray_first_element.
Print Assumptions C17_xoarray_first_element.
Print Assumptions C17_array_of_other_element_type_refused.
Print Assumptions C17_scalar_bits_unchanged.
Print Assumptions C17_positional_refused.
Print Assumptions C17_wrong_number_refused.
Print Assumptions C17_missing_argument_refused.
Print Assumptions C17_typed_pointer_exact_iff.
Print Assumptions C17_byte_pointer_exact.
