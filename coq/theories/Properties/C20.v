(* C20 — Pickled objects come back usable, equal, and sharing what they shared. Statements only.
   Partial: that pickle copies each reachable buffer once per identity is Python's behaviour (assumed);
   the model is the sharing-preserving copy Hybrid.unpickle. *)
From Coq Require Import ZArith List Bool Lia.
Import ListNotations.
From XO Require Import Slots Chunks ChunksProofs AllocSpec AllocProofs Types RefOps Hybrid HybridProofs.
Open Scope Z_scope.

Theorem C20_unpickle_shares : forall objs next memo r m i j oi oj ni nj,
  unpickle next memo objs = (r, m) ->
  nth_error objs i = Some oi -> nth_error objs j = Some oj -> nth_error r i = Some ni -> nth_error r j = Some nj ->
  fst oi = fst oj -> fst ni = fst nj.
Proof. exact unpickle_shares. Qed.
Theorem C20_unpickle_keeps_offsets : forall objs next memo r m, unpickle next memo objs = (r, m) -> map snd r = map snd objs.
Proof. exact unpickle_keeps_offsets. Qed.
(* the copied buffer carries the same allocator state: every invariant and policy theorem of C04 / C12
   applies to it unchanged (it is the same abstract state) *)
Theorem C20_allocator_still_valid : forall s o ob s', FInv s -> ff_step s o ob s' -> FInv s'.
Proof. exact ff_step_FInv. Qed.

Print Assumptions C20_unpickle_shares.
Print Assumptions C20_unpickle_keeps_offsets.
Print Assumptions C20_allocator_still_valid.
