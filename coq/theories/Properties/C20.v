(* C20 — Pickled objects come back usable, equal, and sharing what they shared. Statements only.
   Partial: that pickle copies each reachable buffer once per identity is Python's behaviour (assumed);
   the model is the sharing-preserving copy Hybrid.unpickle. *)
From Coq Require Import ZArith List Bool Lia.
Import ListNotations.
From XO Require Import Slots Chunks ChunksProofs AllocSpec AllocProofs Types RefOps Hybrid HybridProofs PickleProofs.
Open Scope Z_scope.

Theorem C20_unpickle_shares : forall objs next memo r m i j oi oj ni nj,
  unpickle next memo objs = (r, m) ->
  nth_error objs i = Some oi -> nth_error objs j = Some oj -> nth_error r i = Some ni -> nth_error r j = Some nj ->
  fst oi = fst oj -> fst ni = fst nj.
Proof. exact unpickle_shares. Qed.
Theorem C20_unpickle_keeps_offsets : forall objs next memo r m, unpickle next memo objs = (r, m) -> map snd r = map snd objs.
Proof. exact unpickle_keeps_offsets. Qed.
(* the copied buffer carries the same allocator state: every invariant and policy theorem of C04 / C12
   applies to it unchanged (it is the same abstract state) *)
Theorem C20_allocator_still_valid : forall s o ob s', FInv s -> ff_step s o ob s' -> FInv s'.
Proof. exact ff_step_FInv. Qed.

(* a part pickled in the same call as its container comes back inside it, at the same place *)
Theorem C20_part_stays_in_its_container : forall objs next memo r m i j oi oj ni nj d,
  unpickle next memo objs = (r, m) ->
  nth_error objs i = Some oi -> nth_error objs j = Some oj -> nth_error r i = Some ni -> nth_error r j = Some nj ->
  fst oi = fst oj -> snd oj = snd oi + d ->
  fst ni = fst nj /\ snd nj = snd ni + d.
Proof. exact unpickle_part_stays_in_container. Qed.
(* independence: every restored object lives in a buffer identity that did not exist before *)
Theorem C20_restored_buffers_are_new : forall objs next r m, unpickle next [] objs = (r, m) -> forall x, In x r -> (next <= fst x)%nat.
Proof. exact unpickle_fresh_buffers. Qed.
Print Assumptions C20_unpickle_shares.
Print Assumptions C20_unpickle_keeps_offsets.
Print Assumptions C20_allocator_still_valid.
Print Assumptions C20_part_stays_in_its_container.
Print Assumptions C20_restored_buffers_are_new.
