(* C19 — Dictionary and JSON forms rebuild an equal object. Statements only. *)
From Coq Require Import ZArith List Bool Lia.
Import ListNotations.
From XO Require Import Slots Strides BufOps Types Format Check LayoutProofs RefOps Hybrid HybridProofs.
From XO Require DictForm.
Open Scope Z_scope.

Theorem C19_from_dict_to_dict : forall fs, NoDup (map f_name fs) ->
  from_dict (schema_of fs) (to_dict fs) = map (fun f => Some (f_value f)) fs.
Proof. exact from_dict_to_dict. Qed.
Theorem C19_defaults_elided : forall f fs d, In f fs -> f_default f = Some d -> f_value f = d -> NoDup (map f_name fs) ->
  lookup (f_name f) (to_dict fs) = None.
Proof. exact defaults_elided. Qed.
(* JSON form of reference-free structs / 1-D arrays: constructing from it is constructing from plain
   data, and what is constructed reads back (C01): leaves *)
Theorem C19_json_leaf_roundtrip : forall k bs img m off,
  enc (TScalar k) (VNum bs) = Some img -> sits img m off -> dec (TScalar k) m off = Some (VNum bs, len img).
Proof. exact dec_enc_scalar. Qed.

(* NESTED dictionary form (Hybrid/DictForm.v): numbers and fixed-size arrays equal to their default are left out,
   dynamic arrays and nested dressed objects always stored, at every depth; the constructor gives what is missing
   its default.  from_dict (to_dict x) = x for every class description with distinct python names per level *)
Theorem C19_nested_from_dict_to_dict : forall fs vs r, NoDup (map fst fs) -> DictForm.all_names_ok fs ->
  DictForm.to_fields fs vs = Some r -> DictForm.of_fields r fs = Some vs.
Proof. exact DictForm.from_dict_to_dict_nested. Qed.
(* the judgement evaluated on every dictionary the real to_dict produces (entries in any order): a dictionary it
   accepts rebuilds the object, and it accepts what the model's to_dict produces *)
Theorem C19_accepted_dictionary_rebuilds_the_object : forall c, DictForm.dict_ok c = None ->
  DictForm.of_fields (DictForm.dd c) (DictForm.dk c) = Some (DictForm.dvs c).
Proof. exact DictForm.dict_ok_sound. Qed.
Theorem C19_judgement_accepts_the_models_dictionary : forall k, DictForm.names_ok k -> forall v x,
  DictForm.to_dv k v = Some x -> DictForm.confb k v x = true.
Proof. exact DictForm.to_dict_conforms. Qed.
Print Assumptions C19_from_dict_to_dict.
Print Assumptions C19_defaults_elided.
Print Assumptions C19_json_leaf_roundtrip.
Print Assumptions C19_nested_from_dict_to_dict.
Print Assumptions C19_accepted_dictionary_rebuilds_the_object.
Print Assumptions C19_judgement_accepts_the_models_dictionary.
