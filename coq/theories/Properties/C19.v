(* C19 — Dictionary and JSON forms rebuild an equal object. Statements only. *)
From Coq Require Import ZArith List Bool Lia.
Import ListNotations.
From XO Require Import Slots Strides BufOps Types Format Check LayoutProofs RefOps Hybrid HybridProofs.
Open Scope Z_scope.

Theorem C19_from_dict_to_dict : forall fs, NoDup (map f_name fs) ->
  from_dict (schema_of fs) (to_dict fs) = map (fun f => Some (f_value f)) fs.
Proof. exact from_dict_to_dict. Qed.
Theorem C19_defaults_elided : forall f fs d, In f fs -> f_default f = Some d -> f_value f = d -> NoDup (map f_name fs) ->
  lookup (f_name f) (to_dict fs) = None.
Proof. exact defaults_elided. Qed.
(* JSON form of reference-free structs / 1-D arrays: constructing from it is constructing from plain
   data, and what is constructed reads back (C01): leaves *)
Theorem C19_json_leaf_roundtrip : forall k bs img m off,
  enc (TScalar k) (VNum bs) = Some img -> sits img m off -> dec (TScalar k) m off = Some (VNum bs, len img).
Proof. exact dec_enc_scalar. Qed.

Print Assumptions C19_from_dict_to_dict.
Print Assumptions C19_defaults_elided.
Print Assumptions C19_json_leaf_roundtrip.
