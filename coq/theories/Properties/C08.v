(* C08 — References alias, null and survive buffer growth. Statements only.
   Identity semantics on the abstract store (RefOps); the byte-level reading of references is the
   strict decoder Format.dec (offset relative to the slot, reserved null, member index). *)
From Coq Require Import ZArith List Bool Lia.
Import ListNotations.
From XO Require Import Slots Strides BufOps Types Format Check LayoutProofs RoundTrip RefOps RefOpsProofs RefDecode.
Open Scope Z_scope.

Theorem C08_bind_existing_aliases : forall st o p target m st1,
  bind_existing st o p target m = Some st1 -> deref st1 o p = Some target.
Proof. exact bind_existing_aliases. Qed.
Theorem C08_alias_sees_writes : forall st o p target m st1 q x st2,
  bind_existing st o p target m = Some st1 -> target <> o ->
  write_at st1 target q x = Some st2 ->
  deref st2 o p = Some target /\ read_at st2 target q = Some x.
Proof. exact alias_sees_writes. Qed.
Theorem C08_bind_value_fresh : forall st o p v m st2 id,
  bind_value st o p v m = Some (st2, id) ->
  id = length st /\ deref st2 o p = Some id /\
  (forall k, (k < length st)%nat -> k <> o -> nth_error st2 k = nth_error st k) /\
  (o <> id -> nth_error st2 id = Some v).
Proof. exact bind_value_fresh. Qed.
Theorem C08_null_reads_none : forall st o p st1, bind_null st o p = Some st1 ->
  deref st1 o p = None /\ read_at st1 o p = Some (HSlot None 0).
Proof. exact bind_null_reads_none. Qed.

(* byte level: a null reference slot decodes to nothing; a union slot needs index -1 with it *)
Theorem C08_null_slot_decodes : forall target m off, in_rangeb m off 8 = true -> rd64 m off = NULLVALUE ->
  dec (TRef target) m off = Some (VNull, 8).
Proof. intros target m off H1 H2. cbn [dec]. rewrite H1. cbn [guard]. rewrite H2, Z.eqb_refl. reflexivity. Qed.
Theorem C08_union_null_needs_minus_one : forall members m off, in_rangeb m off 16 = true -> rd64 m off = NULLVALUE ->
  dec (TUnion members) m off = if rd64 m (off + 8) =? -1 then Some (VNull, 16) else None.
Proof. intros members m off H1 H2. cbn [dec]. rewrite H1. cbn [guard]. rewrite H2, Z.eqb_refl. reflexivity. Qed.
(* references are relative to their own slot: moving the whole buffer content to new storage
   (growth copies all bytes to the same offsets) cannot change what they denote: the decoder is a
   function of the bytes *)
Theorem C08_growth_preserves_bytes : forall m n, 0 <= n ->
  let m' := b_mem (fst (exec (mkB m []) (BGrow n))) in
  Z.of_nat (length m') = Z.of_nat (length m) + n /\ rd m' 0 (Z.of_nat (length m)) = m /\
  forall i, Z.of_nat (length m) <= i -> BufOpsProofs.byte m' i = 0.
Proof. exact BufOpsProofs.grow_preserves. Qed.

(* BYTE LEVEL, GENERAL.  [targets_ok t v m off]: every reference slot of the object (type t, value v, lying
   at off in m) holds the null word (VNull; and member index -1 for a union reference) or an offset rel,
   relative to the slot itself, such that the referent's documented image sits at slot+rel and the
   referent's own slots are [targets_ok] again -- through structs, arrays, unions, to any depth.  Then the
   decoder written from the documentation, following every reference, returns exactly the value: *)
Theorem C08_heap_decodes : forall t v img m off,
  enc t v = Some img -> sits img m off -> len img < 2^62 -> targets_ok t v m off -> dec t m off = Some (v, len img).
Proof. exact RT_all. Qed.
(* one slot *)
Theorem C08_reference_resolves : forall t v img rel m off,
  - 2^63 < rel < 2^63 -> sits (bytes (enc64 rel)) m off ->
  enc t v = Some img -> sits img m (off + rel) -> len img < 2^62 -> targets_ok t v m (off + rel) ->
  dec (TRef t) m off = Some (VRef v, 8).
Proof. exact dec_ref_resolves. Qed.
(* growth: the new storage holds the old bytes at the same offsets, followed by more bytes.  What the
   reference slots must hold stays true (offsets are slot-relative), so every object of the buffer --
   holding references to any depth -- decodes exactly as before, however often the buffer grows *)
Theorem C08_targets_survive_growth : forall t v m off extra, targets_ok t v m off -> targets_ok t v (m ++ extra) off.
Proof. exact targets_ok_grow. Qed.
Theorem C08_heap_survives_growth : forall t v img m off extra,
  enc t v = Some img -> sits img m off -> len img < 2^62 -> targets_ok t v m off ->
  dec t (m ++ extra) off = Some (v, len img) /\ dec t m off = Some (v, len img).
Proof. exact dec_survives_growth. Qed.

Print Assumptions C08_bind_existing_aliases.
Print Assumptions C08_alias_sees_writes.
Print Assumptions C08_bind_value_fresh.
Print Assumptions C08_null_reads_none.
Print Assumptions C08_null_slot_decodes.
Print Assumptions C08_union_null_needs_minus_one.
Print Assumptions C08_growth_preserves_bytes.
Print Assumptions C08_reference_resolves.
Print Assumptions C08_heap_decodes.
Print Assumptions C08_targets_survive_growth.
Print Assumptions C08_heap_survives_growth.
