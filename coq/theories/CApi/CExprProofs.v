From Coq Require Import ZArith List Bool Lia Ring.
Import ListNotations.
From XO Require Import CExpr.
Open Scope Z_scope.

Section Sem.
Variable ld : Z -> Z.
Variable ix : nat -> Z.

Definition aeval (l : list sym) : Z := fold_right (fun a acc => seval ld ix a * acc) 1 l.
Definition meval (ms : list mono) : Z := fold_right (fun m acc => fst m * aeval (snd m) + acc) 0 ms.

Lemma sym_cmp_eq : forall a b, sym_cmp a b = Eq -> a = b.
Proof.
  induction a as [x|x|x IH|x1 IH1 x2 IH2|x1 IH1 x2 IH2]; intros [y|y|y|y1 y2|y1 y2] H; cbn in H; try discriminate.
  - apply Z.compare_eq in H. congruence.
  - apply Nat.compare_eq in H. congruence.
  - f_equal. apply IH; exact H.
  - destruct (sym_cmp x1 y1) eqn:E; try discriminate. rewrite (IH1 _ E), (IH2 _ H). reflexivity.
  - destruct (sym_cmp x1 y1) eqn:E; try discriminate. rewrite (IH1 _ E), (IH2 _ H). reflexivity.
Qed.
Lemma sym_eqb_eq a b : sym_eqb a b = true -> a = b.
Proof. unfold sym_eqb. destruct (sym_cmp a b) eqn:E; try discriminate. intros _. apply sym_cmp_eq; exact E. Qed.
Lemma atoms_cmp_eq : forall a b, atoms_cmp a b = Eq -> a = b.
Proof.
  induction a as [|x a IH]; intros [|y b] H; cbn in H; try discriminate; [reflexivity|].
  destruct (sym_cmp x y) eqn:E; try discriminate. rewrite (sym_cmp_eq _ _ E), (IH _ H). reflexivity.
Qed.

Lemma aeval_cons x l : aeval (x :: l) = seval ld ix x * aeval l.
Proof. reflexivity. Qed.
Lemma aeval_ins x l : aeval (ins_atom x l) = seval ld ix x * aeval l.
Proof.
  induction l as [|y tl IH]; cbn [ins_atom]; [reflexivity|].
  destruct (sym_cmp x y); rewrite ?aeval_cons; try reflexivity. rewrite IH. ring.
Qed.
Lemma aeval_sort l : aeval (sort_atoms l) = aeval l.
Proof.
  induction l as [|x tl IH]; [reflexivity|]. change (sort_atoms (x :: tl)) with (ins_atom x (sort_atoms tl)).
  rewrite aeval_ins, IH, aeval_cons. reflexivity.
Qed.
Lemma aeval_app a b : aeval (a ++ b) = aeval a * aeval b.
Proof. induction a as [|x a IH]; [change (aeval b = 1 * aeval b); lia|]. change ((x :: a) ++ b) with (x :: (a ++ b)). rewrite !aeval_cons, IH. ring. Qed.

Lemma meval_cons m l : meval (m :: l) = fst m * aeval (snd m) + meval l.
Proof. reflexivity. Qed.
Lemma meval_app a b : meval (a ++ b) = meval a + meval b.
Proof. induction a as [|m a IH]; [change (meval b = 0 + meval b); lia|]. cbn [app]. rewrite !meval_cons, IH. lia. Qed.
Lemma meval_ins m l : meval (ins_mono m l) = fst m * aeval (snd m) + meval l.
Proof.
  induction l as [|n tl IH]; cbn [ins_mono]; [reflexivity|].
  destruct (atoms_cmp (snd m) (snd n)) eqn:E.
  - apply atoms_cmp_eq in E. rewrite !meval_cons. cbn [fst snd]. rewrite E. lia.
  - rewrite !meval_cons. lia.
  - rewrite !meval_cons, IH. lia.
Qed.
Lemma meval_filter l : meval (filter (fun m => negb (fst m =? 0)) l) = meval l.
Proof.
  induction l as [|m tl IH]; [reflexivity|]. cbn [filter]. destruct (fst m =? 0) eqn:E; cbn [negb].
  - apply Z.eqb_eq in E. rewrite meval_cons, IH, E. lia.
  - rewrite !meval_cons, IH. reflexivity.
Qed.
Lemma meval_canon ms : meval (canon ms) = meval ms.
Proof.
  unfold canon. rewrite meval_filter. induction ms as [|m tl IH]; [reflexivity|].
  cbn [fold_right]. rewrite meval_ins. cbn [fst snd]. rewrite aeval_sort, IH, meval_cons. reflexivity.
Qed.
Lemma meval_map_scale c at1 b : meval (map (fun n => (c * fst n, at1 ++ snd n)) b) = c * aeval at1 * meval b.
Proof.
  induction b as [|n b IH]; [cbn; lia|]. cbn [map]. rewrite !meval_cons, IH. cbn [fst snd]. rewrite aeval_app. lia.
Qed.
Lemma meval_mprod a b : meval (mprod a b) = meval a * meval b.
Proof.
  unfold mprod. induction a as [|m a IH]; [cbn; lia|]. cbn [flat_map]. rewrite meval_app, IH, meval_map_scale, meval_cons. lia.
Qed.

Lemma seval_rebuild_atoms l : seval ld ix (rebuild_atoms l) = aeval l.
Proof.
  induction l as [|a l IH]; [reflexivity|]. change (rebuild_atoms (a :: l)) with (SMul a (rebuild_atoms l)).
  cbn [seval]. rewrite IH, aeval_cons. reflexivity.
Qed.
Lemma seval_rebuild ms : seval ld ix (rebuild ms) = meval ms.
Proof.
  induction ms as [|m tl IH]; [reflexivity|].
  change (rebuild (m :: tl)) with (SAdd (SMul (SConst (fst m)) (rebuild_atoms (snd m))) (rebuild tl)).
  cbn [seval]. rewrite IH, seval_rebuild_atoms, meval_cons. reflexivity.
Qed.

Lemma meval_monos e : meval (monos e) = seval ld ix e.
Proof.
  induction e as [z|k|a IH|a IHa b IHb|a IHa b IHb]; cbn [monos seval].
  - rewrite meval_cons. cbn [fst snd]. change (aeval []) with 1. change (meval []) with 0. ring.
  - rewrite meval_cons. cbn [fst snd]. rewrite aeval_cons. change (aeval []) with 1. change (meval []) with 0. cbn [seval]. ring.
  - rewrite meval_cons. cbn [fst snd]. rewrite aeval_cons. cbn [seval]. rewrite seval_rebuild, meval_canon, IH. change (aeval []) with 1. change (meval []) with 0. ring.
  - rewrite meval_app, IHa, IHb. reflexivity.
  - rewrite meval_mprod, IHa, IHb. reflexivity.
Qed.

Theorem norm_sound e : seval ld ix (norm e) = seval ld ix e.
Proof. unfold norm. rewrite seval_rebuild, meval_canon, meval_monos. reflexivity. Qed.

Theorem sym_equiv_sound a b : sym_equiv a b = true -> seval ld ix a = seval ld ix b.
Proof. unfold sym_equiv. intros H. apply sym_eqb_eq in H. rewrite <- (norm_sound a), <- (norm_sound b), H. reflexivity. Qed.

(* symbolic execution agrees with concrete execution *)
Definition env_rel (senv : list (nat * sym)) (env : list (nat * Z)) : Prop :=
  env = map (fun p => (fst p, seval ld ix (snd p))) senv.
Lemma find_env senv x :
  match find (fun p => Nat.eqb (fst p) x) (map (fun p => (fst p, seval ld ix (snd p))) senv) with Some p => snd p | None => 0 end =
  seval ld ix (match find (fun p : nat * sym => Nat.eqb (fst p) x) senv with Some p => snd p | None => SConst 0 end).
Proof.
  induction senv as [|[y s] tl IH]; [reflexivity|]. cbn [map find fst snd]. destruct (Nat.eqb y x); [reflexivity|exact IH].
Qed.
Lemma subst_sound e soff senv : cev ld ix (seval ld ix soff) (map (fun p => (fst p, seval ld ix (snd p))) senv) e = seval ld ix (subst soff senv e).
Proof.
  induction e as [z|k| |x|a IH|a IHa b IHb|a IHa b IHb]; cbn [cev subst seval]; try reflexivity.
  - apply find_env.
  - rewrite IH. reflexivity.
  - rewrite IHa, IHb. reflexivity.
  - rewrite IHa, IHb. reflexivity.
Qed.
Theorem symexec_sound : forall p soff senv,
  cexec ld ix (seval ld ix soff) (map (fun p => (fst p, seval ld ix (snd p))) senv) p = seval ld ix (symexec soff senv p).
Proof.
  induction p as [|s tl IH]; intros soff senv; [reflexivity|]. destruct s as [x e|e|e]; cbn [cexec symexec].
  - rewrite subst_sound. apply (IH soff ((x, subst soff senv e) :: senv)).
  - rewrite subst_sound. apply IH.
  - rewrite subst_sound. apply (IH (SAdd soff (subst soff senv e)) senv).
Qed.
End Sem.

(* the certified validator: a validated program computes the specified address for ALL index
   values and ALL contents of the object's memory *)
Theorem validate_sound prog spec : validate prog spec = true ->
  forall ld ix, cexec ld ix 0 [] prog = seval ld ix spec.
Proof.
  intros H ld ix. unfold validate in H. rewrite <- (sym_equiv_sound ld ix _ _ H).
  exact (symexec_sound ld ix prog (SConst 0) []).
Qed.
