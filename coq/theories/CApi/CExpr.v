(* The address arithmetic of generated C accessors (xobjects/capi.py) as symbolic expressions
   over the indices i0,i1,.. and the int64 words of the object (C: the int64_t at char-offset e of obj),
   with a normaliser used to decide equality for ALL indices and ALL memory contents.
   Definitions only; soundness in CExprProofs.v. *)
From Coq Require Import ZArith List Bool Lia.
Import ListNotations.
Open Scope Z_scope.

Inductive sym :=
| SConst (z : Z)
| SIdx (k : nat)            (* index argument i_k *)
| SLoad (a : sym)           (* the int64 stored at obj + a *)
| SAdd (a b : sym)
| SMul (a b : sym).

Fixpoint seval (ld : Z -> Z) (ix : nat -> Z) (e : sym) : Z :=
  match e with
  | SConst z => z
  | SIdx k => ix k
  | SLoad a => ld (seval ld ix a)
  | SAdd a b => seval ld ix a + seval ld ix b
  | SMul a b => seval ld ix a * seval ld ix b
  end.

(* structural comparison (any function would do for sorting; equality must be sound) *)
Fixpoint sym_cmp (a b : sym) : comparison :=
  match a, b with
  | SConst x, SConst y => Z.compare x y
  | SConst _, _ => Lt | _, SConst _ => Gt
  | SIdx x, SIdx y => Nat.compare x y
  | SIdx _, _ => Lt | _, SIdx _ => Gt
  | SLoad x, SLoad y => sym_cmp x y
  | SLoad _, _ => Lt | _, SLoad _ => Gt
  | SAdd x1 x2, SAdd y1 y2 => match sym_cmp x1 y1 with Eq => sym_cmp x2 y2 | c => c end
  | SAdd _ _, _ => Lt | _, SAdd _ _ => Gt
  | SMul x1 x2, SMul y1 y2 => match sym_cmp x1 y1 with Eq => sym_cmp x2 y2 | c => c end
  end.
Definition sym_eqb (a b : sym) : bool := match sym_cmp a b with Eq => true | _ => false end.

(* monomials: coefficient and a list of atoms (SIdx / SLoad of a normalised expression) *)
Definition mono := (Z * list sym)%type.

Fixpoint atoms_cmp (a b : list sym) : comparison :=
  match a, b with
  | [], [] => Eq | [], _ => Lt | _, [] => Gt
  | x :: a', y :: b' => match sym_cmp x y with Eq => atoms_cmp a' b' | c => c end
  end.
Definition atoms_eqb (a b : list sym) : bool := match atoms_cmp a b with Eq => true | _ => false end.

Fixpoint ins_atom (x : sym) (l : list sym) : list sym :=
  match l with
  | [] => [x]
  | y :: tl => match sym_cmp x y with Gt => y :: ins_atom x tl | _ => x :: y :: tl end
  end.
Definition sort_atoms (l : list sym) : list sym := fold_right ins_atom [] l.

(* insert a monomial, adding coefficients of equal atom lists *)
Fixpoint ins_mono (m : mono) (l : list mono) : list mono :=
  match l with
  | [] => [m]
  | n :: tl => match atoms_cmp (snd m) (snd n) with
               | Eq => (fst m + fst n, snd n) :: tl
               | Lt => m :: n :: tl
               | Gt => n :: ins_mono m tl
               end
  end.
Definition canon (ms : list mono) : list mono :=
  filter (fun m => negb (fst m =? 0)) (fold_right (fun m acc => ins_mono (fst m, sort_atoms (snd m)) acc) [] ms).

Definition mprod (a b : list mono) : list mono :=
  flat_map (fun m => map (fun n => (fst m * fst n, snd m ++ snd n)) b) a.

Definition rebuild_atoms (l : list sym) : sym := fold_right (fun a acc => SMul a acc) (SConst 1) l.
Definition rebuild (ms : list mono) : sym :=
  fold_right (fun m acc => SAdd (SMul (SConst (fst m)) (rebuild_atoms (snd m))) acc) (SConst 0) ms.

Fixpoint monos (e : sym) : list mono :=
  match e with
  | SConst z => [(z, [])]
  | SIdx k => [(1, [SIdx k])]
  | SLoad a => [(1, [SLoad (rebuild (canon (monos a)))])]
  | SAdd a b => monos a ++ monos b
  | SMul a b => mprod (monos a) (monos b)
  end.
Definition norm (e : sym) : sym := rebuild (canon (monos e)).
Definition sym_equiv (a b : sym) : bool := sym_eqb (norm a) (norm b).

(* ---- the statement language of the emitted accessors ---- *)
(* int64_t x = e;   offset = e;   offset += e;   (expressions may mention offset and earlier x) *)
Inductive cexp :=
| EConst (z : Z) | EIdx (k : nat) | EOff | EVar (x : nat) | ELoad (a : cexp) | EAdd (a b : cexp) | EMul (a b : cexp).
Inductive cstmt := CDecl (x : nat) (e : cexp) | CSet (e : cexp) | CAddTo (e : cexp).

(* symbolic execution: the value of offset (and of the declared variables) as sym *)
Fixpoint subst (off : sym) (env : list (nat * sym)) (e : cexp) : sym :=
  match e with
  | EConst z => SConst z
  | EIdx k => SIdx k
  | EOff => off
  | EVar x => match find (fun p => Nat.eqb (fst p) x) env with Some p => snd p | None => SConst 0 end
  | ELoad a => SLoad (subst off env a)
  | EAdd a b => SAdd (subst off env a) (subst off env b)
  | EMul a b => SMul (subst off env a) (subst off env b)
  end.
Fixpoint symexec (off : sym) (env : list (nat * sym)) (p : list cstmt) : sym :=
  match p with
  | [] => off
  | CDecl x e :: tl => symexec off ((x, subst off env e) :: env) tl
  | CSet e :: tl => symexec (subst off env e) env tl
  | CAddTo e :: tl => symexec (SAdd off (subst off env e)) env tl
  end.

(* concrete execution of the same statements *)
Fixpoint cev (ld : Z -> Z) (ix : nat -> Z) (off : Z) (env : list (nat * Z)) (e : cexp) : Z :=
  match e with
  | EConst z => z
  | EIdx k => ix k
  | EOff => off
  | EVar x => match find (fun p => Nat.eqb (fst p) x) env with Some p => snd p | None => 0 end
  | ELoad a => ld (cev ld ix off env a)
  | EAdd a b => cev ld ix off env a + cev ld ix off env b
  | EMul a b => cev ld ix off env a * cev ld ix off env b
  end.
Fixpoint cexec (ld : Z -> Z) (ix : nat -> Z) (off : Z) (env : list (nat * Z)) (p : list cstmt) : Z :=
  match p with
  | [] => off
  | CDecl x e :: tl => cexec ld ix off ((x, cev ld ix off env e) :: env) tl
  | CSet e :: tl => cexec ld ix (cev ld ix off env e) env tl
  | CAddTo e :: tl => cexec ld ix (off + cev ld ix off env e) env tl
  end.

(* the validator: the emitted program computes the specified address expression *)
Definition validate (prog : list cstmt) (spec : sym) : bool := sym_equiv (symexec (SConst 0) [] prog) spec.
