(* The address expression of the layout (CSpec.spec_addr), evaluated on a buffer that holds the documented
   image of a value, is the place where the image of the addressed element sits. *)
From Coq Require Import ZArith List Bool Lia Permutation.
Import ListNotations.
From XO Require Import ListAux Slots Strides Perm BufOps BufOpsProofs Types Format Check LayoutProofs RoundTrip Update UpdateProofs UpdateSize CExpr CSpec.
From XO Require Import UpdateFrame UpdateAt.
Open Scope Z_scope.

(* ---------- anatomy of a struct image ---------- *)
Lemma enc_list_firstn : forall fs vs es i, enc_list fs vs = Some es -> enc_list (firstn i fs) (firstn i vs) = Some (firstn i es).
Proof.
  induction fs as [|f fs IH]; intros vs es i He.
  - destruct vs; cbn in He; [|discriminate]. inversion He; subst. destruct i; reflexivity.
  - destruct vs as [|v vs]; cbn in He; [discriminate|].
    destruct (enc f v) as [e|] eqn:Ee; [|discriminate]. destruct (enc_list fs vs) as [r|] eqn:Er; [|discriminate]. inversion He; subst es.
    destruct i as [|i]; [reflexivity|]. cbn [firstn]. cbn. rewrite Ee, (IH vs r i Er). reflexivity.
Qed.

(* where the image of field i lies inside the static / dynamic part *)
Lemma pimg_pos : forall fs es i f e, nth_error fs i = Some f -> nth_error es i = Some e ->
  if is_static f
  then exists post, pimg (spairs fs es) = pimg (spairs (firstn i fs) (firstn i es)) ++ padslot e ++ post
  else exists post, pimg (dpairs fs es) = pimg (dpairs (firstn i fs) (firstn i es)) ++ padslot e ++ post.
Proof.
  induction fs as [|f0 fs IH]; intros es i f e Hf He; [destruct i; discriminate|].
  destruct es as [|e0 es]; [destruct i; discriminate|]. destruct i as [|i]; cbn in Hf, He.
  - inversion Hf; inversion He; subst. cbn [firstn]. destruct (is_static f) eqn:Es.
    + rewrite (spairs_cons_static f e fs es Es), pimg_cons. exists (pimg (spairs fs es)). reflexivity.
    + rewrite (dpairs_cons_dyn f e fs es Es), pimg_cons. exists (pimg (dpairs fs es)). reflexivity.
  - pose proof (IH es i f e Hf He) as H. cbn [firstn]. destruct (is_static f); destruct H as [post H]; exists post; destruct (is_static f0) eqn:E0;
      rewrite ?(spairs_cons_static f0 _ _ _ E0), ?(dpairs_cons_static f0 _ _ _ E0), ?(spairs_cons_dyn f0 _ _ _ E0), ?(dpairs_cons_dyn f0 _ _ _ E0), ?pimg_cons, H, <- ?app_assoc; reflexivity.
Qed.

Definition stat_before (fs : list ty) (i : nat) : Z :=
  sumz (map (fun g => match csize g with Some s => slot s | None => 0 end) (filter is_static (firstn i fs))).
Lemma stat_before_eq fs i : stat_before fs i = stat_len_of (firstn i fs).
Proof. reflexivity. Qed.

Lemma len_dpairs_filter : forall fs es, length es = length fs -> len (dpairs fs es) = len (filter (fun g => negb (is_static g)) fs).
Proof.
  induction fs as [|f fs IH]; intros [|e es] L; cbn in L; try discriminate; [reflexivity|]. cbn [filter]. destruct (is_static f) eqn:Es; cbn [negb].
  - rewrite (dpairs_cons_static f e fs es Es). apply IH. lia.
  - rewrite (dpairs_cons_dyn f e fs es Es), !len_cons, IH by lia. reflexivity.
Qed.

Lemma dpairs_prefix : forall fs es i, dpairs (firstn i fs) (firstn i es) = firstn (length (dpairs (firstn i fs) (firstn i es))) (dpairs fs es).
Proof.
  induction fs as [|f fs IH]; intros es i; [destruct i; reflexivity|]. destruct es as [|e es]; [destruct i; reflexivity|].
  destruct i as [|i]; [reflexivity|]. cbn [firstn]. destruct (is_static f) eqn:Es.
  - rewrite !(dpairs_cons_static f e _ _ Es). apply IH.
  - rewrite !(dpairs_cons_dyn f e _ _ Es). cbn [length firstn]. f_equal. apply IH.
Qed.
Lemma dpairs_split : forall fs es i f e, nth_error fs i = Some f -> nth_error es i = Some e -> is_static f = false ->
  exists rest, dpairs fs es = dpairs (firstn i fs) (firstn i es) ++ (f, e) :: rest.
Proof.
  induction fs as [|f0 fs IH]; intros es i f e Hf He Hs; [destruct i; discriminate|].
  destruct es as [|e0 es]; [destruct i; discriminate|]. destruct i as [|i]; cbn in Hf, He.
  - inversion Hf; inversion He; subst. rewrite (dpairs_cons_dyn f e fs es Hs). exists (dpairs fs es). reflexivity.
  - destruct (IH es i f e Hf He Hs) as [rest H]. exists rest. cbn [firstn]. destruct (is_static f0) eqn:E0.
    + rewrite !(dpairs_cons_static f0 e0 _ _ E0). exact H.
    + rewrite !(dpairs_cons_dyn f0 e0 _ _ E0), H. reflexivity.
Qed.
Lemma psz_firstn k ps : psz (firstn k ps) = firstn k (psz ps).
Proof. unfold psz. symmetry. apply firstn_map. Qed.

Section WithMem.
Variable m : mem.
Variable base : Z.
Variable ix : nat -> Z.
Definition ld (z : Z) : Z := rd64 m (base + z).

Lemma field_sits fs vs es o i f w e cur :
  enc_list fs vs = Some es -> sits (enc_struct fs es) m o -> len (enc_struct fs es) < 2^62 ->
  nth_error fs i = Some f -> nth_error vs i = Some w -> nth_error es i = Some e ->
  seval ld ix cur = o - base ->
  exists a, field_addr fs i cur = Some (a, f) /\ sits e m (base + seval ld ix a) /\
            o <= base + seval ld ix a /\ base + seval ld ix a + len e <= o + len (enc_struct fs es) /\
            base + seval ld ix a = o + field_off fs es i.
Proof.
  intros Eel Hs Hl Hf Hw He Hcur. unfold ld in *.
  destruct (enc_list_length _ _ _ Eel) as [L1 L2].
  pose proof (len_dpairs fs es L1) as Ld.
  pose proof (enc_list_firstn fs vs es i Eel) as Eel_i.
  pose proof (stat_len_spairs (firstn i fs) (firstn i vs) (firstn i es) Eel_i) as Hsb. rewrite <- stat_before_eq in Hsb.
  pose proof (stat_len_spairs fs vs es Eel) as Hsl.
  pose proof (pimg_pos fs es i f e Hf He) as Hpos.
  pose proof (slot_spec (len e)) as [[SA _] _]. pose proof (len_nonneg e) as Le0.
  pose proof (sumz_psz_nonneg (spairs (firstn i fs) (firstn i es))) as Nsi. rewrite <- Hsb in Nsi.
  unfold field_addr. rewrite Hf. fold (stat_before fs i). fold (stat_len_of fs). rewrite <- Ld.
  rewrite enc_struct_assemble in *. unfold assemble in *.
  destruct (dpairs fs es) as [|p ps] eqn:Ed.
  - change (len (@nil (ty * list cell))) with 0. cbn [Z.eqb].
    destruct (is_static f) eqn:Es; [|exfalso; pose proof (In_dpairs fs es i f e Hf He Es) as Hin; rewrite Ed in Hin; exact Hin].
    destruct Hpos as [post Hpos]. pose proof (f_equal len Hpos) as HL. rewrite !len_app, len_padslot, !len_pimg, <- Hsb in HL. pose proof (len_nonneg post).
    rewrite Hpos in Hs. apply sits_app in Hs. destruct Hs as [_ Hs]. apply sits_padslot in Hs. destruct Hs as [Hs _].
    rewrite len_pimg, <- Hsb in Hs.
    eexists. split; [reflexivity|]. cbn [sadd sc seval]. rewrite Hcur. replace (base + (o - base + stat_before fs i)) with (o + stat_before fs i) by lia.
    split; [exact Hs|]. rewrite len_pimg, HL. split; [lia|]. split; [lia|].
    unfold field_off. rewrite Ed. change (len (@nil (ty * list cell)) =? 0) with true. cbv zeta. rewrite Hsb. reflexivity.
  - rewrite <- Ed in *. cbv zeta in *. rewrite !len_pimg, <- Hsl in *.
    assert (Ldp : 1 <= len (dpairs fs es)) by (rewrite Ed, len_cons; pose proof (len_nonneg ps); lia).
    replace (len (dpairs fs es) =? 0) with false by (symmetry; apply Z.eqb_neq; lia).
    set (hdr := 8 + stat_len_of fs + 8 * (len (dpairs fs es) - 1)) in *.
    assert (L8 : forall x, len (bytes (enc64 x)) = 8) by (intros x; rewrite len_bytes; unfold len; rewrite enc64_length; reflexivity).
    assert (Lo : len (tl (offsets_from hdr (psz (dpairs fs es)))) = len (dpairs fs es) - 1).
    { assert (E : length (offsets_from hdr (psz (dpairs fs es))) = length (dpairs fs es)) by (rewrite offsets_from_length; unfold psz; apply map_length).
      pose proof Ldp as Ldp'. unfold len in Ldp' |- *. revert E. generalize (offsets_from hdr (psz (dpairs fs es))). intros [|o0 os] E; cbn [tl length] in E |- *; lia. }
    assert (Limg : len (bytes (enc64 (hdr + sumz (psz (dpairs fs es)))) ++ pimg (spairs fs es) ++ words (tl (offsets_from hdr (psz (dpairs fs es)))) ++ pimg (dpairs fs es)) = hdr + sumz (psz (dpairs fs es))).
    { rewrite !len_app, L8, len_words, Lo, !len_pimg, <- Hsl. unfold hdr. lia. }
    rewrite Limg in *.
    pose proof (sumz_psz_nonneg (dpairs fs es)) as Nd. pose proof (sumz_psz_nonneg (spairs fs es)) as Ns. rewrite <- Hsl in Ns.
    apply sits_app in Hs. destruct Hs as [S0 Hs]. rewrite L8 in Hs.
    apply sits_app in Hs. destruct Hs as [S1 Hs]. rewrite len_pimg, <- Hsl in Hs.
    apply sits_app in Hs. destruct Hs as [S2 S3]. rewrite len_words, Lo in S3.
    replace (o + 8 + stat_len_of fs + 8 * (len (dpairs fs es) - 1)) with (o + hdr) in S3 by (unfold hdr; lia).
    destruct (is_static f) eqn:Es.
    + destruct Hpos as [post Hpos]. pose proof (f_equal len Hpos) as HL. rewrite !len_app, len_padslot, !len_pimg, <- Hsb, <- Hsl in HL. pose proof (len_nonneg post).
      rewrite Hpos in S1. apply sits_app in S1. destruct S1 as [_ S1]. apply sits_padslot in S1. destruct S1 as [S1 _].
      rewrite len_pimg, <- Hsb in S1.
      eexists. split; [reflexivity|]. cbn [sadd sc seval]. rewrite Hcur. replace (base + (o - base + (8 + stat_before fs i))) with (o + 8 + stat_before fs i) by lia.
      split; [exact S1|]. split; [lia|]. split; [unfold hdr; lia|].
      unfold field_off. replace (len (dpairs fs es) =? 0) with false by (symmetry; apply Z.eqb_neq; lia). rewrite Hf, Es. cbv zeta. rewrite Hsb. lia.
    + destruct Hpos as [post Hpos]. pose proof (f_equal len Hpos) as HL. rewrite !len_app, len_padslot, !len_pimg in HL. pose proof (len_nonneg post).
      rewrite Hpos in S3. apply sits_app in S3. destruct S3 as [_ S3]. apply sits_padslot in S3. destruct S3 as [S3 _].
      rewrite len_pimg in S3.
      pose proof (len_dpairs_filter (firstn i fs) (firstn i es) ltac:(rewrite !firstn_length; lia)) as Hk. rewrite <- Hk.
      set (Di := dpairs (firstn i fs) (firstn i es)) in *.
      pose proof (sumz_psz_nonneg Di) as Ndi.
      destruct (len Di =? 0) eqn:Ek.
      * apply Z.eqb_eq in Ek. assert (HDi : Di = []) by (destruct Di; [reflexivity|rewrite len_cons in Ek; pose proof (len_nonneg Di); lia]).
        rewrite HDi in S3, HL. change (sumz (psz [])) with 0 in S3, HL.
        eexists. split; [reflexivity|]. cbn [sadd sc seval]. rewrite Hcur. fold hdr.
        replace (base + (o - base + hdr)) with (o + hdr + 0) by lia. split; [exact S3|]. split; [unfold hdr in *; lia|]. split; [unfold hdr in *; lia|].
        unfold field_off. replace (len (dpairs fs es) =? 0) with false by (symmetry; apply Z.eqb_neq; lia). rewrite Hf, Es. cbv zeta. fold Di. rewrite HDi. change (sumz (psz [])) with 0. unfold hdr. rewrite Hsl. lia.
      * apply Z.eqb_neq in Ek. pose proof (len_nonneg Di) as Hk0.
        eexists. split; [reflexivity|]. cbn [sadd sc seval]. rewrite Hcur.
        replace (base + (o - base + (8 + stat_len_of fs + 8 * (len Di - 1)))) with (o + 8 + stat_len_of fs + 8 * Z.of_nat (Z.to_nat (len Di - 1))) by lia.
        pose proof (offsets_from_fits (psz (dpairs fs es)) hdr ltac:(unfold hdr; lia) (psz_nonneg _) ltac:(lia)) as Ff.
        assert (Ftl : Forall (fun w => - 2^63 <= w < 2^63) (tl (offsets_from hdr (psz (dpairs fs es))))).
        { destruct (offsets_from hdr (psz (dpairs fs es))); [constructor|]. inversion Ff; assumption. }
        destruct (dpairs_split fs es i f e Hf He Es) as [rest Hsplit]. fold Di in Hsplit.
        assert (Hprefix : Di = firstn (length Di) (dpairs fs es)).
        { rewrite Hsplit, firstn_app, firstn_all, Nat.sub_diag. cbn [firstn]. rewrite app_nil_r. reflexivity. }
        assert (Hkl' : (length Di < length (dpairs fs es))%nat) by (rewrite Hsplit, app_length; cbn [length]; lia).
        assert (Hjl : (Z.to_nat (len Di - 1) < length (tl (offsets_from hdr (psz (dpairs fs es)))))%nat).
        { pose proof (offsets_from_length (psz (dpairs fs es)) hdr) as E. unfold psz in E at 2. rewrite map_length in E.
          unfold len in *. destruct (offsets_from hdr (psz (dpairs fs es))); cbn [tl length] in *; lia. }
        rewrite (sits_words_nth _ m _ S2 Ftl _ Hjl).
        assert (Hnth : nth (Z.to_nat (len Di - 1)) (tl (offsets_from hdr (psz (dpairs fs es)))) 0 = nth (length Di) (offsets_from hdr (psz (dpairs fs es))) 0).
        { replace (length Di) with (S (Z.to_nat (len Di - 1))) by (unfold len in *; lia). destruct (offsets_from hdr (psz (dpairs fs es))); [destruct (Z.to_nat (len Di - 1)); reflexivity|reflexivity]. }
        rewrite Hnth, offsets_from_nth by (unfold psz; rewrite map_length; exact Hkl').
        rewrite <- psz_firstn, <- Hprefix.
        replace (base + (o - base + (hdr + sumz (psz Di)))) with (o + hdr + sumz (psz Di)) by lia. split; [exact S3|]. split; [unfold hdr in *; lia|]. split; [unfold hdr in *; lia|].
        unfold field_off. replace (len (dpairs fs es) =? 0) with false by (symmetry; apply Z.eqb_neq; lia). rewrite Hf, Es. cbv zeta. fold Di. unfold hdr. rewrite Hsl. lia.
Qed.
End WithMem.

(* ---------- anatomy of an array image ---------- *)
Lemma strides_in_header (m : mem) shape sh order isz strs off :
  strs = (if (0 <? ndyn shape) && (1 <? len shape) then get_strides sh order isz else []) ->
  sits (words strs) m (off + 8 + 8 * ndyn shape) -> Forall fits (get_strides sh order isz) ->
  (0 <? ndyn shape) && (1 <? len shape) = true ->
  forall j, (j < length (get_strides sh order isz))%nat -> rd64 m (off + 8 + 8 * ndyn shape + 8 * Z.of_nat j) = nth j (get_strides sh order isz) 0.
Proof. intros E S2 Fs C j Hj. rewrite C in E. subst strs. apply (sits_words_nth _ m _ S2 Fs j Hj). Qed.

Lemma array_anatomy_static (m : mem) item shape order isz sh items img off : csize item = Some isz ->
  enc (TArray item shape order) (VArr sh items) = Some img -> sits img m off -> len img < 2^62 ->
  exists es, seqopt (map (enc item) items) = Some es /\ shape_ok shape sh = true /\ perm_ok order (length shape) = true /\ len items = prod sh /\
    ((0 <? ndyn shape) && (1 <? len shape) = true -> forall j, (j < length shape)%nat ->
        rd64 m (off + 8 + 8 * ndyn shape + 8 * Z.of_nat j) = nth j (get_strides sh order isz) 0) /\
    (forall c, (c < Z.to_nat (prod sh))%nat ->
        let d := arr_header true shape + isz * Perm.mem_pos sh order (unpos sh (Z.of_nat c)) in
        sits (nth c es []) m (off + d) /\ 0 <= d /\ d + len (nth c es []) <= len img) /\
    off + len img <= len m /\ 0 <= off.
Proof.
  intros Ci H Hs Hl. destruct (sits_range _ _ _ Hs) as [R0 R1].
  cbn [enc] in H. destruct (shape_ok shape sh && perm_ok order (length shape) && (len items =? prod sh) && words_fit item shape order sh) eqn:G; [|discriminate].
  apply andb_prop in G. destruct G as [G Gw].
  apply andb_prop in G. destruct G as [G Gn]. apply andb_prop in G. destruct G as [Gs Gp]. apply Z.eqb_eq in Gn.
  destruct (seqopt (map (enc item) items)) as [es|] eqn:Ee; [|discriminate]. inversion H; subst img. clear H.
  unfold words_fit in Gw. rewrite Ci in Gw. apply andb_prop in Gw. destruct Gw as [Fd Fs]. apply forallb_fits in Fd. apply forallb_fits in Fs.
  exists es. split; [reflexivity|]. split; [exact Gs|]. split; [exact Gp|]. split; [exact Gn|]. split; [|split; [|split; assumption]].
  - (* strides *)
    intros C j Hj.
    assert (Hst : is_static item = true) by (unfold is_static; rewrite Ci; reflexivity).
    unfold enc_array in Hs. rewrite Hst, Ci in Hs.
    assert (End : ndyn shape =? 0 = false) by (apply andb_prop in C; destruct C as [C _]; apply Z.ltb_lt in C; apply Z.eqb_neq; lia).
    rewrite End in Hs. apply sits_app in Hs. destruct Hs as [SH _].
    assert (L8 : forall x, len (bytes (enc64 x)) = 8) by (intros x; rewrite len_bytes; unfold len; rewrite enc64_length; reflexivity).
    apply sits_app in SH. destruct SH as [_ SH]. rewrite L8 in SH. apply sits_app in SH. destruct SH as [_ S2].
    change (concat (map (fun d : Z => bytes (enc64 d)) (dyn_dims shape sh))) with (words (dyn_dims shape sh)) in S2.
    rewrite len_words, (dyn_dims_length _ _ Gs) in S2.
    eapply strides_in_header; [reflexivity|exact S2|exact Fs|exact C|].
    rewrite get_strides_length. apply andb_prop in Gp. destruct Gp as [Gp' _]. apply Nat.eqb_eq in Gp'. lia.
  - (* items *)
    intros c Hc.
    pose proof (es_mem_uniform item shape order sh items es isz (SZ_all item) Ci Gs Gp Gn Ee) as Hu.
    assert (Hst : is_static item = true) by (unfold is_static; rewrite Ci; reflexivity).
    unfold enc_array in Hs, Hl |- *. rewrite Hst, Ci in Hs, Hl |- *.
    set (es_mem := map (fun p => nth (Z.to_nat (logical_of_mem sh order p)) es []) (mem_positions sh)) in *.
    pose proof (prod_nonneg sh (shape_ok_nonneg _ _ Gs)) as Hpn.
    set (hdr := arr_header true shape) in *.
    apply sits_app in Hs. destruct Hs as [SH SB].
    assert (LH : len (if ndyn shape =? 0 then [] else bytes (enc64 (slot (hdr + len (concat es_mem)))) ++ concat (map (fun d : Z => bytes (enc64 d)) (dyn_dims shape sh)) ++
                     concat (map (fun s : Z => bytes (enc64 s)) (if (0 <? ndyn shape) && (1 <? len shape) then get_strides sh order isz else []))) = hdr).
    { pose proof (ndyn_nonneg shape). destruct (ndyn shape =? 0) eqn:End.
      - apply Z.eqb_eq in End. unfold hdr, arr_header. rewrite End. reflexivity.
      - apply Z.eqb_neq in End.
        change (concat (map (fun d : Z => bytes (enc64 d)) (dyn_dims shape sh))) with (words (dyn_dims shape sh)).
        set (strs := if (0 <? ndyn shape) && (1 <? len shape) then get_strides sh order isz else []).
        change (concat (map (fun s : Z => bytes (enc64 s)) strs)) with (words strs).
        rewrite !len_app, !len_words, (dyn_dims_length _ _ Gs), len_bytes.
        assert (L8 : forall x, len (enc64 x) = 8) by (intros x; unfold len; rewrite enc64_length; reflexivity). rewrite L8.
        unfold hdr, arr_header, strs. replace (ndyn shape =? 0) with false by (symmetry; apply Z.eqb_neq; lia). cbn [andb].
        destruct ((0 <? ndyn shape) && (1 <? len shape)); [|change (len (@nil Z)) with 0; lia].
        assert (Lst : len (get_strides sh order isz) = len shape).
        { unfold len. rewrite get_strides_length. apply andb_prop in Gp. destruct Gp as [Gp' _]. apply Nat.eqb_eq in Gp'. lia. }
        rewrite Lst. lia. }
    rewrite LH in SB. unfold padto in SB. apply sits_app in SB. destruct SB as [SB _].
    destruct (lom_of_idx shape sh order (Z.of_nat c) Gs Gp ltac:(lia)) as [Hmp [Hlom _]]. cbv zeta in Hmp, Hlom.
    set (mp := Perm.mem_pos sh order (unpos sh (Z.of_nat c))) in *.
    assert (Hlm : length es_mem = Z.to_nat (prod sh)) by (unfold es_mem, mem_positions; rewrite !map_length, seq_length; reflexivity).
    pose proof (sits_concat_uniform es_mem m (off + hdr) isz SB Hu (Z.to_nat mp) ltac:(lia)) as Sx.
    rewrite Z2Nat.id in Sx by lia.
    assert (Ex : nth (Z.to_nat mp) es_mem [] = nth c es []).
    { unfold es_mem. rewrite (map_nth_in _ _ _ [] 0) by (unfold mem_positions; rewrite map_length, seq_length; lia).
      rewrite nth_mem_positions by lia. rewrite Z2Nat.id by lia. rewrite Hlom. rewrite Nat2Z.id. reflexivity. }
    rewrite Ex in Sx. cbv zeta. fold hdr. fold mp. replace (off + (hdr + isz * mp)) with (off + hdr + isz * mp) by lia. split; [exact Sx|].
    assert (Hlen : len (concat es_mem) = isz * prod sh).
    { rewrite (len_concat_uniform es_mem isz Hu). unfold es_mem. rewrite len_map, mem_positions_length by exact Hpn. reflexivity. }
    assert (Hle : len (nth c es []) = isz) by (rewrite <- Ex; apply Hu; apply nth_In; lia).
    assert (Hisz : 0 <= isz) by (rewrite <- Hle; apply len_nonneg).
    assert (Hh0 : 0 <= hdr) by (rewrite <- LH; apply len_nonneg).
    rewrite len_app, LH, len_padto, Hlen, Hle.
    pose proof (slot_spec (hdr + isz * prod sh)) as [[TA _] _]. nia.
Qed.

Lemma array_anatomy_dyn (m : mem) item shape order sh items img off : csize item = None ->
  enc (TArray item shape order) (VArr sh items) = Some img -> sits img m off -> len img < 2^62 ->
  exists es, seqopt (map (enc item) items) = Some es /\ shape_ok shape sh = true /\ perm_ok order (length shape) = true /\ len items = prod sh /\
    ((0 <? ndyn shape) && (1 <? len shape) = true -> forall j, (j < length shape)%nat ->
        rd64 m (off + 8 + 8 * ndyn shape + 8 * Z.of_nat j) = nth j (get_strides sh order 8) 0) /\
    (forall c, (c < Z.to_nat (prod sh))%nat ->
        let d := rd64 m (off + arr_header false shape + 8 * Perm.mem_pos sh order (unpos sh (Z.of_nat c))) in
        sits (nth c es []) m (off + d) /\ 0 <= d /\ d + len (nth c es []) <= len img /\
        d = arr_header false shape + 8 * prod sh + sumz (firstn (Z.to_nat (Perm.mem_pos sh order (unpos sh (Z.of_nat c)))) (szs (es_mem_of sh order es)))) /\
    off + len img <= len m /\ 0 <= off.
Proof.
  intros Ci H Hs Hl. destruct (sits_range _ _ _ Hs) as [R0 R1].
  cbn [enc] in H. destruct (shape_ok shape sh && perm_ok order (length shape) && (len items =? prod sh) && words_fit item shape order sh) eqn:G; [|discriminate].
  apply andb_prop in G. destruct G as [G Gw].
  apply andb_prop in G. destruct G as [G Gn]. apply andb_prop in G. destruct G as [Gs Gp]. apply Z.eqb_eq in Gn.
  destruct (seqopt (map (enc item) items)) as [es|] eqn:Ee; [|discriminate]. inversion H; subst img. clear H.
  unfold words_fit in Gw. rewrite Ci in Gw. apply andb_prop in Gw. destruct Gw as [Fd Fs]. apply forallb_fits in Fd. apply forallb_fits in Fs.
  assert (Hst : is_static item = false) by (unfold is_static; rewrite Ci; reflexivity).
  unfold enc_array in *. rewrite Hst, Ci in *.
  set (es_mem := map (fun p => nth (Z.to_nat (logical_of_mem sh order p)) es []) (mem_positions sh)) in *.
  fold (szs es_mem) in *.
  pose proof (prod_nonneg sh (shape_ok_nonneg _ _ Gs)) as Hpn.
  set (n := prod sh) in *.
  set (hdr := arr_header false shape) in *.
  set (total := slot (hdr + 8 * n + sumz (szs es_mem))) in *.
  set (offs := offsets_from (hdr + 8 * n) (szs es_mem)) in *.
  set (strs := if (0 <? ndyn shape) && (1 <? len shape) then get_strides sh order 8 else []) in *.
  change (concat (map (fun d : Z => bytes (enc64 d)) (dyn_dims shape sh))) with (words (dyn_dims shape sh)) in *.
  change (concat (map (fun s : Z => bytes (enc64 s)) strs)) with (words strs) in *.
  change (concat (map (fun o : Z => bytes (enc64 o)) offs)) with (words offs) in *.
  pose proof (ndyn_nonneg shape) as Hnd0. pose proof (len_nonneg shape) as Hls0.
  pose proof (sumz_nonneg _ (szs_nonneg es_mem)) as Hsz0.
  pose proof (slot_spec (hdr + 8 * n + sumz (szs es_mem))) as [[TA TB] TM]. fold total in TA, TB, TM.
  pose proof (dyn_dims_length _ _ Gs) as Ldd.
  assert (Lst : len (get_strides sh order 8) = len shape).
  { unfold len. rewrite get_strides_length. apply andb_prop in Gp. destruct Gp as [Gp' _]. apply Nat.eqb_eq in Gp'. lia. }
  assert (Lem : length es_mem = Z.to_nat n) by (unfold es_mem, mem_positions; rewrite !map_length, seq_length; reflexivity).
  assert (Loffs : len offs = n) by (unfold offs, len; rewrite offsets_from_length; unfold szs; rewrite map_length, Lem; lia).
  assert (L8 : len (bytes (enc64 total)) = 8) by (rewrite len_bytes; unfold len; rewrite enc64_length; reflexivity).
  assert (Hhdr : hdr = 8 + 8 * ndyn shape + len (words strs)).
  { unfold hdr, arr_header, strs. cbn [andb]. rewrite len_words. destruct ((0 <? ndyn shape) && (1 <? len shape)); [rewrite Lst|change (len (@nil Z)) with 0]; lia. }
  assert (Hls : 0 <= len (words strs)) by apply len_nonneg.
  assert (Lbody : len (padto (concat (map padslot es_mem)) (total - hdr - 8 * n)) = total - hdr - 8 * n).
  { unfold padto, pad. rewrite len_app, len_concat_padslot, len_repeat by lia. lia. }
  assert (Limg : len (bytes (enc64 total) ++ words (dyn_dims shape sh) ++ words strs ++ words offs ++ padto (concat (map padslot es_mem)) (total - hdr - 8 * n)) = total).
  { rewrite !len_app, L8, Lbody, (len_words (dyn_dims shape sh)), (len_words offs), Ldd, Loffs. lia. }
  rewrite Limg in *.
  apply sits_app in Hs. destruct Hs as [S0 Hs]. rewrite L8 in Hs.
  apply sits_app in Hs. destruct Hs as [S1 Hs]. rewrite len_words, Ldd in Hs.
  apply sits_app in Hs. destruct Hs as [S2 Hs].
  replace (off + 8 + 8 * ndyn shape + len (words strs)) with (off + hdr) in Hs by lia.
  apply sits_app in Hs. destruct Hs as [S3 S4]. rewrite len_words, Loffs in S4.
  unfold padto in S4. apply sits_app in S4. destruct S4 as [S4 _].
  exists es. split; [reflexivity|]. split; [exact Gs|]. split; [exact Gp|]. split; [exact Gn|]. split; [|split; [|split; assumption]].
  - intros C j Hj. eapply strides_in_header; [reflexivity|exact S2|exact Fs|exact C|].
    rewrite get_strides_length. apply andb_prop in Gp. destruct Gp as [Gp' _]. apply Nat.eqb_eq in Gp'. lia.
  - intros c Hc.
    assert (Foffs : Forall (fun w => - 2^63 <= w < 2^63) offs) by (apply offsets_from_fits; [lia|apply szs_nonneg|lia]).
    destruct (lom_of_idx shape sh order (Z.of_nat c) Gs Gp ltac:(lia)) as [Hmp [Hlom _]]. cbv zeta in Hmp, Hlom.
    set (mp := Perm.mem_pos sh order (unpos sh (Z.of_nat c))) in *. fold n in Hmp.
    assert (Hmpl : (Z.to_nat mp < length offs)%nat) by (unfold len in Loffs; lia).
    pose proof (sits_words_nth offs m (off + hdr) S3 Foffs (Z.to_nat mp) Hmpl) as Hw. rewrite Z2Nat.id in Hw by lia.
    rewrite Hw. unfold offs. rewrite offsets_from_nth by (unfold szs; rewrite map_length; lia).
    pose proof (sits_concat_padslot_nth es_mem m (off + hdr + 8 * n) (Z.to_nat mp) S4 ltac:(lia)) as Sx.
    assert (Ex : nth (Z.to_nat mp) es_mem [] = nth c es []).
    { unfold es_mem. rewrite (map_nth_in _ _ _ [] 0) by (unfold mem_positions; rewrite map_length, seq_length; fold n; lia).
      rewrite nth_mem_positions by (fold n; lia). rewrite Z2Nat.id by lia. rewrite Hlom. rewrite Nat2Z.id. reflexivity. }
    rewrite Ex in Sx.
    cbv zeta.
    replace (off + (hdr + 8 * n + sumz (firstn (Z.to_nat mp) (szs es_mem)))) with (off + hdr + 8 * n + sumz (firstn (Z.to_nat mp) (szs es_mem))) by lia.
    split; [exact Sx|].
    assert (Hfn : forall l k, Forall (fun x => 0 <= x) l -> (k < length l)%nat -> 0 <= sumz (firstn k l) /\ sumz (firstn k l) + nth k l 0 <= sumz l).
    { clear. induction l as [|x l IH]; intros k Hf Hk; [cbn in Hk; lia|]. inversion Hf as [|? ? Hx Hl']; subst. destruct k as [|k].
      - cbn [firstn nth]. rewrite sumz_cons. pose proof (sumz_nonneg l Hl'). cbn. lia.
      - cbn [firstn nth]. rewrite !sumz_cons. destruct (IH k Hl' ltac:(cbn in Hk; lia)). lia. }
    destruct (Hfn (szs es_mem) (Z.to_nat mp) (szs_nonneg es_mem) ltac:(unfold szs; rewrite map_length; lia)) as [F1 F2].
    assert (Hsz : nth (Z.to_nat mp) (szs es_mem) 0 = slot (len (nth c es []))).
    { unfold szs. rewrite (map_nth_in _ _ _ 0 []) by lia. rewrite Ex. reflexivity. }
    rewrite Hsz in F2. pose proof (slot_spec (len (nth c es []))) as [[SA _] _]. split; [lia|]. split; [lia|]. reflexivity.
Qed.

(* ---------- the index step ---------- *)
Lemma all_some_z_eq l : all_some_z l = all_some l.
Proof. induction l as [|[x|] l IH]; cbn; [reflexivity| |reflexivity]. rewrite IH. reflexivity. Qed.

Section WithMem2.
Variable m : mem.
Variable base : Z.
Variable ix : nat -> Z.
Notation ld := (ld m base).

Lemma ld_eq z : ld z = rd64 m (base + z).
Proof. reflexivity. Qed.
Definition idx_of (ic n : nat) : list Z := map (fun j => ix (ic + j)%nat) (seq 0 n).
Lemma idx_of_S ic n : idx_of ic (S n) = ix ic :: idx_of (S ic) n.
Proof.
  unfold idx_of. cbn [seq map]. rewrite Nat.add_0_r. f_equal. rewrite <- seq_shift, map_map. apply map_ext. intros j. f_equal. lia.
Qed.
Lemma seval_idx_dot : forall ss ic, seval ld ix (idx_dot ic ss) = dot (idx_of ic (length ss)) (map (seval ld ix) ss).
Proof.
  induction ss as [|s ss IH]; intros ic; [reflexivity|]. cbn [idx_dot length map]. rewrite idx_of_S. cbn [sadd seval dot]. rewrite IH. reflexivity.
Qed.

Lemma perm_ok_1 order : perm_ok order 1 = true -> order = [0%nat].
Proof.
  unfold perm_ok. intros H. apply andb_prop in H. destruct H as [A B]. apply Nat.eqb_eq in A.
  destruct order as [|x [|y r]]; cbn in A; try discriminate. destruct x; [reflexivity|cbn in B; discriminate].
Qed.

Lemma index_sits item shape order sh items img o cur ic :
  enc (TArray item shape order) (VArr sh items) = Some img -> sits img m o -> len img < 2^62 ->
  seval ld ix cur = o - base -> Strides.in_range sh (idx_of ic (length shape)) ->
  let c := Z.to_nat (pos sh (idx_of ic (length shape))) in
  exists a e es, index_addr item shape order cur ic = Some a /\ (c < length items)%nat /\ enc item (nth c items VNull) = Some e /\ sits e m (base + seval ld ix a) /\
              base + seval ld ix a + len e <= o + len img /\ o <= base + seval ld ix a /\
              seqopt (map (enc item) items) = Some es /\ base + seval ld ix a = o + item_pos item shape order sh es c.
Proof.
  intros He Hs Hl Hcur Hir c.
  set (isz := match csize item with Some s => s | None => 8 end).
  assert (Han : exists es, seqopt (map (enc item) items) = Some es /\ shape_ok shape sh = true /\ perm_ok order (length shape) = true /\ len items = prod sh /\
    ((0 <? ndyn shape) && (1 <? len shape) = true -> forall j, (j < length shape)%nat ->
        rd64 m (o + 8 + 8 * ndyn shape + 8 * Z.of_nat j) = nth j (get_strides sh order isz) 0) /\
    (forall c, (c < Z.to_nat (prod sh))%nat ->
        let d := if is_static item then arr_header true shape + isz * Perm.mem_pos sh order (unpos sh (Z.of_nat c))
                 else rd64 m (o + arr_header false shape + 8 * Perm.mem_pos sh order (unpos sh (Z.of_nat c))) in
        sits (nth c es []) m (o + d) /\ 0 <= d /\ d + len (nth c es []) <= len img /\ d = item_pos item shape order sh es c)).
  { unfold isz, is_static, item_pos. destruct (csize item) as [s|] eqn:Ci.
    - destruct (array_anatomy_static m item shape order s sh items img o Ci He Hs Hl) as [es [A [B [C [D [E [F _]]]]]]]. exists es. split; [exact A|]. split; [exact B|]. split; [exact C|]. split; [exact D|]. split; [exact E|].
      intros c0 Hc0. destruct (F c0 Hc0) as [F1 [F2 F3]]. cbv zeta. split; [exact F1|]. split; [exact F2|]. split; [exact F3|reflexivity].
    - destruct (array_anatomy_dyn m item shape order sh items img o Ci He Hs Hl) as [es [A [B [C [D [E [F _]]]]]]]. exists es. split; [exact A|]. split; [exact B|]. split; [exact C|]. split; [exact D|]. split; [exact E|exact F]. }
  destruct Han as [es [Ee [Gs [Gp [Gn [Hstr Hit]]]]]].
  destruct (perm_ok_is_perm _ _ Gp) as [P1 P2]. pose proof (shape_ok_length _ _ Gs) as Lsh.
  assert (Hps : pos_shape sh).
  { apply pos_shape_of_prod; [apply (shape_ok_nonneg _ _ Gs)|].
    clear - Hir. revert Hir. generalize (idx_of ic (length shape)). induction sh as [|d tl IH]; intros [|i r] H; cbn in *; try lia; try tauto.
    destruct H as [H1 H2]. specialize (IH r H2). nia. }
  pose proof (pos_bound sh _ Hps Hir) as Hpb.
  assert (Hc : (c < Z.to_nat (prod sh))%nat) by (unfold c; lia).
  assert (Hci : (c < length items)%nat) by (unfold len in Gn; lia).
  destruct (seqopt_map_spec (enc item) VNull [] items es Ee) as [Les Nes].
  (* the strides the accessor uses are the strides of the layout *)
  assert (Hss : exists ss, (match all_some_z shape with
                 | Some sh0 => Some (map sc (get_strides sh0 order isz))
                 | None => if len shape =? 1 then Some [sc isz]
                           else Some (map (fun j => SLoad (sadd cur (sc (8 + 8 * ndyn shape + 8 * Z.of_nat j)))) (seq 0 (length shape)))
                 end) = Some ss /\ map (seval ld ix) ss = get_strides sh order isz).
  { rewrite all_some_z_eq. destruct (all_some shape) as [sh0|] eqn:Ea.
    - destruct (all_some_shape_ok _ _ _ Ea Gs) as [E _]. subst sh0. eexists. split; [reflexivity|]. rewrite map_map. cbn [sc seval]. apply map_id.
    - destruct (len shape =? 1) eqn:E1.
      + apply Z.eqb_eq in E1. assert (L1 : length shape = 1%nat) by (unfold len in E1; lia). rewrite L1 in Gp. rewrite (perm_ok_1 _ Gp).
        eexists. split; [reflexivity|]. destruct sh as [|d [|? ?]]; cbn in Lsh; try lia. cbn. f_equal. lia.
      + apply Z.eqb_neq in E1. eexists. split; [reflexivity|]. rewrite map_map.
        assert (Hnd : 0 < ndyn shape).
        { clear - Ea. induction shape as [|[d|] tl IH]; cbn [all_some ndyn] in *; [discriminate| |pose proof (ndyn_nonneg tl); lia]. destruct (all_some tl); [discriminate|]. apply IH. reflexivity. }
        assert (Hl1 : 1 < len shape).
        { pose proof (len_nonneg shape). destruct shape as [|? [|? ?]]; [cbn in Ea; discriminate|unfold len in E1; cbn in E1; lia|unfold len; cbn [length]; lia]. }
        assert (C : (0 <? ndyn shape) && (1 <? len shape) = true) by (apply andb_true_intro; split; [apply Z.ltb_lt|apply Z.ltb_lt]; assumption).
        apply nth_error_ext. intros j. destruct (Nat.lt_ge_cases j (length shape)) as [Hj|Hj].
        * rewrite nth_error_map. rewrite (nth_error_nth' (seq 0 (length shape)) O) by (rewrite seq_length; exact Hj). rewrite seq_nth by exact Hj. cbn [option_map Nat.add].
          cbn [sadd sc seval]. rewrite ld_eq, Hcur.
          replace (base + (o - base + (8 + 8 * ndyn shape + 8 * Z.of_nat j))) with (o + 8 + 8 * ndyn shape + 8 * Z.of_nat j) by lia.
          rewrite (Hstr C j Hj). symmetry. apply nth_error_nth'. rewrite get_strides_length. lia.
        * rewrite (proj2 (nth_error_None _ j)) by (rewrite map_length, seq_length; exact Hj). symmetry. apply nth_error_None. rewrite get_strides_length. lia. }
  destruct Hss as [ss [Ess Hev]].
  assert (Hls : length ss = length shape) by (rewrite <- (map_length (seval ld ix) ss), Hev, get_strides_length; lia).
  assert (Hdot : seval ld ix (idx_dot ic ss) = isz * Perm.mem_pos sh order (idx_of ic (length shape))).
  { rewrite seval_idx_dot, Hev, Hls. apply Perm.strides_address; [exact P1|lia|exact Hir]. }
  assert (Hun : unpos sh (Z.of_nat c) = idx_of ic (length shape)) by (unfold c; rewrite Z2Nat.id by lia; apply unpos_pos; assumption).
  specialize (Hit c Hc). rewrite Hun in Hit. cbv zeta in Hit. destruct Hit as [Hit [Hd0 [Hd1 Hd2]]].
  unfold index_addr. fold isz. rewrite Ess.
  exists (if is_static item then sadd cur (sadd (sc (arr_header (is_static item) shape)) (idx_dot ic ss))
          else sadd cur (SLoad (sadd cur (sadd (sc (arr_header (is_static item) shape)) (idx_dot ic ss))))), (nth c es []), es.
  split; [destruct (is_static item); reflexivity|]. split; [exact Hci|]. split; [apply Nes; exact Hci|].
  assert (Hplace : base + seval ld ix (if is_static item then sadd cur (sadd (sc (arr_header (is_static item) shape)) (idx_dot ic ss))
          else sadd cur (SLoad (sadd cur (sadd (sc (arr_header (is_static item) shape)) (idx_dot ic ss))))) =
          o + (if is_static item then arr_header true shape + isz * Perm.mem_pos sh order (idx_of ic (length shape))
               else rd64 m (o + arr_header false shape + 8 * Perm.mem_pos sh order (idx_of ic (length shape))))).
  { destruct (is_static item) eqn:Est.
    - cbn [sadd sc seval]. rewrite Hcur, Hdot. lia.
    - cbn [sadd sc seval]. rewrite ld_eq, Hcur, Hdot.
      assert (E8 : isz = 8) by (unfold isz; unfold is_static in Est; destruct (csize item); [discriminate|reflexivity]). rewrite E8.
      replace (base + (o - base + (arr_header false shape + 8 * Perm.mem_pos sh order (idx_of ic (length shape))))) with (o + arr_header false shape + 8 * Perm.mem_pos sh order (idx_of ic (length shape))) by lia.
      lia. }
  rewrite Hplace. split; [exact Hit|]. split; [lia|]. split; [lia|]. split; [exact Ee|]. rewrite Hd2. reflexivity.
Qed.
End WithMem2.

(* ---------- what the reference slots of the parts hold ---------- *)
Lemma tok_static_child m : forall fs vs es o i f w, forallb is_static fs = true ->
  tok_static_list m fs vs o -> enc_list fs vs = Some es -> nth_error fs i = Some f -> nth_error vs i = Some w ->
  targets_ok f w m (o + sumz (psz (spairs (firstn i fs) (firstn i es)))).
Proof.
  induction fs as [|f0 fs IH]; intros vs es o i f w Hst Ht He Hf Hw; [destruct i; discriminate|].
  destruct vs as [|v0 vs]; [destruct i; discriminate|]. cbn in He.
  destruct (enc f0 v0) as [e0|] eqn:E0; [|discriminate]. destruct (enc_list fs vs) as [r|] eqn:Er; [|discriminate]. inversion He; subst es.
  cbn [forallb] in Hst. apply andb_prop in Hst. destruct Hst as [S0 Sr].
  cbn [tok_static_list] in Ht. rewrite E0 in Ht. destruct Ht as [T0 Tr].
  destruct i as [|i]; cbn in Hf, Hw.
  - inversion Hf; inversion Hw; subst. cbn [firstn]. change (sumz (psz (spairs [] []))) with 0. replace (o + 0) with o by lia. exact T0.
  - cbn [firstn]. rewrite (spairs_cons_static f0 e0 _ _ S0), psz_cons, sumz_cons.
    replace (o + (slot (len e0) + sumz (psz (spairs (firstn i fs) (firstn i r))))) with (o + slot (len e0) + sumz (psz (spairs (firstn i fs) (firstn i r)))) by lia.
    eapply IH; eassumption.
Qed.
Lemma tok_dyn_child m off : forall fs vs es so dnext i f w,
  tok_dyn_list m off fs vs so dnext -> enc_list fs vs = Some es -> nth_error fs i = Some f -> nth_error vs i = Some w ->
  if is_static f then targets_ok f w m (off + (so + sumz (psz (spairs (firstn i fs) (firstn i es)))))
  else targets_ok f w m (off + (dnext + sumz (psz (dpairs (firstn i fs) (firstn i es))))).
Proof.
  induction fs as [|f0 fs IH]; intros vs es so dnext i f w Ht He Hf Hw; [destruct i; discriminate|].
  destruct vs as [|v0 vs]; [destruct i; discriminate|]. cbn in He.
  destruct (enc f0 v0) as [e0|] eqn:E0; [|discriminate]. destruct (enc_list fs vs) as [r|] eqn:Er; [|discriminate]. inversion He; subst es.
  cbn [tok_dyn_list] in Ht. rewrite E0 in Ht.
  destruct i as [|i]; cbn in Hf, Hw.
  - inversion Hf; inversion Hw; subst. cbn [firstn]. change (sumz (psz (spairs [] []))) with 0. change (sumz (psz (dpairs [] []))) with 0.
    destruct (is_static f); destruct Ht as [T0 _]; [replace (off + (so + 0)) with (off + so) by lia|replace (off + (dnext + 0)) with (off + dnext) by lia]; exact T0.
  - cbn [firstn]. destruct (is_static f0) eqn:S0; destruct Ht as [_ Tr]; pose proof (IH vs r _ _ i f w Tr Er Hf Hw) as H; destruct (is_static f);
      rewrite ?(spairs_cons_static f0 e0 _ _ S0), ?(dpairs_cons_static f0 e0 _ _ S0), ?(spairs_cons_dyn f0 e0 _ _ S0), ?(dpairs_cons_dyn f0 e0 _ _ S0), ?psz_cons, ?sumz_cons;
      match goal with |- targets_ok _ _ _ ?A => match type of H with targets_ok _ _ _ ?B => replace A with B by lia end end; exact H.
Qed.
Lemma dpairs_nonempty : forall fs es, length es = length fs -> forallb is_static fs = false -> 1 <= len (dpairs fs es).
Proof.
  induction fs as [|f fs IH]; intros [|e es] L H; cbn in L, H; try discriminate.
  destruct (is_static f) eqn:Es; cbn in H.
  - rewrite (dpairs_cons_static f e fs es Es). apply IH; [lia|exact H].
  - rewrite (dpairs_cons_dyn f e fs es Es), len_cons. pose proof (len_nonneg (dpairs fs es)). lia.
Qed.
Lemma tok_field m fs vs es o i f w :
  targets_ok (TStruct fs) (VStruct vs) m o -> enc_list fs vs = Some es -> nth_error fs i = Some f -> nth_error vs i = Some w ->
  targets_ok f w m (o + field_off fs es i).
Proof.
  intros Ht He Hf Hw. rewrite targets_ok_struct_eq in Ht. destruct (enc_list_length _ _ _ He) as [L1 L2]. unfold field_off.
  destruct (forallb is_static fs) eqn:Hst.
  - assert (Ed : dpairs fs es = []) by (apply combine_filter_static; assumption). rewrite Ed. change (len (@nil (ty * list cell)) =? 0) with true. cbv zeta.
    eapply tok_static_child; eassumption.
  - pose proof (dpairs_nonempty fs es L1 Hst) as Hn. replace (len (dpairs fs es) =? 0) with false by (symmetry; apply Z.eqb_neq; lia).
    rewrite Hf. pose proof (tok_dyn_child m o fs vs es _ _ i f w Ht He Hf Hw) as H.
    rewrite <- (len_dpairs fs es L1), (stat_len_spairs fs vs es He) in H. cbv zeta.
    destruct (is_static f); match goal with |- targets_ok _ _ _ ?A => match type of H with targets_ok _ _ _ ?B => replace A with B by lia end end; exact H.
Qed.

(* ---------- along an access path ---------- *)
Section WithMem3.
Variable m : mem.
Variable base : Z.
Variable ix : nat -> Z.
Notation ld := (ld m base).

(* the element of value v (of type t) that a path denotes under the index arguments ix; a reference step
   goes to the referent *)
Inductive nav : ty -> val -> list cstep -> nat -> ty -> val -> nat -> Prop :=
| N_nil t v ic : nav t v [] ic t v ic
| N_field fs vs i f w r ic lt lv ic' :
    nth_error fs i = Some f -> nth_error vs i = Some w -> nav f w r ic lt lv ic' ->
    nav (TStruct fs) (VStruct vs) (PField i :: r) ic lt lv ic'
| N_index item shape order sh items r ic w lt lv ic' :
    Strides.in_range sh (idx_of ix ic (length shape)) ->
    nth_error items (Z.to_nat (pos sh (idx_of ix ic (length shape)))) = Some w ->
    nav item w r (ic + length shape) lt lv ic' ->
    nav (TArray item shape order) (VArr sh items) (PIndex :: r) ic lt lv ic'
| N_ref target w r ic lt lv ic' :
    nav target w r ic lt lv ic' ->
    nav (TRef target) (VRef w) (PRef :: r) ic lt lv ic'.

(* the address expression of the layout, evaluated on a buffer in which the object lies and whose
   reference slots hold what they must, is the place of the addressed element; the element lies inside
   the object it belongs to (which, after a reference step, is the referent) *)
Theorem spec_addr_sits : forall t v p ic lt lv ic', nav t v p ic lt lv ic' ->
  forall img o cur, enc t v = Some img -> sits img m o -> len img < 2^62 -> targets_ok t v m o -> seval ld ix cur = o - base ->
  exists a e, spec_addr t p cur ic = Some (a, lt, ic') /\ enc lt lv = Some e /\ sits e m (base + seval ld ix a) /\
              targets_ok lt lv m (base + seval ld ix a) /\ len e < 2^62 /\
              (~ In PRef p -> o <= base + seval ld ix a /\ base + seval ld ix a + len e <= o + len img).
Proof.
  induction 1 as [t v ic|fs vs i f w r ic lt lv ic' Hf Hw Hn IH|item shape order sh items r ic w lt lv ic' Hir Hw Hn IH|target w r ic lt lv ic' Hn IH]; intros img o cur He Hs Hl Htok Hcur.
  - exists cur, img. cbn [spec_addr]. rewrite Hcur. replace (base + (o - base)) with o by lia. split; [reflexivity|]. split; [exact He|]. split; [exact Hs|]. split; [exact Htok|]. split; [exact Hl|]. intros _. lia.
  - pose proof He as He0. rewrite enc_struct_eq in He. destruct (enc_list fs vs) as [es|] eqn:Eel; [|discriminate]. inversion He; subst img. clear He.
    destruct (enc_list_nth fs vs es i f w Eel Hf Hw) as [ec [Hec Eoc]].
    destruct (field_sits m base ix fs vs es o i f w ec cur Eel Hs Hl Hf Hw Hec Hcur) as [a1 [Ha1 [S1 [B1 [B2 Hpos]]]]].
    pose proof (len_nonneg ec).
    assert (Hl2 : len ec < 2^62) by lia.
    assert (Hc2 : seval ld ix a1 = base + seval ld ix a1 - base) by lia.
    assert (Ht2 : targets_ok f w m (base + seval ld ix a1)) by (rewrite Hpos; eapply tok_field; eassumption).
    destruct (IH ec (base + seval ld ix a1) a1 Eoc S1 Hl2 Ht2 Hc2) as [a [e [Ha [Ee [Se [Te [Le C]]]]]]].
    exists a, e. cbn [spec_addr]. rewrite Ha1. split; [exact Ha|]. split; [exact Ee|]. split; [exact Se|]. split; [exact Te|]. split; [exact Le|].
    intros Hnr. destruct (C ltac:(intros Hin; apply Hnr; right; exact Hin)) as [C1 C2]. lia.
  - destruct (index_sits m base ix item shape order sh items img o cur ic He Hs Hl Hcur Hir) as [a1 [ec [es1 [Ha1 [Hci [Eoc [S1 [B2 [B1 [Ees1 Hpos1]]]]]]]]]].
    cbv zeta in Hci, Eoc, Hpos1. rewrite (nth_error_nth _ _ VNull Hw) in Eoc.
    pose proof (len_nonneg ec).
    assert (Hl2 : len ec < 2^62) by lia.
    assert (Hc2 : seval ld ix a1 = base + seval ld ix a1 - base) by lia.
    assert (Ht2 : targets_ok item w m (base + seval ld ix a1)).
    { rewrite Hpos1. rewrite targets_ok_array_eq, Ees1 in Htok. specialize (Htok _ Hci). rewrite (nth_error_nth _ _ VNull Hw) in Htok. exact Htok. }
    destruct (IH ec (base + seval ld ix a1) a1 Eoc S1 Hl2 Ht2 Hc2) as [a [e [Ha [Ee [Se [Te [Le C]]]]]]].
    exists a, e. cbn [spec_addr]. rewrite Ha1. split; [exact Ha|]. split; [exact Ee|]. split; [exact Se|]. split; [exact Te|]. split; [exact Le|].
    intros Hnr. destruct (C ltac:(intros Hin; apply Hnr; right; exact Hin)) as [C1 C2]. lia.
  - cbn [targets_ok] in Htok. destruct Htok as [Hr [Hnn [timg [Et [St [Lt Tt]]]]]].
    assert (Hc2 : seval ld ix (sadd cur (SLoad cur)) = (o + rd64 m o) - base).
    { cbn [sadd seval]. rewrite ld_eq, Hcur. replace (base + (o - base)) with o by lia. lia. }
    destruct (IH timg (o + rd64 m o) (sadd cur (SLoad cur)) Et St Lt Tt Hc2) as [a [e [Ha [Ee [Se [Te [Le C]]]]]]].
    exists a, e. cbn [spec_addr]. split; [exact Ha|]. split; [exact Ee|]. split; [exact Se|]. split; [exact Te|]. split; [exact Le|].
    intros Hnr. exfalso. apply Hnr. left. reflexivity.
Qed.
End WithMem3.

(* ---------- end to end: an accessor accepted by the validator, run on a buffer that holds the documented
   image of a value (reference slots holding what they must), with in-range indices, computes the address at
   which the image of the addressed element sits; without reference steps that is inside the object; for a
   scalar leaf the bytes there are the element's bytes ---------- *)
From XO Require Import CExprProofs CSpecProofs.

Theorem accessor_addresses_element f v img m o ix lt lv ic' :
  cfun_ok f = None -> (cf_action f = AGetp \/ ((cf_action f = AGet \/ cf_action f = ASet) /\ exists k, lt = TScalar k)) ->
  nav ix (cf_ty f) v (cf_path f) 0 lt lv ic' ->
  enc (cf_ty f) v = Some img -> sits img m o -> len img < 2^62 -> targets_ok (cf_ty f) v m o ->
  let addr := o + crun (ld m o) ix (cf_body f) (cf_final f) in
  exists e, enc lt lv = Some e /\ sits e m addr /\ (~ In PRef (cf_path f) -> o <= addr /\ addr + len e <= o + len img).
Proof.
  intros Hok Hact Hnav He Hs Hl Htok addr.
  destruct (cfun_ok_sound f Hok) as [spec [Hspec Hrun]].
  destruct (spec_addr_sits m o ix _ _ _ _ _ _ _ Hnav img o (sc 0) He Hs Hl Htok ltac:(cbn; lia)) as [a [e [Ha [Ee [Se [_ [_ B]]]]]]].
  unfold spec_expr in Hspec. rewrite Ha in Hspec.
  assert (spec = a).
  { destruct Hact as [E|[[E|E] [k Ek]]]; rewrite E in Hspec; [inversion Hspec; reflexivity| |]; subst lt; inversion Hspec; reflexivity. }
  subst spec. exists e. unfold addr. rewrite Hrun. split; [exact Ee|]. split; [exact Se|exact B].
Qed.

Corollary getter_reads_the_element f v img m o ix k bs ic' :
  cfun_ok f = None -> cf_action f = AGet ->
  nav ix (cf_ty f) v (cf_path f) 0 (TScalar k) (VNum bs) ic' ->
  enc (cf_ty f) v = Some img -> sits img m o -> len img < 2^62 -> targets_ok (cf_ty f) v m o ->
  let addr := o + crun (ld m o) ix (cf_body f) (cf_final f) in
  rd m addr (ssize k) = bs /\ (~ In PRef (cf_path f) -> o <= addr /\ addr + ssize k <= o + len img).
Proof.
  intros Hok Hact Hnav He Hs Hl Htok addr.
  destruct (accessor_addresses_element f v img m o ix (TScalar k) (VNum bs) ic' Hok ltac:(right; split; [left; exact Hact|exists k; reflexivity]) Hnav He Hs Hl Htok) as [e [Ee [Se B]]].
  fold addr in Se, B. cbn [enc] in Ee. destruct (len bs =? ssize k) eqn:E; [|discriminate]. apply Z.eqb_eq in E. inversion Ee; subst e.
  rewrite len_bytes, E in B. split; [|exact B]. rewrite <- E. apply sits_bytes_rd. exact Se.
Qed.

Lemma dims_in_header (m : mem) item shape order sh items img off :
  enc (TArray item shape order) (VArr sh items) = Some img -> sits img m off -> 0 < ndyn shape ->
  shape_ok shape sh = true /\ forall j, (j < length (dyn_dims shape sh))%nat -> rd64 m (off + 8 + 8 * Z.of_nat j) = nth j (dyn_dims shape sh) 0.
Proof.
  intros H Hs Hnd.
  cbn [enc] in H. destruct (shape_ok shape sh && perm_ok order (length shape) && (len items =? prod sh) && words_fit item shape order sh) eqn:G; [|discriminate].
  apply andb_prop in G. destruct G as [G Gw]. apply andb_prop in G. destruct G as [G Gn]. apply andb_prop in G. destruct G as [Gs Gp].
  destruct (seqopt (map (enc item) items)) as [es|] eqn:Ee; [|discriminate]. inversion H; subst img. clear H.
  unfold words_fit in Gw. apply andb_prop in Gw. destruct Gw as [Fd _]. apply forallb_fits in Fd.
  split; [exact Gs|]. intros j Hj.
  assert (L8 : forall x, len (bytes (enc64 x)) = 8) by (intros x; rewrite len_bytes; unfold len; rewrite enc64_length; reflexivity).
  unfold enc_array in Hs. replace (ndyn shape =? 0) with false in Hs by (symmetry; apply Z.eqb_neq; lia).
  destruct (is_static item).
  - apply sits_app in Hs. destruct Hs as [SH _]. apply sits_app in SH. destruct SH as [_ SH]. rewrite L8 in SH. apply sits_app in SH. destruct SH as [S1 _].
    change (concat (map (fun d : Z => bytes (enc64 d)) (dyn_dims shape sh))) with (words (dyn_dims shape sh)) in S1.
    apply (sits_words_nth _ m _ S1 Fd j Hj).
  - apply sits_app in Hs. destruct Hs as [_ Hs]. rewrite L8 in Hs. apply sits_app in Hs. destruct Hs as [S1 _].
    change (concat (map (fun d : Z => bytes (enc64 d)) (dyn_dims shape sh))) with (words (dyn_dims shape sh)) in S1.
    apply (sits_words_nth _ m _ S1 Fd j Hj).
Qed.

Lemma len_expr_eval (m : mem) (base : Z) (ix : nat -> Z) cur o : seval (ld m base) ix cur = o - base ->
  forall shape sh k, shape_ok shape sh = true ->
  (forall j, (j < length (dyn_dims shape sh))%nat -> rd64 m (o + 8 + 8 * (k + Z.of_nat j)) = nth j (dyn_dims shape sh) 0) ->
  seval (ld m base) ix (len_expr shape cur k) = prod sh.
Proof.
  intros Hcur. induction shape as [|[d|] tl IH]; intros [|x r] k Hok Hd; cbn in Hok; try discriminate; [reflexivity| |].
  - apply andb_prop in Hok. destruct Hok as [Hok Hr]. apply andb_prop in Hok. destruct Hok as [Ed _]. apply Z.eqb_eq in Ed. subst x.
    cbn [len_expr seval sc prod dyn_dims] in *. rewrite (IH r k Hr Hd). reflexivity.
  - apply andb_prop in Hok. destruct Hok as [_ Hr]. cbn [len_expr seval sc sadd prod dyn_dims] in *.
    rewrite ld_eq, Hcur. replace (base + (o - base + (8 + 8 * k))) with (o + 8 + 8 * (k + Z.of_nat 0)) by lia.
    rewrite (Hd O ltac:(cbn; lia)). cbn [nth]. rewrite (IH r (k + 1) Hr); [reflexivity|].
    intros j Hj. replace (k + 1 + Z.of_nat j) with (k + Z.of_nat (S j)) by lia. apply (Hd (S j)). cbn. lia.
Qed.

(* an accepted *_len accessor returns the number of items of the addressed array *)
Theorem len_accessor_returns_item_count f v img m o ix item shape order sh items ic' :
  cfun_ok f = None -> cf_action f = ALen ->
  nav ix (cf_ty f) v (cf_path f) 0 (TArray item shape order) (VArr sh items) ic' ->
  enc (cf_ty f) v = Some img -> sits img m o -> len img < 2^62 -> targets_ok (cf_ty f) v m o ->
  crun (ld m o) ix (cf_body f) (cf_final f) = prod sh /\ prod sh = len items.
Proof.
  intros Hok Hact Hnav He Hs Hl Htok.
  destruct (cfun_ok_sound f Hok) as [spec [Hspec Hrun]].
  destruct (spec_addr_sits m o ix _ _ _ _ _ _ _ Hnav img o (sc 0) He Hs Hl Htok ltac:(cbn; lia)) as [a [e [Ha [Ee [Se [Te [Le B]]]]]]].
  unfold spec_expr in Hspec. rewrite Ha, Hact in Hspec. inversion Hspec; subst spec. clear Hspec. rewrite Hrun.
  assert (Gn : len items = prod sh).
  { cbn [enc] in Ee. destruct (shape_ok shape sh && perm_ok order (length shape) && (len items =? prod sh) && words_fit item shape order sh) eqn:G; [|discriminate].
    apply andb_prop in G. destruct G as [G _]. apply andb_prop in G. destruct G as [_ Gn]. apply Z.eqb_eq in Gn. exact Gn. }
  split; [|symmetry; exact Gn].
  destruct (Z_lt_le_dec 0 (ndyn shape)) as [Hnd|Hnd].
  - destruct (dims_in_header m item shape order sh items e (o + seval (ld m o) ix a) Ee Se Hnd) as [Gs Hd].
    apply (len_expr_eval m o ix a (o + seval (ld m o) ix a) ltac:(lia) shape sh 0 Gs).
    intros j Hj. replace (0 + Z.of_nat j) with (Z.of_nat j) by lia. apply Hd. exact Hj.
  - pose proof (ndyn_nonneg shape). assert (E0 : ndyn shape = 0) by lia.
    assert (Gs : shape_ok shape sh = true).
    { cbn [enc] in Ee. destruct (shape_ok shape sh && perm_ok order (length shape) && (len items =? prod sh) && words_fit item shape order sh) eqn:G; [|discriminate].
      apply andb_prop in G. destruct G as [G _]. apply andb_prop in G. destruct G as [G _]. apply andb_prop in G. tauto. }
    apply (len_expr_eval m o ix a (o + seval (ld m o) ix a) ltac:(lia) shape sh 0 Gs).
    rewrite (dyn_dims_nil shape sh Gs E0). intros j Hj. cbn in Hj. lia.
Qed.

(* union references: an accepted *_typeid accessor returns the member index (-1 for none), an accepted
   *_member accessor returns the address at which the referent's image sits *)
Theorem typeid_accessor_returns_member_index f v img m o ix ms lv ic' :
  cfun_ok f = None -> cf_action f = ATypeid ->
  nav ix (cf_ty f) v (cf_path f) 0 (TUnion ms) lv ic' ->
  enc (cf_ty f) v = Some img -> sits img m o -> len img < 2^62 -> targets_ok (cf_ty f) v m o ->
  crun (ld m o) ix (cf_body f) (cf_final f) = match lv with VMember k _ => Z.of_nat k | _ => -1 end.
Proof.
  intros Hok Hact Hnav He Hs Hl Htok.
  destruct (cfun_ok_sound f Hok) as [spec [Hspec Hrun]].
  destruct (spec_addr_sits m o ix _ _ _ _ _ _ _ Hnav img o (sc 0) He Hs Hl Htok ltac:(cbn; lia)) as [a [e [Ha [Ee [Se [Te [Le B]]]]]]].
  unfold spec_expr in Hspec. rewrite Ha, Hact in Hspec. inversion Hspec; subst spec. clear Hspec. rewrite Hrun.
  cbn [sadd sc seval]. rewrite ld_eq.
  destruct lv as [| | | | | |k w]; try discriminate.
  - cbn [targets_ok] in Te. destruct Te as [_ [_ H1]]. replace (o + (seval (ld m o) ix a + 8)) with (o + seval (ld m o) ix a + 8) by lia. exact H1.
  - change (targets_ok (TUnion ms) (VMember k w) m (o + seval (ld m o) ix a)) with
      (in_rangeb m (o + seval (ld m o) ix a) 16 = true /\ rd64 m (o + seval (ld m o) ix a) <> NULLVALUE /\
       rd64 m (o + seval (ld m o) ix a + 8) = Z.of_nat k /\ tok_pick m (o + seval (ld m o) ix a + rd64 m (o + seval (ld m o) ix a)) w ms k) in Te.
    destruct Te as [_ [_ [H1 _]]]. replace (o + (seval (ld m o) ix a + 8)) with (o + seval (ld m o) ix a + 8) by lia. exact H1.
Qed.

Lemma tok_pick_nth m base w : forall ms k, tok_pick m base w ms k -> exists mt timg, nth_error ms k = Some mt /\ enc mt w = Some timg /\ sits timg m base.
Proof.
  induction ms as [|mt ms IH]; intros k H; [destruct k; destruct H|]. destruct k as [|k]; cbn [tok_pick] in H.
  - destruct H as [timg [E [S _]]]. exists mt, timg. split; [reflexivity|]. split; assumption.
  - destruct (IH k H) as [mt' [timg [A [B C]]]]. exists mt', timg. split; [exact A|]. split; assumption.
Qed.

Theorem member_accessor_addresses_member f v img m o ix ms k w ic' :
  cfun_ok f = None -> cf_action f = AMember ->
  nav ix (cf_ty f) v (cf_path f) 0 (TUnion ms) (VMember k w) ic' ->
  enc (cf_ty f) v = Some img -> sits img m o -> len img < 2^62 -> targets_ok (cf_ty f) v m o ->
  exists mt timg, nth_error ms k = Some mt /\ enc mt w = Some timg /\ sits timg m (o + crun (ld m o) ix (cf_body f) (cf_final f)).
Proof.
  intros Hok Hact Hnav He Hs Hl Htok.
  destruct (cfun_ok_sound f Hok) as [spec [Hspec Hrun]].
  destruct (spec_addr_sits m o ix _ _ _ _ _ _ _ Hnav img o (sc 0) He Hs Hl Htok ltac:(cbn; lia)) as [a [e [Ha [Ee [Se [Te [Le B]]]]]]].
  unfold spec_expr in Hspec. rewrite Ha, Hact in Hspec. inversion Hspec; subst spec. clear Hspec. rewrite Hrun.
  change (targets_ok (TUnion ms) (VMember k w) m (o + seval (ld m o) ix a)) with
      (in_rangeb m (o + seval (ld m o) ix a) 16 = true /\ rd64 m (o + seval (ld m o) ix a) <> NULLVALUE /\
       rd64 m (o + seval (ld m o) ix a + 8) = Z.of_nat k /\ tok_pick m (o + seval (ld m o) ix a + rd64 m (o + seval (ld m o) ix a)) w ms k) in Te.
  destruct Te as [_ [_ [_ Hp]]]. destruct (tok_pick_nth _ _ _ _ _ Hp) as [mt [timg [A [B1 C]]]].
  exists mt, timg. split; [exact A|]. split; [exact B1|].
  cbn [sadd seval]. rewrite ld_eq. replace (o + (seval (ld m o) ix a + rd64 m (o + seval (ld m o) ix a))) with (o + seval (ld m o) ix a + rd64 m (o + seval (ld m o) ix a)) by lia. exact C.
Qed.

(* ---------- alignment: every field, the data area of every array and every dynamically sized item
   start on a slot boundary relative to the object they belong to ---------- *)
Lemma field_off_aligned fs es i : field_off fs es i mod 8 = 0.
Proof.
  unfold field_off. cbv zeta.
  pose proof (sumz_psz_mod8 (spairs (firstn i fs) (firstn i es))) as A.
  pose proof (sumz_psz_mod8 (spairs fs es)) as B. pose proof (sumz_psz_mod8 (dpairs (firstn i fs) (firstn i es))) as C.
  destruct (len (dpairs fs es) =? 0); [exact A|]. destruct (nth_error fs i) as [f|]; [|reflexivity].
  destruct (is_static f).
  - rewrite Z.add_mod, A by lia. reflexivity.
  - replace (8 + sumz (psz (spairs fs es)) + 8 * (len (dpairs fs es) - 1) + sumz (psz (dpairs (firstn i fs) (firstn i es))))
      with (sumz (psz (spairs fs es)) + sumz (psz (dpairs (firstn i fs) (firstn i es))) + len (dpairs fs es) * 8) by lia.
    rewrite Z_mod_plus_full, Z.add_mod, B, C by lia. reflexivity.
Qed.
Lemma arr_header_aligned st shape : arr_header st shape mod 8 = 0.
Proof.
  unfold arr_header. set (nd := ndyn shape).
  destruct (st && (nd =? 0)); destruct ((0 <? nd) && (1 <? len shape)).
  - replace (0 + 8 * nd + 8 * len shape) with (0 + (nd + len shape) * 8) by lia. apply Z_mod_plus_full.
  - replace (0 + 8 * nd + 0) with (0 + nd * 8) by lia. apply Z_mod_plus_full.
  - replace (8 + 8 * nd + 8 * len shape) with (0 + (1 + nd + len shape) * 8) by lia. apply Z_mod_plus_full.
  - replace (8 + 8 * nd + 0) with (0 + (1 + nd) * 8) by lia. apply Z_mod_plus_full.
Qed.
Lemma sumz_firstn_mod8 : forall l k, Forall (fun x => x mod 8 = 0) l -> sumz (firstn k l) mod 8 = 0.
Proof.
  induction l as [|x l IH]; intros k H; [destruct k; reflexivity|]. destruct k as [|k]; [reflexivity|]. inversion H as [|? ? Hx Hl]; subst.
  cbn [firstn]. rewrite sumz_cons, Z.add_mod, Hx, (IH k Hl) by lia. reflexivity.
Qed.
Lemma item_pos_aligned_dyn item shape order sh es c : csize item = None -> item_pos item shape order sh es c mod 8 = 0.
Proof.
  intros Ci. unfold item_pos. rewrite Ci.
  pose proof (arr_header_aligned false shape) as A.
  pose proof (sumz_firstn_mod8 (szs (es_mem_of sh order es)) (Z.to_nat (Perm.mem_pos sh order (unpos sh (Z.of_nat c)))) (szs_mod8 _)) as B.
  replace (arr_header false shape + 8 * prod sh + sumz (firstn (Z.to_nat (Perm.mem_pos sh order (unpos sh (Z.of_nat c)))) (szs (es_mem_of sh order es))))
    with (arr_header false shape + sumz (firstn (Z.to_nat (Perm.mem_pos sh order (unpos sh (Z.of_nat c)))) (szs (es_mem_of sh order es))) + prod sh * 8) by lia.
  rewrite Z_mod_plus_full, Z.add_mod, A, B by lia. reflexivity.
Qed.
