(* C07, first sentence, end to end: an accepted C setter, run with in-range indices on a buffer holding the
   documented image of a value, followed by the store of the new scalar at the address it computed, leaves a
   buffer that holds the documented image of the value after the corresponding Python-level assignment --
   and changes no byte outside the stored range. *)
From Coq Require Import ZArith List Bool Lia.
Import ListNotations.
From XO Require Import ListAux Slots Strides Perm BufOps BufOpsProofs Types Format Check LayoutProofs RoundTrip Update UpdateProofs UpdateSize UpdateFrame UpdateAt
  CExpr CExprProofs CSpec CSpecProofs Address.
Open Scope Z_scope.

Section S.
Variable m : mem.
Variable base : Z.
Variable ix : nat -> Z.
Notation ld := (ld m base).

(* the assignment path (Update.path) an accessor path denotes under the index arguments *)
Inductive upath_of : ty -> val -> list cstep -> nat -> path -> Prop :=
| U_nil t v ic : upath_of t v [] ic []
| U_field fs vs i f w r ic up :
    nth_error fs i = Some f -> nth_error vs i = Some w -> upath_of f w r ic up ->
    upath_of (TStruct fs) (VStruct vs) (PField i :: r) ic (PF i :: up)
| U_index item shape order sh items r ic w up :
    Strides.in_range sh (idx_of ix ic (length shape)) ->
    nth_error items (Z.to_nat (pos sh (idx_of ix ic (length shape)))) = Some w ->
    upath_of item w r (ic + length shape) up ->
    upath_of (TArray item shape order) (VArr sh items) (PIndex :: r) ic (PI (Z.to_nat (pos sh (idx_of ix ic (length shape)))) :: up).

Theorem spec_addr_off : forall t v p ic up, upath_of t v p ic up ->
  forall img o cur, enc t v = Some img -> sits img m o -> len img < 2^62 -> seval ld ix cur = o - base ->
  exists a lt ic' d, spec_addr t p cur ic = Some (a, lt, ic') /\ path_off t v up = Some d /\ base + seval ld ix a = o + d.
Proof.
  induction 1 as [t v ic|fs vs i f w r ic up Hf Hw Hn IH|item shape order sh items r ic w up Hir Hw Hn IH]; intros img o cur He Hs Hl Hcur.
  - exists cur, t, ic, 0. cbn [spec_addr path_off]. split; [reflexivity|]. split; [reflexivity|]. rewrite Hcur. lia.
  - pose proof He as He0. rewrite enc_struct_eq in He. destruct (enc_list fs vs) as [es|] eqn:Eel; [|discriminate]. inversion He; subst img. clear He.
    destruct (enc_list_nth fs vs es i f w Eel Hf Hw) as [ec [Hec Eoc]].
    destruct (field_sits m base ix fs vs es o i f w ec cur Eel Hs Hl Hf Hw Hec Hcur) as [a1 [Ha1 [S1 [B1 [B2 Hpos]]]]].
    pose proof (len_nonneg ec).
    assert (Hl2 : len ec < 2^62) by lia.
    assert (Hc2 : seval ld ix a1 = base + seval ld ix a1 - base) by lia.
    destruct (IH ec (base + seval ld ix a1) a1 Eoc S1 Hl2 Hc2) as [a [lt [ic' [d [Ha [Hd Heq]]]]]].
    exists a, lt, ic', (field_off fs es i + d). cbn [spec_addr path_off]. rewrite Ha1, Eel, Hf, Hw, Hd. split; [exact Ha|]. split; [reflexivity|]. lia.
  - destruct (index_sits m base ix item shape order sh items img o cur ic He Hs Hl Hcur Hir) as [a1 [ec [es1 [Ha1 [Hci [Eoc [S1 [B2 [B1 [Ees1 Hpos1]]]]]]]]]].
    cbv zeta in Hci, Eoc, Hpos1. rewrite (nth_error_nth _ _ VNull Hw) in Eoc.
    pose proof (len_nonneg ec).
    assert (Hl2 : len ec < 2^62) by lia.
    assert (Hc2 : seval ld ix a1 = base + seval ld ix a1 - base) by lia.
    destruct (IH ec (base + seval ld ix a1) a1 Eoc S1 Hl2 Hc2) as [a [lt [ic' [d [Ha [Hd Heq]]]]]].
    exists a, lt, ic', (item_pos item shape order sh es1 (Z.to_nat (pos sh (idx_of ix ic (length shape)))) + d).
    cbn [spec_addr path_off]. rewrite Ha1, Ees1, Hw, Hd. split; [exact Ha|]. split; [reflexivity|]. lia.
Qed.

Lemma upath_nav : forall t v p ic up, upath_of t v p ic up -> forall lt lv ic', nav ix t v p ic lt lv ic' ->
  vget v up = Some lv /\ sub_ty t up = Some lt.
Proof.
  induction 1 as [t v ic|fs vs i f w r ic up Hf Hw Hn IH|item shape order sh items r ic w up Hir Hw Hn IH]; intros lt lv ic' Hnav; inversion Hnav; subst.
  - split; reflexivity.
  - cbn [vget sub_ty children step_idx]. rewrite Hw, Hf.
    match goal with H1 : nth_error fs i = Some ?f', H2 : nth_error vs i = Some ?w' |- _ => assert (f' = f) by congruence; assert (w' = w) by congruence; subst end.
    eapply IH; eassumption.
  - cbn [vget sub_ty children step_idx]. rewrite Hw.
    match goal with H2 : nth_error items _ = Some ?w' |- _ => assert (w' = w) by congruence; subst end.
    eapply IH; eassumption.
Qed.
End S.

Lemma vset_exists : forall p v old x, vget v p = Some old -> exists v', vset v p x = Some v'.
Proof.
  induction p as [|s r IH]; intros v old x H; [eexists; reflexivity|]. cbn [vget vset] in *.
  destruct (children v s) as [cs|]; [|discriminate]. destruct (nth_error cs (step_idx s)) as [oldc|] eqn:En; [|discriminate].
  destruct (IH oldc old x H) as [newc Hn]. rewrite Hn.
  destruct (set_nth_opt_exists cs (step_idx s) newc ltac:(apply nth_error_Some; rewrite En; discriminate)) as [cs' Hc]. rewrite Hc. eexists. reflexivity.
Qed.

Theorem setter_is_assignment f v img m o ix k bs bs' ic' up :
  cfun_ok f = None -> cf_action f = ASet ->
  nav ix (cf_ty f) v (cf_path f) 0 (TScalar k) (VNum bs) ic' -> upath_of ix (cf_ty f) v (cf_path f) 0 up ->
  enc (cf_ty f) v = Some img -> sits img m o -> len img < 2^62 -> len bs' = ssize k ->
  let addr := o + crun (ld m o) ix (cf_body f) (cf_final f) in
  exists v' img', assign (cf_ty f) v up (VNum bs') = Some v' /\ vget v' up = Some (VNum bs') /\
    enc (cf_ty f) v' = Some img' /\ len img' = len img /\ sits img' (wr m addr bs') o /\
    (forall i, 0 <= i -> (i < addr \/ addr + ssize k <= i) -> BufOpsProofs.byte (wr m addr bs') i = BufOpsProofs.byte m i).
Proof.
  intros Hok Hact Hnav Hup He Hs Hl Hb' addr.
  destruct (cfun_ok_sound f Hok) as [spec [Hspec Hrun]].
  destruct (spec_addr_off m o ix _ _ _ _ _ Hup img o (sc 0) He Hs Hl ltac:(cbn; lia)) as [a [lt [ic1 [d [Ha [Hd Heq]]]]]].
  destruct (upath_nav ix _ _ _ _ _ Hup _ _ _ Hnav) as [Hg Hst].
  (* the leaf the path denotes *)
  assert (Hlt : lt = TScalar k /\ ic1 = ic').
  { assert (Htok : targets_ok (cf_ty f) v m o -> True) by (intros _; exact I).
    clear - Hnav Hup Ha. revert Ha. generalize (sc 0). intros cur Ha.
    assert (forall t v p ic up0, upath_of ix t v p ic up0 -> forall lt1 lv ic2, nav ix t v p ic lt1 lv ic2 -> forall cur a0 lt0 ic0, spec_addr t p cur ic = Some (a0, lt0, ic0) -> lt0 = lt1 /\ ic0 = ic2) as G.
    { clear. induction 1 as [t v ic|fs vs i f w r ic up Hf Hw Hn IH|item shape order sh items r ic w up Hir Hw Hn IH]; intros lt1 lv ic2 Hnav cur a0 lt0 ic0 Hsp; inversion Hnav; subst.
      - cbn in Hsp. inversion Hsp. split; reflexivity.
      - cbn [spec_addr] in Hsp. destruct (field_addr fs i cur) as [[a1 f1]|] eqn:Ef; [|discriminate].
        assert (f1 = f) by (unfold field_addr in Ef; rewrite Hf in Ef; repeat (destruct (_ =? _) in Ef || destruct (is_static _) in Ef); inversion Ef; reflexivity). subst f1.
        match goal with H1 : nth_error fs i = Some ?f', H2 : nth_error vs i = Some ?w' |- _ => assert (f' = f) by congruence; assert (w' = w) by congruence; subst end.
        eapply IH; eassumption.
      - cbn [spec_addr] in Hsp. destruct (index_addr item shape order cur ic) as [a1|]; [|discriminate].
        match goal with H2 : nth_error items _ = Some ?w' |- _ => assert (w' = w) by congruence; subst end.
        eapply IH; eassumption. }
    eapply G; eassumption. }
  destruct Hlt as [Elt _]. subst lt.
  unfold spec_expr in Hspec. rewrite Ha, Hact in Hspec. inversion Hspec; subst spec. clear Hspec.
  assert (Haddr : addr = o + d) by (unfold addr; rewrite Hrun; lia).
  (* the Python-level assignment *)
  destruct (vset_exists up v (VNum bs) (VNum bs') Hg) as [v' Hv'].
  assert (Eb : enc (TScalar k) (VNum bs') = Some (bytes bs')) by (cbn [enc]; replace (len bs' =? ssize k) with true by (symmetry; apply Z.eqb_eq; lia); reflexivity).
  assert (Hlenab : forall a0, enc (TScalar k) (VNum bs) = Some a0 -> len a0 = len (bytes bs')).
  { intros a0 Ea0. cbn [enc] in Ea0. destruct (len bs =? ssize k) eqn:E; [|discriminate]. apply Z.eqb_eq in E. inversion Ea0. rewrite !len_bytes. lia. }
  destruct (vset_frame_at up (cf_ty f) v (VNum bs) (VNum bs') v' (TScalar k) (bytes bs') img Hg Hst Eb Hlenab Hv' He) as [a0 [img' [d' [Ea [Ei [Hd' Hsp]]]]]].
  assert (d' = d) by congruence. subst d'.
  cbn [enc] in Ea. destruct (len bs =? ssize k) eqn:Elen; [|discriminate]. apply Z.eqb_eq in Elen. inversion Ea; subst a0.
  assert (Hlab : len (bytes bs) = len (bytes bs')) by (rewrite !len_bytes; lia).
  assert (Hasg : assign (cf_ty f) v up (VNum bs') = Some v').
  { unfold assign. rewrite Hg, Hst. cbn [retag]. replace (len bs =? len bs') with true by (symmetry; apply Z.eqb_eq; lia). rewrite Eb. exact Hv'. }
  exists v', img'. split; [exact Hasg|]. split; [eapply vget_vset_same; exact Hv'|]. split; [exact Ei|].
  split; [symmetry; eapply splice_same_length; [exact Hlab|eapply spliceat_splice; exact Hsp]|].
  rewrite Haddr. split.
  - apply (sits_splice_wr d (bytes bs) bs' img img' m o Hsp); [rewrite len_bytes; lia|exact Hs].
  - intros i Hi0 Hio. destruct Hsp as [pre [post [E1 [E2 E3]]]]. subst img.
    apply sits_app in Hs. destruct Hs as [_ S2]. apply sits_app in S2. destruct S2 as [S2 _]. destruct (sits_range _ _ _ S2) as [R0 R1]. rewrite len_bytes in R1.
    assert (Hir : BufOps.in_range m (o + d) (Z.of_nat (length bs'))) by (unfold BufOps.in_range; unfold len in *; lia).
    destruct (BufOpsProofs.write_frame m (o + d) bs' Hir) as [_ [WO _]]. apply WO; [exact Hi0|]. unfold len in *. lia.
Qed.
