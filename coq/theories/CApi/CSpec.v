(* The address expression the documented layout assigns to an access path (fields, array
   indices, references): what every generated accessor must compute.  It follows exactly the
   addressing used by the strict decoder Format.dec.  Definitions only. *)
From Coq Require Import ZArith List Bool Lia.
Import ListNotations.
From XO Require Import Slots Strides BufOps Types Format CExpr.
Open Scope Z_scope.

Inductive cstep := PField (i : nat) | PIndex | PRef.

Definition sadd (a b : sym) : sym := SAdd a b.
Definition sc (z : Z) : sym := SConst z.

(* offset of field i inside a struct located at [cur] *)
Definition field_addr (fs : list ty) (i : nat) (cur : sym) : option (sym * ty) :=
  match nth_error fs i with
  | None => None
  | Some f =>
    let stat := filter is_static fs in
    let ndynf := len fs - len stat in
    let before := firstn i fs in
    let stat_before := sumz (map (fun g => match csize g with Some s => slot s | None => 0 end) (filter is_static before)) in
    if ndynf =? 0 then Some (sadd cur (sc stat_before), f)
    else
      let stat_len := sumz (map (fun g => match csize g with Some s => slot s | None => 0 end) stat) in
      if is_static f then Some (sadd cur (sc (8 + stat_before)), f)
      else
        let k := len (filter (fun g => negb (is_static g)) before) in    (* how many dynamic fields precede *)
        if k =? 0 then Some (sadd cur (sc (8 + stat_len + 8 * (ndynf - 1))), f)
        else Some (sadd cur (SLoad (sadd cur (sc (8 + stat_len + 8 * (k - 1))))), f)
  end.

Fixpoint all_some_z (l : list (option Z)) : option (list Z) :=
  match l with [] => Some [] | Some x :: tl => match all_some_z tl with Some r => Some (x :: r) | None => None end | None :: _ => None end.

(* sum_j i_(ic+j) * stride_j *)
Fixpoint idx_dot (ic : nat) (strides : list sym) : sym :=
  match strides with [] => sc 0 | s :: tl => sadd (SMul (SIdx ic) s) (idx_dot (S ic) tl) end.

Definition index_addr (item : ty) (shape : list (option Z)) (order : list nat) (cur : sym) (ic : nat) : option sym :=
  let st := is_static item in
  let nd := ndyn shape in
  let hdr := arr_header st shape in
  let isz := match csize item with Some s => s | None => 8 end in
  let strides :=
    match all_some_z shape with
    | Some sh => Some (map sc (get_strides sh order isz))               (* static shape: class constants *)
    | None => if len shape =? 1 then Some [sc isz]                       (* 1-D dynamic: the item size *)
              else Some (map (fun j => SLoad (sadd cur (sc (8 + 8 * nd + 8 * Z.of_nat j)))) (seq 0 (length shape)))
    end in
  match strides with
  | None => None
  | Some ss =>
    let within := sadd (sc hdr) (idx_dot ic ss) in
    if st then Some (sadd cur within)
    else Some (sadd cur (SLoad (sadd cur within)))        (* table entry: offset relative to the array *)
  end.

Fixpoint spec_addr (t : ty) (p : list cstep) (cur : sym) (ic : nat) : option (sym * ty * nat) :=
  match p with
  | [] => Some (cur, t, ic)
  | PField i :: r =>
      match t with
      | TStruct fs => match field_addr fs i cur with Some (a, f) => spec_addr f r a ic | None => None end
      | _ => None end
  | PIndex :: r =>
      match t with
      | TArray item shape order => match index_addr item shape order cur ic with
                                   | Some a => spec_addr item r a (ic + length shape) | None => None end
      | _ => None end
  | PRef :: r =>
      match t with
      | TRef target => spec_addr target r (sadd cur (SLoad cur)) ic
      | _ => None end
  end.

(* what each kind of accessor returns *)
Inductive caction := AGet | ASet | AGetp | ALen | ATypeid | AMember.

(* number of items of an array located at [cur] *)
Fixpoint len_expr (shape : list (option Z)) (cur : sym) (k : Z) : sym :=
  match shape with
  | [] => sc 1
  | Some d :: tl => SMul (sc d) (len_expr tl cur k)
  | None :: tl => SMul (SLoad (sadd cur (sc (8 + 8 * k)))) (len_expr tl cur (k + 1))
  end.

(* the expression an accessor must evaluate: an address for get/set/getp/member, a value for len/typeid *)
Definition spec_expr (t : ty) (p : list cstep) (a : caction) : option sym :=
  match spec_addr t p (sc 0) 0 with
  | None => None
  | Some (cur, lt, _) =>
    match a, lt with
    | (AGet | ASet), TScalar _ => Some cur
    | AGetp, _ => Some cur
    | ALen, TArray _ shape _ => Some (len_expr shape cur 0)
    | ATypeid, TUnion _ => Some (SLoad (sadd cur (sc 8)))
    | AMember, TUnion _ => Some (sadd cur (SLoad cur))
    | _, _ => None
    end
  end.

(* one emitted function: the statements computing `offset`, then the final expression in terms of
   offset (EOff for plain address returns) *)
Record cfun := mkCF { cf_ty : ty; cf_path : list cstep; cf_action : caction; cf_body : list cstmt; cf_final : cexp }.
Definition cfun_ok (f : cfun) : option nat :=
  match spec_expr (cf_ty f) (cf_path f) (cf_action f) with
  | None => Some 1%nat
  | Some spec =>
      let off := symexec (SConst 0) [] (cf_body f) in
      if sym_equiv (subst off [] (cf_final f)) spec then None else Some 2%nat
  end.

(* two specialisations of one accessor (C15): same address / value for all indices and memory *)
Record cpair := mkCP { cp_body1 : list cstmt; cp_final1 : cexp; cp_body2 : list cstmt; cp_final2 : cexp }.
Definition cpair_ok (p : cpair) : option nat :=
  let o1 := symexec (SConst 0) [] (cp_body1 p) in
  let o2 := symexec (SConst 0) [] (cp_body2 p) in
  if sym_equiv (subst o1 [] (cp_final1 p)) (subst o2 [] (cp_final2 p)) then None else Some 2%nat.
