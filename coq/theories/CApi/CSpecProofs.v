From Coq Require Import ZArith List Bool Lia.
Import ListNotations.
From XO Require Import Slots Strides BufOps Types Format CExpr CExprProofs CSpec.
Open Scope Z_scope.

(* the final expression of an accessor, evaluated concretely after running its body *)
Definition crun (ld : Z -> Z) (ix : nat -> Z) (body : list cstmt) (final : cexp) : Z :=
  cev ld ix (cexec ld ix 0 [] body) [] final.

Lemma crun_sym ld ix body final :
  crun ld ix body final = seval ld ix (subst (symexec (SConst 0) [] body) [] final).
Proof.
  unfold crun. pose proof (symexec_sound ld ix body (SConst 0) []) as H. cbn [map seval] in H. rewrite H.
  exact (subst_sound ld ix final (symexec (SConst 0) [] body) []).
Qed.

(* an accepted accessor computes the layout's address expression for ALL index values and ALL
   contents of the object's memory *)
Theorem cfun_ok_sound f : cfun_ok f = None ->
  exists spec, spec_expr (cf_ty f) (cf_path f) (cf_action f) = Some spec /\
  forall ld ix, crun ld ix (cf_body f) (cf_final f) = seval ld ix spec.
Proof.
  unfold cfun_ok. destruct (spec_expr (cf_ty f) (cf_path f) (cf_action f)) as [spec|]; [|discriminate].
  destruct (sym_equiv _ spec) eqn:E; [|discriminate]. intros _. exists spec. split; [reflexivity|].
  intros ld ix. rewrite crun_sym. apply sym_equiv_sound. exact E.
Qed.

(* two accepted specialisations compute the same thing *)
Theorem cpair_ok_sound p : cpair_ok p = None ->
  forall ld ix, crun ld ix (cp_body1 p) (cp_final1 p) = crun ld ix (cp_body2 p) (cp_final2 p).
Proof.
  unfold cpair_ok. destruct (sym_equiv _ _) eqn:E; [|discriminate]. intros _ ld ix.
  rewrite !crun_sym. apply sym_equiv_sound. exact E.
Qed.

(* the specification itself, spelled out on the two simplest shapes (sanity of spec_addr):
   field i of a static struct sits at the sum of the slot sizes of the fields before it *)
Lemma spec_static_struct_field fs i f : nth_error fs i = Some f -> forallb is_static fs = true ->
  field_addr fs i (SConst 0) =
  Some (SAdd (SConst 0) (SConst (sumz (map (fun g => match csize g with Some s => slot s | None => 0 end) (filter is_static (firstn i fs))))), f).
Proof.
  intros Hn Hs. unfold field_addr. rewrite Hn.
  assert (E : filter is_static fs = fs).
  { clear Hn. induction fs as [|g fs IH]; [reflexivity|]. cbn in Hs |- *. apply andb_prop in Hs. destruct Hs as [A B]. rewrite A, IH by exact B. reflexivity. }
  rewrite E. replace (len fs - len fs =? 0) with true by lia. reflexivity.
Qed.
(* a reference is an offset relative to its own slot *)
Lemma spec_ref target cur ic : spec_addr (TRef target) [PRef] cur ic = Some (SAdd cur (SLoad cur), target, ic).
Proof. reflexivity. Qed.
