(* Alignment relative to the object start (C07's "misaligned access relative to the object start", C05): the place of
   every element a path denotes is a multiple of 8 for compounds and strings and a multiple of the number's own size for
   numbers -- so a typed access at (object start + offset) is as aligned as the object start itself. *)
From Coq Require Import ZArith List Bool Lia.
Import ListNotations.
From XO Require Import ListAux Slots Strides Perm BufOps BufOpsProofs Types Format Check LayoutProofs RoundTrip Update UpdateProofs UpdateSize UpdateFrame UpdateAt Address.
Open Scope Z_scope.
Ltac Zify.zify_post_hook ::= Z.to_euclidean_division_equations.

Definition al (t : ty) : Z := match t with TScalar k => ssize k | _ => 8 end.

Lemma mod8_al t a : a mod 8 = 0 -> a mod al t = 0.
Proof. intros H. destruct t as [k| | | | |]; cbn [al]; try exact H. destruct k; cbn [ssize]; lia. Qed.

Lemma mod_add_al t a b : a mod 8 = 0 -> b mod al t = 0 -> (a + b) mod al t = 0.
Proof.
  intros Ha Hb. pose proof (mod8_al t a Ha) as Ha'. destruct t as [k| | | | |]; cbn [al] in *; try lia. destruct k; cbn [ssize] in *; lia.
Qed.

Lemma slot_mod8 n : slot n mod 8 = 0.
Proof. apply slot_spec. Qed.

(* the class size of a statically sized compound is a multiple of 8 *)
Lemma csize_compound_mod8 t s : csize t = Some s -> (forall k, t <> TScalar k) -> s mod 8 = 0.
Proof.
  intros H Hn. destruct t as [k| |fs|item shape order|tg|ms].
  - exfalso. exact (Hn k eq_refl).
  - discriminate.
  - clear Hn. rewrite csize_struct_eq in H. revert s H. induction fs as [|f fs IH]; intros s H; cbn in H; [inversion H; reflexivity|].
    destruct (csize f) as [a|]; [|discriminate]. destruct (csize_list fs) as [b|] eqn:E; [|discriminate]. inversion H; subst s.
    specialize (IH b eq_refl). pose proof (slot_mod8 a). lia.
  - cbn in H. destruct (csize item); [|discriminate]. destruct (all_some shape); [|discriminate]. inversion H. apply slot_mod8.
  - cbn in H. inversion H. reflexivity.
  - cbn in H. inversion H. reflexivity.
Qed.

Lemma sub_ty_scalar_nil k p st : sub_ty (TScalar k) p = Some st -> p = [] /\ st = TScalar k.
Proof. destruct p as [|[i|c] r]; cbn; intros H; [inversion H; split; reflexivity|discriminate|discriminate]. Qed.

Theorem path_off_aligned : forall p t v d st, path_off t v p = Some d -> sub_ty t p = Some st -> d mod al st = 0.
Proof.
  induction p as [|s r IH]; intros t v d st Hp Hs.
  - cbn in Hp. inversion Hp; subst d. apply Z.mod_0_l. destruct st as [k| | | | |]; cbn; try lia. destruct k; cbn; lia.
  - destruct s as [i|c]; cbn [path_off sub_ty] in Hp, Hs.
    + destruct t as [| |fs| | |]; try discriminate. destruct v as [| |vs| | | |]; try discriminate.
      destruct (enc_list fs vs) as [es|]; [|discriminate]. destruct (nth_error fs i) as [f|] eqn:Ef; [|discriminate]. destruct (nth_error vs i) as [w|]; [|discriminate].
      destruct (path_off f w r) as [d'|] eqn:Ed; [|discriminate]. inversion Hp; subst d.
      apply mod_add_al; [apply field_off_aligned|exact (IH f w d' st Ed Hs)].
    + destruct t as [| | |item shape order| |]; try discriminate. destruct v as [| | |sh items| | |]; try discriminate.
      destruct (seqopt (map (enc item) items)) as [es|]; [|discriminate]. destruct (nth_error items c) as [w|]; [|discriminate].
      destruct (path_off item w r) as [d'|] eqn:Ed; [|discriminate]. inversion Hp; subst d.
      pose proof (IH item w d' st Ed Hs) as Hd'.
      destruct item as [k| |fs'|it' sh' or'|tg|ms] eqn:Ei.
      * (* an array of numbers: the path ends here *)
        destruct (sub_ty_scalar_nil k r st Hs) as [-> ->]. cbn in Ed. inversion Ed; subst d'. rewrite Z.add_0_r.
        unfold item_pos. cbn [csize]. cbn [al].
        pose proof (arr_header_aligned true shape) as Hh.
        set (mp := Perm.mem_pos sh order (unpos sh (Z.of_nat c))).
        destruct k; cbn [ssize]; lia.
      * apply mod_add_al; [apply item_pos_aligned_dyn; reflexivity|exact Hd'].
      * apply mod_add_al; [|exact Hd']. unfold item_pos. destruct (csize (TStruct fs')) as [isz|] eqn:Ec.
        -- pose proof (csize_compound_mod8 (TStruct fs') isz Ec ltac:(intros k E; discriminate)) as Hm. pose proof (arr_header_aligned true shape). 
           set (mp := Perm.mem_pos sh order (unpos sh (Z.of_nat c))). nia.
        -- fold (item_pos (TStruct fs') shape order sh es c). 
           pose proof (item_pos_aligned_dyn (TStruct fs') shape order sh es c Ec) as H. unfold item_pos in H. rewrite Ec in H. exact H.
      * apply mod_add_al; [|exact Hd']. unfold item_pos. destruct (csize (TArray it' sh' or')) as [isz|] eqn:Ec.
        -- pose proof (csize_compound_mod8 (TArray it' sh' or') isz Ec ltac:(intros k E; discriminate)) as Hm. pose proof (arr_header_aligned true shape).
           set (mp := Perm.mem_pos sh order (unpos sh (Z.of_nat c))). nia.
        -- pose proof (item_pos_aligned_dyn (TArray it' sh' or') shape order sh es c Ec) as H. unfold item_pos in H. rewrite Ec in H. exact H.
      * apply mod_add_al; [|exact Hd']. unfold item_pos. cbn [csize]. pose proof (arr_header_aligned true shape). set (mp := Perm.mem_pos sh order (unpos sh (Z.of_nat c))). lia.
      * apply mod_add_al; [|exact Hd']. unfold item_pos. cbn [csize]. pose proof (arr_header_aligned true shape). set (mp := Perm.mem_pos sh order (unpos sh (Z.of_nat c))). lia.
Qed.

(* in a buffer: the element sits at object start + d with d a multiple of its natural alignment *)
Corollary element_as_aligned_as_the_object t v p d st o : path_off t v p = Some d -> sub_ty t p = Some st ->
  o mod al st = 0 -> (o + d) mod al st = 0.
Proof.
  intros Hp Hs Ho. pose proof (path_off_aligned p t v d st Hp Hs) as Hd.
  destruct st as [k| | | | |]; cbn [al] in *; try lia. destruct k; cbn [ssize] in *; lia.
Qed.
