From Coq Require Import ZArith List Bool Lia.
Import ListNotations.
From XO Require Import Types KArg.
Open Scope Z_scope.

Lemma skind_eqb_eq a b : skind_eqb a b = true <-> a = b.
Proof. destruct a, b; cbn; split; intros H; try reflexivity; try discriminate. Qed.

(* an accepted xobject is delivered as a pointer to its first byte in the buffer's CURRENT storage,
   whatever its offset and however often the buffer was re-allocated since the object was created *)
Theorem obj_delivered_at_current_location cs cls buf off c :
  convert cs (Obj cls) (PXoObj cls buf off) = Some c -> c = CPtr (cs buf) off.
Proof. cbn. rewrite Nat.eqb_refl. intros H; inversion H; reflexivity. Qed.
Theorem obj_of_other_class_refused cs cls cls' buf off : cls <> cls' -> convert cs (Obj cls) (PXoObj cls' buf off) = None.
Proof. intros H. cbn. apply Nat.eqb_neq in H. rewrite H. reflexivity. Qed.
(* numeric arrays are delivered as a pointer to their first element *)
Theorem ndarray_first_element cs k st first c : convert cs (PtrScalar k) (PNdarray k st first) = Some c -> c = CPtr st first.
Proof. cbn. rewrite (proj2 (skind_eqb_eq k k) eq_refl). intros H; inversion H; reflexivity. Qed.
Theorem xoarray_first_element cs k buf off doff c : convert cs (PtrScalar k) (PXoArray k buf off doff) = Some c -> c = CPtr (cs buf) (off + doff).
Proof. cbn. rewrite (proj2 (skind_eqb_eq k k) eq_refl). intros H; inversion H; reflexivity. Qed.
Theorem array_of_other_element_type_refused cs k k' st first : k <> k' -> convert cs (PtrScalar k) (PNdarray k' st first) = None.
Proof. intros H. cbn. destruct (skind_eqb k k') eqn:E; [apply skind_eqb_eq in E; contradiction|reflexivity]. Qed.
(* scalars arrive with exactly the bits of the declared type *)
Theorem scalar_bits_unchanged cs k bits c : convert cs (ByValue k) (PNum bits) = Some c -> c = CNum bits /\ Z.of_nat (length bits) = ssize k.
Proof. cbn. destruct (Z.of_nat (length bits) =? ssize k) eqn:E; [|discriminate]. intros H; inversion H. split; [reflexivity|lia]. Qed.
(* calls with positional, missing or extra arguments are refused *)
Theorem positional_refused cs spec p ps kw : call cs spec (p :: ps) kw = None.
Proof. reflexivity. Qed.
Theorem wrong_number_refused cs spec kw : length kw <> length spec -> call cs spec [] kw = None.
Proof. intros H. unfold call. apply Nat.eqb_neq in H. rewrite H. reflexivity. Qed.
Theorem missing_argument_refused cs n a tl kw : lookup_arg n kw = None -> convert_all cs ((n, a) :: tl) kw = None.
Proof. intros H. cbn. rewrite H. reflexivity. Qed.
