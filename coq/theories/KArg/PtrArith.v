(* Pointer arithmetic behind argument delivery and generated accessors (C17, C02): the address of an element at byte
   offset off of a storage block is base + off.  Computing it on a TYPED pointer, (T* )base + off / sizeof(T), is the
   same address exactly when off is a multiple of sizeof(T); CPU buffers pack objects with alignment 1, so offsets
   that are no multiple of the item size are legitimate and byte arithmetic is the only correct form. *)
From Coq Require Import ZArith Lia.
Open Scope Z_scope.

Definition typed_ptr_add (base isz k : Z) : Z := base + isz * k.      (* (T* )base + k, sizeof(T) = isz *)

Theorem byte_pointer_exact base off : typed_ptr_add base 1 off = base + off.
Proof. unfold typed_ptr_add. lia. Qed.

Theorem typed_pointer_exact_iff base isz off : 0 < isz ->
  (typed_ptr_add base isz (off / isz) = base + off <-> off mod isz = 0).
Proof.
  intros H. unfold typed_ptr_add. pose proof (Z.div_mod off isz ltac:(lia)) as E. split; intros A; lia.
Qed.

(* and when it is not exact it points BEFORE the element, by off mod isz bytes (1 .. isz-1) *)
Theorem typed_pointer_error base isz off : 0 < isz ->
  base + off - typed_ptr_add base isz (off / isz) = off mod isz /\ 0 <= off mod isz < isz.
Proof.
  intros H. unfold typed_ptr_add. pose proof (Z.div_mod off isz ltac:(lia)) as E. pose proof (Z.mod_pos_bound off isz H). lia.
Qed.

Example packed_offset_not_exact : typed_ptr_add 1000 8 (19 / 8) <> 1000 + 19.
Proof. vm_compute. discriminate. Qed.
