(* The decision table of kernel-argument conversion (KernelCpu.to_function_arg / __call__,
   KernelDispatcher.__call__): what a compiled kernel receives for each Python argument.
   The FFI marshalling itself is cffi's and is outside the model (C17 is partial). Definitions only. *)
From Coq Require Import ZArith List Bool Lia.
Import ListNotations.
From XO Require Import Types.
Open Scope Z_scope.

Definition skind_eqb (a b : skind) : bool :=
  match a, b with
  | F64, F64 | F32, F32 | I64, I64 | U64, U64 | I32, I32 | U32, U32 | I16, I16 | U16, U16 | I8, I8 | U8, U8 => true
  | _, _ => false
  end.

Inductive argspec := ByValue (k : skind) | PtrScalar (k : skind) | Obj (cls : nat).
(* a Python value: a number (already as the bit pattern numpy gives it for the declared type), a numpy
   array (element type, the storage it lives in, byte offset of its FIRST element -- whatever slice it is),
   an xobject array, an xobject (struct / array / union) of some class in some buffer *)
Inductive pyval :=
| PNum (bits : list Z)
| PNdarray (k : skind) (storage : nat) (first_elem : Z)
| PXoArray (k : skind) (buf : nat) (off data_off : Z)
| PXoObj (cls : nat) (buf : nat) (off : Z)
| POther.
(* what C receives: a scalar, or a pointer = (storage block, byte offset in it) *)
Inductive cval := CNum (bits : list Z) | CPtr (storage : nat) (byte_off : Z).

(* buffers keep their identity while their storage is replaced on growth *)
Definition convert (cur_storage : nat -> nat) (a : argspec) (v : pyval) : option cval :=
  match a, v with
  | ByValue k, PNum bits => if Z.of_nat (length bits) =? ssize k then Some (CNum bits) else None
  | PtrScalar k, PNdarray k' st first => if skind_eqb k k' then Some (CPtr st first) else None
  | PtrScalar k, PXoArray k' buf off doff => if skind_eqb k k' then Some (CPtr (cur_storage buf) (off + doff)) else None
  | Obj cls, PXoObj cls' buf off => if Nat.eqb cls cls' then Some (CPtr (cur_storage buf) off) else None
  | _, _ => None
  end.

(* a call: only keyword arguments, exactly the declared names *)
Fixpoint lookup_arg (n : nat) (kw : list (nat * pyval)) : option pyval :=
  match kw with [] => None | (k, v) :: tl => if Nat.eqb k n then Some v else lookup_arg n tl end.
Fixpoint convert_all (cs : nat -> nat) (spec : list (nat * argspec)) (kw : list (nat * pyval)) : option (list cval) :=
  match spec with
  | [] => Some []
  | (n, a) :: tl =>
    match lookup_arg n kw with
    | None => None
    | Some v => match convert cs a v, convert_all cs tl kw with Some c, Some r => Some (c :: r) | _, _ => None end
    end
  end.
Definition call (cs : nat -> nat) (spec : list (nat * argspec)) (positional : list pyval) (kw : list (nat * pyval)) : option (list cval) :=
  match positional with
  | _ :: _ => None                                            (* kernels can only be called with named arguments *)
  | [] => if Nat.eqb (length kw) (length spec) then convert_all cs spec kw else None
  end.
