(* Source specialisation (xobjects/specialize_source.py) at the level of lines and annotations,
   and the execution semantics of a vectorised block on the four targets with the launch geometry
   the contexts use (context_cpu: the for loop; context_pyopencl: global size (n,);
   context_cupy: grid = ceil(n / block_size) blocks of block_size threads).  Definitions only. *)
From Coq Require Import ZArith List Bool Lia.
Import ListNotations.
Open Scope Z_scope.

Inductive target := CpuSerial | CpuOpenmp | Opencl | Cuda.
Definition target_eqb (a b : target) : bool :=
  match a, b with CpuSerial, CpuSerial | CpuOpenmp, CpuOpenmp | Opencl, Opencl | Cuda, Cuda => true | _, _ => false end.
Definition memt (t : target) (l : list target) : bool := existsb (target_eqb t) l.
Definition is_cpu (t : target) : bool := match t with CpuSerial | CpuOpenmp => true | _ => false end.

(* one source line: plain text (identified by a number: the text itself is opaque), or one of the
   line annotations *)
Inductive item :=
| Plain (l : nat)
| OnlyFor (l : nat) (ctxs : list target)        (* text //only_for_context c1 c2 .. *)
| Include (f : nat) (ctxs : list target)        (* //include_file f for_context c1 c2 .. *)
| VecOpen (var lim : nat)                       (* //vectorize_over var lim *)
| VecClose.                                     (* //end_vectorize *)

(* what the specialised text consists of *)
Inductive xline :=
| XLine (l : nat)                    (* the line, unchanged *)
| XCommented (l : nat)               (* the line, commented out *)
| XFileBegin (f : nat) | XFileEnd (f : nat)
| XFor (v lim : nat) | XEndFor                          (* for (int v=0; v<lim; v++){ ... } *)
| XGlobalId (v : nat) | XEndGlobal                      (* { int v; v=get_global_id(0); ... } *)
| XCudaGuard (v lim : nat) | XEndCuda.                  (* { int v; v=blockDim.x*blockIdx.x+threadIdx.x; if (v<lim){ ... }} *)

(* pass 1: splice included files (only for the contexts they name; lines of a file are not
   searched for further includes) *)
Definition splice (t : target) (files : nat -> option (list item)) (src : list item) : option (list item) :=
  fold_right (fun it acc =>
    match acc with
    | None => None
    | Some r =>
      match it with
      | Include f ctxs => if memt t ctxs then match files f with Some body => Some (body ++ r) | None => None (* IOError *) end
                          else Some r
      | _ => Some (it :: r)
      end
    end) (Some []) src.

(* pass 2: vectorised blocks and context-restricted lines; None = ValueError (nested block) *)
Fixpoint pass2 (t : target) (inside : bool) (src : list item) : option (list xline) :=
  match src with
  | [] => Some []
  | it :: tl =>
    match it with
    | VecOpen v lim =>
        if inside then None else
        match pass2 t true tl with
        | None => None
        | Some r => Some ((match t with CpuSerial | CpuOpenmp => XFor v lim | Opencl => XGlobalId v | Cuda => XCudaGuard v lim end) :: r)
        end
    | VecClose =>
        match pass2 t false tl with
        | None => None
        | Some r => Some ((match t with CpuSerial | CpuOpenmp => XEndFor | Opencl => XEndGlobal | Cuda => XEndCuda end) :: r)
        end
    | Plain l => match pass2 t inside tl with Some r => Some (XLine l :: r) | None => None end
    | OnlyFor l ctxs => match pass2 t inside tl with Some r => Some ((if memt t ctxs then XLine l else XCommented l) :: r) | None => None end
    | Include f _ => match pass2 t inside tl with Some r => Some (XLine f :: r) | None => None end   (* not reached after splice *)
    end
  end.

(* files are marked by begin/end comment lines in the real output; the model keeps the items *)
Definition specialize (t : target) (files : nat -> option (list item)) (src : list item) : option (list xline) :=
  match splice t files src with Some s => pass2 t false s | None => None end.

(* ---- execution of one vectorised block: the indices at which its body runs, in order ---- *)
(* for (int v=0; v<n; v++) { body }   -- C semantics of the loop, with fuel *)
Fixpoint for_loop (fuel : nat) (v n : Z) : list Z :=
  match fuel with
  | O => []
  | S f => if v <? n then v :: for_loop f (v + 1) n else []
  end.
Definition zseq (n : Z) : list Z := map Z.of_nat (seq 0 (Z.to_nat n)).
(* OpenCL: global size (n,): work-items 0..n-1 each run the kernel once with v = get_global_id(0) *)
Definition work_items (n : Z) : list Z := zseq n.
(* CUDA: grid blocks of B threads, v = blockDim.x*blockIdx.x+threadIdx.x *)
Definition ceil_div (n B : Z) : Z := (n + B - 1) / B.
Definition cuda_threads (grid B : Z) : list Z := flat_map (fun b => map (fun j => B * b + j) (zseq B)) (zseq grid).

Definition block_runs (t : target) (n B : Z) : list Z :=
  match t with
  | CpuSerial | CpuOpenmp => for_loop (Z.to_nat n + 1) 0 n
  | Opencl => work_items n
  | Cuda => filter (fun v => v <? n) (cuda_threads (ceil_div n B) B)
  end.

(* ---- judging the text the real specialize_source produced (recovered line by line) ---- *)
Inductive oline :=
| OLine (l : nat) | OCommented (l : nat)
| OFor (v lim : nat)
| OGlobalId (v : nat) (scoped : bool)          (* [{] int v; v=get_global_id(0); *)
| OCudaGuard (v lim : nat) (scoped : bool)      (* [{] int v; v=blockDim.x*blockIdx.x+threadIdx.x; if (v<lim){ *)
| OEnd (closing_braces : nat)
| OUnknown.
Definition xline_matches (x : xline) (o : oline) : bool :=
  match x, o with
  | XLine l, OLine l' => Nat.eqb l l'
  | XCommented l, OCommented l' => Nat.eqb l l'
  | XFor v lim, OFor v' lim' => Nat.eqb v v' && Nat.eqb lim lim'
  | XEndFor, OEnd 1 => true
  (* the loop variable of a GPU expansion lives in a scope of its own, so that two blocks may use the same name *)
  | XGlobalId v, OGlobalId v' true => Nat.eqb v v'
  | XEndGlobal, OEnd 1 => true
  | XCudaGuard v lim, OCudaGuard v' lim' true => Nat.eqb v v' && Nat.eqb lim lim'
  | XEndCuda, OEnd 2 => true
  | _, _ => false
  end.
Fixpoint lines_match (xs : list xline) (os : list oline) : bool :=
  match xs, os with
  | [], [] => true
  | x :: xs', o :: os' => xline_matches x o && lines_match xs' os'
  | _, _ => false
  end.
(* observed outcome for one target: the lines, or an error *)
Inductive tout := TLines (os : list oline) | TValueError | TIOError | TOther.
Record tcase := mkTC { tc_target : target; tc_files : list (nat * list item); tc_src : list item; tc_out : tout }.
Definition files_of (fs : list (nat * list item)) (f : nat) : option (list item) :=
  match find (fun p => Nat.eqb (fst p) f) fs with Some p => Some (snd p) | None => None end.
Definition text_ok (c : tcase) : option nat :=
  match splice (tc_target c) (files_of (tc_files c)) (tc_src c), tc_out c with
  | None, TIOError => None
  | None, _ => Some 1%nat
  | Some s, o =>
      match pass2 (tc_target c) false s, o with
      | None, TValueError => None
      | Some xs, TLines os => if lines_match xs os then None else Some 2%nat
      | _, _ => Some 3%nat
      end
  end.

(* judging the executions of a kernel with vectorised blocks: per block the number of times the body
   ran at each position 0 .. n+3 (positions >= n must stay untouched) *)
Fixpoint count_of (i : Z) (l : list Z) : Z := match l with [] => 0 | x :: tl => (if x =? i then 1 else 0) + count_of i tl end.
Definition expected_counts (t : target) (n B : Z) (width : Z) : list Z :=
  map (fun i => count_of i (block_runs t n B)) (zseq width).
Fixpoint zlist_eqb (a b : list Z) : bool :=
  match a, b with [], [] => true | x :: a', y :: b' => (x =? y) && zlist_eqb a' b' | _, _ => false end.
Record ecase := mkEC { ec_target : target; ec_n : Z; ec_B : Z; ec_counts : list (list Z) }.   (* one list per block *)
Definition exec_ok (c : ecase) : option nat :=
  if forallb (fun obs => zlist_eqb obs (expected_counts (ec_target c) (ec_n c) (ec_B c) (ec_n c + 4))) (ec_counts c)
  then None else Some 1%nat.
