From Coq Require Import ZArith List Bool Lia FinFun.
Import ListNotations.
From XO Require Import SpecSem.
Open Scope Z_scope.

(* ---- the C for loop runs 0,1,..,n-1 ---- *)
Lemma for_loop_spec : forall fuel v n, (Z.to_nat (n - v) < fuel)%nat ->
  for_loop fuel v n = map (fun k => v + Z.of_nat k) (seq 0 (Z.to_nat (n - v))).
Proof.
  induction fuel as [|f IH]; intros v n H; [lia|]. cbn [for_loop].
  destruct (v <? n) eqn:E.
  - apply Z.ltb_lt in E. rewrite IH by lia.
    replace (Z.to_nat (n - v)) with (S (Z.to_nat (n - (v + 1)))) by lia. cbn [seq map]. f_equal; [lia|].
    rewrite <- seq_shift, map_map. apply map_ext. intros k. lia.
  - apply Z.ltb_ge in E. replace (Z.to_nat (n - v)) with O by lia. reflexivity.
Qed.
Lemma zseq_spec n : zseq n = map (fun k => 0 + Z.of_nat k) (seq 0 (Z.to_nat n)).
Proof. unfold zseq. apply map_ext. intros; lia. Qed.

Theorem cpu_runs_each_index_once n : 0 <= n -> for_loop (Z.to_nat n + 1) 0 n = zseq n.
Proof. intros H. rewrite for_loop_spec by lia. rewrite zseq_spec. replace (n - 0) with n by lia. reflexivity. Qed.

(* ---- CUDA: ceil(n/B) blocks of B threads, guarded by v<n, are exactly 0..n-1 ---- *)
Lemma seq_plus : forall b a, seq a b = map (Nat.add a) (seq 0 b).
Proof.
  induction b as [|b IH]; intros a; [reflexivity|]. cbn [seq map]. f_equal; [lia|].
  rewrite (IH (S a)), (IH 1%nat), map_map. apply map_ext. intros k. lia.
Qed.
Lemma zseq_app a b : 0 <= a -> 0 <= b -> zseq (a + b) = zseq a ++ map (fun j => a + j) (zseq b).
Proof.
  intros Ha Hb. unfold zseq. rewrite Z2Nat.inj_add by lia. rewrite seq_app, map_app. f_equal.
  cbn [Nat.add]. rewrite (seq_plus (Z.to_nat b) (Z.to_nat a)), !map_map. apply map_ext. intros k. lia.
Qed.
Lemma zseq_range n x : In x (zseq n) -> 0 <= x < n.
Proof. unfold zseq. rewrite in_map_iff. intros [k [<- Hk]]. apply in_seq in Hk. lia. Qed.
Lemma filter_all {A} (f : A -> bool) l : (forall x, In x l -> f x = true) -> filter f l = l.
Proof. induction l as [|a l IH]; intros H; [reflexivity|]. cbn. rewrite H by (left; reflexivity). f_equal. apply IH. intros; apply H; right; assumption. Qed.
Lemma filter_none {A} (f : A -> bool) l : (forall x, In x l -> f x = false) -> filter f l = [].
Proof. induction l as [|a l IH]; intros H; [reflexivity|]. cbn. rewrite H by (left; reflexivity). apply IH. intros; apply H; right; assumption. Qed.

Lemma filter_lt_zseq n m : 0 <= n <= m -> filter (fun v => v <? n) (zseq m) = zseq n.
Proof.
  intros H. replace m with (n + (m - n)) by lia. rewrite zseq_app by lia. rewrite filter_app.
  rewrite filter_all, filter_none; [apply app_nil_r| |].
  - intros x Hx. apply in_map_iff in Hx. destruct Hx as [j [<- Hj]]. apply zseq_range in Hj. lia.
  - intros x Hx. apply zseq_range in Hx. lia.
Qed.

Lemma cuda_threads_spec : forall g B, 0 <= B -> cuda_threads (Z.of_nat g) B = zseq (Z.of_nat g * B).
Proof.
  intros g B HB. unfold cuda_threads. induction g as [|g IH].
  - reflexivity.
  - replace (Z.of_nat (S g)) with (Z.of_nat g + 1) by lia. rewrite (zseq_app (Z.of_nat g) 1) by lia.
    rewrite flat_map_app, IH. replace ((Z.of_nat g + 1) * B) with (Z.of_nat g * B + B) by lia.
    rewrite (zseq_app (Z.of_nat g * B) B) by lia. f_equal.
    change (zseq 1) with [0]. cbn [map flat_map]. rewrite app_nil_r. apply map_ext. intros j. lia.
Qed.

Lemma ceil_div_covers n B : 0 <= n -> 0 < B -> 0 <= ceil_div n B /\ n <= ceil_div n B * B.
Proof.
  intros Hn HB. unfold ceil_div. pose proof (Z.div_mod (n + B - 1) B ltac:(lia)) as E.
  pose proof (Z.mod_pos_bound (n + B - 1) B HB) as R. split; [apply Z.div_pos; lia|nia].
Qed.

Theorem cuda_runs_each_index_once n B : 0 <= n -> 0 < B ->
  filter (fun v => v <? n) (cuda_threads (ceil_div n B) B) = zseq n.
Proof.
  intros Hn HB. destruct (ceil_div_covers n B Hn HB) as [G1 G2].
  rewrite <- (Z2Nat.id (ceil_div n B)) by exact G1. rewrite cuda_threads_spec by lia.
  rewrite Z2Nat.id by exact G1. apply filter_lt_zseq. lia.
Qed.

(* ---- all four targets: the body of a vectorised block runs exactly once for each index
   0..n-1 (in order; for n = 0 not at all), for every n >= 0 and every block size ---- *)
Theorem block_runs_once_per_index t n B : 0 <= n -> 0 < B -> block_runs t n B = zseq n.
Proof.
  intros Hn HB. destruct t; cbn [block_runs].
  - apply cpu_runs_each_index_once; exact Hn.
  - apply cpu_runs_each_index_once; exact Hn.
  - reflexivity.
  - apply cuda_runs_each_index_once; assumption.
Qed.
Theorem zseq_is_each_index_once n : 0 <= n -> NoDup (zseq n) /\ forall i, In i (zseq n) <-> 0 <= i < n.
Proof.
  intros Hn. split.
  - unfold zseq. apply Injective_map_NoDup; [intros a b H; lia|apply seq_NoDup].
  - intros i. split; [apply zseq_range|]. intros H. unfold zseq. apply in_map_iff. exists (Z.to_nat i). split; [lia|]. apply in_seq. lia.
Qed.

(* ---- text structure ---- *)
(* unannotated text passes through unchanged *)
Fixpoint all_plain (src : list item) : bool := match src with [] => true | Plain _ :: tl => all_plain tl | _ => false end.
Theorem plain_text_unchanged t files src : all_plain src = true ->
  specialize t files src = Some (map (fun it => match it with Plain l => XLine l | _ => XLine 0%nat end) src).
Proof.
  intros H. unfold specialize.
  assert (E : splice t files src = Some src).
  { induction src as [|it tl IH]; [reflexivity|]. destruct it; try discriminate. cbn [all_plain] in H. cbn [splice fold_right].
    change (fold_right _ (Some []) tl) with (splice t files tl). rewrite (IH H). reflexivity. }
  rewrite E. clear E. induction src as [|it tl IH]; [reflexivity|]. destruct it; try discriminate. cbn [all_plain] in H.
  cbn [pass2 map]. rewrite (IH H). reflexivity.
Qed.

(* a context-restricted line is active exactly for the contexts it names *)
Theorem only_for_context_spec t inside l ctxs tl r : pass2 t inside tl = Some r ->
  pass2 t inside (OnlyFor l ctxs :: tl) = Some ((if memt t ctxs then XLine l else XCommented l) :: r).
Proof. intros H. cbn [pass2]. rewrite H. reflexivity. Qed.

(* an included file is spliced exactly for the contexts it names *)
Theorem include_spec t files f ctxs tl r : splice t files tl = Some r ->
  splice t files (Include f ctxs :: tl) =
  if memt t ctxs then match files f with Some body => Some (body ++ r) | None => None end else Some r.
Proof. intros H. unfold splice in *. cbn [fold_right]. rewrite H. reflexivity. Qed.

(* a block opened inside another one is refused *)
Theorem nested_block_refused t v lim tl : pass2 t true (VecOpen v lim :: tl) = None.
Proof. reflexivity. Qed.
