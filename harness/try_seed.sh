#!/bin/sh
# usage: harness/try_seed.sh <seed dir name> <property id>...   (applies the seeded patch to /repo, runs quick checks, reverts)
S=/verif/seeded/$1; shift
if [ -n "$(git -C /repo status --porcelain --untracked-files=no)" ]; then echo "/repo not clean"; exit 2; fi
git -C /repo apply "$S/patch.diff" || { echo "patch does not apply"; exit 2; }
trap 'git -C /repo checkout -- . ' EXIT INT TERM
for id in "$@"; do
  out=$(cd /verif && timeout 1500 ./check $id --tier quick 2>&1); rc=$?
  nv=$(echo "$out" | grep -c "^VIOLATION")
  first=$(echo "$out" | grep -m1 "violation:" | cut -c1-150)
  echo "== $id rc=$rc violations=$nv $first"
  echo "$out" | grep -E "Error|Traceback" | head -3
done
