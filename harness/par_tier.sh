#!/bin/sh
# usage: harness/par_tier.sh <tier> [parallelism]   -- every check of the given tier, a few at a time; one line per check
cd /verif
printf '%s\n' C01 C02 C03 C04 C05 C06 C07 C08 C09 C10 C11 C12 C13 C14 C15 C16 C17 C18 C19 C20 | \
  xargs -P ${2:-3} -I{} sh -c 't0=$(date +%s); out=$(./check {} --tier '"$1"' 2>&1); rc=$?; echo "{} rc=$rc $(( $(date +%s) - t0 ))s :: $(echo "$out" | grep -v "^KNOWN" | tail -1 | cut -c1-200)"'
