"""C01, C03, C05, C06: construction of objects of generated types, judged against the documented
format inside Coq (layout_ok) and by direct oracles on the implementation."""
import json, os, hashlib, collections, random
from core import *
import gen_types as G

BUDGET = {"quick": dict(n=1600, depth=3, shards=12), "thorough": dict(n=8000, depth=4, shards=16)}


REFS_IN_LAYOUT = "heap_img_ok" in open(os.path.join(VERIF, "coq", "theories", "Layout", "Check.v")).read()


def gen_case(rng, depth):
    with_refs = REFS_IN_LAYOUT and rng.random() < 0.2
    t = G.gen_type(rng, rng.randint(1, depth), allow_refs=with_refs)
    v = G.gen_value(rng, t)
    k = t["k"]
    if with_refs and rng.random() < 0.3:
        # two union types listing the SAME member types in different orders, both used in one object
        F64 = {"k": "scalar", "name": "Float64"}; I64 = {"k": "scalar", "name": "Int64"}
        fa = [["x", F64]]; fb = [["p", I64], ["q", I64]]
        A = {"k": "struct", "name": G.struct_name(fa), "fields": fa}; B = {"k": "struct", "name": G.struct_name(fb), "fields": fb}
        U1 = {"k": "union", "name": "U" + hashlib.sha1(json.dumps([A, B], sort_keys=True).encode()).hexdigest()[:8], "members": [A, B]}
        U2 = {"k": "union", "name": "U" + hashlib.sha1(json.dumps([B, A], sort_keys=True).encode()).hexdigest()[:8], "members": [B, A]}
        fields = [["u1", U1], ["u2", U2], ["rest", t]]
        m = rng.choice([A, B])
        mv = G.gen_value(rng, m)
        v = {"f": [{"m": [A, B].index(m), "v": mv}, {"m": [B, A].index(m), "v": G.gen_value(rng, m)}, v]}
        t = {"k": "struct", "name": G.struct_name(fields), "fields": fields}
    if with_refs and (G.has_kind(t, "ref") or G.has_kind(t, "union")):
        # objects holding references: built from plain data (the referents are created next to them)
        al = rng.choice([1, 2, 4, 8, 8, 8, 16, 32, 64])
        pre = []
        for _ in range(rng.choice([0, 0, 1, 3])):
            pre.append(["alloc", rng.choice([1, 8, 16, 24, 40, 100])] if rng.random() < 0.65 else ["free", rng.randint(0, 5)])
        cr = {"type": t, "value": v, "form": "py", "refs": True, "xobj_other_buffer": True,
              "prep": {"kind": rng.choice(["numpy", "bytearray"]), "cap": rng.choice([0, 64, 256, 1024, 4096]), "al": al, "poison": rng.choice([0xA5, 0xFF, 0x01]), "pre": pre},
              "placement": rng.choice([["default"], ["default"], ["aligned"], ["packed"]])}
        if rng.random() < 0.35:
            # the object itself just fits the END of the buffer while a small hole lies before it: the referents it
            # creates then make the buffer grow in the middle of the construction
            cr["prep"] = {"kind": cr["prep"]["kind"], "cap": 256, "al": 8, "poison": cr["prep"]["poison"], "pre": [["alloc", 8], ["alloc", 40], ["free", 0]],
                          "tail_left": own_size({"type": t, "value": v})}
            cr["placement"] = ["default"]
        return cr
    if k == "string":
        form = rng.choice(["py", "py", "cap", "xobj"])
    elif k == "struct":
        form = rng.choice(["py", "py", "kwargs", "np", "xobj"])
    else:
        form = rng.choice(["py", "py", "np", "xobj", "dims", "np_be", "xobj_oo"])
        if form == "np_be" and t["item"]["k"] != "scalar": form = "np"
        if form == "xobj_oo" and len(t["shape"]) < 2: form = "xobj"
    c = {"type": t, "value": v, "form": form}
    if k == "array" and len(t["shape"]) > 1 and t["item"]["k"] == "scalar" and any(d is None for d in t["shape"]) and rng.random() < 0.15:
        # N-D array with an empty axis: only expressible as numpy array or by lengths
        shape = list(v["shape"]); shape[[i for i, d in enumerate(t["shape"]) if d is None][0]] = 0
        c["value"] = v = {"shape": shape, "items": []}
        c["form"] = form = rng.choice(["np", "dims"])
    if form == "cap":
        cap = rng.choice([1, 2, 7, 8, 9, 16, 20])
        c["cap"] = cap
        # something else lived there before: free space is not zero
        c["value"] = {"s": [], "size": cap + 8}
    if form == "xobj_oo" and has_spare_capacity(c["value"]):
        # an array of another class is taken over item by item from the VALUES: a capacity is not part of the value
        c["form"] = form = "py"
    if form == "dims":
        if G.is_static(t["item"]) and any(d is None for d in t["shape"]):
            c["dims"] = [d for d, cd in zip(v["shape"], t["shape"]) if cd is None]
        else:
            c["form"] = "py"
    if form in ("np", "np_be") and not G.has_kind(t, "array"):
        c["form"] = "py"
    al = rng.choice([1, 2, 4, 8, 8, 8, 16, 32, 64])
    pre = []
    for _ in range(rng.choice([0, 0, 1, 3, 5])):
        pre.append(["alloc", rng.choice([1, 8, 16, 24, 40, 100])] if rng.random() < 0.65 else ["free", rng.randint(0, 5)])
    c["prep"] = {"kind": rng.choice(["numpy", "bytearray"]), "cap": rng.choice([0, 8, 64, 256, 1024, 4096]), "al": al,
                 "poison": rng.choice([0xA5, 0xA5, 0xFF, 0x01]), "pre": pre}
    pl = rng.choice([["default"], ["default"], ["aligned"], ["packed"], ["explicit", 0]])
    c["placement"] = pl
    c["xobj_other_buffer"] = rng.random() < 0.7
    if k != "string" and form in ("py", "np", "xobj", "kwargs") and rng.random() < 0.3:
        c["ghost"] = ghost_of(rng, t, c["value"])
    return c


def ghost_of(rng, t, v):
    """a value of the same type and shape whose strings are at least as long: it occupies at least
    the space of v, so after it is freed first-fit puts v's object where the ghost was"""
    k = t["k"]
    if k == "string":
        extra = [rng.randrange(97, 123) for _ in range(rng.choice([0, 1, 7, 8, 9, 17]))]
        s = list(v["s"]) + extra
        return {"s": s, "size": G.slot(len(s) + 9)}
    if k == "struct":
        return {"f": [ghost_of(rng, ft, fv) for (_, ft), fv in zip(t["fields"], v["f"])]}
    if k == "array":
        return {"shape": list(v["shape"]), "items": [ghost_of(rng, t["item"], x) for x in v["items"]]}
    return v


def systematic_cases(rng):
    """every axis order of 2-D and 3-D arrays x static/dynamic shape x scalar/string items x input form"""
    import itertools
    out = []
    prep = {"kind": "numpy", "cap": 512, "al": 8, "poison": 0xA5, "pre": [["alloc", 24], ["alloc", 40], ["free", 0]]}
    for nd, dims in ((2, [2, 3]), (3, [2, 3, 2])):
        for order in itertools.permutations(range(nd)):
            for dyn in (False, True):
                for item in ({"k": "scalar", "name": "Int16"}, {"k": "string"}):
                    shape = [None if dyn else d for d in dims]
                    t = {"k": "array", "item": item, "shape": shape, "order": list(order)}
                    n = 1
                    for d in dims: n *= d
                    if item["k"] == "scalar":
                        items = [[(7 * i + 1) & 255, i & 255] for i in range(n)]
                    else:
                        items = [{"s": list(("s%d" % i).encode() * (1 + i % 3)), "size": G.slot(len(("s%d" % i).encode() * (1 + i % 3)) + 9)} for i in range(n)]
                    v = {"shape": list(dims), "items": items}
                    for form in (("py", "np", "xobj", "xobj_oo", "np_be") if item["k"] == "scalar" else ("py", "xobj", "xobj_oo")):
                        for wrap in (False, True):
                            tt, vv = (t, v) if not wrap else ({"k": "struct", "name": G.struct_name([["k", "x"], ["a", t]]), "fields": [["k", {"k": "scalar", "name": "Int64"}], ["a", t]]},
                                                               {"f": [[5, 0, 0, 0, 0, 0, 0, 0], v]})
                            out.append({"type": tt, "value": vv, "form": form, "prep": dict(prep, kind=rng.choice(["numpy", "bytearray"])),
                                        "placement": ["default"], "xobj_other_buffer": rng.random() < 0.5})
    F64 = {"k": "scalar", "name": "Float64"}
    for nfields in (4, 1, 2):
        it = {"k": "struct", "name": "SItemSameName", "fields": [["f%d" % j, F64] for j in range(nfields)]}
        t = {"k": "array", "item": it, "shape": [None, None], "order": [0, 1]}
        v = {"shape": [2, 3], "items": [{"f": [[(i + j) & 255] + [0] * 7 for j in range(nfields)]} for i in range(6)]}
        out.append({"type": t, "value": v, "form": "py", "prep": dict(prep), "placement": ["default"], "xobj_other_buffer": False})
    for t, dims in (({"k": "array", "item": {"k": "scalar", "name": "Float64"}, "shape": [40], "order": [0]}, [40]),
                    ({"k": "array", "item": {"k": "scalar", "name": "Int32"}, "shape": [None, 3, 3], "order": [0, 1, 2]}, [5, 3, 3])):
        n = 1
        for d in dims: n *= d
        isz = 8 if t["item"]["name"] == "Float64" else 4
        v = {"shape": list(dims), "items": [[(3 * i + 1) & 255] + [0] * (isz - 1) for i in range(n)]}
        out.append({"type": t, "value": v, "form": "py", "prep": dict(prep), "placement": ["default"], "xobj_other_buffer": False})
    return out


def case_term(c, r):
    t = c["type"]; v = c["value"]
    ext = r["after"][r["off"]: r["off"] + (r["size"] or 0)]
    return "mkLC (%s) (%s) %s %s" % (G.ty_term(t), G.val_term(t, v), zlist(ext), zlit(r["size"] if r["size"] is not None else -1))


def ref_case_term(c, r):
    t = c["type"]; v = c["value"]
    return "mkHC (%s) (%s) %s %s %s" % (G.ty_term(t), G.val_term(t, v), zlist(r["after"]), zlit(r["off"]), zlit(r["size"] if r["size"] is not None else -1))


def ref_cases_file(pairs):
    body = "From Coq Require Import ZArith List.\nImport ListNotations.\nFrom XO Require Import Types Format Check AllocSpec.\nOpen Scope Z_scope.\n"
    body += "Definition cs : list hcase := [\n  " + ";\n  ".join(ref_case_term(c, r) for c, r in pairs) + "\n].\n"
    body += 'Goal True. idtac "@@layoutrefs". exact I. Qed.\nEval vm_compute in (failing heap_img_ok 0%nat cs).\n'
    return body


def cases_file(pairs):
    body = "From Coq Require Import ZArith List.\nImport ListNotations.\nFrom XO Require Import Types Format Check AllocSpec.\nOpen Scope Z_scope.\n"
    body += "Definition cs : list lcase := [\n  " + ";\n  ".join(case_term(c, r) for c, r in pairs) + "\n].\n"
    body += 'Goal True. idtac "@@layout". exact I. Qed.\nEval vm_compute in (failing layout_ok 0%nat cs).\n'
    return body


def tshape(t):
    """coarse description of a type for signatures"""
    k = t["k"]
    if k == "scalar": return "scalar"
    if k == "string": return "String"
    if k == "struct": return "Struct{%s}" % ",".join(sorted(set(tshape(ft) for _, ft in t["fields"])))
    if k == "array":
        nd = len(t["shape"]); dyn = "dyn" if any(d is None for d in t["shape"]) else "static"
        order = "C" if t["order"] == list(range(nd)) else ("F" if t["order"] == list(range(nd))[::-1] else "perm")
        return "Array%dD-%s-%s[%s]" % (nd, dyn, order if nd > 1 else "C", tshape(t["item"]))
    return k


def sig_type(t):
    """the innermost 'interesting' feature: first non-C-order array, else top kind"""
    def find(t):
        if t["k"] == "array":
            nd = len(t["shape"])
            if t["order"] != list(range(nd)):
                return "array-%dD-non-C-order-of-%s" % (nd, "static-items" if G.is_static(t["item"]) else "dynamic-items")
            r = find(t["item"])
            return r
        if t["k"] == "struct":
            for _, ft in t["fields"]:
                r = find(ft)
                if r: return r
        return None
    return find(t) or t["k"]


def size_case(c):
    return len(json.dumps(c["type"])) + len(json.dumps(c["value"]))


def has_spare_capacity(v):
    if isinstance(v, dict):
        if "cap" in v: return True
        return any(has_spare_capacity(x) for x in v.values())
    if isinstance(v, list):
        return any(has_spare_capacity(x) for x in v)
    return False


def own_size(c):
    """bytes of the object itself (reference slots counted, referents not)"""
    def sz(t, v):
        k = t["k"]
        if k == "scalar": return G.SIZE[t["name"]] if hasattr(G, "SIZE") else len(v)
        if k == "string": return v["size"]
        if k == "ref": return 8
        if k == "union": return 16
        if k == "struct":
            parts = [G.slot(sz(ft, fv)) for (_, ft), fv in zip(t["fields"], v["f"])]
            ndyn = sum(1 for _, ft in t["fields"] if not G.is_static(ft))
            return sum(parts) + (8 + 8 * (ndyn - 1) if ndyn else 0)
        if k == "array":
            st = G.is_static(t["item"]); nd = sum(1 for d in t["shape"] if d is None)
            hdr = (0 if st and nd == 0 else 8) + 8 * nd + (8 * len(t["shape"]) if nd > 0 and len(t["shape"]) > 1 else 0)
            if st:
                isz = sz(t["item"], v["items"][0]) if v["items"] else 0
                return G.slot(hdr + isz * len(v["items"]))
            return hdr + 8 * len(v["items"]) + sum(G.slot(sz(t["item"], x)) for x in v["items"])
    return G.slot(sz(c["type"], c["value"]))


def expected_readback(c):
    return G.strip_sizes(c["value"])


def judge(pid, c, r, coq_code):
    """returns (signature, what) or None"""
    t = c["type"]; form = c["form"]; st = sig_type(t)
    if r.get("stage") in ("class", "input", "harness"):
        return ("%s/harness-problem/%s" % (pid, r.get("stage")), "harness could not prepare the case: %s" % r.get("msg"))
    if r.get("stage") == "construct":
        if pid == "C01":
            if form == "xobj" and r["exc"] == "ValueError" and has_spare_capacity(c["value"]) and t["k"] == "array":
                return ("C01/copy-of-array-holding-strings-with-spare-capacity-raises-ValueError",
                        "T(existing_array) recomputes the layout from the item values and refuses the copy: %s" % r.get("msg"))
            return ("C01/construct-raises-%s/%s/%s" % (r["exc"], form, st), "constructing a valid value raised %s" % r.get("msg"))
        return None
    exp = expected_readback(c)
    uninit = form == "dims"
    if pid == "C05":
        if coq_code is not None and not uninit:
            what = {1: "value does not have the type (harness)", 2: "reported size differs from the size of the documented image",
                    3: "a defined byte differs from the documented image", 4: "a decoder written from the documentation rejects the bytes",
                    5: "a decoder written from the documentation recovers a different value"}[coq_code]
            return ("C05/code%d/%s/%s" % (coq_code, form if form in ("np", "xobj", "cap", "np_be", "xobj_oo") else "plain", st), what)
        return None
    if pid == "C01":
        if uninit:
            return None
        if "readback_exc" in r:
            return ("C01/readback-raises-%s/%s/%s" % (r["readback_exc"], form, st), "reading back raised %s" % r.get("readback_msg"))
        if G.strip_sizes(r["readback"]) != exp:
            return ("C01/readback-differs/%s/%s" % (form, st), "value read back differs from the value constructed")
        if r.get("npidx_bad"):
            b0 = r["npidx_bad"][0]
            return ("C01/item-read-with-numpy-integer-index-differs/%s" % b0[1], "index %s given as %s: %s" % (b0[0], b0[1], b0[2]))
        if "nparray_exc" in r:
            return ("C01/to_nparray-raises-%s/%s" % (r["nparray_exc"], st), "to_nparray raised %s" % r.get("nparray_msg"))
        if "nparray" in r and (r["nparray"]["shape"] != c["value"]["shape"] or r["nparray"]["items"] != c["value"]["items"]):
            return ("C01/to_nparray-differs/%s/%s" % (form, st), "to_nparray differs from the value constructed")
        return None
    if pid == "C06":
        if "view_exc" in r:
            return ("C06/view-raises-%s/%s" % (r["view_exc"], st), "using a view made from buffer+offset raised %s" % r.get("view_msg"))
        if "readback" in r and r.get("view_readback") != r["readback"]:
            return ("C06/view-value-differs/%s" % st, "view and handle read different values")
        hc, vc = r.get("handle_caches", {}), r.get("view_caches", {})
        for k in ("_size", "_shape", "_strides", "item_offsets", "field_offsets"):
            a, b = hc.get(k), vc.get(k)
            if isinstance(a, list): a = list(a)
            if isinstance(b, list): b = list(b)
            if a != b:
                return ("C06/view-%s-differs/%s" % (k, st), "handle %s=%s view %s=%s" % (k, str(a)[:80], k, str(b)[:80]))
        return None
    if pid == "C03":
        off, size = r["off"], r["size"]
        before, after = r["before"], r["after"]
        regions = [[off, size]] + [a for a in r["allocs"]]
        def inside(i):
            return any(o <= i < o + s for o, s in regions)
        for i in range(len(before)):
            if after[i] != before[i] and not inside(i):
                return ("C03/write-outside-extent/%s/%s" % (form, st), "byte %d outside [%d,%d) changed" % (i, off, off + size))
        if r.get("get_size") != size:
            return ("C03/size-report-differs/%s" % st, "_size=%s but stored size=%s" % (size, r.get("get_size")))
        if c["placement"][0] != "explicit" and (not r["allocs"] or r["allocs"][0] != [off, size]):
            return ("C03/size-differs-from-allocation/%s" % st, "allocated %s but object reports [%d,%d)" % (r["allocs"][:1], off, size))
        if coq_code == 2 and not uninit:
            return ("C03/size-differs-from-extent/%s/%s" % (form, st), "reported size differs from the extent of the documented image")
        return None


def run(ctx):
    pid = ctx.pid
    bud = BUDGET[ctx.tier]
    obl = check_obligations(ctx)
    rng = random.Random(ctx.seed)
    cases = []
    cdir = os.path.join(VERIF, "corpus", "layout")
    corpus = [json.load(open(os.path.join(cdir, f))) for f in sorted(os.listdir(cdir))] if os.path.isdir(cdir) else []
    cases += corpus
    cases += systematic_cases(rng)
    nfixed = len(cases)
    while len(cases) < bud["n"] + nfixed:
        cases.append(gen_case(rng, bud["depth"]))
    # explicit placement needs the size of the image: computed by the model's documented size = slot-rounded.. use a dry run
    # (the harness reserves max(expected,8) bytes; expected is computed below from a first default-placement run)
    sh = (len(cases) + bud["shards"] - 1) // bud["shards"]
    # dry run for explicit placement sizes
    for c in cases:
        if c["placement"][0] == "explicit":
            c["placement"] = ["explicit", image_size(c)]
    payloads = [{"cases": cases[i:i + sh]} for i in range(0, len(cases), sh)]
    results = []
    for r in run_impl_parallel(ctx, "layout", payloads):
        results += r["results"]
    # Coq judgement for constructed objects
    idx = [i for i, r in enumerate(results) if "off" in r and r.get("size") is not None and not cases[i].get("refs")]
    ridx = [i for i, r in enumerate(results) if "off" in r and r.get("size") is not None and cases[i].get("refs")]
    SH = 60; RSH = 25
    files = [("cases_%s_%d" % (pid, j // SH), cases_file([(cases[i], results[i]) for i in idx[j:j + SH]])) for j in range(0, len(idx), SH)]
    files += [("cases_%sr_%d" % (pid, j // RSH), ref_cases_file([(cases[i], results[i]) for i in ridx[j:j + RSH]])) for j in range(0, len(ridx), RSH)]
    res = coq_eval_many(ctx, files)
    codes = {}
    broken = None
    for fam, ids, sh in (("cases_%s_%%d" % pid, idx, SH), ("cases_%sr_%%d" % pid, ridx, RSH)):
        for j in range(0, len(ids), sh):
            rc, out = res[fam % (j // sh)]
            pairs = parse_pairs(out) if rc == 0 else None
            if pairs is None:
                broken = out[-1500:]; continue
            for a, b in pairs:
                codes[ids[j + a]] = b
    bysig = {}
    for i, (c, r) in enumerate(zip(cases, results)):
        j = judge(pid, c, r, codes.get(i))
        if j is None:
            continue
        sig, what = j
        if sig not in bysig or size_case(c) < size_case(cases[bysig[sig][0]]):
            bysig[sig] = (i, what)
    found = False
    for sig, (i, what) in sorted(bysig.items()):
        found = True
        c, r = cases[i], results[i]
        slim = {k: v for k, v in r.items() if k not in ("before", "after")}
        report(ctx, sig, what, dict(kind="concrete", tie="K-LAYOUT", case=c, observed=slim, coq_code=codes.get(i),
                                    how_to_replay="./check %s --replay <this file>" % pid))
    if broken:
        report(ctx, "%s/cases-do-not-evaluate" % pid, "cases file does not evaluate", dict(kind="broken-tie", log=broken), no_input=True)
    refcov = {}
    if pid == "C06":
        import c_refs
        rb = c_refs.BUDGET[ctx.tier]
        extra, refcov = c_refs.c06_histories(ctx, max(60, rb["n"] // 2), rb["nops"], rb["shards"])
        for sig, what, rep in extra:
            found = True
            report(ctx, sig, what, rep)
    if pid == "C06":
        import c_update
        extra, pccov = c_update.c09_part_copies(ctx, max(120, c_update.BUDGET[ctx.tier]["n"] // 3), 3, c_update.BUDGET[ctx.tier]["shards"], pid="C06")
        refcov = dict(refcov or {}); refcov.update(pccov)
        for sig, what, rep in extra:
            found = True
            report(ctx, sig, what, rep)
    if pid == "C05":
        import c_update
        ub = c_update.BUDGET[ctx.tier]
        extra, refcov = c_update.c05_histories(ctx, max(80, ub["n"] // 3), ub["depth"], ub["nops"], ub["shards"])
        for sig, what, rep in extra:
            found = True
            report(ctx, sig, what, rep)
    if pid == "C03":
        import c_refs
        rb = c_refs.BUDGET[ctx.tier]
        extra, refcov = c_refs.c03_histories(ctx, max(50, rb["n"] // 3), rb["nops"], rb["shards"])
        for sig, what, rep in extra:
            found = True
            report(ctx, sig, what, rep)
    if pid == "C03":
        import c_update
        ub = c_update.BUDGET[ctx.tier]
        extra, aucov = c_update.c03_update_histories(ctx, max(80, ub["n"] // 3), ub["depth"], ub["nops"], ub["shards"])
        refcov = dict(refcov or {}); refcov.update(aucov)
        for sig, what, rep in extra:
            found = True
            report(ctx, sig, what, rep)
        extra, pccov3 = c_update.c09_part_copies(ctx, max(120, ub["n"] // 3), 3, ub["shards"], pid="C03")
        refcov.update({"part_copies_for_C03": pccov3.get("part_copies")})
        for sig, what, rep in extra:
            found = True
            report(ctx, sig, what, rep)
        extra, rlcov = c03_relocation(ctx)
        refcov.update(rlcov)
        for sig, what, rep in extra:
            found = True
            report(ctx, sig, what, rep)
        extra, sucov = c03_string_update(ctx)
        refcov = dict(refcov or {}); refcov.update(sucov)
        for sig, what, rep in extra:
            found = True
            report(ctx, sig, what, rep)
    broken_obligations_violation(ctx, obl, found)
    hist = collections.Counter(); distinct = set()
    for c, r in zip(cases, results):
        hist["form:" + c["form"]] += 1; hist["top:" + c["type"]["k"]] += 1; hist["placement:" + c["placement"][0]] += 1
        hist["depth:%d" % G.depth_of(c["type"])] += 1
        hist["outcome:" + (r.get("stage") + ":" + r.get("exc", "") if "stage" in r else "constructed")] += 1
        hist["static" if G.is_static(c["type"]) else "dynamic"] += 1
        if c.get("refs"): hist["holds-references"] += 1
        if sig_type(c["type"]).startswith("array-"): hist["has-non-C-order-array"] += 1
        hist["buffer:" + c["prep"]["kind"]] += 1
        if c.get("ghost") is not None: hist["ghost-freed-before:" + ("landed-on-it" if r.get("ghost") and r.get("off") == r["ghost"][0] else "elsewhere")] += 1
        if G.depth_of(c["type"]) >= 1:
            distinct.add(hashlib.sha1(json.dumps([c["type"], c["value"], c["form"]], sort_keys=True).encode()).hexdigest())
    k = len(cases) - 1
    cov = dict(evaluations=len(cases), distinct_nontrivial=len(distinct), judged_in_coq=len(idx) + len(ridx), reference_holders_judged_in_coq=len(ridx),
               rule="seeded random (type, value, input form, placement, buffer preparation): types of depth <= %d over the 10 scalar kinds, String, Struct (0-4 fields), arrays 1-3D static/dynamic dims with every axis order; values incl. empty arrays/strings, multi-byte UTF-8, integer extremes, non-finite floats; forms plain data / numpy / another xobject / kwargs / capacity / lengths; buffers of both CPU kinds, capacity 0..4096, default alignment 1..64, prior allocations and frees, poisoned with non-zero bytes; placement default/aligned/packed/explicit. distinct = distinct (type, value, form) with a compound type" % bud["depth"],
               samples=[{"type": cases[k]["type"], "value": cases[k]["value"], "form": cases[k]["form"], "placement": cases[k]["placement"]}],
               distribution=dict(sorted(hist.items())), corpus_cases=len(corpus))
    cov.update(refcov)
    return finish(ctx, "proof", obl, cov,
                  ["strings are valid UTF-8 without NUL; explicit placements point at space the caller reserved",
                   "scalar payloads are bit patterns: python-number -> dtype conversion is numpy's",
                   "arrays created from lengths only ('dims') are uninitialised by documentation: only their header is judged",
                   "objects holding references are built from plain data and judged with the whole buffer (heap_img_ok: image of the holder + strict decoder following the references); reference histories are C08/C09"])


def image_size(c):
    """size of the documented image, computed independently in python (only used to reserve space for explicit placement)"""
    def sz(t, v):
        k = t["k"]
        if k == "scalar": return G.SSIZE[t["name"]]
        if k == "string": return v["size"]
        if k == "struct":
            tot = 0 if G.is_static(t) else 8
            nd = 0
            for (_, ft), fv in zip(t["fields"], v["f"]):
                tot += G.slot(sz(ft, fv))
                if not G.is_static(ft): nd += 1
            return tot + 8 * max(0, nd - 1)
        if k == "array":
            n = len(v["items"]); ndyn = sum(1 for d in t["shape"] if d is None)
            st = G.is_static(t["item"])
            hdr = (0 if (st and ndyn == 0) else 8) + 8 * ndyn + (8 * len(t["shape"]) if ndyn > 0 and len(t["shape"]) > 1 else 0)
            if st:
                isz = sz(t["item"], v["items"][0]) if n else 0
                if n == 0:
                    isz = 0
                return G.slot(hdr + sum(sz(t["item"], x) for x in v["items"]))
            return G.slot(hdr + 8 * n + sum(G.slot(sz(t["item"], x)) for x in v["items"]))
        return 8
    return max(8, sz(c["type"], c["value"]))




# ------------------------------------------------------------------ C03: constructions after a relocation
def relocation_cases(seed):
    rng = random.Random(seed + 333)
    cases = []; k = 0
    for dyn in ("array", "string", "static", "none"):
        for holder in ("ref", "union", "refarray"):
            for dest in ("other-buffer", "other-context", "same-buffer"):
                k += 1
                cases.append({"seed": k, "dyn": dyn, "holder": holder, "dest": dest, "cap": rng.choice([256, 1024]), "nleft": rng.choice([0, 1, 4]),
                              "new_sizes": [rng.choice([0, 1, 2]), rng.choice([3, 4, 5]), rng.choice([6, 9, 20])]})
    return cases


def c03_relocation(ctx):
    cases = relocation_cases(ctx.seed)
    results = run_impl(ctx, "relocate", {"cases": cases})["results"]
    bysig = {}; hist = collections.Counter()
    for c, r in zip(cases, results):
        hist["moved" if r.get("moved") else "not-run:" + str(r.get("note", r.get("harness", "?")))[:40]] += 1
        if r.get("harness"):
            bysig.setdefault("C03/relocation/harness-problem", (c, r["harness"] + r.get("tb", "")[-200:], r))
        for v in r["violations"]:
            sig = "C03/relocation/%s/%s-via-%s" % (v["what"], c["dest"], c["holder"])
            bysig.setdefault(sig, (c, v["detail"], r))
    out = [(sig, what, dict(kind="concrete", tie="K-RELOCATE", case=c, observed=r, how_to_replay="./check C03 --replay <this file>")) for sig, (c, what, r) in sorted(bysig.items())]
    return out, dict(relocation_probes=len(cases), relocation_outcomes=dict(hist))

# ------------------------------------------------------------------ C03: the stand-alone assignment method of strings
def string_update_cases(seed):
    rng = random.Random(seed + 303)
    texts = ["", "a", "abcdefg", "abcdefgh", "0123456789", "0123456789abcde", "0123456789abcdef", "\u00e9\u00e8\u00ea", "x" * 23, "y" * 40]
    cases = []
    for init in list(range(1, 26)) + ["", "abc", "0123456", "01234567", "0123456789abcdef", "z" * 30]:
        for text in texts:
            cases.append({"kind": rng.choice(["numpy", "bytearray"]), "cap_buffer": 160, "init": init, "text": text,
                          "via": rng.choice(["handle", "view"]), "value_as": rng.choice(["str", "str", "xobj"])})
    return cases


def judge_string_update(c, r):
    out = []
    tag = ("capacity" if isinstance(c["init"], int) else "text") + "/" + ("accepted" if r["ok"] else "refused")
    if r["outside_changed"]:
        out.append(("C03/string-update/bytes-outside-the-string-changed/" + tag, "String(%r).update(%r): bytes %s outside [%d,%d) changed" % (c["init"], c["text"], r["outside_changed"], r["off"], r["off"] + r["size"])))
    if r["size_after"] != r["size"]:
        out.append(("C03/string-update/size-word-changed/" + tag, "size %d -> %d" % (r["size"], r["size_after"])))
    return out


def c03_string_update(ctx):
    cases = string_update_cases(ctx.seed)
    results = run_impl(ctx, "strupdate", {"cases": cases})["results"]
    bysig = {}; hist = collections.Counter()
    for c, r in zip(cases, results):
        hist["accepted" if r["ok"] else "refused:" + r.get("exc", "?")] += 1
        for sig, what in judge_string_update(c, r):
            if sig not in bysig: bysig[sig] = (c, what, r)
    out = [(sig, what, dict(kind="concrete", tie="K-STRUPDATE", case=c, observed=r, how_to_replay="./check C03 --replay <this file>")) for sig, (c, what, r) in sorted(bysig.items())]
    return out, dict(string_update_probes=len(cases), string_update_outcomes=dict(hist))

def replay(ctx, path):
    r = json.load(open(path))
    if r.get("tie") == "K-RELOCATE":
        res = run_impl(ctx, "relocate", {"cases": [r["case"]]})["results"][0]
        print(res); print("REPRODUCED" if res["violations"] else "not reproduced")
        return 1 if res["violations"] else 0
    if r.get("tie") == "K-STRUPDATE":
        res = run_impl(ctx, "strupdate", {"cases": [r["case"]]})["results"][0]
        js = judge_string_update(r["case"], res)
        print(res); print("REPRODUCED" if js else "not reproduced")
        return 1 if js else 0
    if r.get("kind") != "concrete":
        print("nothing to execute:", r.get("what")); return 1
    if r.get("tie") == "K-REF":
        import c_refs
        return c_refs.c03_replay(ctx, r) if r.get("mode") == "c03" else c_refs.c06_replay(ctx, r)
    c = r["case"]
    res = run_impl(ctx, "layout", {"cases": [c]})["results"][0]
    code = None
    if "off" in res and res.get("size") is not None:
        rc, out = coq_run(ctx, "replay_%s" % ctx.pid, (ref_cases_file if c.get("refs") else cases_file)([(c, res)]))
        pairs = parse_pairs(out) if rc == 0 else None
        code = pairs[0][1] if pairs else None
    j = judge(ctx.pid, c, res, code)
    print(json.dumps({k: v for k, v in res.items() if k not in ("before", "after")})[:1500])
    print("REPRODUCED %s" % (j,) if j else "not reproduced")
    return 1 if j else 0
