"""C16: source specialisation. K-SPEC-TEXT: the structure of the text the real specialize_source produces for generated
annotated sources is compared inside Coq with the model (SpecSem.specialize); K-SPEC-EXEC: kernels with vectorised blocks
are really run (cpu serial / OpenMP through ContextCpu; opencl / cuda expansions compiled with gcc and launched with the
contexts' geometry) and the per-index execution counts compared with SpecSem.block_runs."""
import json, os, hashlib, collections, random
from core import *

BUDGET = {"quick": dict(n_text=260, n_exec=10, shards=6), "thorough": dict(n_text=6000, n_exec=120, shards=16)}
TG = {"cpu_serial": "CpuSerial", "cpu_openmp": "CpuOpenmp", "opencl": "Opencl", "cuda": "Cuda"}
TARGETS = list(TG)


def gen_items(rng, nlines, allow_include=True, allow_nested=False):
    items = []; inside = False; lid = [0]
    def L():
        lid[0] += 1; return lid[0]
    for _ in range(nlines):
        r = rng.random()
        if r < 0.45: items.append(["plain", L()])
        elif r < 0.65: items.append(["only", L(), sorted(rng.sample(TARGETS, rng.randint(1, 3)))])
        elif r < 0.75 and allow_include: items.append(["include", rng.randint(1, 3), sorted(rng.sample(TARGETS, rng.randint(1, 3)))])
        elif r < 0.9:
            if not inside or (allow_nested and rng.random() < 0.5):
                items.append(["open", rng.randint(1, 2), rng.randint(1, 6)]); inside = True
            else:
                items.append(["close"]); inside = False
        else:
            if inside: items.append(["close"]); inside = False
            else: items.append(["plain", L()])
    if inside and rng.random() < 0.9: items.append(["close"])
    return items


def gen_text_case(rng):
    kind = rng.random()
    if kind < 0.15:
        return {"items": [["plain", i + 1] for i in range(rng.randint(0, 8))], "files": {}, "plain_only": True}
    c = {"items": gen_items(rng, rng.randint(1, 14), allow_nested=(kind > 0.9)), "files": {}}
    for it in c["items"]:
        if it[0] == "include" and str(it[1]) not in c["files"] and rng.random() < 0.92:
            # included files may contain restricted lines and whole blocks, but no further includes
            body = gen_items(rng, rng.randint(0, 4), allow_include=False)
            if any(x[0] == "open" for x in body) and any(x[0] == "open" for x in c["items"]):
                body = [x for x in body if x[0] not in ("open", "close")]
            c["files"][str(it[1])] = [[x[0], x[1] + 100 * it[1]] + x[2:] if x[0] in ("plain", "only") else x for x in body]
    return c


def item_term(it):
    k = it[0]
    ctx = lambda l: "[%s]" % "; ".join(TG[t] for t in l)
    if k == "plain": return "Plain %s" % natlit(it[1])
    if k == "only": return "OnlyFor %s %s" % (natlit(it[1]), ctx(it[2]))
    if k == "include": return "Include %s %s" % (natlit(it[1]), ctx(it[2]))
    if k == "open": return "VecOpen %s %s" % (natlit(it[1]), natlit(it[2]))
    return "VecClose"


def oline_term(o):
    k = o[0]
    if k == "line": return "OLine %s" % natlit(o[1])
    if k == "commented": return "OCommented %s" % natlit(o[1])
    if k == "for": return "OFor %s %s" % (natlit(o[1]), natlit(o[2]))
    if k == "globalid": return "OGlobalId %s %s" % (natlit(o[1]), "true" if o[2] else "false")
    if k == "cudaguard": return "OCudaGuard %s %s %s" % (natlit(o[1]), natlit(o[2]), "true" if o[3] else "false")
    if k == "end": return "OEnd %s" % natlit(o[1])
    return "OUnknown"


def tcase_term(c, tg, r):
    files = "; ".join("(%s, [%s])" % (natlit(int(f)), "; ".join(item_term(x) for x in body)) for f, body in c["files"].items())
    if "exc" in r:
        out = {"ValueError": "TValueError", "OSError": "TIOError", "IOError": "TIOError", "FileNotFoundError": "TIOError"}.get(r["exc"], "TOther")
    else:
        out = "TLines [%s]" % "; ".join(oline_term(o) for o in r["lines"])
    return "mkTC %s [%s] [%s] (%s)" % (TG[tg], files, "; ".join(item_term(x) for x in c["items"]), out)


def ecase_term(tg, n, B, nb, log):
    w = n + 4
    counts = [log[b * w:(b + 1) * w] for b in range(nb)]
    return "mkEC %s %s %s [%s]" % (TG[tg], zlit(n), zlit(B), "; ".join(zlist(x) for x in counts))


def run(ctx):
    bud = BUDGET[ctx.tier]
    obl = check_obligations(ctx)
    rng = random.Random(ctx.seed + 16)
    texts = [gen_text_case(rng) for _ in range(bud["n_text"])]
    # two blocks with one loop variable; several blocks; context-restricted line inside a block
    execs = []
    for i in range(bud["n_exec"]):
        nb = rng.choice([1, 2, 2, 3])
        same = rng.random() < 0.5
        blocks = [{"var": "tid" if same else "t%d" % b, "only": (sorted(rng.sample(TARGETS, rng.randint(1, 2))) if rng.random() < 0.4 else None)} for b in range(nb)]
        B = rng.choice([1, 2, 3, 4, 32])
        ns = sorted(set([0, 1, 2, B - 1 if B > 1 else 3, B, B + 1, 3 * B + 2, rng.randint(0, 40)]))
        execs.append({"blocks": blocks, "B": B, "ns": ns})
    sh = (len(texts) + bud["shards"] - 1) // bud["shards"]
    esh = (len(execs) + bud["shards"] - 1) // bud["shards"]
    payloads = [{"text": texts[i * sh:(i + 1) * sh], "exec": execs[i * esh:(i + 1) * esh]} for i in range(bud["shards"])]
    tres, eres = [], []
    for r in run_impl_parallel(ctx, "spec", payloads, timeout=2400):
        tres += r["text"]; eres += r["exec"]
    bysig = {}
    def note(sig, what, replay):
        if sig not in bysig or len(json.dumps(replay)) < len(json.dumps(bysig[sig][1])):
            bysig[sig] = (what, replay)
    # ---- text: judged in Coq
    titems = []
    for ci, (c, r) in enumerate(zip(texts, tres)):
        if "harness_exc" in r:
            note("C16/harness-problem", r["harness_exc"], {"case": c}); continue
        for tg in TARGETS:
            titems.append((ci, tg))
            if c.get("plain_only") and r[tg].get("identical") is False:
                note("C16/unannotated-text-changed/%s" % tg, "text without annotations or placeholders came back different", {"case": c, "target": tg})
    body = "From Coq Require Import ZArith List.\nImport ListNotations.\nFrom XO Require Import SpecSem AllocSpec.\nOpen Scope Z_scope.\n"
    SH = 400
    files = []
    for j in range(0, len(titems), SH):
        b = body + "Definition cs : list tcase := [\n  " + ";\n  ".join(tcase_term(texts[ci], tg, tres[ci][tg]) for ci, tg in titems[j:j + SH]) + "\n].\n"
        b += 'Goal True. idtac "@@t". exact I. Qed.\nEval vm_compute in (failing text_ok 0%nat cs).\n'
        files.append(("cases_C16_t%d" % (j // SH), b))
    # ---- exec: judged in Coq
    eitems = []
    for ki, (k, r) in enumerate(zip(execs, eres)):
        if "harness_exc" in r:
            note("C16/harness-problem", r["harness_exc"], {"kernel": k}); continue
        for tg in TARGETS:
            rr = r[tg]
            if "exc" in rr:
                two = len(set(b["var"] for b in k["blocks"])) < len(k["blocks"])
                note("C16/%s-expansion-does-not-%s%s" % (tg, "compile" if rr["exc"] == "CompileError" else "run:" + rr["exc"], "/two-blocks-share-the-loop-variable" if two else ""),
                     rr.get("msg", "")[-300:], {"kernel": k, "target": tg}); continue
            for n in k["ns"]:
                o = rr[str(n)]
                eitems.append((ki, tg, n, o))
                want_marks = [1 if tg.startswith("cpu") else 0, 1 if tg == "opencl" else 0, 1 if tg == "cuda" else 0, 1 if tg == "cpu_serial" else 0, 1 if tg == "cpu_openmp" else 0]
                launches = 1 if tg.startswith("cpu") else (n if tg == "opencl" else int(-(-n // k["B"])) * k["B"])
                if [1 if m > 0 else 0 for m in o["marks"]] != ([w if launches > 0 else 0 for w in want_marks]):
                    note("C16/context-restricted-line-active-in-the-wrong-context/%s" % tg, "marks %s for n=%d" % (o["marks"], n), {"kernel": k, "target": tg, "n": n})
        for key, wantm, base in (("cpu_openmp/set-later", [1, 0, 0, 0, 1], "cpu_openmp"), ("cpu_serial/set-later", [1, 0, 0, 1, 0], "cpu_serial")):
            rr2 = r.get(key)
            if rr2 is None: continue
            if "exc" in rr2:
                note("C16/%s-does-not-run:%s" % (key, rr2["exc"]), rr2.get("msg", "")[-300:], {"kernel": k, "target": key}); continue
            for n in k["ns"]:
                o = rr2[str(n)]
                if [1 if m > 0 else 0 for m in o["marks"]] != wantm or o["log"] != r[base].get(str(n), {}).get("log", o["log"]):
                    note("C16/context-restricted-line-active-in-the-wrong-context/%s" % key, "marks %s for n=%d (omp_num_threads changed after the context was made)" % (o["marks"], n), {"kernel": k, "target": base, "n": n})
        rr1 = r.get("cpu_openmp/1-thread")
        if rr1 is not None:
            if "exc" in rr1:
                note("C16/cpu_openmp-with-one-thread-does-not-run:%s" % rr1["exc"], rr1.get("msg", "")[-300:], {"kernel": k, "target": "cpu_openmp/1-thread"})
            else:
                for n in k["ns"]:
                    o = rr1[str(n)]
                    if [1 if m > 0 else 0 for m in o["marks"]] != [1, 0, 0, 0, 1] or o["log"] != r["cpu_openmp"].get(str(n), {}).get("log", o["log"]):
                        note("C16/context-restricted-line-active-in-the-wrong-context/cpu_openmp-one-thread", "marks %s for n=%d (an OpenMP context with omp_num_threads=1)" % (o["marks"], n), {"kernel": k, "target": "cpu_openmp", "n": n})
    def ecounts(k, tg, n, o):
        # lines restricted to contexts add 100 per execution where active: separate them from the plain count
        nb = len(k["blocks"]); w = n + 4
        log = list(o["log"]); bad = None
        for b, blk in enumerate(k["blocks"]):
            for i in range(w):
                x = log[b * w + i]
                act = blk.get("only") and tg in blk["only"]
                if act:
                    if x % 101 != 0: bad = (b, i, x)
                    log[b * w + i] = x // 101
                elif x >= 100:
                    bad = (b, i, x)
        return log, bad
    efiles = []
    for j in range(0, len(eitems), SH):
        terms = []
        for ki, tg, n, o in eitems[j:j + SH]:
            log, bad = ecounts(execs[ki], tg, n, o)
            if bad:
                note("C16/context-restricted-line-inside-block-wrong/%s" % tg, "block %d index %d count %d" % bad, {"kernel": execs[ki], "target": tg, "n": n})
            terms.append(ecase_term(tg, n, execs[ki]["B"], len(execs[ki]["blocks"]), log))
        b = body + "Definition cs : list ecase := [\n  " + ";\n  ".join(terms) + "\n].\n"
        b += 'Goal True. idtac "@@e". exact I. Qed.\nEval vm_compute in (failing exec_ok 0%nat cs).\n'
        efiles.append(("cases_C16_e%d" % (j // SH), b))
    res = coq_eval_many(ctx, files + efiles)
    broken = None
    for j in range(0, len(titems), SH):
        rc, out = res["cases_C16_t%d" % (j // SH)]
        pairs = parse_pairs(out) if rc == 0 else None
        if pairs is None: broken = out[-1500:]; continue
        for a, code in pairs:
            ci, tg = titems[j + a]
            c = texts[ci]; r = tres[ci][tg]
            feats = sorted(set(x[0] for x in c["items"]) - {"plain"})
            what = {1: "include handling differs (file missing / context)", 2: "the specialised text does not have the structure the model derives", 3: "error behaviour differs (nested block / missing file)"}[code]
            note("C16/text-structure/%s/code%d/%s" % (tg, code, "+".join(feats) or "plain"), what + ": observed %s" % json.dumps(r)[:200], {"case": c, "target": tg})
    for j in range(0, len(eitems), SH):
        rc, out = res["cases_C16_e%d" % (j // SH)]
        pairs = parse_pairs(out) if rc == 0 else None
        if pairs is None: broken = out[-1500:]; continue
        for a, code in pairs:
            ki, tg, n, o = eitems[j + a]
            note("C16/block-body-not-run-once-per-index/%s/%s" % (tg, "n=0" if n == 0 else ("n<B" if n < execs[ki]["B"] else "n>=B")),
                 "n=%d B=%d counts %s" % (n, execs[ki]["B"], o["log"][:40]), {"kernel": execs[ki], "target": tg, "n": n})
    found = False
    for sig, (what, rep) in sorted(bysig.items()):
        found = True
        report(ctx, sig, what, dict(kind="concrete", tie="K-SPEC", **rep, how_to_replay="./check C16 --replay <this file>"))
    if broken:
        report(ctx, "C16/cases-do-not-evaluate", "cases file does not evaluate", dict(kind="broken-tie", log=broken), no_input=True)
    broken_obligations_violation(ctx, obl, found)
    hist = collections.Counter()
    for c in texts:
        for x in c["items"]: hist["item:" + x[0]] += 1
        if c.get("plain_only"): hist["plain-only-source"] += 1
    for k in execs:
        hist["kernel:%d-blocks%s" % (len(k["blocks"]), "-same-var" if len(set(b["var"] for b in k["blocks"])) < len(k["blocks"]) else "")] += 1
    distinct = set(hashlib.sha1(json.dumps(c, sort_keys=True).encode()).hexdigest() for c in texts if len(c["items"]) >= 2)
    cov = dict(evaluations=len(titems) + len(eitems), distinct_nontrivial=len(distinct), text_cases=len(texts), kernels_executed=len(execs), launches_judged=len(eitems),
               rule="(text) generated sources over the annotation vocabulary (plain lines, only_for_context, include_file with and without the file present, vectorize_over/end_vectorize incl. nested and unclosed blocks, blocks inside included files) x 4 targets: the real output is read back line by line and its structure compared in Coq with SpecSem.specialize; annotation-free text must come back identical. (exec) kernels with 1-3 vectorised blocks (same or different loop variable, context-restricted lines inside blocks) run for n in {0,1,2,B-1,B,B+1,3B+2,random}: cpu_serial and cpu_openmp through the real ContextCpu, opencl and cuda expansions compiled by gcc with a shim and launched with the contexts' geometry (global size n; ceil(n/B) blocks of B threads); per-index execution counts compared in Coq with block_runs.",
               samples=[{"items": texts[-1]["items"], "files": texts[-1]["files"]}, {"kernel": execs[-1]}], distribution=dict(sorted(hist.items())))
    return finish(ctx, "proof", obl, cov,
                  ["OpenMP scheduling and real GPU execution are not exhibited by the model: GPU launches are simulated on the host with the geometry read from context_pyopencl / context_cupy",
                   "a launch of zero work-items / zero blocks (n = 0) is a no-op in the GPU runtimes (assumed)",
                   "equal multisets of executions give equal results when the body for index i touches only data of index i"])


def replay(ctx, path):
    r = json.load(open(path))
    if r.get("kind") != "concrete":
        print("nothing to execute:", r.get("what")); return 1
    pl = {"text": [r["case"]] if "case" in r else [], "exec": [r["kernel"]] if "kernel" in r else []}
    out = run_impl(ctx, "spec", pl, timeout=600)
    print(json.dumps(out)[:3000])
    return 1
