"""C10 / C11: histories of assignments through handles and views; fitting ones must change exactly
that element (C10), misuse must raise and change nothing (C11). Judged by Update.updates_ok in Coq
(the expected value tree and the fits-predicate are the model's) and by direct oracles."""
import json, os, hashlib, collections, random, copy
from core import *
import gen_types as G
import c_layout as L

BUDGET = {"quick": dict(n=520, depth=3, shards=12, nops=8), "thorough": dict(n=4000, depth=4, shards=16, nops=20)}


# ---- python mirror of Update.v (used for the direct oracle and to generate fitting values)
def vget(v, path):
    for kind, i in path:
        v = v["f"][i] if kind == "f" else v["items"][i]
    return v


def vset(v, path, x):
    v = copy.deepcopy(v)
    if not path:
        return x
    cur = v
    for kind, i in path[:-1]:
        cur = cur["f"][i] if kind == "f" else cur["items"][i]
    kind, i = path[-1]
    if kind == "f": cur["f"][i] = x
    else: cur["items"][i] = x
    return v


def retag(t, old, new):
    """new value with the capacities of old; None if shapes differ or a string does not fit"""
    k = t["k"]
    if k == "scalar":
        return new if len(new) == len(old) else None
    if k == "string":
        if 8 + len(new["s"]) + 1 > old["size"] or 0 in new["s"]:
            return None
        return {"s": new["s"], "size": old["size"]}
    if k == "struct":
        if len(new["f"]) != len(old["f"]): return None
        out = []
        for (_, ft), o, n in zip(t["fields"], old["f"], new["f"]):
            r = retag(ft, o, n)
            if r is None: return None
            out.append(r)
        return {"f": out}
    if k == "array":
        if new["shape"] != old["shape"] or len(new["items"]) != len(old["items"]): return None
        out = []
        for o, n in zip(old["items"], new["items"]):
            r = retag(t["item"], o, n)
            if r is None: return None
            out.append(r)
        return {"shape": old["shape"], "items": out}


def sub_ty(t, path):
    for kind, i in path:
        t = t["fields"][i][1] if kind == "f" else t["item"]
    return t


def all_paths(t, v, prefix=()):
    """every element position: (path, type) for fields/items at any depth"""
    out = []
    if t["k"] == "struct":
        for i, ((_, ft), fv) in enumerate(zip(t["fields"], v["f"])):
            p = prefix + (("f", i),)
            out.append((p, ft)); out += all_paths(ft, fv, p)
    elif t["k"] == "array":
        for c, x in enumerate(v["items"]):
            p = prefix + (("i", c),)
            out.append((p, t["item"])); out += all_paths(t["item"], x, p)
    return out


def gen_like(rng, t, old, fit=True):
    """a new value of the same shape as old; strings fitting (or not) the old capacity"""
    k = t["k"]
    if k == "scalar":
        return G.scalar_value(rng, t["name"])
    if k == "string":
        cap = old["size"] - 9
        # the boundary: the longest text that still leaves room for the terminating NUL / the shortest that does not
        if rng.random() < 0.3 and cap + (0 if fit else 1) >= 0:
            n = cap if fit else cap + 1
            return {"s": [rng.randrange(97, 123) for _ in range(n)], "size": old["size"]}
        pool = [s for s in G.STRINGS if len(s.encode()) <= cap] if fit else [s for s in G.STRINGS if len(s.encode()) > cap]
        if not pool:
            pool = ["x" * (cap + 1 + rng.randint(0, 20))] if not fit else [""]
        s = rng.choice(pool).encode()
        return {"s": list(s), "size": old["size"]}
    if k == "struct":
        return {"f": [gen_like(rng, ft, o, fit) for (_, ft), o in zip(t["fields"], old["f"])]}
    if k == "array":
        return {"shape": old["shape"], "items": [gen_like(rng, t["item"], o, fit) for o in old["items"]]}


def has_string(t):
    return G.has_kind(t, "string")


def wrong_tail(et, v):
    """v (of compound type et, at least two parts) with its last part replaced by a value of the wrong kind"""
    def wrong(t):
        if t["k"] == "scalar": return {"wrong": "dict"}
        if t["k"] == "struct" and not t["fields"]: return None      # nothing to refuse
        return {"wrong": "obj"}        # (None for a nested struct / array means "default / leave as it is")
    if et["k"] == "struct" and len(et["fields"]) >= 2 and wrong(et["fields"][-1][1]):
        return {"f": list(v["f"][:-1]) + [wrong(et["fields"][-1][1])]}
    if et["k"] == "array" and len(v["items"]) >= 2 and wrong(et["item"]):
        return {"shape": list(v["shape"]), "items": list(v["items"][:-1]) + [wrong(et["item"])]}
    return None


def same_structure(t, old, new):
    """Update.retag succeeds in the Coq model: same shapes and number widths everywhere (strings of any length)"""
    k = t["k"]
    if k == "scalar": return len(new) == len(old)
    if k == "string": return 0 not in new["s"]
    if k == "struct": return len(new["f"]) == len(old["f"]) and all(same_structure(ft, o, n) for (_, ft), o, n in zip(t["fields"], old["f"], new["f"]))
    if k == "array": return new["shape"] == old["shape"] and len(new["items"]) == len(old["items"]) and all(same_structure(t["item"], o, n) for o, n in zip(old["items"], new["items"]))
    return False


def shortest(t, v):
    """v with every text replaced by the empty one (an object built from it takes the least space its shape allows)"""
    k = t["k"]
    if k == "string": return {"s": [], "size": 16}
    if k == "struct": return {"f": [shortest(ft, fv) for (_, ft), fv in zip(t["fields"], v["f"])]}
    if k == "array": return {"shape": list(v["shape"]), "items": [shortest(t["item"], x) for x in v["items"]]}
    return v


MAX_CASE = 64000


def gen_case(rng, depth, nops):
    """histories are bounded in size (the JSON of type, value and operations): a generated object of
    hundreds of kilobytes re-read after each of 20 steps is a 15 MB literal that Coq does not evaluate within
    the time limit (seen once at the thorough tier); such a draw is discarded and drawn again, which leaves
    the stream of all other cases as it was"""
    while True:
        c = _gen_case(rng, depth, nops)
        if len(json.dumps(c)) <= MAX_CASE:
            return c


def _gen_case(rng, depth, nops):
    t = G.gen_type(rng, rng.randint(1, depth))
    while t["k"] == "string":
        t = G.gen_type(rng, rng.randint(1, depth))
    v = G.gen_value(rng, t)
    base = L.gen_case(rng, 1)
    c = {"type": t, "value": v, "prep": base["prep"], "ops": []}
    cur = v
    for _ in range(nops):
        paths = all_paths(t, cur)
        r = rng.random()
        if r < 0.10 or not paths:
            c["ops"].append({"mode": "grow", "extra": rng.choice([1, 64, 1000])}); continue
        if r < 0.16:
            c["ops"].append({"mode": rng.choice(["misuse_ctx", "misuse_offset"]), "offset": rng.choice([None, "zero", "npzero"]), "expect": None, "misuse": "wrong-owner"}); continue
        ndp = [(q, qt) for q, qt in paths if qt["k"] == "array" and len(qt["shape"]) > 1 and sum(1 for d in qt["shape"] if d is None) == 1]
        if 0.19 <= r < 0.22 and ndp:
            # an integer stands for a LENGTH: for an N-D array the number of items is not the length of its dynamic axis
            q, qt = rng.choice(ndp)
            oldv = vget(cur, q)
            dynlen = oldv["shape"][[d is None for d in qt["shape"]].index(True)]
            cands = [x for x in (len(oldv["items"]), dynlen + 1, 2 * dynlen) if x != dynlen and x > 0]
            if cands:
                c["ops"].append({"mode": "set", "path": [list(s) for s in q], "raw": rng.choice(cands), "via": rng.choice(["handle", "view"]), "expect": None,
                                 "misuse": "integer-for-an-N-D-array"}); continue
        if r < 0.19 and wrong_tail(t, cur) is not None:
            c["ops"].append({"mode": "misuse_construct_at", "bad": wrong_tail(t, cur), "expect": None, "misuse": "refused-construction-at-reserved-offset"}); continue
        p, et = rng.choice(paths)
        apool = [(q, qt) for q, qt in paths if qt["k"] == "array"]
        if apool and rng.random() < 0.3:      # whole-array operations deserve their share
            p, et = rng.choice(apool)
        old = vget(cur, p)
        via = rng.choice(["handle", "view"])
        if r < 0.70:          # fitting assignment of a leaf or of a whole nested compound of equal size
            new = gen_like(rng, et, old, fit=True)
            form = "np" if (et["k"] == "array" and rng.random() < 0.5) else "py"
            if et["k"] in ("array", "struct") and rng.random() < 0.25:
                # another xobject as the new value: of the same class, or (N-D arrays) of the array class
                # with the same items and shape but another axis order
                form = "xobj_oo" if (et["k"] == "array" and len(et["shape"]) > 1 and rng.random() < 0.6) else "xobj"
                if form == "xobj" and et["k"] == "struct" and not G.is_static(et) and rng.random() < 0.5:
                    new = shortest(et, new)      # an object of the same class that is strictly SMALLER than the element
                # an object carries its own string capacities; keep the history unambiguous: use it only when
                # they coincide with the capacities fixed at creation (else the value goes in as plain data)
                # (when the object's image has another length than the element, only the field-wise reading exists)
                if form == "xobj" and et["k"] == "struct" and not G.is_static(et) and rng.random() < 0.4 and json.dumps(permute(et, old)) != json.dumps(old):
                    new = permute(et, nocap(old))      # same total size, the variable-size parts distributed differently
                rt = retag(et, old, new)
                sc = source_caps(et, new)
                if form == "xobj" and et["k"] == "struct" and same_structure(et, old, new) and L.image_size({"type": et, "value": sc}) == L.image_size({"type": et, "value": old}):
                    # an object of the struct's class with exactly the element's size is copied as it is: the element
                    # takes the layout of the SOURCE (its parts may now sit elsewhere inside it)
                    op = {"mode": "set", "path": [list(s) for s in p], "new": new, "via": via, "form": "xobj", "expect": True, "exact_copy": True}
                    c["ops"].append(op); cur = vset(cur, p, sc); continue
                if rt is None or not unambiguous(et, rt, sc):
                    form = "py"
            omit = []
            if form == "py" and et["k"] == "struct" and rng.random() < 0.4:
                # plain data that names every field at the top but only SOME fields of a nested struct: what is not named stays
                nest = [i for i, (_, ft) in enumerate(et["fields"]) if ft["k"] == "struct" and len(ft["fields"]) >= 2]
                if nest:
                    i = rng.choice(nest); nf = len(et["fields"][i][1]["fields"])
                    drop = rng.sample(range(nf), rng.randint(1, nf - 1))
                    new = copy.deepcopy(new)
                    for j in drop:
                        new["f"][i]["f"][j] = copy.deepcopy(old["f"][i]["f"][j]); omit.append([i, j])
            exp = retag(et, old, new)
            op = {"mode": "set", "path": [list(s) for s in p], "new": new, "via": via, "form": form, "expect": exp is not None}
            if omit: op["omit"] = omit
            c["ops"].append(op)
            if exp is not None:
                cur = vset(cur, p, exp)
        elif r < 0.80 and has_string(et):     # misfit: a string somewhere inside too large for its space
            new = gen_like(rng, et, old, fit=False)
            c["ops"].append({"mode": "set", "path": [list(s) for s in p], "new": new, "via": via, "expect": retag(et, old, new) is not None,
                             "misuse": "too-large"})
            if retag(et, old, new) is not None:
                cur = vset(cur, p, retag(et, old, new))
        elif r < 0.84 and wrong_tail(et, old) is not None:
            # misuse: a whole struct / array whose LAST part (in assignment order) is of the wrong kind (a dict or None
            # where a number is expected, None where a nested struct / array is expected): the parts before it fit and
            # differ from the stored ones, so a refusal that does not restore them shows
            new = wrong_tail(et, gen_like(rng, et, old, fit=True))
            c["ops"].append({"mode": "set", "path": [list(s) for s in p], "new": new, "via": via, "expect": None,
                             "misuse": "later-part-of-wrong-kind"})
        elif r < 0.90 and et["k"] == "array" and len(old["items"]) >= 1:   # misfit: update with another length / shape
            sh = list(old["shape"]); ax = rng.randrange(len(sh)); sh[ax] += rng.choice([1, 2]) if sh[ax] < 2 or rng.random() < 0.5 else -1
            if len(sh) > 1 and rng.random() < 0.5:
                # same number of items, another shape (only dynamic axes can differ from the class shape at all)
                n0 = len(old["items"])
                alts = [list(reversed(old["shape"])), [n0] + [1] * (len(sh) - 1), [1] * (len(sh) - 1) + [n0]]
                alts = [a for a in alts if a != old["shape"] and all(cd is None or cd == d for cd, d in zip(et["shape"], a))]
                if alts:
                    sh = rng.choice(alts)
            n = 1
            for d in sh: n *= d
            if any(cd is not None and cd != d for cd, d in zip(et["shape"], sh)) and False:
                continue
            new = {"shape": sh, "items": [gen_like(rng, et["item"], old["items"][0]) for _ in range(n)]}
            if n == 0 and len(sh) > 1:
                continue
            form = "py"
            if et["item"]["k"] == "scalar" and rng.random() < 0.5:
                # a numpy value of another shape that numpy itself would broadcast to the right one
                form = "np"
                alts = [[1] * len(old["shape"])] + ([list(old["shape"][1:])] if len(old["shape"]) > 1 else []) + ([[old["shape"][0]] + [1] * (len(old["shape"]) - 1)] if len(old["shape"]) > 1 else [])
                alts = [a for a in alts if a != list(old["shape"]) and all(d > 0 for d in a)]
                if alts:
                    sh = rng.choice(alts); n = 1
                    for d in sh: n *= d
                    new = {"shape": sh, "items": [gen_like(rng, et["item"], old["items"][0]) for _ in range(n)]}
            c["ops"].append({"mode": "set", "path": [list(s) for s in p], "new": new, "via": via, "form": form, "expect": False, "misuse": "wrong-length-or-shape" + ("/numpy-broadcastable" if form == "np" else "")})
        else:                 # misuse: index outside the shape of some array on the way
            apaths = [(q, qt) for q, qt in paths if q[-1][0] == "i"]
            if not apaths:
                continue
            q, qt = rng.choice(apaths)
            parent = vget(cur, q[:-1])
            shape = parent["shape"]
            idx = [rng.randrange(d) for d in shape]
            ax = rng.randrange(len(shape))
            idx[ax] = rng.choice([shape[ax], shape[ax] + 3, -1, -shape[ax] - 1])
            new = gen_like(rng, qt, vget(cur, q))
            c["ops"].append({"mode": "set", "path": [list(s) for s in q], "new": new, "raw_index": idx, "via": via, "expect": None,
                             "misuse": "index-out-of-range" + ("-negative" if idx[ax] < 0 else "")})
    return c


def systematic_cases(rng):
    """whole-array and single-item assignments for every axis order of 2-D / 3-D arrays nested in a struct"""
    import itertools
    out = []
    prep = {"kind": "numpy", "cap": 1024, "al": 8, "poison": 0xA5, "pre": [["alloc", 24]]}
    for nd, dims in ((2, [2, 3]), (3, [2, 3, 2])):
        for order in itertools.permutations(range(nd)):
            for dyn in (False, True):
                at = {"k": "array", "item": {"k": "scalar", "name": "Int16"}, "shape": [None if dyn else d for d in dims], "order": list(order)}
                t = {"k": "struct", "name": G.struct_name([["upd", str(order), dyn]]), "fields": [["k", {"k": "scalar", "name": "Int64"}], ["a", at], ["z", {"k": "scalar", "name": "Int8"}]]}
                n = 1
                for d in dims: n *= d
                mk = lambda off: {"shape": list(dims), "items": [[(5 * i + off) & 255, (i + off) & 255] for i in range(n)]}
                v = {"f": [[1, 0, 0, 0, 0, 0, 0, 0], mk(0), [9]]}
                ops = []
                for j, (form, via) in enumerate((("np", "handle"), ("py", "view"), ("np", "view"), ("xobj_oo", "handle"), ("xobj", "view"))):
                    ops.append({"mode": "set", "path": [["f", 1]], "new": mk(10 * (j + 1)), "via": via, "form": form, "expect": True})
                    if j == 0:
                        ops.append({"mode": "grow", "extra": 64})
                ops.append({"mode": "set", "path": [["f", 1], ["i", n - 2]], "new": [200, 100], "via": "handle", "form": "py", "expect": True})
                # misuse, systematically: the same number of items under another shape, one item more along an axis,
                # a last item of the wrong kind -- each must be refused and change nothing
                def other(shape, off, form, via):
                    m = 1
                    for d in shape: m *= d
                    return {"mode": "set", "path": [["f", 1]], "new": {"shape": list(shape), "items": [[(3 * i + off) & 255, 1] for i in range(m)]},
                            "via": via, "form": form, "expect": False, "misuse": "wrong-length-or-shape"}
                ops.append(other(list(reversed(dims)) if nd == 2 else [3, 2, 2], 70, "py", "handle"))
                ops.append(other([n] + [1] * (nd - 1), 80, "np", "view"))
                ops.append(other([dims[0] + 1] + dims[1:], 90, "py", "view"))
                out.append({"type": t, "value": v, "prep": dict(prep, kind=rng.choice(["numpy", "bytearray"])), "ops": ops})
    # two item types of the SAME class name and different size, as items of equally shaped N-D arrays with stored
    # strides, one after the other in one process; the last item's leaves are assigned
    for nfields in (4, 1):
        it = {"k": "struct", "name": "SItemSameNameU", "fields": [["f%d" % j, {"k": "scalar", "name": "Float64"}] for j in range(nfields)]}
        t = {"k": "array", "item": it, "shape": [None, None], "order": [0, 1]}
        v = {"shape": [2, 3], "items": [{"f": [[(i + j) & 255] + [0] * 7 for j in range(nfields)]} for i in range(6)]}
        ops = [{"mode": "set", "path": [["i", c], ["f", nfields - 1]], "new": [200 + c] + [0] * 7, "via": via, "form": "py", "expect": True} for c, via in ((5, "handle"), (3, "view"), (4, "handle"))]
        ops.append({"mode": "set", "path": [["i", 5]], "new": {"f": [[9] + [0] * 7 for _ in range(nfields)]}, "via": "handle", "form": "py", "expect": True})
        out.insert(0 if nfields == 4 else 1, {"type": t, "value": v, "prep": dict(prep), "ops": ops})      # (first: they must run in ONE process, in this order)
    # a nested struct with several variable-size parts is replaced, as a whole, by an object of its class of the SAME
    # total size whose parts are distributed differently (copied as it is), then leaves are assigned and read again
    S = {"k": "string"}; F64 = {"k": "scalar", "name": "Float64"}; I64 = {"k": "scalar", "name": "Int64"}
    def sv(txt): return {"s": list(txt.encode()), "size": G.slot(len(txt.encode()) + 9)}
    for variant in range(2):      # (parts whose SHAPES differ are outside the model: an equal-size object of other shapes is copied as well)
        if variant == 0:
            fin = [["a", S], ["w", F64], ["b", S]]; vin = {"f": [sv("a-rather-long-string-of-characters"), [0] * 8, sv("b")]}
        elif variant == 1:
            it = {"k": "array", "item": S, "shape": [None], "order": [0]}
            fin = [["names", it], ["w", F64]]; vin = {"f": [{"shape": [3], "items": [sv("a-rather-long-string-of-characters"), sv("b"), sv("cc")]}, [0] * 8]}
        else:
            it = {"k": "array", "item": {"k": "array", "item": F64, "shape": [None], "order": [0]}, "shape": [None], "order": [0]}
            fin = [["rows", it], ["s", S]]
            vin = {"f": [{"shape": [2], "items": [{"shape": [3], "items": [[0] * 8] * 3}, {"shape": [1], "items": [[1] + [0] * 7]}]}, sv("xy")]}
        tin = {"k": "struct", "name": G.struct_name(fin), "fields": fin}
        fo = [["k", I64], ["inner", tin], ["z", I64]]
        t = {"k": "struct", "name": G.struct_name(fo), "fields": fo}
        v = {"f": [[1] + [0] * 7, vin, [9] + [0] * 7]}
        newin = permute(tin, vin)
        ops = []
        cur = v
        for via in ("handle", "view"):
            sc = source_caps(tin, newin)
            if L.image_size({"type": tin, "value": sc}) != L.image_size({"type": tin, "value": vget(cur, (("f", 1),))}) or not same_structure(tin, vget(cur, (("f", 1),)), newin):
                break        # (not an object of exactly the element's size any more)
            ops.append({"mode": "set", "path": [["f", 1]], "new": newin, "via": via, "form": "xobj", "expect": True, "exact_copy": True})
            cur = vset(cur, (("f", 1),), sc)
            # then a leaf inside the re-laid-out part
            lp = [(q, qt) for q, qt in all_paths(t, cur) if qt["k"] in ("scalar", "string") and len(q) >= 2 and q[0] == ("f", 1)]
            q, qt = lp[-1]
            nv = gen_like(rng, qt, vget(cur, q), fit=True)
            ops.append({"mode": "set", "path": [list(x) for x in q], "new": nv, "via": "handle", "form": "py", "expect": True})
            cur = vset(cur, q, retag(qt, vget(cur, q), nv))
            newin = permute(tin, nocap(vget(cur, (("f", 1),))))
        out.append({"type": t, "value": v, "prep": dict(prep), "ops": ops})
        # the same nested struct is assigned a strictly SMALLER object of its class (taken over field by field: every
        # part keeps the room it had), then a text as long as the original one goes back in
        small = shortest(tin, vin)
        rt = retag(tin, vin, small)
        if rt is not None:
            cur2 = vset(v, (("f", 1),), rt)
            lp = [(q, qt) for q, qt in all_paths(t, v) if qt["k"] == "string" and len(q) >= 2 and q[0] == ("f", 1)]
            ops2 = [{"mode": "set", "path": [["f", 1]], "new": small, "via": "handle", "form": "xobj", "expect": True}]
            for q, qt in lp[:2]:
                back = vget(v, q)
                ops2.append({"mode": "set", "path": [list(x) for x in q], "new": {"s": list(back["s"]), "size": back["size"]}, "via": "view", "form": "py", "expect": True})
            out.append({"type": t, "value": v, "prep": dict(prep), "ops": ops2})
    return out


def path_term(p):
    return "[%s]" % "; ".join(("PF %s" if k == "f" else "PI %s") % natlit(i) for k, i in p)


def source_caps(t, v):
    """the value as an xobject built from plain data holds it: every string with its minimal capacity"""
    k = t["k"]
    if k == "string":
        return {"s": list(v["s"]), "size": (v["cap"] + 8) if "cap" in v else G.slot(len(v["s"]) + 9)}
    if k == "struct":
        return {"f": [source_caps(ft, x) for (_, ft), x in zip(t["fields"], v["f"])]}
    if k == "array":
        return {"shape": list(v["shape"]), "items": [source_caps(t["item"], x) for x in v["items"]]}
    return v


def unambiguous(t, rt, sc):
    """an object-valued new value sc (capacities of the source) for an element that must end as rt (capacities as
    created): wherever a nested struct / array of the source has exactly the size of its destination the library may
    copy it as it is, so there the two must coincide; where sizes differ only the field-wise reading exists"""
    k = t["k"]
    if k in ("scalar", "string"):
        return True
    if L.image_size({"type": t, "value": sc}) == L.image_size({"type": t, "value": rt}):
        return sc == rt
    if k == "struct":
        return all(unambiguous(ft, a, b) for (_, ft), a, b in zip(t["fields"], rt["f"], sc["f"]))
    if k == "array":
        return all(unambiguous(t["item"], a, b) for a, b in zip(rt["items"], sc["items"]))
    return True


def case_term(c, r):
    t = c["type"]
    steps = []
    for op, st in zip(c["ops"], r["steps"]):
        if op["mode"] == "grow":
            continue
        if op["mode"] == "set" and op.get("expect") is not None:
            et = sub_ty(t, [tuple(s) for s in op["path"]])
            exact = op.get("form") in ("xobj", "xobj_oo")
            o = "Some (%s, %s)" % (path_term(op["path"]), G.val_term(et, source_caps(et, op["new"]) if exact else op["new"]))
        else:
            o = "None"; exact = False
        steps.append("mkU (%s) %s %s %s" % (o, "true" if exact else "false", "true" if st["ok"] else "false", zlist(st["bytes"])))
    return "mkUC (%s) (%s) %s %s [%s]" % (G.ty_term(t), G.val_term(t, c["value"]), zlit(r["size"]), zlist(r["bytes0"]), ";\n     ".join(steps))


def cases_file(pairs):
    body = "From Coq Require Import ZArith List.\nImport ListNotations.\nFrom XO Require Import Types Format Check Update AllocSpec.\nOpen Scope Z_scope.\n"
    body += "Definition cs : list ucase := [\n  " + ";\n  ".join(case_term(c, r) for c, r in pairs) + "\n].\n"
    body += 'Goal True. idtac "@@upd". exact I. Qed.\nEval vm_compute in (failing updates_ok 0%nat cs).\n'
    return body


def judge_case(pid, c, r, coq_fail):
    """returns list of (signature, what, step index)"""
    t = c["type"]
    out = []
    if r.get("stage"):
        if r["stage"] == "harness":
            out.append(("%s/harness-problem" % pid, r.get("msg"), -1))
        return out
    cur = c["value"]
    prev_bytes = r["bytes0"]
    k_coq = 0
    for k, (op, st) in enumerate(zip(c["ops"], r["steps"])):
        mode = op["mode"]
        if mode == "grow":
            if pid == "C10":
                if not st["ok"]:
                    out.append(("C10/grow-raises-%s" % st.get("exc"), st.get("msg"), k))
                elif st["bytes"] != prev_bytes or G.strip_sizes(st.get("readback")) != G.strip_sizes(cur):
                    out.append(("C10/value-changed-by-buffer-growth", "object changed while the buffer grew", k))
            prev_bytes = st["bytes"]; continue
        if pid == "C11" and r.get("parts0") is not None and st.get("parts") is not None and op.get("exact_copy") and st.get("ok"):
            r["parts0"] = rebase_parts(r["parts0"], st["parts"], op["path"])
        if pid == "C11" and r.get("parts0") is not None and st.get("parts") is not None and st["parts"] != r["parts0"]:
            # "the size of an instance cannot change after creation": whatever the operation was and whether it was
            # accepted or refused, every nested struct / array still reports the (offset, size) it had at creation
            d = [(a, b2) for a, b2 in zip(r["parts0"], st["parts"]) if a != b2][:1]
            out.append(("C11/size-of-an-instance-changed-after-creation/%s" % (op.get("misuse") or ("accepted" if st.get("ok") else "refused")),
                        "nested part (path, offset, size) at creation %s, now %s" % (d[0] if d else ("?", "?")), k))
            break
        fitting = mode == "set" and op.get("expect") is True
        if fitting:
            p = [tuple(s) for s in op["path"]]
            et = sub_ty(t, p)
            new_cur = vset(cur, p, source_caps(et, op["new"]) if op.get("exact_copy") else retag(et, vget(cur, p), op["new"]))
            if pid == "C10":
                what = None
                kind = "%s-%s" % (et["k"], "leaf" if et["k"] in ("scalar", "string") else "whole")
                if not st["ok"]:
                    what = ("C10/fitting-assignment-raises-%s/%s/%s" % (st.get("exc"), kind, L.sig_type(et) if et["k"] == "array" else et["k"]), st.get("msg"))
                elif st["outside_changed"]:
                    what = ("C10/assignment-wrote-outside-the-object/%s" % kind, "bytes %s outside the extent changed" % st["outside_changed"])
                elif "readback_exc" in st or G.strip_sizes(st.get("readback")) != G.strip_sizes(new_cur):
                    what = ("C10/value-after-assignment-differs/%s/via-%s" % (kind, op.get("via")), "after the assignment the object does not read as the value tree updated at that element")
                elif "view_exc" in st or st.get("view_readback") != st.get("readback"):
                    what = ("C10/view-and-handle-differ-after-assignment/%s" % kind, "a fresh view reads something else than the handle")
                elif st["size_now"] != r["size"]:
                    what = ("C10/size-changed-by-assignment/%s" % kind, "size word %s -> %s" % (r["size"], st["size_now"]))
                elif coq_fail is not None and coq_fail == k_coq:
                    what = ("C10/bytes-after-assignment-not-the-documented-image/%s" % kind, "the object's bytes are not the image of the updated value (sizes/capacities must stay as created)")
                if what:
                    out.append((what[0], what[1], k))
                    break
            # anything unexpected here (whether or not it concerns this property) makes the rest of the history unreliable
            if (not st["ok"]) or st["outside_changed"] or "readback_exc" in st or G.strip_sizes(st.get("readback")) != G.strip_sizes(new_cur) \
               or st["size_now"] != r["size"] or (coq_fail is not None and coq_fail == k_coq):
                break
            cur = new_cur
        else:
            if pid == "C11":
                mis = op.get("misuse", "misuse")
                if st["ok"]:
                    changed = st["bytes"] != prev_bytes or bool(st["outside_changed"])
                    out.append(("C11/%s-accepted-%s" % (mis, "and-data-changed" if changed else "silently"),
                                "an operation that cannot be honoured did not raise", k))
                elif st["bytes"] != prev_bytes or st["outside_changed"]:
                    out.append(("C11/%s-raised-but-modified-data" % mis, "raised %s after changing bytes" % st.get("exc"), k))
                elif "spare" in st and "realloc" in st and not (st["realloc"][0] + st["realloc"][1] <= st["spare"][0] or st["spare"][0] + st["spare"][1] <= st["realloc"][0]) and st["spare"][1] > 0:
                    out.append(("C11/%s-released-the-region-of-the-caller" % mis, "the refused construction at offset %d left that region free: the next allocation got [%d,%d)" % (st["spare"][0], st["realloc"][0], st["realloc"][0] + st["realloc"][1]), k))
            # whatever happened, later expectations follow what the implementation now holds: stop judging this case
            if st["ok"] or st["bytes"] != prev_bytes:
                break
        prev_bytes = st["bytes"]
        if mode != "grow":
            k_coq += 1
    return out


# ------------------------------------------------------------------ C05 over assignment histories
def c05_histories(ctx, n, depth, nops, shards, pid="C05"):
    """C05 after assignments: whatever sequence of assignments (fitting, boundary, misfitting) the implementation
    ACCEPTED, the object's bytes must still be accepted by the strict decoder of the documented format with the size
    fixed at creation (strings NUL terminated inside their capacity, tables in order, ...).  No expected value is
    involved.  Returns ([(sig, what, replay)], coverage)."""
    rng = random.Random(ctx.seed + (505 if pid == "C05" else 3535))
    cases = [gen_case(rng, depth, nops) for _ in range(n)]
    sh = (len(cases) + shards - 1) // shards
    results = []
    for r in run_impl_parallel(ctx, "update", [{"cases": cases[i:i + sh]} for i in range(0, len(cases), sh)]):
        results += r["results"]
    terms = []; where = []
    for i, (c, r) in enumerate(zip(cases, results)):
        if "steps" not in r: continue
        for k, (op, st) in enumerate(zip(c["ops"], r["steps"])):
            if op["mode"] == "set" and st.get("ok") and "bytes" in st:
                terms.append("mkDC (%s) %s %s" % (G.ty_term(c["type"]), zlist(st["bytes"]), zlit(r["size"])))
                where.append((i, k))
    SH = 120
    files = []
    for j in range(0, len(terms), SH):
        body = "From Coq Require Import ZArith List.\nImport ListNotations.\nFrom XO Require Import Types Format Check AllocSpec.\nOpen Scope Z_scope.\n"
        body += "Definition cs : list dcase := [\n  " + ";\n  ".join(terms[j:j + SH]) + "\n].\n"
        body += 'Goal True. idtac "@@c05upd". exact I. Qed.\nEval vm_compute in (failing decodes_ok 0%nat cs).\n'
        files.append(("cases_%su_%d" % (pid, j // SH), body))
    res = coq_eval_many(ctx, files)
    out = []; bysig = {}
    for j in range(0, len(terms), SH):
        rc, o = res["cases_%su_%d" % (pid, j // SH)]
        pairs = parse_pairs(o) if rc == 0 else None
        if pairs is None:
            out.append(("%s/after-assignment/cases-do-not-evaluate" % pid, "cases file does not evaluate", dict(kind="broken-tie", log=o[-1200:]))); continue
        for a, code in pairs:
            i, k = where[j + a]
            op = cases[i]["ops"][k]
            sig = "%s/after-assignment/%s/code%d/%s" % (pid, "bytes-no-longer-in-the-documented-format" if pid == "C05" else "sizes-of-nested-parts-no-longer-their-extents", code, op.get("misuse", "fitting"))
            if sig not in bysig or k < bysig[sig][1]: bysig[sig] = (i, k)
    for sig, (i, k) in sorted(bysig.items()):
        c = dict(cases[i]); c["ops"] = c["ops"][:k + 1]
        out.append((sig, "after an assignment the implementation accepted, the strict decoder of the documented format rejects the object's bytes",
                    dict(kind="concrete", tie="K-UPDATE", mode="c05", case=c, failing_step=k, how_to_replay="./check C10 --replay <this file> (same history runner)")))
    return out, dict(assignment_histories=len(cases), accepted_assignments_judged_in_coq=len(terms))


def run(ctx):
    pid = ctx.pid
    bud = BUDGET[ctx.tier]
    obl = check_obligations(ctx)
    rng = random.Random(ctx.seed)
    cdir = os.path.join(VERIF, "corpus", "update")
    corpus = [json.load(open(os.path.join(cdir, f))) for f in sorted(os.listdir(cdir))] if os.path.isdir(cdir) else []
    cases = list(corpus) + systematic_cases(rng)
    nfixed = len(cases)
    while len(cases) < bud["n"] + nfixed:
        cases.append(gen_case(rng, bud["depth"], bud["nops"]))
    if pid == "C11":
        for c in cases: c["report_parts"] = True
    sh = (len(cases) + bud["shards"] - 1) // bud["shards"]
    results = []
    for r in run_impl_parallel(ctx, "update", [{"cases": cases[i:i + sh]} for i in range(0, len(cases), sh)]):
        results += r["results"]
    idx = [i for i, r in enumerate(results) if "steps" in r]
    SH = 25
    files = [("cases_%s_%d" % (pid, j // SH), cases_file([(cases[i], results[i]) for i in idx[j:j + SH]])) for j in range(0, len(idx), SH)]
    res = coq_eval_many(ctx, files)
    coq_fail = {}; broken = None
    for j in range(0, len(idx), SH):
        rc, out = res["cases_%s_%d" % (pid, j // SH)]
        pairs = parse_pairs(out) if rc == 0 else None
        if pairs is None:
            broken = "cases_%s_%d: coqc rc=%s (124 = time limit) %s" % (pid, j // SH, rc, out[-1500:]); continue
        for a, b in pairs:
            coq_fail[idx[j + a]] = b
    bysig = {}
    nsteps = 0
    hist = collections.Counter()
    for i, (c, r) in enumerate(zip(cases, results)):
        for op in c["ops"]:
            if op.get("form") in ("xobj", "xobj_oo", "np"): hist["new-value-as:" + op["form"]] += 1
            nsteps += 1; hist["op:" + op["mode"] + (":" + op["misuse"] if "misuse" in op else (":fitting" if op.get("expect") else ""))] += 1
        for sig, what, k in judge_case(pid, c, r, coq_fail.get(i)):
            if sig not in bysig or len(json.dumps(c)) < len(json.dumps(cases[bysig[sig][0]])):
                bysig[sig] = (i, what, k)
        # a Coq rejection that no python oracle explains is still reported (for the property it concerns)
        if i in coq_fail and coq_fail[i] != 999 and not judge_case(pid, c, r, coq_fail.get(i)):
            st_ops = [op for op in c["ops"] if op["mode"] != "grow"]
            k = coq_fail[i]
            fitting = k < len(st_ops) and st_ops[k].get("expect") is True
            if (pid == "C10") == fitting:
                sig = "%s/step-rejected-by-the-model" % pid
                if sig not in bysig:
                    bysig[sig] = (i, "Update.updates_ok rejects step %d" % k, k)
    refcov = {}
    extra = []
    if pid == "C10":
        import c_refs
        rb = c_refs.BUDGET[ctx.tier]
        extra, refcov = c_refs.c10_histories(ctx, max(60, rb["n"] // 2), rb["nops"], rb["shards"])
    found = False
    for sig, what, rep in extra:
        found = True
        report(ctx, sig, what, rep)
    for sig, (i, what, k) in sorted(bysig.items()):
        found = True
        c = dict(cases[i]); c["ops"] = c["ops"][:k + 1] if k >= 0 else c["ops"]
        report(ctx, sig, what, dict(kind="concrete", tie="K-SET", case=c, failing_step=k,
                                    observed={kk: vv for kk, vv in (results[i]["steps"][k] if k >= 0 and "steps" in results[i] else results[i]).items() if kk not in ("bytes",)},
                                    how_to_replay="./check %s --replay <this file>" % pid))
    if broken:
        report(ctx, "%s/cases-do-not-evaluate" % pid, "cases file does not evaluate", dict(kind="broken-tie", log=broken), no_input=True)
    broken_obligations_violation(ctx, obl, found)
    distinct = set(hashlib.sha1(json.dumps([c["type"], c["ops"]], sort_keys=True).encode()).hexdigest() for c in cases if len(c["ops"]) >= 2)
    cov = dict(evaluations=nsteps, distinct_nontrivial=len(distinct), histories=len(cases), judged_in_coq=len(idx),
               rule="generated reference-free objects (as C01) then histories of %d operations through the constructor handle or fresh views: fitting assignments of leaves (scalars, strings within capacity) and of whole nested structs/arrays of equal shape (plain data or numpy), buffer growth in between, and misuse (string / nested item too large, array update of other length or shape, index outside the shape incl. negative, buffer of another context, offset without buffer). After every step: full re-read through handle and view, whole-buffer diff, bytes judged in Coq against the image of the model's updated value tree. distinct = distinct (type, op list)" % bud["nops"],
               samples=[{"type": cases[-1]["type"], "ops": cases[-1]["ops"][:4]}], distribution=dict(sorted(hist.items())), corpus_cases=len(corpus))
    cov.update(refcov)
    return finish(ctx, "proof", obl, cov,
                  ["reference-free fragment (references: C08)", "fits = same shape and every string within the capacity fixed at creation (model: Update.assign)"])


# ------------------------------------------------------------------ C03 over assignment histories
def rebase_parts(p0, p1, path):
    """after an object was copied as it is over the element at `path`: the parts strictly inside that element take the
    source's layout (new baseline); everything else must be as before (kept from p0 so that a change still shows)"""
    path = [list(x) for x in path]
    inside = lambda q: len(q) > len(path) and [list(x) for x in q[:len(path)]] == path
    if [e[0] for e in p0 if not inside(e[0])] != [e[0] for e in p1 if not inside(e[0])]:
        return p0
    return \
           [(a if not inside(a[0]) else b) for a, b in zip(p0, p1)] if len(p0) == len(p1) else p0


def parts_inside_and_disjoint(parts, off, size):
    """parts: [path, offset, size] of nested compound parts: each inside its parent, siblings disjoint"""
    ext = {(): (off, size)}
    for p, o, s in parts: ext[tuple(map(tuple, p))] = (o, s)
    kids = collections.defaultdict(list)
    for p, (o, s) in ext.items():
        if not p: continue
        po, ps = ext[p[:-1]]
        if not (po <= o and o + s <= po + ps):
            return ("nested-part-outside-its-parent", "part %s at [%d,%d) parent at [%d,%d)" % (list(p), o, o + s, po, po + ps))
        kids[p[:-1]].append((o, s, p))
    for par, ks in kids.items():
        ks.sort()
        for (o1, s1, p1), (o2, s2, p2) in zip(ks, ks[1:]):
            if o1 + s1 > o2 and s1 > 0 and s2 > 0:
                return ("sibling-parts-overlap", "parts %s [%d,%d) and %s [%d,%d)" % (list(p1), o1, o1 + s1, list(p2), o2, o2 + s2))
    return None


def c03_update_histories(ctx, n, depth, nops, shards):
    """C03 after assignments on reference-free objects of generated types (values given as plain data, numpy or other
    objects): whatever the implementation ACCEPTED changed no byte outside the object and left the size it reports
    equal to the extent reserved at creation.  Returns ([(sig, what, replay)], coverage)."""
    rng = random.Random(ctx.seed + 3030)
    cases = systematic_cases(rng) + [gen_case(rng, depth, nops) for _ in range(n)]
    for c in cases: c["report_parts"] = True
    sh = (len(cases) + shards - 1) // shards
    results = []
    for r in run_impl_parallel(ctx, "update", [{"cases": cases[i:i + sh]} for i in range(0, len(cases), sh)]):
        results += r["results"]
    bysig = {}; nst = 0; nparts = 0
    for i, (c, r) in enumerate(zip(cases, results)):
        if "steps" not in r: continue
        p0 = r.get("parts0")
        if p0:
            nparts += len(p0)
            bad = parts_inside_and_disjoint(p0, r["off"], r["size"])
            if bad: bysig.setdefault("C03/construction/" + bad[0], (i, bad[1], -1))
        for k, (op, st) in enumerate(zip(c["ops"], r["steps"])):
            if op["mode"] != "set": continue
            nst += 1
            kind = ("accepted" if st.get("ok") else "refused") + "/" + op.get("form", "py")
            sig = None
            if st.get("outside_changed"):
                sig = ("C03/assignment/bytes-outside-the-object-changed/" + kind, "bytes %s outside the object changed" % st["outside_changed"])
            elif st.get("size_now") != r["size"]:
                sig = ("C03/assignment/reported-size-no-longer-the-extent/" + kind, "size reported %s, extent reserved %s" % (st.get("size_now"), r["size"]))
            elif p0 is not None and "parts" in st and op.get("exact_copy") and st.get("ok") and rebase_parts(p0, st["parts"], op["path"]) == st["parts"]:
                p0 = st["parts"]
                bad = parts_inside_and_disjoint(p0, r["off"], r["size"])
                if bad: sig = ("C03/assignment/" + bad[0] + "/" + kind, bad[1])
            elif p0 is not None and "parts" in st and st["parts"] != p0:
                # the model (C03_assignment_keeps_extent): the extent of every nested part is fixed at creation
                d = [(a, b2) for a, b2 in zip(p0, st["parts"]) if a != b2][:1]
                sig = ("C03/assignment/nested-part-no-longer-reports-its-extent/" + kind, "nested part (path, offset, size): at creation %s, now %s" % (d[0] if d else (len(p0), len(st["parts"]))))
            elif p0 is not None and "parts_exc" in st:
                sig = ("C03/assignment/nested-parts-unreadable/" + kind, st["parts_exc"])
            if sig:
                if sig[0] not in bysig or k < bysig[sig[0]][2]: bysig[sig[0]] = (i, sig[1], k)
                break
            if st.get("ok") is False and st.get("bytes") != (r["steps"][k - 1]["bytes"] if k else r["bytes0"]):
                break
    out = []
    for sig, (i, what, k) in sorted(bysig.items()):
        c = dict(cases[i]); c["ops"] = c["ops"][:k + 1]
        out.append((sig, what, dict(kind="concrete", tie="K-SET", mode="c03", case=c, failing_step=k, how_to_replay="./check C10 --replay <this file> (same history runner)")))
    # every nested part still reports the extent its parent reserves for it and the parts still tile the parent: the
    # strict decoder (certified: Check.decodes_ok) demands exactly that of every size word and offset table
    o2, cov2 = c05_histories(ctx, n, depth, nops, shards, pid="C03")
    return out + o2, dict(assignment_histories=len(cases) + cov2["assignment_histories"], assignments_in_them=nst, nested_parts_tracked=nparts,
                          accepted_assignments_decoded_in_coq=cov2["accepted_assignments_judged_in_coq"])


# ------------------------------------------------------------------ C09 over copies of nested parts
def nocap(v):
    if isinstance(v, dict):
        if "cap" in v: return {"s": [], "size": 16}
        return {k: nocap(x) for k, x in v.items()}
    if isinstance(v, list): return [nocap(x) for x in v]
    return v


def permute(t, v):
    """a value of the same type and the same TOTAL size whose variable-size parts sit elsewhere: items of every array
    in reverse order, the texts of the string fields of every struct rotated"""
    k = t["k"]
    if k == "struct":
        fs = [permute(ft, fv) for (_, ft), fv in zip(t["fields"], v["f"])]
        si = [i for i, (_, ft) in enumerate(t["fields"]) if ft["k"] == "string"]
        if len(si) >= 2:
            vals = [fs[i] for i in si]; vals = vals[1:] + vals[:1]
            for i, x in zip(si, vals): fs[i] = x
        return {"f": fs}
    if k == "array":
        return {"shape": list(v["shape"]), "items": [permute(t["item"], x) for x in reversed(v["items"])]}
    return v


def part_copy_case(rng, depth):
    S = {"k": "string"}
    def arr(item, shape, order=None): return {"k": "array", "item": item, "shape": shape, "order": order or list(range(len(shape)))}
    F64 = {"k": "scalar", "name": "Float64"}
    directed = [arr(S, [None]), arr(S, [3]), arr(arr(F64, [None]), [None]), arr(S, [2, None], [1, 0]),
                {"k": "struct", "name": "Rn", "fields": [["names", arr(S, [None])], ["x", F64]]},
                {"k": "struct", "name": "Rab", "fields": [["a", S], ["w", F64], ["b", S]]}]
    while True:
        if rng.random() < 0.5:
            PT = rng.choice(directed)
        else:
            PT = G.gen_type(rng, rng.randint(1, depth))
        if PT["k"] in ("struct", "array") and not G.is_static(PT):
            break
    M = {"k": "struct", "name": "M" + hashlib.sha1(json.dumps(PT, sort_keys=True).encode()).hexdigest()[:8],
         "fields": [["k", {"k": "scalar", "name": "Int32"}], ["part", PT], ["z", F64]]}
    H = {"k": "struct", "name": "H" + M["name"][1:], "fields": [["pre", {"k": "scalar", "name": "Int64"}], ["mid", M], ["post", S]]}
    for _ in range(20):
        v = nocap(G.gen_value(rng, H))
        # make re-distribution likely: strings of clearly different lengths
        if json.dumps(permute(H, v)) != json.dumps(v): break
    paths = [(p, pt) for p, pt in all_paths(H, v) if pt["k"] in ("struct", "array") and len(p) >= 2]
    pp = [(p, pt) for p, pt in paths if not G.is_static(pt)] or paths
    p, pt = rng.choice(pp)
    q = p[:rng.randint(1, len(p))]
    qt = sub_ty(H, q)
    base = L.gen_case(rng, 1)
    prep = dict(base["prep"])
    c = {"type": H, "value": v, "prep": prep, "p": [list(x) for x in p], "q": [list(x) for x in q], "newq": permute(qt, vget(v, q)),
         "where": rng.choice(["same", "other", "ctx"])}
    part0 = vget(v, p)
    if pt["k"] == "struct" and rng.random() < 0.3:
        npv = permute(pt, part0)
        if json.dumps(npv) != json.dumps(part0) and same_structure(pt, part0, npv):
            c["first_relayout_copy"] = True; c["newp"] = npv
    lp = [(x, xt) for x, xt in all_paths(pt, part0) if xt["k"] in ("scalar", "string")]
    if lp:
        x, xt = rng.choice(lp)
        c["cp_write"] = {"path": [list(y) for y in x], "type": xt, "new": gen_like(rng, xt, vget(part0, x), fit=True)}
    v1 = vset(v, q, c["newq"])
    lh = [(x, xt) for x, xt in all_paths(H, v1) if xt["k"] in ("scalar", "string") and x[:len(p)] == p] or \
         [(x, xt) for x, xt in all_paths(H, v1) if xt["k"] in ("scalar", "string")]
    x, xt = rng.choice(lh)
    c["h_write"] = {"path": [list(y) for y in x], "type": xt, "new": gen_like(rng, xt, vget(v1, x), fit=True)}
    return c


def judge_part_copy(c, r):
    """[(sig, what)]"""
    w = c["where"]
    if r.get("stage") == "harness":
        return [("C09/part-copy/harness-problem", r.get("msg", "") + r.get("tb", "")[-300:])]
    if r.get("stage") == "construct":
        return []
    if r.get("stage") == "copy":
        return [("C09/part-copy/copy-construction-raises-%s/%s" % (r["exc"], w), r["msg"])]
    H = c["type"]; v0 = c["value"]; p = [tuple(x) for x in c["p"]]; q = [tuple(x) for x in c["q"]]
    pt = sub_ty(H, p)
    S = G.strip_sizes
    part0 = vget(v0, p)
    out = []
    def same(obs, exp): return "v" in obs and S(obs["v"]) == S(exp)
    so, ss = r["src_extent"]; co, cs = r["cp_extent"]
    if r["same_buffer"] and not (co + cs <= so or so + ss <= co):
        out.append(("C09/part-copy/storage-overlaps-the-original/" + w, "copy at [%d,%d) original part at [%d,%d)" % (co, co + cs, so, so + ss)))
    if co < 0 or co + cs > r["cp_capacity"]:
        out.append(("C09/part-copy/copy-outside-its-buffer/" + w, "copy at [%d,%d) capacity %d" % (co, co + cs, r["cp_capacity"])))
    if c.get("first_relayout_copy"):
        if r.get("copy_relayout") == "ok" and (not same(r["srcpart_after_copy_relayout"], part0) or not same(r["h_after_copy_relayout"], v0) or r["src_extent_after"] != r["src_extent"]):
            out.append(("C09/part-copy/assignment-to-the-copy-shows-through-the-handle-of-the-original/" + w, "after the COPY was assigned an object of the same size laid out differently, the handle it was copied from reads %s" % json.dumps(r["srcpart_after_copy_relayout"])[:160]))
        return out
    if not same(r["cp_0"], part0) or not same(r["cpview_0"], part0):
        out.append(("C09/part-copy/not-equal-to-the-original/" + w, "the copy does not read as the part it was built from"))
        return out
    if r["relayout"] != "ok" or not same(r["h_1"], vset(v0, q, c["newq"])):
        # whether this assignment is honoured is C10 / C11's business: nothing further can be said about this case,
        # except that the copy must not have changed
        if not same(r["cp_1"], part0) or not same(r["cpview_1"], part0):
            out.append(("C09/part-copy/changed-by-a-later-assignment-to-the-original/" + w, "copy differs after the original's ancestor was assigned"))
        return out
    v1 = vset(v0, q, c["newq"])
    if not same(r["cp_1"], part0):
        out.append(("C09/part-copy/kept-handle-changed-by-relayout-of-the-original/" + w, "after an ancestor of the copied part was replaced by an object of the same size laid out differently, the copy (kept handle) reads %s" % json.dumps(r["cp_1"])[:200]))
    if not same(r["cpview_1"], part0):
        out.append(("C09/part-copy/bytes-changed-by-relayout-of-the-original/" + w, "fresh view of the copy differs after the original was re-laid-out"))
    if out: return out
    cpv = part0
    if "cp_write" in c:
        if r.get("cp_write") != "ok":
            return out
        x = [tuple(y) for y in c["cp_write"]["path"]]
        nv = retag(c["cp_write"]["type"], vget(part0, x), c["cp_write"]["new"])
        if nv is None: return out
        cpv = vset(part0, x, nv)
        if not same(r["h_2"], v1):
            out.append(("C09/part-copy/write-to-the-copy-shows-in-the-original/" + w, "original changed by a write to the copy"))
        if not same(r["cp_2"], cpv) or not same(r["cpview_2"], cpv):
            out.append(("C09/part-copy/write-to-the-copy-not-read-back/" + w, "copy does not read as updated"))
        if out: return out
    if "h_write" in c and r.get("h_write") == "ok":
        if not same(r["cp_3"], cpv) or not same(r["cpview_3"], cpv):
            out.append(("C09/part-copy/write-to-the-original-shows-in-the-copy/" + w, "copy changed by a write to the original"))
    return out


def judge_part_copy_c06(c, r):
    """C06 on the same runs: the handle the copy constructor returned and a view rebuilt from (buffer, offset) of the
    copy must read the same at every stage"""
    if r.get("stage"): return []
    names = {"0": "copy", "1": "relayout-of-the-original", "2": "write-to-the-copy", "3": "write-to-the-original"}
    for tag, nm in names.items():
        if "cp_" + tag in r and r["cp_" + tag] != r["cpview_" + tag]:
            return [("C06/part-copy/kept-handle-and-fresh-view-differ/after-%s/%s" % (nm, c["where"]),
                     "handle reads %s, a view rebuilt from (buffer, offset) reads %s" % (json.dumps(r["cp_" + tag])[:120], json.dumps(r["cpview_" + tag])[:120]))]
    return []


def c09_part_copies(ctx, n, depth, shards, pid="C09"):
    rng = random.Random(ctx.seed + 909)
    cases = [part_copy_case(rng, depth) for _ in range(n)]
    sh = (len(cases) + shards - 1) // shards
    results = []
    for r in run_impl_parallel(ctx, "partcopy", [{"cases": cases[i:i + sh]} for i in range(0, len(cases), sh)]):
        results += r["results"]
    bysig = {}; hist = collections.Counter()
    for c, r in zip(cases, results):
        hist["where:" + c["where"]] += 1
        hist["relayout:" + str(r.get("relayout", r.get("stage")))] += 1
        if r.get("relayout") == "ok": hist["relayout-binary(same size):" + str(r.get("relayout_same_size"))] += 1
        hist["copied-part:" + sub_ty(c["type"], [tuple(x) for x in c["p"]])["k"]] += 1
        js = judge_part_copy(c, r) if pid in ("C09", "C03") else judge_part_copy_c06(c, r)
        if pid == "C03":
            js = [(sg.replace("C09/", "C03/"), wt) for sg, wt in js if "handle-of-the-original" in sg]
        for sig, what in js:
            if sig not in bysig or len(json.dumps(c)) < len(json.dumps(bysig[sig][0])):
                bysig[sig] = (c, what, r)
    out = [(sig, what, dict(kind="concrete", tie="K-PARTCOPY", case=c, observed={k: v for k, v in r.items() if not k.startswith(("h_", "cp_", "cpview_")) or k in ("cp_1", "cp_write", "h_write")},
                            how_to_replay="./check C09 --replay <this file>")) for sig, (c, what, r) in sorted(bysig.items())]
    return out, dict(part_copies=len(cases), part_copy_distribution=dict(sorted(hist.items())))


def c09_string_and_large_copies(ctx):
    """(a) stand-alone Strings copied into storage that is not zero; (b) objects of more than a megabyte copied across
    buffers, contexts and buffer kinds.  Returns ([(sig, what, replay)], coverage)."""
    rng = random.Random(ctx.seed + 9090)
    strings = []
    for init in ["", "a", "ab", "abcdefg", "abcdefgh", "hello world", 11, 20]:
        for where in ("same", "other", "ctx", "otherkind"):
            strings.append({"init": init, "where": where, "kind": rng.choice(["numpy", "bytearray"]), "pre": rng.choice([0, 3, 8])})
    sizes = [140001, 300007] if ctx.tier == "quick" else [140001, 300007, 1048583, 2500001]
    large = [{"n": n, "what": w, "where": wh, "kind": k} for n in sizes for w in ("array", "struct") for wh, k in (("ctx", "numpy"), ("otherkind", "numpy"), ("otherkind", "bytearray"), ("other", "bytearray"), ("same", "numpy"))]
    rs = run_impl(ctx, "partcopy", {"strings": strings}, tag="strings")["results"]
    rl = []
    for part in run_impl_parallel(ctx, "partcopy", [{"large": large[i::4]} for i in range(4)]):
        rl.append(part["results"])
    rl = [r for i in range(max(len(x) for x in rl)) for x in rl if i < len(x) for r in [x[i]]]
    large = [c for i in range((len(large) + 3) // 4) for c in large[4 * i:4 * i + 4]]
    out = {}
    for c, r in zip(strings, rs):
        exp = "" if isinstance(c["init"], int) else c["init"]
        if r.get("harness"): out.setdefault("C09/string-copy/harness-problem", (r["harness"], c, r)); continue
        if "exc" in r: out.setdefault("C09/string-copy/raises-%s/%s" % (r["exc"], c["where"]), (r.get("msg"), c, r)); continue
        if r["cp"] != exp or r["cpview"] != exp:
            out.setdefault("C09/string-copy/not-equal-to-the-original/%s" % c["where"], ("String(%r) copied reads %r" % (c["init"], r["cp"]), c, r))
        elif r["same_buffer"] and not (r["cp_extent"][0] + r["cp_extent"][1] <= r["src_extent"][0] or r["src_extent"][0] + r["src_extent"][1] <= r["cp_extent"][0]):
            out.setdefault("C09/string-copy/storage-overlaps-the-original", ("%s %s" % (r["cp_extent"], r["src_extent"]), c, r))
    for c, r in zip(large, rl):
        if r.get("harness"): out.setdefault("C09/large-copy/harness-problem", (r["harness"], c, r)); continue
        if "exc" in r: out.setdefault("C09/large-copy/raises-%s/%s" % (r["exc"], c["where"]), (r.get("msg"), c, r)); continue
        if r["differs"] or r["view_differs"] or r["src_changed"]:
            out.setdefault("C09/large-copy/not-equal-to-the-original/%s-%s" % (c["what"], c["where"]), ("%d of %d numbers differ (first at %s)" % (r["differs"], c["n"], r["first"]), c, r))
    res = [(sig, what, dict(kind="concrete", tie="K-COPY-PROBE", probe=c, observed=r, how_to_replay="./check C09 --replay <this file>")) for sig, (what, c, r) in sorted(out.items())]
    return res, dict(string_copies=len(strings), large_copies=len(large))


def part_copy_replay(ctx, r):
    if r.get("tie") == "K-COPY-PROBE":
        key = "strings" if "init" in r["probe"] else "large"
        res = run_impl(ctx, "partcopy", {key: [r["probe"]]})["results"][0]
        print(res); bad = bool(res.get("exc") or res.get("differs") or res.get("view_differs") or (key == "strings" and res.get("cp") != ("" if isinstance(r["probe"]["init"], int) else r["probe"]["init"])))
        print("REPRODUCED" if bad else "not reproduced"); return 1 if bad else 0
    res = run_impl(ctx, "partcopy", {"cases": [r["case"]]})["results"][0]
    js = judge_part_copy(r["case"], res)
    for sig, what in js: print(sig, "--", what)
    print("REPRODUCED" if js else "not reproduced")
    return 1 if js else 0


def replay(ctx, path):
    r = json.load(open(path))
    if r.get("kind") != "concrete":
        print("nothing to execute:", r.get("what")); return 1
    c = r["case"]
    res = run_impl(ctx, "update", {"cases": [c]})["results"][0]
    cf = None
    if "steps" in res:
        rc, out = coq_run(ctx, "replay_%s" % ctx.pid, cases_file([(c, res)]))
        pairs = parse_pairs(out) if rc == 0 else None
        cf = pairs[0][1] if pairs else None
    j = judge_case(ctx.pid, c, res, cf)
    for st in res.get("steps", []):
        print(json.dumps({k: v for k, v in st.items() if k not in ("bytes", "readback", "view_readback")})[:300])
    print("REPRODUCED %s" % j if j else "not reproduced")
    return 1 if j else 0
