"""C10 / C11: histories of assignments through handles and views; fitting ones must change exactly
that element (C10), misuse must raise and change nothing (C11). Judged by Update.updates_ok in Coq
(the expected value tree and the fits-predicate are the model's) and by direct oracles."""
import json, os, hashlib, collections, random, copy
from core import *
import gen_types as G
import c_layout as L

BUDGET = {"quick": dict(n=520, depth=3, shards=12, nops=8), "thorough": dict(n=4000, depth=4, shards=16, nops=20)}


# ---- python mirror of Update.v (used for the direct oracle and to generate fitting values)
def vget(v, path):
    for kind, i in path:
        v = v["f"][i] if kind == "f" else v["items"][i]
    return v


def vset(v, path, x):
    v = copy.deepcopy(v)
    if not path:
        return x
    cur = v
    for kind, i in path[:-1]:
        cur = cur["f"][i] if kind == "f" else cur["items"][i]
    kind, i = path[-1]
    if kind == "f": cur["f"][i] = x
    else: cur["items"][i] = x
    return v


def retag(t, old, new):
    """new value with the capacities of old; None if shapes differ or a string does not fit"""
    k = t["k"]
    if k == "scalar":
        return new if len(new) == len(old) else None
    if k == "string":
        if 8 + len(new["s"]) + 1 > old["size"] or 0 in new["s"]:
            return None
        return {"s": new["s"], "size": old["size"]}
    if k == "struct":
        if len(new["f"]) != len(old["f"]): return None
        out = []
        for (_, ft), o, n in zip(t["fields"], old["f"], new["f"]):
            r = retag(ft, o, n)
            if r is None: return None
            out.append(r)
        return {"f": out}
    if k == "array":
        if new["shape"] != old["shape"] or len(new["items"]) != len(old["items"]): return None
        out = []
        for o, n in zip(old["items"], new["items"]):
            r = retag(t["item"], o, n)
            if r is None: return None
            out.append(r)
        return {"shape": old["shape"], "items": out}


def sub_ty(t, path):
    for kind, i in path:
        t = t["fields"][i][1] if kind == "f" else t["item"]
    return t


def all_paths(t, v, prefix=()):
    """every element position: (path, type) for fields/items at any depth"""
    out = []
    if t["k"] == "struct":
        for i, ((_, ft), fv) in enumerate(zip(t["fields"], v["f"])):
            p = prefix + (("f", i),)
            out.append((p, ft)); out += all_paths(ft, fv, p)
    elif t["k"] == "array":
        for c, x in enumerate(v["items"]):
            p = prefix + (("i", c),)
            out.append((p, t["item"])); out += all_paths(t["item"], x, p)
    return out


def gen_like(rng, t, old, fit=True):
    """a new value of the same shape as old; strings fitting (or not) the old capacity"""
    k = t["k"]
    if k == "scalar":
        return G.scalar_value(rng, t["name"])
    if k == "string":
        cap = old["size"] - 9
        pool = [s for s in G.STRINGS if len(s.encode()) <= cap] if fit else [s for s in G.STRINGS if len(s.encode()) > cap]
        if not pool:
            pool = ["x" * (cap + 1 + rng.randint(0, 20))] if not fit else [""]
        s = rng.choice(pool).encode()
        return {"s": list(s), "size": old["size"]}
    if k == "struct":
        return {"f": [gen_like(rng, ft, o, fit) for (_, ft), o in zip(t["fields"], old["f"])]}
    if k == "array":
        return {"shape": old["shape"], "items": [gen_like(rng, t["item"], o, fit) for o in old["items"]]}


def has_string(t):
    return G.has_kind(t, "string")


def gen_case(rng, depth, nops):
    t = G.gen_type(rng, rng.randint(1, depth))
    while t["k"] == "string":
        t = G.gen_type(rng, rng.randint(1, depth))
    v = G.gen_value(rng, t)
    base = L.gen_case(rng, 1)
    c = {"type": t, "value": v, "prep": base["prep"], "ops": []}
    cur = v
    for _ in range(nops):
        paths = all_paths(t, cur)
        r = rng.random()
        if r < 0.10 or not paths:
            c["ops"].append({"mode": "grow", "extra": rng.choice([1, 64, 1000])}); continue
        if r < 0.16:
            c["ops"].append({"mode": rng.choice(["misuse_ctx", "misuse_offset"]), "expect": None, "misuse": "wrong-owner"}); continue
        p, et = rng.choice(paths)
        apool = [(q, qt) for q, qt in paths if qt["k"] == "array"]
        if apool and rng.random() < 0.3:      # whole-array operations deserve their share
            p, et = rng.choice(apool)
        old = vget(cur, p)
        via = rng.choice(["handle", "view"])
        if r < 0.70:          # fitting assignment of a leaf or of a whole nested compound of equal size
            new = gen_like(rng, et, old, fit=True)
            form = "np" if (et["k"] == "array" and rng.random() < 0.5) else "py"
            if et["k"] in ("array", "struct") and rng.random() < 0.25:
                # another xobject as the new value: of the same class, or (N-D arrays) of the array class
                # with the same items and shape but another axis order
                form = "xobj_oo" if (et["k"] == "array" and len(et["shape"]) > 1 and rng.random() < 0.6) else "xobj"
                # an object carries its own string capacities; keep the history unambiguous: use it only when
                # they coincide with the capacities fixed at creation (else the value goes in as plain data)
                if retag(et, old, new) is None or source_caps(et, new) != retag(et, old, new):
                    form = "py"
            exp = retag(et, old, new)
            op = {"mode": "set", "path": [list(s) for s in p], "new": new, "via": via, "form": form, "expect": exp is not None}
            c["ops"].append(op)
            if exp is not None:
                cur = vset(cur, p, exp)
        elif r < 0.80 and has_string(et):     # misfit: a string somewhere inside too large for its space
            new = gen_like(rng, et, old, fit=False)
            c["ops"].append({"mode": "set", "path": [list(s) for s in p], "new": new, "via": via, "expect": retag(et, old, new) is not None,
                             "misuse": "too-large"})
            if retag(et, old, new) is not None:
                cur = vset(cur, p, retag(et, old, new))
        elif r < 0.90 and et["k"] == "array" and len(old["items"]) >= 1:   # misfit: update with another length / shape
            sh = list(old["shape"]); ax = rng.randrange(len(sh)); sh[ax] += rng.choice([1, 2]) if sh[ax] < 2 or rng.random() < 0.5 else -1
            if len(sh) > 1 and rng.random() < 0.5:
                # same number of items, another shape (only dynamic axes can differ from the class shape at all)
                n0 = len(old["items"])
                alts = [list(reversed(old["shape"])), [n0] + [1] * (len(sh) - 1), [1] * (len(sh) - 1) + [n0]]
                alts = [a for a in alts if a != old["shape"] and all(cd is None or cd == d for cd, d in zip(et["shape"], a))]
                if alts:
                    sh = rng.choice(alts)
            n = 1
            for d in sh: n *= d
            if any(cd is not None and cd != d for cd, d in zip(et["shape"], sh)) and False:
                continue
            new = {"shape": sh, "items": [gen_like(rng, et["item"], old["items"][0]) for _ in range(n)]}
            if n == 0 and len(sh) > 1:
                continue
            c["ops"].append({"mode": "set", "path": [list(s) for s in p], "new": new, "via": via, "expect": False, "misuse": "wrong-length-or-shape"})
        else:                 # misuse: index outside the shape of some array on the way
            apaths = [(q, qt) for q, qt in paths if q[-1][0] == "i"]
            if not apaths:
                continue
            q, qt = rng.choice(apaths)
            parent = vget(cur, q[:-1])
            shape = parent["shape"]
            idx = [rng.randrange(d) for d in shape]
            ax = rng.randrange(len(shape))
            idx[ax] = rng.choice([shape[ax], shape[ax] + 3, -1, -shape[ax] - 1])
            new = gen_like(rng, qt, vget(cur, q))
            c["ops"].append({"mode": "set", "path": [list(s) for s in q], "new": new, "raw_index": idx, "via": via, "expect": None,
                             "misuse": "index-out-of-range" + ("-negative" if idx[ax] < 0 else "")})
    return c


def systematic_cases(rng):
    """whole-array and single-item assignments for every axis order of 2-D / 3-D arrays nested in a struct"""
    import itertools
    out = []
    prep = {"kind": "numpy", "cap": 1024, "al": 8, "poison": 0xA5, "pre": [["alloc", 24]]}
    for nd, dims in ((2, [2, 3]), (3, [2, 3, 2])):
        for order in itertools.permutations(range(nd)):
            for dyn in (False, True):
                at = {"k": "array", "item": {"k": "scalar", "name": "Int16"}, "shape": [None if dyn else d for d in dims], "order": list(order)}
                t = {"k": "struct", "name": G.struct_name([["upd", str(order), dyn]]), "fields": [["k", {"k": "scalar", "name": "Int64"}], ["a", at], ["z", {"k": "scalar", "name": "Int8"}]]}
                n = 1
                for d in dims: n *= d
                mk = lambda off: {"shape": list(dims), "items": [[(5 * i + off) & 255, (i + off) & 255] for i in range(n)]}
                v = {"f": [[1, 0, 0, 0, 0, 0, 0, 0], mk(0), [9]]}
                ops = []
                for j, (form, via) in enumerate((("np", "handle"), ("py", "view"), ("np", "view"), ("xobj_oo", "handle"), ("xobj", "view"))):
                    ops.append({"mode": "set", "path": [["f", 1]], "new": mk(10 * (j + 1)), "via": via, "form": form, "expect": True})
                    if j == 0:
                        ops.append({"mode": "grow", "extra": 64})
                ops.append({"mode": "set", "path": [["f", 1], ["i", n - 2]], "new": [200, 100], "via": "handle", "form": "py", "expect": True})
                out.append({"type": t, "value": v, "prep": dict(prep, kind=rng.choice(["numpy", "bytearray"])), "ops": ops})
    return out


def path_term(p):
    return "[%s]" % "; ".join(("PF %s" if k == "f" else "PI %s") % natlit(i) for k, i in p)


def source_caps(t, v):
    """the value as an xobject built from plain data holds it: every string with its minimal capacity"""
    k = t["k"]
    if k == "string":
        return {"s": list(v["s"]), "size": (v["cap"] + 8) if "cap" in v else G.slot(len(v["s"]) + 9)}
    if k == "struct":
        return {"f": [source_caps(ft, x) for (_, ft), x in zip(t["fields"], v["f"])]}
    if k == "array":
        return {"shape": list(v["shape"]), "items": [source_caps(t["item"], x) for x in v["items"]]}
    return v


def case_term(c, r):
    t = c["type"]
    steps = []
    for op, st in zip(c["ops"], r["steps"]):
        if op["mode"] == "grow":
            continue
        if op["mode"] == "set" and op.get("expect") is not None:
            et = sub_ty(t, [tuple(s) for s in op["path"]])
            exact = op.get("form") in ("xobj", "xobj_oo")
            o = "Some (%s, %s)" % (path_term(op["path"]), G.val_term(et, source_caps(et, op["new"]) if exact else op["new"]))
        else:
            o = "None"; exact = False
        steps.append("mkU (%s) %s %s %s" % (o, "true" if exact else "false", "true" if st["ok"] else "false", zlist(st["bytes"])))
    return "mkUC (%s) (%s) %s %s [%s]" % (G.ty_term(t), G.val_term(t, c["value"]), zlit(r["size"]), zlist(r["bytes0"]), ";\n     ".join(steps))


def cases_file(pairs):
    body = "From Coq Require Import ZArith List.\nImport ListNotations.\nFrom XO Require Import Types Format Check Update AllocSpec.\nOpen Scope Z_scope.\n"
    body += "Definition cs : list ucase := [\n  " + ";\n  ".join(case_term(c, r) for c, r in pairs) + "\n].\n"
    body += 'Goal True. idtac "@@upd". exact I. Qed.\nEval vm_compute in (failing updates_ok 0%nat cs).\n'
    return body


def judge_case(pid, c, r, coq_fail):
    """returns list of (signature, what, step index)"""
    t = c["type"]
    out = []
    if r.get("stage"):
        if r["stage"] == "harness":
            out.append(("%s/harness-problem" % pid, r.get("msg"), -1))
        return out
    cur = c["value"]
    prev_bytes = r["bytes0"]
    k_coq = 0
    for k, (op, st) in enumerate(zip(c["ops"], r["steps"])):
        mode = op["mode"]
        if mode == "grow":
            if pid == "C10":
                if not st["ok"]:
                    out.append(("C10/grow-raises-%s" % st.get("exc"), st.get("msg"), k))
                elif st["bytes"] != prev_bytes or G.strip_sizes(st.get("readback")) != G.strip_sizes(cur):
                    out.append(("C10/value-changed-by-buffer-growth", "object changed while the buffer grew", k))
            prev_bytes = st["bytes"]; continue
        fitting = mode == "set" and op.get("expect") is True
        if fitting:
            p = [tuple(s) for s in op["path"]]
            et = sub_ty(t, p)
            new_cur = vset(cur, p, retag(et, vget(cur, p), op["new"]))
            if pid == "C10":
                what = None
                kind = "%s-%s" % (et["k"], "leaf" if et["k"] in ("scalar", "string") else "whole")
                if not st["ok"]:
                    what = ("C10/fitting-assignment-raises-%s/%s/%s" % (st.get("exc"), kind, L.sig_type(et) if et["k"] == "array" else et["k"]), st.get("msg"))
                elif st["outside_changed"]:
                    what = ("C10/assignment-wrote-outside-the-object/%s" % kind, "bytes %s outside the extent changed" % st["outside_changed"])
                elif "readback_exc" in st or G.strip_sizes(st.get("readback")) != G.strip_sizes(new_cur):
                    what = ("C10/value-after-assignment-differs/%s/via-%s" % (kind, op.get("via")), "after the assignment the object does not read as the value tree updated at that element")
                elif "view_exc" in st or st.get("view_readback") != st.get("readback"):
                    what = ("C10/view-and-handle-differ-after-assignment/%s" % kind, "a fresh view reads something else than the handle")
                elif st["size_now"] != r["size"]:
                    what = ("C10/size-changed-by-assignment/%s" % kind, "size word %s -> %s" % (r["size"], st["size_now"]))
                elif coq_fail is not None and coq_fail == k_coq:
                    what = ("C10/bytes-after-assignment-not-the-documented-image/%s" % kind, "the object's bytes are not the image of the updated value (sizes/capacities must stay as created)")
                if what:
                    out.append((what[0], what[1], k))
                    break
            # anything unexpected here (whether or not it concerns this property) makes the rest of the history unreliable
            if (not st["ok"]) or st["outside_changed"] or "readback_exc" in st or G.strip_sizes(st.get("readback")) != G.strip_sizes(new_cur) \
               or st["size_now"] != r["size"] or (coq_fail is not None and coq_fail == k_coq):
                break
            cur = new_cur
        else:
            if pid == "C11":
                mis = op.get("misuse", "misuse")
                if st["ok"]:
                    changed = st["bytes"] != prev_bytes or bool(st["outside_changed"])
                    out.append(("C11/%s-accepted-%s" % (mis, "and-data-changed" if changed else "silently"),
                                "an operation that cannot be honoured did not raise", k))
                elif st["bytes"] != prev_bytes or st["outside_changed"]:
                    out.append(("C11/%s-raised-but-modified-data" % mis, "raised %s after changing bytes" % st.get("exc"), k))
            # whatever happened, later expectations follow what the implementation now holds: stop judging this case
            if st["ok"] or st["bytes"] != prev_bytes:
                break
        prev_bytes = st["bytes"]
        if mode != "grow":
            k_coq += 1
    return out


def run(ctx):
    pid = ctx.pid
    bud = BUDGET[ctx.tier]
    obl = check_obligations(ctx)
    rng = random.Random(ctx.seed)
    cdir = os.path.join(VERIF, "corpus", "update")
    corpus = [json.load(open(os.path.join(cdir, f))) for f in sorted(os.listdir(cdir))] if os.path.isdir(cdir) else []
    cases = list(corpus) + systematic_cases(rng)
    nfixed = len(cases)
    while len(cases) < bud["n"] + nfixed:
        cases.append(gen_case(rng, bud["depth"], bud["nops"]))
    sh = (len(cases) + bud["shards"] - 1) // bud["shards"]
    results = []
    for r in run_impl_parallel(ctx, "update", [{"cases": cases[i:i + sh]} for i in range(0, len(cases), sh)]):
        results += r["results"]
    idx = [i for i, r in enumerate(results) if "steps" in r]
    SH = 25
    files = [("cases_%s_%d" % (pid, j // SH), cases_file([(cases[i], results[i]) for i in idx[j:j + SH]])) for j in range(0, len(idx), SH)]
    res = coq_eval_many(ctx, files)
    coq_fail = {}; broken = None
    for j in range(0, len(idx), SH):
        rc, out = res["cases_%s_%d" % (pid, j // SH)]
        pairs = parse_pairs(out) if rc == 0 else None
        if pairs is None:
            broken = out[-1500:]; continue
        for a, b in pairs:
            coq_fail[idx[j + a]] = b
    bysig = {}
    nsteps = 0
    hist = collections.Counter()
    for i, (c, r) in enumerate(zip(cases, results)):
        for op in c["ops"]:
            if op.get("form") in ("xobj", "xobj_oo", "np"): hist["new-value-as:" + op["form"]] += 1
            nsteps += 1; hist["op:" + op["mode"] + (":" + op["misuse"] if "misuse" in op else (":fitting" if op.get("expect") else ""))] += 1
        for sig, what, k in judge_case(pid, c, r, coq_fail.get(i)):
            if sig not in bysig or len(json.dumps(c)) < len(json.dumps(cases[bysig[sig][0]])):
                bysig[sig] = (i, what, k)
        # a Coq rejection that no python oracle explains is still reported (for the property it concerns)
        if i in coq_fail and coq_fail[i] != 999 and not judge_case(pid, c, r, coq_fail.get(i)):
            st_ops = [op for op in c["ops"] if op["mode"] != "grow"]
            k = coq_fail[i]
            fitting = k < len(st_ops) and st_ops[k].get("expect") is True
            if (pid == "C10") == fitting:
                sig = "%s/step-rejected-by-the-model" % pid
                if sig not in bysig:
                    bysig[sig] = (i, "Update.updates_ok rejects step %d" % k, k)
    found = False
    for sig, (i, what, k) in sorted(bysig.items()):
        found = True
        c = dict(cases[i]); c["ops"] = c["ops"][:k + 1] if k >= 0 else c["ops"]
        report(ctx, sig, what, dict(kind="concrete", tie="K-SET", case=c, failing_step=k,
                                    observed={kk: vv for kk, vv in (results[i]["steps"][k] if k >= 0 and "steps" in results[i] else results[i]).items() if kk not in ("bytes",)},
                                    how_to_replay="./check %s --replay <this file>" % pid))
    if broken:
        report(ctx, "%s/cases-do-not-evaluate" % pid, "cases file does not evaluate", dict(kind="broken-tie", log=broken), no_input=True)
    broken_obligations_violation(ctx, obl, found)
    distinct = set(hashlib.sha1(json.dumps([c["type"], c["ops"]], sort_keys=True).encode()).hexdigest() for c in cases if len(c["ops"]) >= 2)
    cov = dict(evaluations=nsteps, distinct_nontrivial=len(distinct), histories=len(cases), judged_in_coq=len(idx),
               rule="generated reference-free objects (as C01) then histories of %d operations through the constructor handle or fresh views: fitting assignments of leaves (scalars, strings within capacity) and of whole nested structs/arrays of equal shape (plain data or numpy), buffer growth in between, and misuse (string / nested item too large, array update of other length or shape, index outside the shape incl. negative, buffer of another context, offset without buffer). After every step: full re-read through handle and view, whole-buffer diff, bytes judged in Coq against the image of the model's updated value tree. distinct = distinct (type, op list)" % bud["nops"],
               samples=[{"type": cases[-1]["type"], "ops": cases[-1]["ops"][:4]}], distribution=dict(sorted(hist.items())), corpus_cases=len(corpus))
    return finish(ctx, "proof", obl, cov,
                  ["reference-free fragment (references: C08)", "fits = same shape and every string within the capacity fixed at creation (model: Update.assign)"])


def replay(ctx, path):
    r = json.load(open(path))
    if r.get("kind") != "concrete":
        print("nothing to execute:", r.get("what")); return 1
    c = r["case"]
    res = run_impl(ctx, "update", {"cases": [c]})["results"][0]
    cf = None
    if "steps" in res:
        rc, out = coq_run(ctx, "replay_%s" % ctx.pid, cases_file([(c, res)]))
        pairs = parse_pairs(out) if rc == 0 else None
        cf = pairs[0][1] if pairs else None
    j = judge_case(ctx.pid, c, res, cf)
    for st in res.get("steps", []):
        print(json.dumps({k: v for k, v in st.items() if k not in ("bytes", "readback", "view_readback")})[:300])
    print("REPRODUCED %s" % j if j else "not reproduced")
    return 1 if j else 0
