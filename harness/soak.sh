#!/bin/sh
# usage: harness/soak.sh "<ids>" <first seed> <last seed> [tier]   -- runs checks over many seeds, prints only non-OK outcomes
cd /verif
for s in $(seq $2 $3); do for id in $1; do
  out=$(VERIF_SEED=$s timeout 3000 ./check $id --tier ${4:-quick} 2>&1); rc=$?
  if [ $rc -ne 0 ]; then echo "seed=$s $id rc=$rc"; echo "$out" | grep -E "violation:|Error|Traceback" | cut -c1-220 | head -6; fi
done; done
echo "soak done: $1 seeds $2..$3"
