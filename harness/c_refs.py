"""C08 / C09: histories over objects holding references (bind existing / value / foreign / null, write through
reference or original, growth; copy construction into the same buffer, another buffer, another context).
The expected behaviour comes from an abstract store with object identity (mirrored by RefOps.v); the final
buffers are judged by the strict decoder inside Coq (heap_ok)."""
import json, os, hashlib, collections, random, copy
from core import *
import gen_types as G
import c_layout as L
import c_update as U

NULLVALUE = -(2 ** 63)
BUDGET = {"quick": dict(n=220, shards=12, nops=9), "thorough": dict(n=4000, shards=16, nops=25)}


# ------------------------------------------------------------------ type worlds
def leaf_struct(rng, tag):
    nf = rng.choice([1, 2, 3])
    fields = []
    for i in range(nf):
        r = rng.random()
        if r < 0.5: ft = {"k": "scalar", "name": rng.choice(G.SC)}
        elif r < 0.75: ft = {"k": "string"}
        else: ft = {"k": "array", "item": {"k": "scalar", "name": rng.choice(G.SC)}, "shape": [rng.choice([None, 2, 3])], "order": [0]}
        fields.append(["f%d" % i, ft])
    return {"k": "struct", "name": "L%s_%s" % (tag, G.struct_name(fields)[1:7]), "fields": fields}


def gen_world(rng):
    L0, L1 = leaf_struct(rng, "a"), leaf_struct(rng, "b")
    A = {"k": "array", "item": {"k": "scalar", "name": "Float64"}, "shape": [None], "order": [0]}
    members = [L0, L1] + ([A] if rng.random() < 0.4 else [])
    Un = {"k": "union", "name": "U" + hashlib.sha1(json.dumps(members, sort_keys=True).encode()).hexdigest()[:8], "members": members}
    # a second union listing the same member types at OTHER positions
    Un2 = {"k": "union", "name": "V" + Un["name"][1:], "members": list(reversed(members))}
    inner = {"k": "struct", "name": "I" + hashlib.sha1(json.dumps(L0, sort_keys=True).encode()).hexdigest()[:8],
             "fields": [["x", {"k": "scalar", "name": "Int32"}], ["r2", {"k": "ref", "target": L0}]]}
    pool = [["a", {"k": "scalar", "name": rng.choice(G.SC)}], ["r", {"k": "ref", "target": L0}], ["u", Un],
            ["rs", {"k": "array", "item": {"k": "ref", "target": L1}, "shape": [rng.choice([2, None])], "order": [0]}],
            ["us", {"k": "array", "item": Un, "shape": [rng.choice([2, None])], "order": [0]}],
            ["inner", inner], ["ra", {"k": "ref", "target": A}], ["s", {"k": "string"}],
            ["rm", {"k": "array", "item": {"k": "ref", "target": L1}, "shape": [2, rng.choice([2, 3, None])], "order": [1, 0]}],
            ["u2", Un2],
            # two referent array types of the SAME class name (name = item type + shape) laid out differently
            ["g1", {"k": "ref", "target": {"k": "array", "item": {"k": "scalar", "name": "Float64"}, "shape": [2, 3], "order": [0, 1]}}],
            ["g2", {"k": "ref", "target": {"k": "array", "item": {"k": "scalar", "name": "Float64"}, "shape": [2, 3], "order": [1, 0]}}]]
    while True:
        fields = [f for f in pool if rng.random() < 0.5]
        if any(G.has_kind(ft, "ref") or G.has_kind(ft, "union") for _, ft in fields) and 1 <= len(fields):
            break
    N = {"k": "struct", "name": "N" + hashlib.sha1(json.dumps(fields, sort_keys=True).encode()).hexdigest()[:8], "fields": fields}
    if rng.random() < 0.4:
        N["field_decl"] = True; N["name"] = "F" + N["name"][1:]       # fields declared through xo.Field(...)
        if rng.random() < 0.5 and any(f[0] == "r" for f in fields):
            N["ref_defaults"] = {"r": G.gen_value(rng, L0)}; N["name"] = "G" + N["name"][1:]
    if rng.random() < 0.3:
        inner["field_decl"] = True; inner["name"] = "J" + inner["name"][1:]
    D = {"k": "struct", "name": "D" + N["name"][1:], "fields": [["d", {"k": "ref", "target": N}], ["k", {"k": "scalar", "name": "Int64"}]]}
    if rng.random() < 0.35:      # N-D, not C-ordered
        NA = {"k": "array", "item": N, "shape": [2, rng.choice([2, None])], "order": [1, 0]}
    else:
        NA = {"k": "array", "item": N, "shape": [rng.choice([2, None])], "order": [0]}
    return dict(L0=L0, L1=L1, A=A, U=Un, N=N, D=D, NA=NA)


# ------------------------------------------------------------------ abstract store with identity
class Store:
    def __init__(self):
        self.objs = {}      # id -> dict(type, buf, tree)
        self.n = 0

    def intern(self, t, v, buf):
        self.n += 1
        i = self.n
        self.objs[i] = {"type": t, "buf": buf, "tree": None}
        self.objs[i]["tree"] = self._tree(t, v, buf)
        return i

    def _tree(self, t, v, buf):
        k = t["k"]
        if k in ("scalar", "string"): return copy.deepcopy(v)
        if k == "struct": return {"f": [self._tree(ft, fv, buf) for (_, ft), fv in zip(t["fields"], v["f"])]}
        if k == "array": return {"shape": list(v["shape"]), "items": [self._tree(t["item"], x, buf) for x in v["items"]]}
        if k == "ref": return {"ref": None if v is None else self.intern(t["target"], v["r"], buf)}
        if k == "union": return {"ref": None, "m": None} if v is None else {"ref": self.intern(t["members"][v["m"]], v["v"], buf), "m": v["m"]}

    def resolve_tree(self, t, tr):
        k = t["k"]
        if k in ("scalar", "string"): return tr
        if k == "struct": return {"f": [self.resolve_tree(ft, x) for (_, ft), x in zip(t["fields"], tr["f"])]}
        if k == "array": return {"shape": tr["shape"], "items": [self.resolve_tree(t["item"], x) for x in tr["items"]]}
        if k == "ref": return None if tr["ref"] is None else {"r": self.resolve(tr["ref"])}
        if k == "union": return None if tr["ref"] is None else {"m": tr["m"], "v": self.resolve(tr["ref"])}

    def resolve(self, i):
        o = self.objs[i]
        return self.resolve_tree(o["type"], o["tree"])

    def walk(self, i, path):
        """follow a path from object i, crossing references; returns (objid, type, container, key) of the last element"""
        o = self.objs[i]; t = o["type"]; tr = o["tree"]; oid = i
        cont = key = None
        for kind, j in path:
            if t["k"] == "ref":
                oid = tr["ref"]; o = self.objs[oid]; t = o["type"]; tr = o["tree"]
            elif t["k"] == "union":
                oid = tr["ref"]; o = self.objs[oid]; t = o["type"]; tr = o["tree"]
            if kind == "f":
                cont, key = tr["f"], j; t = t["fields"][j][1]; tr = tr["f"][j]
            else:
                cont, key = tr["items"], j; t = t["item"]; tr = tr["items"][j]
        return oid, t, cont, key

    def deep_copy(self, i, buf, share_refs):
        """copy construction: same buffer -> references share their referent; else everything is duplicated"""
        o = self.objs[i]
        def cp(t, tr):
            k = t["k"]
            if not (G.has_kind(t, "ref") or G.has_kind(t, "union")):
                return copy.deepcopy(tr)          # reference-free parts are copied byte by byte (capacities kept)
            if k == "struct":
                out = []
                for (_, ft), x in zip(t["fields"], tr["f"]):
                    if ft["k"] == "string":       # rebuilt from its text: minimal capacity
                        out.append({"s": list(x["s"]), "size": G.slot(len(x["s"]) + 9)})
                    else:
                        out.append(cp(ft, x))
                return {"f": out}
            if k == "array": return {"shape": list(tr["shape"]), "items": [cp(t["item"], x) for x in tr["items"]]}
            if k in ("ref", "union"):
                if tr["ref"] is None: return copy.deepcopy(tr)
                if share_refs: return copy.deepcopy(tr)
                r = dict(tr); r["ref"] = self.deep_copy(tr["ref"], buf, False); return r
        self.n += 1
        j = self.n
        self.objs[j] = {"type": o["type"], "buf": buf, "tree": None}
        self.objs[j]["tree"] = cp(o["type"], o["tree"])
        return j


def assign_tree(store, t, dst, src, same_buffer, buf):
    """element of type t holding dst := object-valued src (field-wise, as the library does for compounds with
    references): scalars and texts are taken over, string capacities and array shapes of the destination
    stay (None if they do not match / fit), references share their referent inside one buffer and get a
    fresh duplicate otherwise"""
    k = t["k"]
    if k == "scalar": return copy.deepcopy(src)
    if k == "string":
        if 8 + len(src["s"]) + 1 > dst["size"]: return None
        return {"s": list(src["s"]), "size": dst["size"]}
    if k == "struct":
        out = []
        for (_, ft), d, x in zip(t["fields"], dst["f"], src["f"]):
            r = assign_tree(store, ft, d, x, same_buffer, buf)
            if r is None: return None
            out.append(r)
        return {"f": out}
    if k == "array":
        if dst["shape"] != src["shape"]: return None
        out = []
        for d, x in zip(dst["items"], src["items"]):
            r = assign_tree(store, t["item"], d, x, same_buffer, buf)
            if r is None: return None
            out.append(r)
        return {"shape": list(dst["shape"]), "items": out}
    if k in ("ref", "union"):
        if src["ref"] is None or same_buffer: return copy.deepcopy(src)
        r = dict(src); r["ref"] = store.deep_copy(src["ref"], buf, False); return r


def struct_paths(store, i):
    """non-crossing paths inside object i to nested structs that hold references"""
    out = []
    def rec(t, tr, p):
        k = t["k"]
        if k == "struct":
            if p and (G.has_kind(t, "ref") or G.has_kind(t, "union")): out.append((p, t, tr))
            for j, ((_, ft), x) in enumerate(zip(t["fields"], tr["f"])): rec(ft, x, p + (("f", j),))
        elif k == "array":
            for j, x in enumerate(tr["items"]): rec(t["item"], x, p + (("i", j),))
    o = store.objs[i]
    rec(o["type"], o["tree"], ())
    return out


def slot_paths(store, i, prefix=(), cross=True, seen=None):
    """paths (from object i) to every reference slot; crossing non-null references if cross"""
    out = []
    def rec(t, tr, p):
        k = t["k"]
        if k == "struct":
            for j, ((_, ft), x) in enumerate(zip(t["fields"], tr["f"])): rec(ft, x, p + (("f", j),))
        elif k == "array":
            for j, x in enumerate(tr["items"]): rec(t["item"], x, p + (("i", j),))
        elif k in ("ref", "union"):
            out.append((p, t, tr))
            if cross and tr["ref"] is not None:
                o = store.objs[tr["ref"]]
                rec(o["type"], o["tree"], p)
    o = store.objs[i]
    rec(o["type"], o["tree"], tuple(prefix))
    return out


def leaf_paths(store, i):
    """paths to assignable ref-free elements (scalars, strings), crossing references"""
    out = []
    def rec(t, tr, p):
        k = t["k"]
        if k in ("scalar", "string"): out.append((p, t, tr))
        elif k == "struct":
            for j, ((_, ft), x) in enumerate(zip(t["fields"], tr["f"])): rec(ft, x, p + (("f", j),))
        elif k == "array":
            for j, x in enumerate(tr["items"]): rec(t["item"], x, p + (("i", j),))
        elif k in ("ref", "union") and tr["ref"] is not None:
            o = store.objs[tr["ref"]]
            rec(o["type"], o["tree"], p)
    o = store.objs[i]
    rec(o["type"], o["tree"], ())
    return out


# ------------------------------------------------------------------ generation
def gen_case(rng, nops, pid):
    W = gen_world(rng)
    base = L.gen_case(rng, 1)
    prep = dict(base["prep"]); prep.pop("pre", None); prep["cap"] = rng.choice([0, 64, 512, 4096])
    st = Store()
    names = {}     # name -> store id
    ops = []

    def push(op):
        op["expect"] = {nm: st.resolve(i) for nm, i in names.items()}
        op["alias"] = alias_info(st, names)
        ops.append(op)

    def null_refs(t, v):
        k = t["k"]
        if k in ("ref", "union"): return None
        if k == "struct": return {"f": [null_refs(ft, fv) for (_, ft), fv in zip(t["fields"], v["f"])]}
        if k == "array": return {"shape": list(v["shape"]), "items": [null_refs(t["item"], x) for x in v["items"]]}
        return v
    def new(name, t, buf, nulls=False):
        v = G.gen_value(rng, t)
        if nulls: v = null_refs(t, v)          # every reference of this object denotes nothing
        names[name] = st.intern(t, v, buf)
        push({"op": "new", "name": name, "type": t, "value": v, "buf": buf})
    holder_t = rng.choice([W["N"], W["N"], W["D"], W["NA"]])
    first = rng.choice(["h", "h", "x0", "x1"])     # which object gets offset 0 of B0
    if first == "x0": new("x0", W["L0"], "B0")
    if first == "x1": new("x1", W["L1"], "B0")
    new("h", holder_t, "B0")
    if first != "x0": new("x0", W["L0"], "B0")
    if first != "x1": new("x1", W["L1"], "B0")
    if rng.random() < 0.7: new("y0", W["L0"], rng.choice(["B1", "B2"]))
    if rng.random() < 0.5: new("y1", W["L1"], rng.choice(["B1", "B2"]))
    if rng.random() < 0.3: new("xa", W["A"], "B0")
    if holder_t is W["NA"] and rng.random() < 0.8:      # another object of the item type, to be assigned as a whole
        new("n1", W["N"], rng.choice(["B0", "B0", "B1"]), nulls=rng.random() < 0.5)
    for k in range(nops):
        r = rng.random()
        if r < (0.35 if pid == "C09" else 0.10):
            src = rng.choice(["h"] + [n for n in names if n.startswith("c")])
            buf = rng.choice(["B0", "B0", "B1", "B2"])
            name = "c%d" % k
            names[name] = st.deep_copy(names[src], buf, share_refs=(buf == st.objs[names[src]]["buf"]))
            push({"op": "copy", "name": name, "src": src, "buf": buf})
        elif r < 0.45:
            target_name = rng.choice([n for n in names if n == "h" or n.startswith("c")])
            sp = slot_paths(st, names[target_name])
            if not sp: continue
            p, t, tr = rng.choice(sp)
            oid, _, cont, key = st.walk(names[target_name], p)
            hb = st.objs[oid]["buf"]
            cands = [t["target"]] if t["k"] == "ref" else list(t["members"])
            kind = rng.choice(["existing", "existing", "value", "foreign", "null"])
            via = rng.choice(["handle", "view"])
            bop = {"op": "bind", "obj": target_name, "path": [list(s) for s in p], "via": via, "owner_rid": oid}
            if kind == "null":
                cont[key] = {"ref": None} if t["k"] == "ref" else {"ref": None, "m": None}
                bop["src"] = {"kind": "null"}; push(bop); continue
            mt = rng.choice(cands); mi = cands.index(mt)
            if kind in ("existing", "foreign"):
                pool = [n for n, i in names.items() if st.objs[i]["type"] == mt and (st.objs[i]["buf"] == hb) == (kind == "existing")]
                if pool:
                    n = rng.choice(pool)
                    rid = names[n] if kind == "existing" else st.deep_copy(names[n], hb, False)
                    cont[key] = {"ref": rid} if t["k"] == "ref" else {"ref": rid, "m": mi}
                    bop["src"] = {"kind": kind, "name": n}; bop["fresh"] = (kind == "foreign"); push(bop); continue
            v = G.gen_value(rng, mt)
            rid = st.intern(mt, v, hb)
            cont[key] = {"ref": rid} if t["k"] == "ref" else {"ref": rid, "m": mi}
            bop["src"] = {"kind": "value", "type": mt, "value": v, "member_name": t["k"] == "union"}; bop["fresh"] = True
            push(bop)
        elif r < 0.55 and "n1" in names:
            # a whole struct that holds references is assigned from another object of its class
            tgt = rng.choice([n for n in names if n == "h" or (n.startswith("c") and st.objs[names[n]]["type"] == st.objs[names["h"]]["type"])])
            sp = [x for x in struct_paths(st, names[tgt]) if x[1] == W["N"]]
            if not sp: continue
            p, t, tr = rng.choice(sp)
            oid, _, cont, key = st.walk(names[tgt], p)
            hb = st.objs[oid]["buf"]
            src_tr = st.objs[names["n1"]]["tree"]
            new_tr = assign_tree(st, t, tr, src_tr, st.objs[names["n1"]]["buf"] == hb, hb)
            if new_tr is None: continue
            cont[key] = new_tr
            push({"op": "assign", "obj": tgt, "path": [list(s) for s in p], "src": "n1", "via": rng.choice(["handle", "view"]), "owner_rid": oid})
        elif r < 0.88:
            n = rng.choice(list(names))
            lp = leaf_paths(st, names[n])
            if not lp: continue
            p, t, tr = rng.choice(lp)
            oid, _, cont, key = st.walk(names[n], p)
            new_v = U.gen_like(rng, t, tr, fit=True)
            cont[key] = U.retag(t, tr, new_v)
            push({"op": "write", "obj": n, "path": [list(s) for s in p], "type": t, "new": new_v, "via": rng.choice(["handle", "view"]), "owner_rid": oid})
        else:
            push({"op": "grow", "buf": rng.choice(["B0", "B0", "B1"]), "extra": rng.choice([64, 1000])})
    ops[-1]["dump"] = True
    return {"prep": prep, "ops": ops, "types": {nm: st.objs[i]["type"] for nm, i in names.items()}}


def alias_info(st, names):
    """for every named object: for each of its direct (non-crossing) ref slots, the store id it denotes"""
    out = {}
    for nm, i in names.items():
        out[nm] = [[[list(s) for s in p], tr["ref"], tr.get("m")] for p, t, tr in slot_paths(st, i, cross=False)]
    out["_named"] = {str(i): nm for nm, i in names.items()}
    out["_buf"] = {str(i): o["buf"] for i, o in st.objs.items()}
    return out


# ------------------------------------------------------------------ judgement
def judge_case(pid, c, r):
    if r.get("stage"):
        return [("%s/harness-problem" % pid, r.get("msg", "") + r.get("tb", "")[-300:], -1)]
    where = {}
    allocs_so_far = {"B0": [], "B1": [], "B2": []}
    for k, (op, st) in enumerate(zip(c["ops"], r["steps"])):
        kind = op["op"] + ("-" + op["src"]["kind"] if op["op"] == "bind" else "")
        mine = (op["op"] == "copy") == (pid == "C09") or op["op"] in ("write", "grow", "new", "assign")
        # C08 on a copy step: what the copy *holds* is C09's business; that each of its references
        # denotes a live object of the recorded type in its own buffer is C08's
        slots_only = pid == "C08" and op["op"] == "copy"
        for b, al in st.get("allocs", {}).items():
            allocs_so_far[b] += al
        if not st["ok"]:
            return [("%s/%s-raises-%s" % (pid, kind, st.get("exc")), st.get("msg"), k)] if mine else []
        exp = op["expect"]; al = op["alias"]
        for nm, ev in exp.items():
            o = st["objs"].get(nm)
            if o is None: continue
            mine_o = mine
            if slots_only and nm == op["name"]:
                pass
            elif "read_exc" in o:
                return [("%s/read-after-%s-raises-%s" % (pid, kind, o["read_exc"]), o.get("read_msg"), k)] if mine_o else []
            elif G.strip_sizes(o["read"]) != G.strip_sizes(ev):
                who = "the-copy" if nm.startswith("c") else ("the-holder" if nm == "h" else "another-object")
                return [("%s/value-of-%s-differs-after-%s" % (pid, who, kind), "object %s does not read as expected" % nm, k)] if mine_o else []
            elif "view_exc" in o or o.get("view_read") != o["read"]:
                return [("%s/view-differs-from-handle-after-%s" % (pid, kind), "object %s" % nm, k)] if mine_o else []
            if slots_only and nm == op["name"]:
                mine_o = True
            slots = {json.dumps(s["path"]): s for s in o.get("slots", [])}
            for p, rid, m in al.get(nm, []):
                s = slots.get(json.dumps(p))
                if s is None:
                    return [("%s/harness-problem" % pid, "slot %s of %s not reported" % (p, nm), k)]
                if rid is None:
                    if s["rel"] != NULLVALUE or (s["tid"] is not None and s["tid"] != -1):
                        return [("%s/null-not-stored-as-null-after-%s" % (pid, kind), "slot %s rel=%s tid=%s" % (p, s["rel"], s["tid"]), k)] if mine_o else []
                    continue
                if s["rel"] == NULLVALUE:
                    return [("%s/reference-is-null-after-%s" % (pid, kind), "slot %s of %s" % (p, nm), k)] if mine_o else []
                absoff = s["slot"] + s["rel"]
                if s["tid"] is not None and s["tid"] != m:
                    return [("%s/union-member-index-wrong-after-%s" % (pid, kind), "slot %s tid=%s expected %s" % (p, s["tid"], m), k)] if mine_o else []
                tb = al["_buf"][str(rid)]
                named = al["_named"].get(str(rid))
                if named is not None and named in st["objs"]:
                    if st["objs"][named]["off"] != absoff or st["objs"][named]["buf"] != o["buf"]:
                        return [("%s/reference-does-not-denote-the-bound-object-after-%s" % (pid, kind),
                                 "slot %s of %s points at %d, object %s is at %d" % (p, nm, absoff, named, st["objs"][named]["off"]), k)] if mine_o else []
                elif rid in where:
                    if where[rid] != absoff:
                        return [("%s/referent-moved-or-aliases-disagree-after-%s" % (pid, kind), "referent %s at %d, before %d" % (rid, absoff, where[rid]), k)] if mine_o else []
                else:
                    where[rid] = absoff
                    if not any(a <= absoff < a + max(sz, 1) for a, sz in allocs_so_far[o["buf"]]):
                        return [("%s/referent-outside-any-allocation-after-%s" % (pid, kind), "slot %s of %s points at %d" % (p, nm, absoff), k)] if mine_o else []
        # copies must not overlap their source
        if op["op"] == "copy" and pid == "C09":
            a, b = st["objs"][op["name"]], st["objs"][op["src"]]
            if a["buf"] == b["buf"] and not (a["off"] + a["size"] <= b["off"] or b["off"] + b["size"] <= a["off"]):
                return [("C09/copy-overlaps-its-source", "copy at %d size %d, source at %d" % (a["off"], a["size"], b["off"]), k)]
    return []


def hcases(c, r):
    """Coq terms for the dump step: every named object against the strict decoder"""
    out = []
    st = r["steps"][-1]; op = c["ops"][-1]
    if "mem" not in st or not st["ok"]:
        return out
    for nm, ev in op["expect"].items():
        o = st["objs"].get(nm)
        if o is None or "read" not in o: continue
        t = c["types"][nm]
        out.append("mkHC (%s) (%s) mem_%s %s %s" % (G.ty_term(t), G.val_term(t, ev), o["buf"], zlit(o["off"]), zlit(o["size"])))
    return out


def cases_file(items):
    body = "From Coq Require Import ZArith List.\nImport ListNotations.\nFrom XO Require Import Types Format Check AllocSpec.\nOpen Scope Z_scope.\n"
    allc = []
    for n, (c, r) in enumerate(items):
        st = r["steps"][-1]
        if "mem" not in st: 
            continue
        hs = hcases(c, r)
        if not hs: continue
        for b in ("B0", "B1", "B2"):
            body += "Definition m%d_%s : list Z := %s.\n" % (n, b, zlist(st["mem"][b]))
        for h in hs:
            allc.append("(%s, %s)" % (natlit(n if len(items) > 1 else len([x for x in allc])), h.replace("mem_B", "m%d_B" % n)))
    body += "Definition cs : list (nat * hcase) := [\n  " + ";\n  ".join(allc) + "\n].\n"
    body += "Definition bad := filter (fun p => match heap_ok (snd p) with None => false | Some _ => true end) cs.\n"
    body += 'Goal True. idtac "@@heap". exact I. Qed.\nEval vm_compute in (map (fun p => (fst p, match heap_ok (snd p) with Some k => k | None => O end)) bad).\n'
    return body


def run(ctx):
    pid = ctx.pid
    bud = BUDGET[ctx.tier]
    obl = check_obligations(ctx)
    rng = random.Random(ctx.seed + (9 if pid == "C09" else 8))
    cdir = os.path.join(VERIF, "corpus", "refs_" + pid)
    corpus = [json.load(open(os.path.join(cdir, f))) for f in sorted(os.listdir(cdir))] if os.path.isdir(cdir) else []
    cases = list(corpus)
    while len(cases) < bud["n"] + len(corpus):
        cases.append(gen_case(rng, bud["nops"], pid))
    sh = (len(cases) + bud["shards"] - 1) // bud["shards"]
    results = []
    for r in run_impl_parallel(ctx, "refs", [{"cases": cases[i:i + sh]} for i in range(0, len(cases), sh)]):
        results += r["results"]
    bysig = {}
    clean = []
    for i, (c, r) in enumerate(zip(cases, results)):
        js = judge_case(pid, c, r)
        if not js and "steps" in r:
            clean.append(i)
        for sig, what, k in js:
            if sig not in bysig or len(json.dumps(c["ops"][:k + 1])) < len(json.dumps(cases[bysig[sig][0]]["ops"][:bysig[sig][2] + 1])):
                bysig[sig] = (i, what, k)
    # Coq: final buffers of clean histories judged by the strict decoder
    SH = 12
    files = [("cases_%s_%d" % (pid, j // SH), cases_file([(cases[i], results[i]) for i in clean[j:j + SH]])) for j in range(0, len(clean), SH)]
    res = coq_eval_many(ctx, files)
    broken = None; njudged = 0
    for j in range(0, len(clean), SH):
        rc, out = res["cases_%s_%d" % (pid, j // SH)]
        pairs = parse_pairs(out) if rc == 0 else None
        if pairs is None:
            broken = out[-1500:]; continue
        njudged += len(clean[j:j + SH])
        for a, code in pairs:
            i = clean[j + a]
            sig = "%s/final-buffer-not-decoded-to-the-expected-value/code%d" % (pid, code)
            if sig not in bysig:
                bysig[sig] = (i, "the strict decoder (references followed) does not recover the expected value from the final buffer", len(cases[i]["ops"]) - 1)
    found = False
    partcov = {}
    if pid == "C09":
        # copies of NESTED parts (reference-free types of any shape), the original re-laid-out afterwards
        extra, partcov = U.c09_part_copies(ctx, bud["n"] * 2, 3, bud["shards"])
        for sig, what, rep in extra:
            found = True
            report(ctx, sig, what, rep)
        extra, pc2 = U.c09_string_and_large_copies(ctx)
        partcov.update(pc2)
        for sig, what, rep in extra:
            found = True
            report(ctx, sig, what, rep)
    for sig, (i, what, k) in sorted(bysig.items()):
        found = True
        c = dict(cases[i]); c["ops"] = [dict(o) for o in c["ops"][:k + 1]] if k >= 0 else c["ops"]
        if c["ops"]: c["ops"][-1]["dump"] = True
        obs = results[i]["steps"][k] if k >= 0 and "steps" in results[i] else results[i]
        report(ctx, sig, what, dict(kind="concrete", tie="K-REF" if pid == "C08" else "K-COPY", case=c, failing_step=k,
                                    observed={kk: vv for kk, vv in obs.items() if kk not in ("mem", "objs")},
                                    how_to_replay="./check %s --replay <this file>" % pid))
    if broken:
        report(ctx, "%s/cases-do-not-evaluate" % pid, "cases file does not evaluate", dict(kind="broken-tie", log=broken), no_input=True)
    broken_obligations_violation(ctx, obl, found)
    hist = collections.Counter(); nst = 0
    for c in cases:
        for op in c["ops"]:
            nst += 1; hist["op:" + op["op"] + ("-" + op["src"]["kind"] if op["op"] == "bind" else "") + (":" + op["buf"] if op["op"] == "copy" else "")] += 1
        hist["holder:" + c["types"]["h"]["k"]] += 1
    distinct = set(hashlib.sha1(json.dumps(c["ops"], sort_keys=True).encode()).hexdigest() for c in cases)
    cov = dict(evaluations=nst, distinct_nontrivial=len(distinct), histories=len(cases), final_buffers_judged_in_coq=njudged,
               rule="generated worlds of types (leaf structs, arrays, UnionRef over them, holder structs with Ref / UnionRef fields, arrays of them, nested structs holding references, references to structs that hold references, arrays of reference-bearing structs) and histories over three buffers (two sharing a context): construct, bind-to-existing / -value / -foreign-object / -null through handle or view, write through reference or original, buffer growth%s. After every step every object is read deeply through handle and fresh view and every reference slot is read raw (target address, member index) and compared with an abstract store with object identity; the final buffers are decoded by the strict decoder in Coq." % ("; copy construction into the same buffer / another buffer / another context followed by writes on either side" if pid == "C09" else ""),
               samples=[{"ops": [{k: v for k, v in o.items() if k not in ("expect", "alias", "type", "value")} for o in cases[-1]["ops"][:8]]}],
               distribution=dict(sorted(hist.items())), corpus_cases=len(corpus))
    if partcov:
        cov.update(partcov)
        cov["rule"] += " Second pass (part copies): a holder of a generated reference-free type, one of its nested compound parts copy-constructed (same buffer / other buffer / other context), then an ancestor of that part assigned another object of its class with the same total size and another distribution of its variable-size items, then a leaf of the copy and a leaf of the original written; after each step original, copy through the kept handle and copy through a fresh view are read back and compared with the value model."
    return finish(ctx, "proof", obl, cov, ["objects bound into a reference have the reference's target type (or a member type of the union)",
                                           "nothing is freed during a history, so every allocation logged for a buffer is live"])


# ------------------------------------------------------------------ C06 over reference histories
def c06_histories(ctx, n, nops, shards):
    """C06 (decoding is a function of the bytes) on objects holding references: after every step of a
    history every object is read through its long-lived handle and through a view rebuilt from
    (buffer, offset); the two decodings of the same bytes must agree.  Returns ([(sig, what, replay)], coverage)."""
    rng = random.Random(ctx.seed + 606)
    cases = [gen_case(rng, nops, "C08") for _ in range(n)]
    sh = (len(cases) + shards - 1) // shards
    results = []
    for r in run_impl_parallel(ctx, "refs", [{"cases": cases[i:i + sh]} for i in range(0, len(cases), sh)]):
        results += r["results"]
    bysig = {}; nreads = 0
    for i, (c, r) in enumerate(zip(cases, results)):
        if r.get("stage") or "steps" not in r:
            continue
        for k, (op, st) in enumerate(zip(c["ops"], r["steps"])):
            if not st["ok"]:
                break
            kind = op["op"] + ("-" + op["src"]["kind"] if op["op"] == "bind" else "")
            bad = None
            for nm, o in st["objs"].items():
                if "read_exc" in o: continue
                nreads += 1
                if "view_exc" in o:
                    bad = ("C06/refs/fresh-view-raises-after-%s" % kind, "object %s reads through its handle, a view rebuilt from (buffer, offset) raises %s" % (nm, o.get("view_exc")))
                elif o.get("view_read") != o["read"]:
                    bad = ("C06/refs/handle-and-fresh-view-decode-differently-after-%s" % kind, "object %s: the long-lived handle and a view rebuilt from (buffer, offset) read different values from the same bytes" % nm)
                if bad: break
            if bad:
                if bad[0] not in bysig or k < bysig[bad[0]][2]:
                    bysig[bad[0]] = (i, bad[1], k)
                break
    out = []
    for sig, (i, what, k) in sorted(bysig.items()):
        c = dict(cases[i]); c["ops"] = [dict(o) for o in c["ops"][:k + 1]]
        out.append((sig, what, dict(kind="concrete", tie="K-REF", case=c, failing_step=k, how_to_replay="./check C08 --replay <this file>  (same history runner; C06 judges handle vs fresh view)")))
    return out, dict(reference_histories=len(cases), handle_vs_view_reads=nreads)


# ------------------------------------------------------------------ C03 over reference histories
def c03_histories(ctx, n, nops, shards):
    """C03 on objects holding references: every step of a history may change only bytes inside the allocation of the
    object it assigns to (the object that contains the assigned slot / leaf, found by following references in the
    model) and inside allocations made during the step (objects newly created for references, copies); growth
    changes no byte below the old capacity.  Returns ([(sig, what, replay)], coverage)."""
    rng = random.Random(ctx.seed + 303)
    cases = []
    for _ in range(n):
        c = gen_case(rng, nops, "C09" if rng.random() < 0.3 else "C08")
        for op in c["ops"]: op["dump"] = True
        cases.append(c)
    sh = (len(cases) + shards - 1) // shards
    results = []
    for r in run_impl_parallel(ctx, "refs", [{"cases": cases[i:i + sh]} for i in range(0, len(cases), sh)]):
        results += r["results"]
    bysig = {}; judged = 0; skipped = 0
    for i, (c, r) in enumerate(zip(cases, results)):
        if r.get("stage") or "steps" not in r: continue
        allocs = {"B0": [], "B1": [], "B2": []}
        prev = None
        for k, (op, st) in enumerate(zip(c["ops"], r["steps"])):
            new_allocs = st.get("allocs", {})
            if not st.get("ok") or "mem" not in st:
                break
            if prev is not None:
                kind = op["op"] + ("-" + op["src"]["kind"] if op["op"] == "bind" else "")
                allowed = {b: [tuple(a) for a in new_allocs.get(b, [])] for b in ("B0", "B1", "B2")}
                known = True
                if op["op"] in ("bind", "write", "assign"):
                    nm = op["alias"]["_named"].get(str(op["owner_rid"]))
                    o = st["objs"].get(nm) if nm else None
                    if o is None:
                        known = False        # the owner is an anonymous referent: its place is not observed directly
                    else:
                        cont = [a for a in allocs[o["buf"]] if a[0] <= o["off"] < a[0] + max(a[1], 1)]
                        allowed[o["buf"]].append((o["off"], o["size"]) if not cont else tuple(cont[-1]))
                if known:
                    judged += 1
                    for b in ("B0", "B1", "B2"):
                        old, new = prev[b], st["mem"][b]
                        bad = [j for j in range(min(len(old), len(new))) if old[j] != new[j] and not any(a <= j < a + s for a, s in allowed[b])]
                        if bad:
                            sig = "C03/refs/bytes-outside-the-assigned-object-and-new-objects-changed-by-%s" % kind
                            what = "buffer %s: bytes %s.. changed; allowed regions %s" % (b, bad[:6], allowed[b])
                            if sig not in bysig or k < bysig[sig][2]: bysig[sig] = (i, what, k)
                            break
                else:
                    skipped += 1
            for b, al in new_allocs.items(): allocs[b] += [tuple(a) for a in al]
            prev = st["mem"]
    out = []
    for sig, (i, what, k) in sorted(bysig.items()):
        c = dict(cases[i]); c["ops"] = [dict(o) for o in c["ops"][:k + 1]]
        out.append((sig, what, dict(kind="concrete", tie="K-REF", mode="c03", case=c, failing_step=k, how_to_replay="./check C03 --replay <this file>")))
    return out, dict(reference_histories=len(cases), steps_with_byte_frame_judged=judged, steps_with_anonymous_owner_not_judged=skipped)


def c03_replay(ctx, r):
    c = r["case"]
    for op in c["ops"]: op["dump"] = True
    res = run_impl(ctx, "refs", {"cases": [c]})["results"][0]
    k = r.get("failing_step", len(c["ops"]) - 1)
    steps = res.get("steps", [])
    if len(steps) <= k or "mem" not in steps[k] or "mem" not in steps[k - 1]:
        print("history does not reach the step"); return 0
    ch = {b: [j for j in range(min(len(steps[k - 1]["mem"][b]), len(steps[k]["mem"][b]))) if steps[k - 1]["mem"][b][j] != steps[k]["mem"][b][j]] for b in ("B0", "B1", "B2")}
    print("step %d (%s): changed bytes per buffer: %s; allocations in the step: %s; objects: %s" % (
        k, c["ops"][k]["op"], {b: (v[:4], len(v)) for b, v in ch.items() if v}, steps[k].get("allocs"),
        {nm: (o["buf"], o["off"], o["size"]) for nm, o in steps[k]["objs"].items()}))
    print("see the check's judgement for the allowed regions; REPRODUCED if the check reports it again")
    return 1


# ------------------------------------------------------------------ C10 over reference histories
def c10_histories(ctx, n, nops, shards):
    """C10 on objects holding references: an assignment (plain data bound into a reference, a leaf written through a
    reference or directly, a whole reference-bearing struct assigned) changes that element and leaves every other
    element and every other REFERENCE of every object unchanged.  Same histories and the same abstract store with
    identity as C08; only assignment steps are judged here.  Returns ([(sig, what, replay)], coverage)."""
    rng = random.Random(ctx.seed + 1010)
    cases = [gen_case(rng, nops, "C08") for _ in range(n)]
    sh = (len(cases) + shards - 1) // shards
    results = []
    for r in run_impl_parallel(ctx, "refs", [{"cases": cases[i:i + sh]} for i in range(0, len(cases), sh)]):
        results += r["results"]
    bysig = {}; nst = 0
    for i, (c, r) in enumerate(zip(cases, results)):
        for sig, what, k in judge_case("C08", c, r):
            if k < 0: continue
            op = c["ops"][k]
            nst += 1
            if op["op"] in ("write", "assign") or (op["op"] == "bind" and op["src"]["kind"] in ("value", "null")):
                sig10 = "C10/refs/" + sig.split("/", 1)[1]
                if sig10 not in bysig or k < bysig[sig10][2]:
                    bysig[sig10] = (i, what, k)
    out = []
    for sig, (i, what, k) in sorted(bysig.items()):
        c = dict(cases[i]); c["ops"] = [dict(o) for o in c["ops"][:k + 1]]
        if c["ops"]: c["ops"][-1]["dump"] = True
        out.append((sig, what, dict(kind="concrete", tie="K-REF", mode="c10", case=c, failing_step=k, how_to_replay="./check C08 --replay <this file> (same history runner and judgement)")))
    return out, dict(reference_histories=len(cases), steps_in_them=sum(len(c["ops"]) for c in cases))


def c06_replay(ctx, r):
    c = r["case"]
    res = run_impl(ctx, "refs", {"cases": [c]})["results"][0]
    bad = []
    for k, st in enumerate(res.get("steps", [])):
        for nm, o in st.get("objs", {}).items():
            if "view_exc" in o or ("read" in o and o.get("view_read") != o["read"]):
                bad.append((k, nm, o.get("read"), o.get("view_read", o.get("view_exc"))))
    for b in bad[:3]:
        print("step %d object %s: handle reads %s ; fresh view reads %s" % (b[0], b[1], json.dumps(b[2])[:300], json.dumps(b[3])[:300]))
    print("REPRODUCED handle-vs-view difference" if bad else "not reproduced")
    return 1 if bad else 0


def replay(ctx, path):
    r = json.load(open(path))
    if r.get("kind") != "concrete":
        print("nothing to execute:", r.get("what")); return 1
    if r.get("tie") in ("K-PARTCOPY", "K-COPY-PROBE"):
        return U.part_copy_replay(ctx, r)
    c = r["case"]
    res = run_impl(ctx, "refs", {"cases": [c]})["results"][0]
    j = judge_case(ctx.pid, c, res)
    if not j and "steps" in res:
        rc, out = coq_run(ctx, "replay_%s" % ctx.pid, cases_file([(c, res)]))
        pairs = parse_pairs(out) if rc == 0 else None
        if pairs or pairs is None:
            names = [nm for nm in c["ops"][-1]["expect"] if nm in res["steps"][-1]["objs"] and "read" in res["steps"][-1]["objs"][nm]]
            j = [("final-buffer", "heap_ok codes per judged object %s (objects in order: %s)" % (pairs, names), -1)]
    for st in res.get("steps", []):
        print(json.dumps({k: v for k, v in st.items() if k not in ("mem", "objs")})[:300])
    print("REPRODUCED %s" % j if j else "not reproduced")
    return 1 if j else 0
