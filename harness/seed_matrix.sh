#!/bin/sh
# applies every seeded change to /repo in turn, runs the quick check of its own property, reverts;
# writes seeded/RESULTS.txt; finally re-runs every quick check on the unchanged tree (clean evidence)
cd /verif
: > seeded/RESULTS.txt
for d in seeded/C*_*; do
  s=$(basename $d); id=${s%_*}
  r=$(harness/try_seed.sh $s $id 2>&1 | grep "^== " | head -1)
  echo "$s $r" >> seeded/RESULTS.txt
done
if [ -n "$(git -C /repo status --porcelain --untracked-files=no)" ]; then echo "/repo NOT CLEAN" >> seeded/RESULTS.txt; fi
for id in C01 C02 C03 C04 C05 C06 C07 C08 C09 C10 C11 C12 C13 C14 C15 C16 C17 C18 C19 C20; do
  ./check $id --tier quick > /tmp/clean_$id.log 2>&1; echo "clean $id rc=$?" >> seeded/RESULTS.txt
done
