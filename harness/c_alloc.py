"""C04 / C12: allocator histories judged by the Coq checkers safe_stepb / ff_stepb."""
import json, os, hashlib, collections
from core import *

BUDGET = {
    "quick":    dict(shards=8, n_walks=40, n_steps=45, exh_depth=3),
    "thorough": dict(shards=16, n_walks=320, n_steps=160, exh_depth=4),
}
EXH_CFGS = [
    {"kind": "numpy", "cap": 0, "al": 2, "gs": None},
    {"kind": "bytearray", "cap": 8, "al": 8, "gs": None},
    {"kind": "numpy", "cap": 8, "al": 2, "gs": 1},
    {"kind": "bytearray", "cap": 16, "al": 1, "gs": 5},
]


def op_term(op):
    if op[0] == "alloc":
        return "OAlloc %s %s" % (zlit(op[1]), zlit(op[2]))
    if op[0] == "free":
        return "OFree %s %s" % (zlit(op[1]), zlit(op[2]))
    return "OGrow %s" % zlit(op[1])


def obs_term(obs):
    if obs[0] == "off":
        return "RetOff %s" % zlit(obs[1])
    if obs[0] == "unit":
        return "RetUnit"
    return "RetErr"


def ist_term(s):
    return "(%s, [%s])" % (zlit(s["cap"]), "; ".join("(%s,%s)" % (zlit(a), zlit(b)) for a, b in s["chunks"]))


def walk_term(w):
    steps = "; ".join("mkO (%s) (%s) %s %s" % (op_term(s["op"]), obs_term(s["obs"]), ist_term(s["post"]), zlit(s["gf"]))
                      for s in w["steps"])
    return "mkW %s [%s]" % (ist_term(w["init"]), steps)


def cases_file(walks):
    body = "From Coq Require Import ZArith List.\nImport ListNotations.\nFrom XO Require Import Chunks AllocSpec.\nOpen Scope Z_scope.\n"
    body += "Definition walks : list walk := [\n  " + ";\n  ".join(walk_term(w) for w in walks) + "\n].\n"
    body += 'Goal True. idtac "@@ff". exact I. Qed.\nEval vm_compute in (failing walk_ff 0%nat walks).\n'
    body += 'Goal True. idtac "@@safe". exact I. Qed.\nEval vm_compute in (failing walk_safe 0%nat walks).\n'
    body += 'Goal True. idtac "@@account". exact I. Qed.\nEval vm_compute in (failing walk_account 0%nat walks).\n'
    return body


def parse_sections(out):
    secs = {}
    cur = None
    for line in out.splitlines():
        if line.startswith("@@"):
            cur = line[2:].strip(); secs[cur] = ""
        elif cur:
            secs[cur] += line + "\n"
    return {k: parse_pairs(v) for k, v in secs.items()}


def classify(pid, w, k, which):
    st = w["steps"][k]
    op = st["op"][0]
    if which == "account":
        return "%s/%s/get_free-differs-from-free-bytes" % (pid, op)
    if st["obs"][0] == "err":
        q = ""
        if op == "free":
            pre = w["steps"][k - 1]["post"] if k > 0 else w["init"]
            q = "/free-list-empty" if not pre["chunks"] else "/free-list-nonempty"
        if op == "alloc":
            q = "/grow_step-set" if w["cfg"]["gs"] is not None else "/grow_step-unset"
        return "%s/%s/raises-%s%s" % (pid, op, st["obs"][1], q)
    desc = st.get("c12" if pid == "C12" else "c04", "")
    if pid == "C12":
        if "first fit" in desc:
            return "C12/alloc/offset-not-first-fit"
        if "grew although" in desc:
            return "C12/alloc/grew-although-fit"
        return "C12/%s/free-set-or-capacity-not-as-specified" % op
    if "overlap" in desc:
        return "C04/%s/live-regions-overlap" % op
    if "outside" in desc:
        return "C04/%s/region-out-of-bounds" % op
    if "aligned" in desc:
        return "C04/%s/misaligned" % op
    if "changed" in desc:
        return "C04/%s/live-bytes-changed" % op
    return "C04/%s/unsafe-transition" % op


def shrink(ctx, pid, w, k):
    """greedy removal of earlier ops while the implementation-only oracle still flags the last step"""
    key = "c12" if pid == "C12" else "c04"
    ops = [s["op"] for s in w["steps"][:k + 1]]

    def flagged(r):
        if not r["steps"] or len(r["steps"]) != len(r["_ops"]):
            return False
        last = r["steps"][-1]
        return key in last or (pid == "C12" and last["obs"][0] == "err")
    base = run_impl(ctx, "alloc_walks", {"replay": [{"cfg": w["cfg"], "ops": ops}]})["walks"][0]
    base["_ops"] = ops
    if not flagged(base):
        return ops, base, False
    cur = ops
    for _ in range(6):
        cands = [cur[:i] + cur[i + 1:] for i in range(len(cur) - 1)]
        if not cands:
            break
        # frees whose region was never allocated make no sense: the runner raises -> filtered by flagged()
        res = run_impl(ctx, "alloc_walks", {"replay": [{"cfg": w["cfg"], "ops": c} for c in cands]})["walks"]
        nxt = None
        for c, r in zip(cands, res):
            r["_ops"] = c
            # a removed alloc can make a later free invalid (ValueError from live.remove) -> obs err on a free of a non-live region
            if flagged(r) and all(not (s["op"][0] == "free" and s["obs"][0] == "err" and s["obs"][1] == "ValueError") for s in r["steps"]):
                nxt = (c, r); break
        if nxt is None:
            break
        cur, base = nxt
    return cur, base, True


def run(ctx):
    pid = ctx.pid
    bud = BUDGET[ctx.tier]
    obl = check_obligations(ctx)
    # ---- implementation runs
    payloads = []
    for i in range(bud["shards"]):
        pl = {"seed": ctx.seed * 1000 + i, "n_walks": bud["n_walks"], "n_steps": bud["n_steps"]}
        if i < len(EXH_CFGS):
            pl["exh_depth"] = bud["exh_depth"]; pl["exh_cfgs"] = [EXH_CFGS[i]]
        payloads.append(pl)
    # corpus first
    corpus = []
    cdir = os.path.join(VERIF, "corpus", "alloc")
    if os.path.isdir(cdir):
        for f in sorted(os.listdir(cdir)):
            corpus.append(json.load(open(os.path.join(cdir, f))))
    walks = []
    if corpus:
        walks += run_impl(ctx, "alloc_walks", {"replay": corpus}, tag="corpus")["walks"]
    for r in run_impl_parallel(ctx, "alloc_walks", payloads):
        walks += r["walks"]
    # ---- judge in Coq
    SH = 400
    files = [("cases_%s_%d" % (pid, i // SH), cases_file(walks[i:i + SH])) for i in range(0, len(walks), SH)]
    res = coq_eval_many(ctx, files)
    which = {"C12": ["ff", "account"], "C04": ["safe"]}[pid]
    fails = []   # (walk index, step, which)
    coq_broken = None
    for i in range(0, len(walks), SH):
        rc, out = res["cases_%s_%d" % (pid, i // SH)]
        secs = parse_sections(out) if rc == 0 else {}
        for wh in which:
            if rc != 0 or secs.get(wh) is None:
                coq_broken = out[-1500:]
                continue
            for (wi, k) in secs[wh]:
                fails.append((i + wi, k, wh))
    # ---- direct oracle flags from the implementation alone (C04 data clause is only here)
    key = "c12" if pid == "C12" else "c04"
    flagged_by_oracle = set()
    for wi, w in enumerate(walks):
        for k, st in enumerate(w["steps"]):
            if key in st:
                flagged_by_oracle.add((wi, k))
                if pid == "C04" and not any(f[0] == wi and f[1] <= k for f in fails):
                    fails.append((wi, k, "oracle"))
                break
    # ---- report (one per signature, shrunk)
    seen = set()
    found_concrete = False
    if pid == "C04":
        for wi, w in enumerate(walks):
            pr = w.get("refusal_probe")
            if not pr: continue
            what = None
            if pr["obs"][0] != "err": what = ("impossible-request-not-refused", str(pr["obs"]))
            elif pr["state_changed"]: what = ("refused-request-changed-the-allocator-state", "capacity / free list differ after allocate(2^62) was refused")
            elif pr["c04"]: what = ("after-a-refused-request", pr["c04"])
            elif pr["then"][0] == "err": what = ("request-after-a-refused-one-raises-" + str(pr["then"][1]), "")
            if what and ("C04/alloc/" + what[0]) not in seen:
                seen.add("C04/alloc/" + what[0]); found_concrete = True
                report(ctx, "C04/alloc/" + what[0], what[1], dict(kind="concrete", tie="K-ALLOC", cfg=w["cfg"], ops=[st["op"] for st in w["steps"]] + [["alloc", 1 << 62, 1], ["alloc", 16, 1]],
                                                              observed=pr, how_to_replay="./check C04 --replay <this file>"))
    for (wi, k, wh) in sorted(fails):
        w = walks[wi]
        sig = classify(pid, w, k, wh)
        if sig in seen:
            continue
        seen.add(sig)
        ops, rep, reproduced = shrink(ctx, pid, w, k)
        found_concrete = True
        what = rep["steps"][-1].get(key) or w["steps"][k].get(key) or "transition rejected by the Coq checker (%s)" % wh
        report(ctx, sig, what, dict(kind="concrete", tie="K-ALLOC-%s" % ("FF" if pid == "C12" else "SAFE"),
                                    cfg=w["cfg"], ops=ops, observed=rep["steps"][-1], judged_by=wh,
                                    oracle_reproduced=reproduced,
                                    how_to_replay="./check %s --replay <this file>" % pid))
    if coq_broken:
        report(ctx, "%s/cases-do-not-evaluate" % pid, "cases file does not evaluate", dict(kind="broken-tie", log=coq_broken), no_input=True)
    broken_obligations_violation(ctx, obl, found_concrete)
    # ---- evidence
    hist = collections.Counter()
    distinct = set()
    nsteps = 0
    for w in walks:
        sig = hashlib.sha1(json.dumps([w["cfg"], [(s["op"], s["obs"]) for s in w["steps"]]], sort_keys=True).encode()).hexdigest()
        kinds = set(s["op"][0] for s in w["steps"])
        if "alloc" in kinds and ("free" in kinds or "grow" in kinds) and len(w["steps"]) >= 3:
            distinct.add(sig)
        pre = w["init"]
        for s in w["steps"]:
            nsteps += 1
            hist["op:" + s["op"][0]] += 1
            hist["obs:" + s["obs"][0]] += 1
            if s["op"][0] == "alloc":
                hist["alloc:size0" if s["op"][1] == 0 else ("alloc:aligned" if s["op"][2] > 1 else "alloc:packed")] += 1
                if s["post"]["cap"] > pre["cap"]:
                    hist["alloc:grew"] += 1
                if len(s["post"]["chunks"]) < len(pre["chunks"]):
                    hist["alloc:exact-fit"] += 1
            if s["op"][0] == "free" and len(s["post"]["chunks"]) <= len(pre["chunks"]) and s["op"][2] > 0:
                hist["free:coalesced"] += 1
            pre = s["post"]
        hist["cfg:kind=" + w["cfg"]["kind"]] += 1
        hist["cfg:al=%d" % w["cfg"]["al"]] += 1
        hist["cfg:gs=%s" % w["cfg"]["gs"]] += 1
        hist["cfg:cap=%d" % w["cfg"]["cap"]] += 1
    sample = walks[len(corpus)] if len(walks) > len(corpus) else walks[0]
    cov = dict(evaluations=nsteps, distinct_nontrivial=len(distinct), walks=len(walks),
               rule="random model-guided walks (sizes = free-run sizes +-1/+-alignment, unions of runs, capacity+-k) over both CPU buffer kinds, capacities 0..1000, alignments 1..64, grow_step unset/1/5/7/64/1000, each followed by a probe suffix draining every free run; plus exhaustive histories up to depth %d over a 12-letter alphabet on 4 small configurations. Every step judged by the Coq checker (%s); non-trivial = distinct walk with >=3 steps containing an allocation and a free or grow" % (bud["exh_depth"], "ff_stepb + account_okb" if pid == "C12" else "safe_stepb"),
               samples=[{"cfg": sample["cfg"], "steps": sample["steps"][:12]}],
               distribution=dict(sorted(hist.items())),
               traces_validated_against_impl=len(walks),
               steps_flagged_by_python_oracle=len(flagged_by_oracle),
               corpus_cases=len(corpus))
    assumptions = ["default alignment a power of two 1..64; grow_step unset or > 0; free only of regions handed out and still live",
                   "the byte-preservation clause of C04 ('keep their data') is checked on the implementation by pattern read-back after every step; its model-side statement is C13's copy lemma (grow = copy_to_native of the old prefix)"]
    return finish(ctx, "proof", obl, cov, assumptions)


def replay(ctx, path):
    r = json.load(open(path))
    if r.get("kind") != "concrete":
        print("replay names a broken obligation / tie, nothing to execute:", r.get("what")); return 1
    w = run_impl(ctx, "alloc_walks", {"replay": [{"cfg": r["cfg"], "ops": r["ops"]}]})["walks"][0]
    key = "c12" if ctx.pid == "C12" else "c04"
    bad = [s for s in w["steps"] if key in s or (ctx.pid == "C12" and s["obs"][0] == "err")]
    for s in w["steps"]:
        print(json.dumps(s))
    print("REPRODUCED" if bad else "not reproduced")
    return 1 if bad else 0
