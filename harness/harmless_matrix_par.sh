#!/bin/sh
# as harmless_matrix.sh, the 20 checks of each change 4 at a time
cd /verif
: > seeded/harmless/RESULTS.txt
IDS="C01 C02 C03 C04 C05 C06 C07 C08 C09 C10 C11 C12 C13 C14 C15 C16 C17 C18 C19 C20"
for d in seeded/harmless/*_*; do
  s=harmless/$(basename $d)
  harness/try_seed_par.sh $s quick $IDS 2>&1 | grep "^== " | sort | while read line; do echo "$(basename $d) $line" | cut -c1-260 >> seeded/harmless/RESULTS.txt; done
done
if [ -n "$(git -C /repo status --porcelain --untracked-files=no)" ]; then echo "/repo NOT CLEAN" >> seeded/harmless/RESULTS.txt; fi
echo "alarms: $(grep -c 'rc=1' seeded/harmless/RESULTS.txt)" >> seeded/harmless/RESULTS.txt
