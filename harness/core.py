"""Shared machinery of the /verif checks (runs under any python3 >= 3.8).

 - builds the Coq development (flock-serialised `make`)
 - collects the proof obligations of a property (theorems of Properties/<id>.v and
   their `Print Assumptions` output)
 - runs implementation-side scripts in a fresh /venv/bin/python with PYTHONPATH=/repo
 - evaluates generated `cases_*.v` files with coqc (vm_compute inside Coq)
 - verdict / replay / known-findings / evidence plumbing
"""
import fcntl, hashlib, json, os, re, shutil, subprocess, sys, time, random

VERIF = os.path.dirname(os.path.dirname(os.path.abspath(__file__)))
COQ = os.path.join(VERIF, "coq")
REPO = os.environ.get("VERIF_REPO", "/repo")
IMPL_PY = "/venv/bin/python"
NPROC = max(1, min(16, (os.cpu_count() or 4)))

ALLOWED_AXIOMS = set()  # every property theorem is expected to be closed under the global context

TRUSTED_BASE_COMMON = [
    "Coq 8.16.1 kernel (coqc; vm_compute used for evaluating checkers on observed cases; no native_compute)",
    "no axioms: every property theorem prints 'Closed under the global context' (recorded per theorem in coverage.assumptions_printed)",
    "hand-written Gallina model/specification files under /verif/coq/theories (the Python source itself is modelled, not verified)",
    "harness: generators, implementation runner (/verif/harness/impl/*.py under /venv/bin/python with PYTHONPATH=/repo), Gallina-literal printer, output parser",
]


class ImplCrash(Exception):
    """the implementation-side process died (segfault, abort, killed): the payload that was running is the replay"""
    def __init__(self, script, payload, rc, stderr):
        Exception.__init__(self, "impl script %s died rc=%s" % (script, rc))
        self.script = script; self.payload = payload; self.rc = rc; self.stderr = stderr


class Ctx:
    """one check invocation"""

    def __init__(self, pid, tier, seed):
        self.pid = pid
        self.tier = tier
        self.seed = seed
        self.t0 = time.time()
        self.work = os.path.join(VERIF, ".work", "%s.%d" % (pid, os.getpid()))
        os.makedirs(self.work, exist_ok=True)
        self.violations = []      # (replay_path, no_input_found: bool)
        self.known_lines = []
        self.coverage = {}
        self.assumptions = []
        self.notes = []

    def fresh_replays(self):
        """replays of earlier runs of this property are stale: start clean (not in --replay mode)"""
        shutil.rmtree(os.path.join(VERIF, "replays", self.pid), ignore_errors=True)

    def cleanup(self):
        shutil.rmtree(self.work, ignore_errors=True)


def sh(cmd, cwd=None, timeout=600, env=None, input=None):
    p = subprocess.run(cmd, cwd=cwd, timeout=timeout, env=env, input=input,
                       stdout=subprocess.PIPE, stderr=subprocess.STDOUT, text=True)
    return p.returncode, p.stdout


# ----------------------------------------------------------------------------- Coq build
def coq_build(targets=None):
    """full .vo build (never -vos). Returns (ok, log)."""
    os.makedirs(os.path.join(VERIF, ".work"), exist_ok=True)
    lock = open(os.path.join(VERIF, ".work", "build.lock"), "w")
    fcntl.flock(lock, fcntl.LOCK_EX)
    try:
        mk = os.path.join(COQ, "Makefile")
        cp = os.path.join(COQ, "_CoqProject")
        if not os.path.exists(mk) or os.path.getmtime(mk) < os.path.getmtime(cp):
            rc, out = sh(["coq_makefile", "-f", "_CoqProject", "-o", "Makefile"], cwd=COQ)
            if rc != 0:
                return False, out
        cmd = ["timeout", "1500", "make", "-j%d" % NPROC]
        if targets:
            cmd += targets
        rc, out = sh(cmd, cwd=COQ, timeout=1600)
        return rc == 0, out
    finally:
        fcntl.flock(lock, fcntl.LOCK_UN)
        lock.close()


def property_theorems(pid):
    """names of the Theorem statements in Properties/<pid>.v"""
    path = os.path.join(COQ, "theories", "Properties", pid + ".v")
    if not os.path.exists(path):
        return []
    txt = open(path).read()
    txt = re.sub(r"\(\*.*?\*\)", "", txt, flags=re.S)
    return re.findall(r"^\s*Theorem\s+([A-Za-z0-9_']+)", txt, flags=re.M)


def source_hygiene():
    """no Admitted/admit/Axiom/... anywhere in the development; Variable/Hypothesis only inside a Section"""
    bad = []
    pat = re.compile(r"\b(Admitted|admit|Axiom|Axioms|Parameter|Parameters|Conjecture|Unset\s+Guard|bypass_check|Admit\s+Obligations|type-in-type|impredicative-set)\b")
    for root, _, files in os.walk(os.path.join(COQ, "theories")):
        for f in files:
            if f.endswith(".v"):
                txt = open(os.path.join(root, f)).read()
                txt = re.sub(r"\(\*.*?\*\)", "", txt, flags=re.S)
                for m in pat.finditer(txt):
                    bad.append("%s: %s" % (os.path.join(root, f), m.group(0)))
                depth = 0
                for line in txt.splitlines():
                    if re.match(r"\s*Section\s+\w+\s*\.", line): depth += 1
                    elif re.match(r"\s*End\s+\w+\s*\.", line) and depth > 0: depth -= 1
                    elif depth == 0 and re.match(r"\s*(Variable|Variables|Hypothesis|Hypotheses|Context)\b", line):
                        bad.append("%s: %s outside a section" % (os.path.join(root, f), line.strip()[:40]))
    return bad


def check_obligations(ctx, extra_files=()):
    """compile, then Print Assumptions for every theorem of the property.
    Returns dict(obligations, discharged, broken:[names], printed:{name: text}, build_ok, log)"""
    ok, log = coq_build()
    names = property_theorems(ctx.pid)
    res = dict(obligations=len(names), discharged=0, broken=[], printed={}, build_ok=ok, log=log[-4000:])
    hyg = source_hygiene()
    if hyg:
        res["broken"] = ["hygiene: " + h for h in hyg]
        return res
    vo = os.path.join(COQ, "theories", "Properties", ctx.pid + ".vo")
    if not ok and not os.path.exists(vo):
        res["broken"] = list(names) or ["Properties/%s.v does not build" % ctx.pid]
        return res
    if not ok:
        # some other file is broken; is ours up to date?  be strict: rebuild just ours
        ok2, log2 = coq_build(["theories/Properties/%s.vo" % ctx.pid])
        if not ok2:
            res["broken"] = list(names)
            res["log"] = log2[-4000:]
            return res
    body = "From XO Require Import %s.\n" % ctx.pid
    for n in names:
        body += 'Goal True. idtac "@@%s". exact I. Qed.\nPrint Assumptions %s.\n' % (n, n)
    rc, out = coq_run(ctx, "assumptions_%s" % ctx.pid, body)
    cur = None
    for line in out.splitlines():
        if line.startswith("@@"):
            cur = line[2:].strip()
            res["printed"][cur] = ""
        elif cur is not None:
            res["printed"][cur] += line.strip() + " "
    for n in names:
        t = res["printed"].get(n, "").strip()
        if rc == 0 and t.startswith("Closed under the global context"):
            res["discharged"] += 1
        else:
            res["broken"].append(n)
    return res


def coq_run(ctx, name, body, timeout=900):
    path = os.path.join(ctx.work, name + ".v")
    with open(path, "w") as f:
        f.write(body)
    rc, out = sh(["sh", "-c", "ulimit -s unlimited 2>/dev/null; exec timeout %d coqc -Q %s XO %s" % (timeout, os.path.join(COQ, "theories"), path)],
                 cwd=ctx.work, timeout=timeout + 30)
    return rc, out


def _mem_available_gb():
    try:
        for line in open("/proc/meminfo"):
            if line.startswith("MemAvailable:"):
                return int(line.split()[1]) / 1e6
    except OSError:
        pass
    return 1e9


def _coqc_estimate_gb(body):
    """resident memory of one coqc evaluating a cases file, as measured here: about 0.6 GB plus 360 bytes per
    byte of Gallina literal (8 MB of source: 2.8 GB, 13 MB: 4.7 GB)"""
    return 0.6 + 360e-9 * len(body)


def coq_eval_many(ctx, files, timeout=1800):
    """files: list of (name, body). Runs up to NPROC coqc in parallel -- fewer when memory is short: a file is
    started only while the memory still free covers what the files already started are expected to grow to,
    the new one, and a reserve (sixteen evaluations of 13 MB literals, two checks at a time, once exhausted the
    62 GB of this machine and the kernel killed the checks). One evaluation is always allowed to run.
    Returns {name: (rc,out)}"""
    res = {}
    pending = list(files)
    running = []          # (name, process, output path, start time, estimate)
    RESERVE = 6.0
    while pending or running:
        still = []
        for name, p, opath, t0, est in running:
            if p.poll() is None:
                still.append((name, p, opath, t0, est)); continue
            try:
                out = open(opath, errors="replace").read()
            except OSError:
                out = ""
            res[name] = (p.returncode, out)
        running = still
        started = False
        while pending and len(running) < NPROC:
            name, body = pending[0]
            est = _coqc_estimate_gb(body)
            now = time.time()
            growing = sum(e * max(0.0, 1.0 - (now - t0) / 90.0) for _, _, _, t0, e in running)
            if running and _mem_available_gb() - growing < est + RESERVE:
                break
            pending.pop(0)
            path = os.path.join(ctx.work, name + ".v")
            opath = os.path.join(ctx.work, name + ".out")
            with open(path, "w") as f:
                f.write(body)
            of = open(opath, "w")
            p = subprocess.Popen(["sh", "-c", "ulimit -s unlimited 2>/dev/null; exec timeout %d coqc -Q %s XO %s" % (timeout, os.path.join(COQ, "theories"), path)],
                                 cwd=ctx.work, stdout=of, stderr=subprocess.STDOUT)
            of.close()
            running.append((name, p, opath, now, est))
            started = True
        if running and not started:
            time.sleep(0.2)
    return res


# ----------------------------------------------------------------------------- implementation side
def impl_env():
    env = dict(os.environ)
    env["PYTHONPATH"] = REPO
    env["PYTHONHASHSEED"] = "0"
    env["PYTHONDONTWRITEBYTECODE"] = "1"
    env["OMP_NUM_THREADS"] = env.get("OMP_NUM_THREADS", "2")
    env.pop("XOBJECTS_TEST_CONTEXTS", None)
    return env


def _limit_impl_memory():
    """the implementation under test may be broken in ways that make it ask for absurd amounts of memory (a damaged
    header read as a shape): an interpreter that wants more than 6 GiB of address space fails with MemoryError"""
    import resource
    lim = 6 * 1024 ** 3
    try:
        resource.setrlimit(resource.RLIMIT_AS, (lim, lim))
    except (ValueError, OSError):
        pass


def run_impl(ctx, script, payload, timeout=1800, tag=""):
    """run harness/impl/<script>.py in a fresh interpreter; JSON in, JSON out"""
    d = os.path.join(ctx.work, "impl_%s%s" % (script, tag))
    os.makedirs(d, exist_ok=True)
    p = subprocess.run([IMPL_PY, os.path.join(VERIF, "harness", "impl", script + ".py")],
                       input=json.dumps(payload), cwd=d, env=impl_env(), timeout=timeout,
                       stdout=subprocess.PIPE, stderr=subprocess.PIPE, text=True, preexec_fn=_limit_impl_memory)
    shutil.rmtree(d, ignore_errors=True)
    if p.returncode != 0:
        raise ImplCrash(script, payload, p.returncode, p.stderr[-3000:])
    # last line of stdout is the JSON (cffi may print above it)
    line = p.stdout.strip().splitlines()[-1]
    return json.loads(line)


def run_impl_parallel(ctx, script, payloads, timeout=1800):
    """several shards in parallel (stdin/stdout through files: no pipe deadlocks)"""
    procs = []
    for i, pl in enumerate(payloads):
        d = os.path.join(ctx.work, "impl_%s_%d" % (script, i))
        os.makedirs(d, exist_ok=True)
        fin = os.path.join(d, "in.json"); fout = os.path.join(d, "out.txt"); ferr = os.path.join(d, "err.txt")
        with open(fin, "w") as f:
            json.dump(pl, f)
        p = subprocess.Popen([IMPL_PY, os.path.join(VERIF, "harness", "impl", script + ".py")],
                             stdin=open(fin), cwd=d, env=impl_env(), stdout=open(fout, "w"), stderr=open(ferr, "w"), preexec_fn=_limit_impl_memory)
        procs.append((p, d, fout, ferr))
    outs = []
    t_end = time.time() + timeout
    for p, d, fout, ferr in procs:
        try:
            p.wait(timeout=max(1, t_end - time.time()))
        except subprocess.TimeoutExpired:
            p.kill(); p.wait()
        so = open(fout).read(); se = open(ferr).read()
        shutil.rmtree(d, ignore_errors=True)
        if p.returncode != 0:
            crashed = ImplCrash(script, payloads[len(outs)], p.returncode, se[-3000:])
            for q, d2, _, _ in procs:
                try: q.kill()
                except Exception: pass
                shutil.rmtree(d2, ignore_errors=True)
            raise crashed
        outs.append(json.loads(so.strip().splitlines()[-1]))
    return outs


# ----------------------------------------------------------------------------- Gallina literals
def zlit(n):
    n = int(n)
    return "(%d)" % n if n < 0 else "%d" % n


def zlist(xs):
    return "[" + "; ".join(zlit(x) for x in xs) + "]"


def natlit(n):
    return "%d%%nat" % int(n)


def parse_pairs(out):
    """parse `= [(1, 2); (3, 4)] : list (nat * nat)` printed by Eval vm_compute"""
    m = re.search(r"=\s*(\[.*?\])\s*:\s*list", out, flags=re.S)
    if not m:
        return None
    body = m.group(1).replace("%nat", "")
    pairs = [(int(a), int(b)) for a, b in re.findall(r"\((\d+),\s*(\d+)\)", body)]
    if body.strip() != "[]" and not pairs:
        return None   # unparsable -> treated as a broken tie, never as "no failures"
    return pairs


# ----------------------------------------------------------------------------- verdicts
def load_known():
    p = os.path.join(VERIF, "KNOWN_FINDINGS.json")
    if not os.path.exists(p):
        return []
    return json.load(open(p)).get("findings", [])


def report(ctx, signature, what, replay, no_input=False):
    """record a violation (or a KNOWN-FINDING if the signature is listed as known)"""
    for k in load_known():
        if k.get("property") == ctx.pid and k.get("status") == "known" and k.get("signature") == signature:
            line = "KNOWN-FINDING: property=%s %s [%s]" % (ctx.pid, k.get("what", what), signature)
            if line not in ctx.known_lines:
                ctx.known_lines.append(line)
            return
    rdir = os.path.join(VERIF, "replays", ctx.pid)
    os.makedirs(rdir, exist_ok=True)
    replay = dict(replay)
    replay.setdefault("property", ctx.pid)
    replay.setdefault("signature", signature)
    replay.setdefault("what", what)
    replay.setdefault("seed", ctx.seed)
    h = hashlib.sha1(json.dumps(replay, sort_keys=True, default=str).encode()).hexdigest()[:12]
    path = os.path.join(rdir, "%s.json" % h)
    with open(path, "w") as f:
        json.dump(replay, f, indent=1, default=str)
    ctx.violations.append((path, no_input, signature, what))


def finish(ctx, level, obl, coverage, assumptions, level_fallback=None):
    """write evidence, print verdict lines, return exit code"""
    wall = time.time() - ctx.t0
    cov = dict(coverage)
    cov.setdefault("obligations", obl["obligations"])
    cov.setdefault("discharged", obl["discharged"])
    cov.setdefault("checker_cmd", "make -C /verif/coq (coqc 8.16.1, full .vo build) + Print Assumptions per theorem; cases evaluated by coqc with vm_compute")
    cov.setdefault("trusted_base", TRUSTED_BASE_COMMON)
    cov["assumptions_printed"] = obl["printed"]
    cov["broken_obligations"] = obl["broken"]
    cov["known_findings_reported"] = ctx.known_lines
    ev = dict(property_id=ctx.pid, tier=ctx.tier, seed=ctx.seed, level=level, coverage=cov,
              assumptions=assumptions, wall_s=round(wall, 2), violations=len(ctx.violations))
    if cov.get("obligations", 0) < 1 or cov.get("discharged", 0) < 1:
        # keep the file valid for the schema even when nothing is discharged
        cov.setdefault("evaluations", max(1, cov.get("evaluations", 1)))
        cov.setdefault("distinct_nontrivial", max(2, cov.get("distinct_nontrivial", 2)))
    os.makedirs(os.path.join(VERIF, "evidence"), exist_ok=True)
    with open(os.path.join(VERIF, "evidence", ctx.pid + ".json"), "w") as f:
        json.dump(ev, f, indent=1, default=str)
    for l in ctx.known_lines:
        print(l)
    for path, no_input, sig, what in ctx.violations:
        print("  violation: %s -- %s" % (sig, what))
        print("VIOLATION property=%s replay=%s%s" % (ctx.pid, path, " no-failing-input-found" if no_input else ""))
    if not ctx.violations:
        print("OK property=%s tier=%s seed=%d obligations=%d/%d wall=%.1fs" % (
            ctx.pid, ctx.tier, ctx.seed, obl["discharged"], obl["obligations"], wall))
    sys.stdout.flush()
    return 1 if ctx.violations else 0


def broken_obligations_violation(ctx, obl, found_concrete):
    """a theorem no longer checks and no concrete failing input was found"""
    if obl["broken"] and not found_concrete:
        report(ctx, "%s/proof-obligation-broken" % ctx.pid,
               "theorem(s) no longer check: %s" % ", ".join(obl["broken"][:8]),
               dict(kind="broken-obligation", theorems=obl["broken"], build_log_tail=obl.get("log", "")[-1500:]),
               no_input=True)
