"""Seeded generators of type descriptions and values (shared by the layout checks),
and printers of Gallina literals for them."""
import struct, hashlib, json, math
from core import zlit, zlist, natlit

SC = ["Float64", "Float32", "Int64", "UInt64", "Int32", "UInt32", "Int16", "UInt16", "Int8", "UInt8"]
SK = {"Float64": "F64", "Float32": "F32", "Int64": "I64", "UInt64": "U64", "Int32": "I32", "UInt32": "U32",
      "Int16": "I16", "UInt16": "U16", "Int8": "I8", "UInt8": "U8"}
SSIZE = {"Float64": 8, "Float32": 4, "Int64": 8, "UInt64": 8, "Int32": 4, "UInt32": 4, "Int16": 2, "UInt16": 2, "Int8": 1, "UInt8": 1}
FMT = {"Float64": "<d", "Float32": "<f", "Int64": "<q", "UInt64": "<Q", "Int32": "<i", "UInt32": "<I", "Int16": "<h", "UInt16": "<H", "Int8": "<b", "UInt8": "<B"}
STRINGS = ["", "a", "abc", "hello w", "hello wo", "hello world", "0123456789abcde", "0123456789abcdef", "éèêëà",
           "café", "三極電磁石", "x" * 23, "tab\tnl\n", "\U0001F600!"]


def slot(n):
    return (n + 7) & -8


def scalar_value(rng, name):
    if name.startswith("Float"):
        x = rng.choice([0.0, -0.0, 1.0, -1.5, 3.141592653589793, 1e-30, 1e30, float("inf"), float("-inf"), float("nan"), 2.0 ** -140, 123456.789])
        if name == "Float32":
            bs = struct.pack("<f", x) if not (isinstance(x, float) and abs(x) > 3e38 and not math.isinf(x)) else struct.pack("<f", 1.0)
        else:
            bs = struct.pack("<d", x)
        if x != x:   # canonical quiet NaN
            bs = struct.pack("<f", float("nan")) if name == "Float32" else struct.pack("<d", float("nan"))
        return list(bs)
    bits = SSIZE[name] * 8
    if name.startswith("U"):
        lo, hi = 0, 2 ** bits - 1
    else:
        lo, hi = -2 ** (bits - 1), 2 ** (bits - 1) - 1
    x = rng.choice([0, 1, 2, 7, 100, lo, hi, hi - 1, lo + 1, rng.randint(lo, hi)])
    x = max(lo, min(hi, x))
    return list(struct.pack(FMT[name], x))


def struct_name(fields):
    return "S" + hashlib.sha1(json.dumps(fields, sort_keys=True).encode()).hexdigest()[:10]


def tname(t):
    """the class name the library will give the type (union membership is by name)"""
    if t["k"] == "struct": return t["name"]
    return json.dumps(t, sort_keys=True)


def gen_type(rng, depth, allow_refs=False, top=True):
    """random type expression; top-level is always a compound (scalars have no handle)"""
    r = rng.random()
    if depth <= 0:
        return {"k": "scalar", "name": rng.choice(SC)} if r < 0.75 else {"k": "string"}
    if not top and r < 0.30:
        return {"k": "scalar", "name": rng.choice(SC)}
    if r < 0.42:
        return {"k": "string"}
    if allow_refs and not top and r < 0.54:
        # references point at compounds (structs / arrays)
        tgt = gen_type(rng, max(1, depth - 1), False, True)
        while tgt["k"] not in ("struct", "array"):
            tgt = gen_type(rng, max(1, depth - 1), False, True)
        if rng.random() < 0.6:
            return {"k": "ref", "target": tgt}
        ms = [tgt]
        m2 = gen_type(rng, max(1, depth - 1), False, True)
        if m2["k"] == "struct" and m2 != tgt and tname(m2) != tname(tgt):
            ms.append(m2)
        ms = [m for m in ms if m["k"] in ("struct", "array")]
        return {"k": "union", "name": "U" + hashlib.sha1(json.dumps(ms, sort_keys=True).encode()).hexdigest()[:8], "members": ms}
    if r < 0.72:
        nf = rng.choice([0, 1, 2, 2, 3, 4]) if not top else rng.choice([1, 2, 3, 4])
        fields = [["f%d" % i, gen_type(rng, depth - 1, allow_refs, False)] for i in range(nf)]
        return {"k": "struct", "name": struct_name(fields), "fields": fields}
    nd = rng.choice([1, 1, 1, 2, 2, 3])
    shape = [None if rng.random() < 0.45 else rng.choice([1, 2, 3]) for _ in range(nd)]
    order = list(range(nd))
    if nd > 1 and rng.random() < 0.6:
        rng.shuffle(order)
    item = gen_type(rng, depth - 1, allow_refs, False)
    return {"k": "array", "item": item, "shape": shape, "order": order}


def gen_value(rng, t):
    k = t["k"]
    if k == "scalar":
        return scalar_value(rng, t["name"])
    if k == "string":
        if rng.random() < 0.08:     # a capacity instead of text: reads back as the empty string
            cap = rng.choice([1, 3, 5, 8, 9, 16])
            return {"s": [], "size": cap + 8, "cap": cap}
        s = rng.choice(STRINGS).encode("utf8")
        return {"s": list(s), "size": slot(len(s) + 9)}
    if k == "struct":
        return {"f": [gen_value(rng, ft) for _, ft in t["fields"]]}
    if k == "array":
        # a plain nested list cannot express an N-D shape with an empty axis: zero only in 1-D
        # (N-D empties are generated separately with numpy / lengths inputs)
        zero_ok = len(t["shape"]) == 1
        shape = [d if d is not None else rng.choice([0, 1, 2, 2, 3] if zero_ok else [1, 2, 2, 3]) for d in t["shape"]]
        n = 1
        for d in shape:
            n *= d
        return {"shape": shape, "items": [gen_value(rng, t["item"]) for _ in range(n)]}
    if k == "ref":
        return None if rng.random() < 0.25 else {"r": gen_value(rng, t["target"])}
    if k == "union":
        if rng.random() < 0.25:
            return None
        m = rng.randrange(len(t["members"]))
        return {"m": m, "v": gen_value(rng, t["members"][m])}
    raise ValueError(k)


def is_static(t):
    k = t["k"]
    if k == "scalar": return True
    if k == "string": return False
    if k == "struct": return all(is_static(ft) for _, ft in t["fields"])
    if k == "array": return is_static(t["item"]) and all(d is not None for d in t["shape"])
    return True  # ref, union


def has_kind(t, kind):
    if t["k"] == kind: return True
    if t["k"] == "struct": return any(has_kind(ft, kind) for _, ft in t["fields"])
    if t["k"] == "array": return has_kind(t["item"], kind)
    if t["k"] == "ref": return has_kind(t["target"], kind)
    if t["k"] == "union": return any(has_kind(m, kind) for m in t["members"])
    return False


def depth_of(t):
    if t["k"] == "struct": return 1 + max([depth_of(ft) for _, ft in t["fields"]], default=0)
    if t["k"] == "array": return 1 + depth_of(t["item"])
    if t["k"] == "ref": return 1 + depth_of(t["target"])
    if t["k"] == "union": return 1 + max([depth_of(m) for m in t["members"]], default=0)
    return 0


# ---------------------------------------------------------------- Gallina printers
def ty_term(t):
    k = t["k"]
    if k == "scalar": return "TScalar %s" % SK[t["name"]]
    if k == "string": return "TString"
    if k == "struct": return "TStruct [%s]" % "; ".join(ty_term(ft) for _, ft in t["fields"])
    if k == "array":
        return "TArray (%s) [%s] [%s]" % (ty_term(t["item"]), "; ".join("None" if d is None else "Some %d" % d for d in t["shape"]),
                                          "; ".join(natlit(o) for o in t["order"]))
    if k == "ref": return "TRef (%s)" % ty_term(t["target"])
    if k == "union": return "TUnion [%s]" % "; ".join(ty_term(m) for m in t["members"])


def val_term(t, v):
    k = t["k"]
    if k == "scalar": return "VNum %s" % zlist(v)
    if k == "string": return "VStr %s %s" % (zlist(v["s"]), zlit(v["size"]))
    if k == "struct": return "VStruct [%s]" % "; ".join(val_term(ft, fv) for (_, ft), fv in zip(t["fields"], v["f"]))
    if k == "array": return "VArr %s [%s]" % (zlist(v["shape"]), "; ".join(val_term(t["item"], x) for x in v["items"]))
    if k == "ref": return "VNull" if v is None else "VRef (%s)" % val_term(t["target"], v["r"])
    if k == "union": return "VNull" if v is None else "VMember %s (%s)" % (natlit(v["m"]), val_term(t["members"][v["m"]], v["v"]))


def strip_sizes(v):
    """values as read back by accessors carry no string sizes"""
    if isinstance(v, dict):
        if "s" in v and "shape" not in v: return {"s": v["s"]}
        return {kk: strip_sizes(x) for kk, x in v.items()}
    if isinstance(v, list):
        return [strip_sizes(x) for x in v]
    return v
