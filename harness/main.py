#!/usr/bin/env python3
import sys, os, argparse, importlib, traceback
sys.path.insert(0, os.path.dirname(os.path.abspath(__file__)))
import core

MODULES = {"C04": "c_alloc", "C12": "c_alloc", "C13": "c_bufops", "C14": "c_topo", "C05": "c_layout", "C01": "c_layout", "C03": "c_layout", "C06": "c_layout", "C10": "c_update", "C11": "c_update", "C08": "c_refs", "C09": "c_refs", "C02": "c_capi", "C07": "c_capi", "C15": "c_capi", "C16": "c_spec", "C17": "c_karg", "C18": "c_hybrid", "C19": "c_hybrid", "C20": "c_hybrid"}


def main():
    ap = argparse.ArgumentParser()
    ap.add_argument("pid")
    ap.add_argument("--tier", default=os.environ.get("VERIF_TIER", "quick"))
    ap.add_argument("--replay")
    a = ap.parse_args()
    tier = a.tier if a.tier in ("quick", "thorough") else "quick"
    seed = int(os.environ.get("VERIF_SEED", "20260930") or 0)
    ctx = core.Ctx(a.pid, tier, seed)
    try:
        mod = importlib.import_module(MODULES[a.pid])
        if a.replay:
            rc = mod.replay(ctx, a.replay)
        else:
            ctx.fresh_replays()
            try:
                rc = mod.run(ctx)
            except core.ImplCrash as e:
                # the real library crashed the interpreter: narrow it down to one case and report it
                payload = e.payload; rcode = e.rc
                for key in ("cases", "text", "exec"):
                    if isinstance(payload.get(key), list) and len(payload[key]) > 1:
                        for one in payload[key]:
                            p1 = dict(payload); p1[key] = [one]
                            for k2 in ("cases", "text", "exec"):
                                if k2 != key and isinstance(p1.get(k2), list): p1[k2] = []
                            try:
                                core.run_impl(ctx, e.script, p1, timeout=900, tag="_narrow")
                            except core.ImplCrash as e2:
                                payload = p1; rcode = e2.rc; break
                            except Exception:
                                pass
                        break
                obl = {"obligations": len(core.property_theorems(a.pid)), "discharged": 0, "printed": {}, "broken": []}
                core.report(ctx, "%s/implementation-process-died" % a.pid,
                            "the interpreter running /repo died with status %s (negative = signal) while executing the recorded payload" % rcode,
                            dict(kind="concrete", tie="crash", script=e.script, payload=payload, stderr=e.stderr[-1500:]))
                rc = core.finish(ctx, "other", obl, dict(explanation="the implementation-side process crashed; see the replay", evaluations=1, distinct_nontrivial=2), [])
    finally:
        ctx.cleanup()
    sys.exit(rc)


main()
