#!/usr/bin/env python3
import sys, os, argparse, importlib, traceback
sys.path.insert(0, os.path.dirname(os.path.abspath(__file__)))
import core

MODULES = {"C04": "c_alloc", "C12": "c_alloc", "C13": "c_bufops", "C14": "c_topo", "C05": "c_layout", "C01": "c_layout", "C03": "c_layout", "C06": "c_layout", "C10": "c_update", "C11": "c_update", "C08": "c_refs", "C09": "c_refs", "C02": "c_capi", "C07": "c_capi", "C15": "c_capi", "C16": "c_spec", "C17": "c_karg", "C18": "c_hybrid", "C19": "c_hybrid", "C20": "c_hybrid"}


def main():
    ap = argparse.ArgumentParser()
    ap.add_argument("pid")
    ap.add_argument("--tier", default=os.environ.get("VERIF_TIER", "quick"))
    ap.add_argument("--replay")
    a = ap.parse_args()
    tier = a.tier if a.tier in ("quick", "thorough") else "quick"
    seed = int(os.environ.get("VERIF_SEED", "20260930") or 0)
    ctx = core.Ctx(a.pid, tier, seed)
    try:
        mod = importlib.import_module(MODULES[a.pid])
        if a.replay:
            rc = mod.replay(ctx, a.replay)
        else:
            ctx.fresh_replays()
            rc = mod.run(ctx)
    finally:
        ctx.cleanup()
    sys.exit(rc)


main()
